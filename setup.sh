#!/bin/sh
# Build the framework from files on disk only (offline).
set -e
cd "$(dirname "$0")"
export GOFLAGS=-mod=mod GOPROXY=off GOSUMDB=off GOTOOLCHAIN=local
mkdir -p .build evidence replays
export GOCACHE="${GOCACHE:-$PWD/.build/gocache}"
(cd tools/extract && go build -o ../../.build/extract .)
rm -f lean/EdsModel/Generated/*.lean
./.build/extract /repo lean/EdsModel/Generated
(cd lean && lake build EdsModel EdsSpec EdsProps driver)
sort -u /repo/go.sum /repo/api/go.sum /repo/go.work.sum > harness/go.sum
(cd harness && go build -tags verif -o ../.build/harness .)
echo "setup done"
