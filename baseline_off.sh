#!/bin/sh
# The repository's own test suite with the verification guard OFF (no -tags verif).
cd /repo || exit 2
export GOPROXY=off GOSUMDB=off GOTOOLCHAIN=local
rc=0
for m in . ./api; do
  (cd "$m" && go test -vet=off -count=1 -timeout 25m ./...) || rc=1
done
exit $rc
