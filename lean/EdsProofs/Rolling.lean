import EdsModel.Rolling
import EdsSpec.C03
/-
  Helper lemmas about the `ManageDeployment` model: the counters of the loop equal the
  filter-lengths of the specification, and the deletion list is "unavailable first".
-/
namespace Eds
open Spec.C03

/-- invariant of the counting fold relative to the processed prefix `es`. -/
structure CountInv (tg : String) (wall : Time) (es : List Entry) (c : Counts) : Prop where
  desired : c.desired = es.length
  stuck : c.stuck = nStuck tg wall es
  avail : c.available + c.oldAvailable = nAvail tg wall es
  oldU : c.oldUnavailable = c.toDeleteUnavail.length
  oldA : c.oldAvailable = c.toDeleteAvail.length
  oldUspec : c.oldUnavailable = nOutdatedUnavail tg wall es
  unavailAll : ∀ e ∈ c.toDeleteUnavail, e.2.available = false
  availAll : ∀ e ∈ c.toDeleteAvail, e.2.available = true
  createLen : (c.toCreate.length : Int) + c.allPods + c.stuck = c.desired
  availNonneg : 0 ≤ c.available

theorem countInv_nil (tg : String) (wall : Time) : CountInv tg wall [] {} := by
  constructor <;> simp [nStuck, nAvail, nOutdatedUnavail]

theorem filter_length_snoc {α} (p : α → Bool) (l : List α) (a : α) :
    ((l ++ [a]).filter p).length = (l.filter p).length + (if p a then 1 else 0) := by
  simp [List.filter_append, List.filter_cons]
  split <;> simp

theorem countInv_step (tg : String) (wall : Time) (es : List Entry) (c : Counts) (e : Entry)
    (h : CountInv tg wall es c) : CountInv tg wall (es ++ [e]) (countStep tg wall c e) := by
  obtain ⟨ni, op⟩ := e
  have hd := h.desired; have hs := h.stuck; have ha := h.avail; have hu := h.oldU
  have hoa := h.oldA; have hus := h.oldUspec; have hcl := h.createLen; have hn := h.availNonneg
  cases op with
  | none =>
    have hc : classify tg wall (ni, none) = .noPod := rfl
    constructor <;>
      simp only [countStep, nStuck, nAvail, nOutdatedUnavail, filter_length_snoc, isStuckNode,
        isAvailNode, isOutdatedUnavail, hc, List.length_append, List.length_cons, List.length_nil] <;>
      first
        | (simp only [nStuck, nAvail, nOutdatedUnavail] at *; omega)
        | exact h.unavailAll
        | exact h.availAll
        | (simp only [nStuck, nAvail, nOutdatedUnavail] at *; push_cast; omega)
  | some pod =>
    cases hc : classify tg wall (ni, some pod) with
    | noPod =>
      exfalso
      simp only [classify] at hc
      split at hc <;> (try split at hc) <;> (try split at hc) <;> simp at hc
    | stuck =>
      constructor <;>
        simp only [countStep, nStuck, nAvail, nOutdatedUnavail, filter_length_snoc, isStuckNode,
          isAvailNode, isOutdatedUnavail, hc, List.length_append, List.length_cons, List.length_nil] <;>
        first
          | (simp only [nStuck, nAvail, nOutdatedUnavail] at *; omega)
          | exact h.unavailAll
          | exact h.availAll
          | (simp only [nStuck, nAvail, nOutdatedUnavail] at *; push_cast; omega)
    | outdatedTerminating =>
      constructor <;>
        simp only [countStep, nStuck, nAvail, nOutdatedUnavail, filter_length_snoc, isStuckNode,
          isAvailNode, isOutdatedUnavail, hc, List.length_append, List.length_cons, List.length_nil] <;>
        first
          | (simp only [nStuck, nAvail, nOutdatedUnavail] at *; omega)
          | exact h.unavailAll
          | exact h.availAll
          | (simp only [nStuck, nAvail, nOutdatedUnavail] at *; push_cast; omega)
    | upToDate a r =>
      cases a <;> cases r <;>
      (constructor <;>
        simp only [countStep, nStuck, nAvail, nOutdatedUnavail, filter_length_snoc, isStuckNode,
          isAvailNode, isOutdatedUnavail, hc, List.length_append, List.length_cons, List.length_nil] <;>
        first
          | (simp only [nStuck, nAvail, nOutdatedUnavail] at *; (try simp); omega)
          | exact h.unavailAll
          | exact h.availAll
          | (simp only [nStuck, nAvail, nOutdatedUnavail] at *; push_cast; (try simp); omega))
    | outdated a =>
      have hav : pod.available = a := by
        simp only [classify] at hc
        split at hc
        · simp at hc
        · split at hc
          · split at hc
            · simp at hc; exact hc
            · simp at hc
          · simp at hc
      cases a <;>
      (constructor <;>
        simp only [countStep, nStuck, nAvail, nOutdatedUnavail, filter_length_snoc, isStuckNode,
          isAvailNode, isOutdatedUnavail, hc, List.length_append, List.length_cons, List.length_nil] <;>
        first
          | (simp only [nStuck, nAvail, nOutdatedUnavail] at *; (try simp); omega)
          | exact h.unavailAll
          | exact h.availAll
          | (intro e he; simp only [List.mem_append, List.mem_singleton] at he;
             rcases he with he | he
             · first | exact h.unavailAll e he | exact h.availAll e he
             · subst he; exact hav)
          | (simp only [nStuck, nAvail, nOutdatedUnavail] at *; push_cast; (try simp); omega))

theorem foldl_countInv (tg : String) (wall : Time) (done rest : List Entry) (c : Counts)
    (h : CountInv tg wall done c) :
    CountInv tg wall (done ++ rest) (rest.foldl (countStep tg wall) c) := by
  induction rest generalizing done c with
  | nil => simpa using h
  | cons e rest ih =>
    have := ih (done ++ [e]) (countStep tg wall c e) (countInv_step tg wall done c e h)
    simpa [List.foldl_cons, List.append_assoc] using this

theorem countAll_inv (tg : String) (wall : Time) (es : List Entry) :
    CountInv tg wall es (countAll tg wall es) := by
  have := foldl_countInv tg wall [] es {} (countInv_nil tg wall)
  simpa [countAll] using this

end Eds

namespace Eds
open Spec.C03

theorem filter_eq_nil_of_all_false {α} (p : α → Bool) (l : List α) (h : ∀ a ∈ l, p a = false) :
    l.filter p = [] :=
  List.filter_eq_nil_iff.mpr (fun a ha => by simp [h a ha])

theorem filter_eq_self_of_all_true {α} (p : α → Bool) (l : List α) (h : ∀ a ∈ l, p a = true) :
    l.filter p = l :=
  List.filter_eq_self.mpr (fun a ha => h a ha)

/-- number of available pods in a prefix of (unavailable ++ available). -/
theorem availDeleted_take (U A : List (NodeItem × Pod)) (n : Nat)
    (hU : ∀ e ∈ U, e.2.available = false) (hA : ∀ e ∈ A, e.2.available = true) :
    availDeleted ((U ++ A).take n) = min (n - U.length) A.length := by
  unfold availDeleted
  rw [List.take_append, List.filter_append]
  have h1 : (U.take n).filter (fun e => e.2.available) = [] :=
    filter_eq_nil_of_all_false _ _ (fun e he => hU e (List.mem_of_mem_take he))
  have h2 : (A.take (n - U.length)).filter (fun e => e.2.available) = A.take (n - U.length) :=
    filter_eq_self_of_all_true _ _ (fun e he => hA e (List.mem_of_mem_take he))
  rw [h1, h2]
  simp [List.length_take]

/-- the deletion list of the plan, spelled out. -/
theorem rollingPlan_delete (c : Counts) (N ms mu mc : Int) (paused frozen : Bool) :
    (rollingPlan c N ms mu mc paused frozen).2 =
      if !paused && !frozen then
        (c.toDeleteUnavail ++ c.toDeleteAvail).take
          (min (calcLimits { nbNodes := N, nbPods := c.allPods, nbAvailablesPod := c.available,
                             nbOldAvailablesPod := c.oldAvailable, nbCreatedPod := c.created,
                             nbUnresponsiveNodes := c.stuck, nbOldUnavailablePods := c.oldUnavailable,
                             maxPodCreation := mc, maxUnavailablePod := mu,
                             maxUnschedulablePod := ms }).2
               ((c.toDeleteUnavail ++ c.toDeleteAvail).length : Int)).toNat
      else [] := rfl

theorem plan_budget (tg : String) (wall : Time) (es : List Entry) (c : Counts)
    (h : CountInv tg wall es c) (ms mu mc : Int) (paused frozen : Bool) :
    availDeleted (rollingPlan c es.length ms mu mc paused frozen).2
      ≤ max 0 (mu - unavailableNodes tg wall es ms) := by
  rw [rollingPlan_delete]
  split
  · rw [availDeleted_take _ _ _ h.unavailAll h.availAll]
    have hd := h.desired; have hs := h.stuck; have ha := h.avail; have hu := h.oldU
    have hoa := h.oldA
    simp only [calcLimits, unavailableNodes, List.length_append]
    omega
  · simp [availDeleted]; omega

theorem plan_cap (c : Counts) (N ms mu mc : Int) (paused frozen : Bool) :
    ((rollingPlan c N ms mu mc paused frozen).2.length : Int) ≤ max 0 mu := by
  rw [rollingPlan_delete]
  split
  · simp only [calcLimits, List.length_take, List.length_append]
    omega
  · simp; omega

/-- unavailable first: if the plan deletes an available pod, it deletes every outdated,
non-terminating, unavailable one. -/
theorem plan_unavailable_first (tg : String) (wall : Time) (es : List Entry) (c : Counts)
    (h : CountInv tg wall es c) (ms mu mc : Int) (paused frozen : Bool)
    (hpos : 0 < availDeleted (rollingPlan c es.length ms mu mc paused frozen).2) :
    ((rollingPlan c es.length ms mu mc paused frozen).2.length : Int)
      - availDeleted (rollingPlan c es.length ms mu mc paused frozen).2
      ≥ nOutdatedUnavail tg wall es := by
  rw [rollingPlan_delete] at hpos ⊢
  split at hpos
  · rename_i hc
    simp only [hc, if_true]
    rw [availDeleted_take _ _ _ h.unavailAll h.availAll] at hpos ⊢
    have hu := h.oldU; have hus := h.oldUspec
    simp only [List.length_take, List.length_append] at *
    omega
  · simp [availDeleted] at hpos

end Eds

namespace Eds
open Spec.C03

/-- every successful `manageDeployment` run is a `rollingPlan` over the counters of the targeted
entries with the resolved strategy values. -/
theorem manageDeployment_plan (p : StratParams) (now wall : Time) (cf : Bool) (r : StratResult)
    (h : manageDeployment p now wall cf = .ok r) :
    ∃ ms mu mc,
      resolveIntOrPercent p.strategy.rollingUpdate.maxPodSchedulerFailure (targeted p).length = some ms ∧
      resolveIntOrPercent p.strategy.rollingUpdate.maxUnavailable (targeted p).length = some mu ∧
      calculateMaxCreation p.strategy.rollingUpdate.slowStartAdditiveIncrease
        p.strategy.rollingUpdate.slowStartInterval p.strategy.rollingUpdate.maxParallelPodCreation
        (targeted p).length (rollingUpdateStartTime p.ers.status now) now = .ok mc ∧
      r.createE = (rollingPlan (countAll p.ers.templateGeneration wall (targeted p)) (targeted p).length
                    ms mu mc (isRollingUpdatePaused p.edsAnnotations) (isRolloutFrozen p.edsAnnotations)).1 ∧
      r.deleteE = (rollingPlan (countAll p.ers.templateGeneration wall (targeted p)) (targeted p).length
                    ms mu mc (isRollingUpdatePaused p.edsAnnotations) (isRolloutFrozen p.edsAnnotations)).2 := by
  unfold manageDeployment at h
  simp only [] at h
  split at h
  · simp at h
  · rename_i ms hms
    split at h
    · simp at h
    · rename_i mu hmu
      split at h
      · simp at h
      · simp at h
      · rename_i mc hmc
        refine ⟨ms, mu, mc, hms, hmu, hmc, ?_, ?_⟩ <;>
        · injection h with h
          rw [← h]
          rfl

end Eds
