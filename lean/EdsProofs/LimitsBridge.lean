import EdsModel.Kernel
import EdsModel.Generated.Limits
/-
  The translated `limits.CalculatePodToCreateAndDelete` equals the clamp form the theorems use.
  A change to limits.go that alters the function breaks this proof obligation.
-/
namespace Eds

def toGen (p : LimitParams) : Generated.Limits.Parameters :=
  { NbNodes := p.nbNodes, NbPods := p.nbPods, NbAvailablesPod := p.nbAvailablesPod,
    NbOldAvailablesPod := p.nbOldAvailablesPod, NbCreatedPod := p.nbCreatedPod,
    NbUnresponsiveNodes := p.nbUnresponsiveNodes, NbOldUnavailablePods := p.nbOldUnavailablePods,
    MaxPodCreation := p.maxPodCreation, MaxUnavailablePod := p.maxUnavailablePod,
    MaxUnschedulablePod := p.maxUnschedulablePod }

theorem limits_bridge (p : LimitParams) :
    Generated.Limits.calculatePodToCreateAndDelete (toGen p) = calcLimits p := by
  unfold Generated.Limits.calculatePodToCreateAndDelete calcLimits toGen
  simp only []
  ext
  · simp only []; split <;> split <;> omega
  · simp only []; split <;> split <;> split <;> omega

end Eds
