import EdsModel
import EdsSpec.C19
/-
  EdsProofs.Cli — association-list lemmas (`SMap.get?` / `SMap.set`) and the inversion lemmas of
  `cliRun` used by EdsProps/C19.lean.

  `SMap.set` rewrites *every* entry carrying the key (via `map`) or appends one; `SMap.get?` reads
  the *first* entry.  The lemmas below hold for arbitrary lists (duplicates allowed); only the
  list-level predicate `Spec.C19.frameOk` needs a well-formedness hypothesis (see `frameOk_self`).
-/
namespace Eds
namespace CliP

/-! ### `get?` / `set` -/

theorem get?_nil (k : String) : SMap.get? [] k = none := rfl

theorem get?_cons (e : KV) (m : SMap) (k : String) :
    SMap.get? (e :: m) k = if e.k = k then some e.v else SMap.get? m k := by
  unfold SMap.get?
  by_cases h : e.k = k
  · simp [h]
  · simp [h]

theorem get?_append_single (m : SMap) (key val k : String) :
    SMap.get? (m ++ [{ k := key, v := val }]) k =
      match SMap.get? m k with
      | some v => some v
      | none => if key = k then some val else none := by
  induction m with
  | nil => simp [get?_cons, get?_nil]
  | cons e m ih =>
    rw [List.cons_append, get?_cons, get?_cons]
    by_cases h : e.k = k
    · simp [h]
    · simp only [h, if_false]; exact ih

theorem get?_map_upd (m : SMap) (key val k : String) :
    SMap.get? (m.map (fun e => if e.k == key then { e with v := val } else e)) k =
      if k = key then (SMap.get? m k).map (fun _ => val) else SMap.get? m k := by
  induction m with
  | nil => simp [get?_nil]
  | cons e m ih =>
    rw [List.map_cons, get?_cons, get?_cons, ih]
    by_cases hk : k = key
    · subst hk
      by_cases he : e.k = k
      · simp [he]
      · have : (e.k == k) = false := by simpa using he
        simp [he, this]
    · by_cases he : e.k = k
      · have hne : (e.k == key) = false := by
          simp only [beq_eq_false_iff_ne, ne_eq]; intro h; exact hk (he ▸ h)
        simp [he, hk]
      · simp only [hk, if_false]
        by_cases hek : (e.k == key) = true
        · simp [hek, he]
        · simp [hek, he]

/-- reading back the key just written. -/
theorem get_set_same (m : SMap) (key val : String) :
    SMap.get? (SMap.set m key val) key = some val := by
  unfold SMap.set SMap.contains
  cases h : SMap.get? m key with
  | none =>
    simp only [Option.isSome_none, Bool.false_eq_true, if_false]
    rw [get?_append_single, h]; simp
  | some v =>
    simp only [Option.isSome_some, if_true]
    rw [get?_map_upd, h]; simp

/-- every other key is untouched. -/
theorem get_set_other (m : SMap) (key val k : String) (hk : k ≠ key) :
    SMap.get? (SMap.set m key val) k = SMap.get? m k := by
  unfold SMap.set SMap.contains
  cases h : SMap.get? m key with
  | none =>
    simp only [Option.isSome_none, Bool.false_eq_true, if_false]
    rw [get?_append_single]
    cases SMap.get? m k with
    | none => simp [Ne.symm hk]
    | some v => rfl
  | some v =>
    simp only [Option.isSome_some, if_true]
    rw [get?_map_upd]; simp [hk]

theorem get_set (m : SMap) (key val k : String) :
    SMap.get? (SMap.set m key val) k = if k = key then some val else SMap.get? m k := by
  by_cases hk : k = key
  · subst hk; simp [get_set_same]
  · simp [hk, get_set_other _ _ _ _ hk]

theorem filter_map_upd_off (m : SMap) (key val : String) (keys : List String) (hk : keys.contains key = true) :
    (m.map (fun e => if e.k == key then { e with v := val } else e)).filter (fun e => !keys.contains e.k)
      = m.filter (fun e => !keys.contains e.k) := by
  induction m with
  | nil => rfl
  | cons e m ih =>
    rw [List.map_cons]
    by_cases he : (e.k == key) = true
    · have hek : e.k = key := by simpa using he
      have h1 : (!keys.contains e.k) = false := by rw [hek, hk]; rfl
      simp only [he, if_true, List.filter_cons, h1, Bool.false_eq_true, if_false]
      exact ih
    · have he' : (e.k == key) = false := by simpa using he
      simp only [he', Bool.false_eq_true, if_false, List.filter_cons]
      rw [ih]

/-- the entries whose key is outside `keys` are literally unchanged by a write to a key in `keys`. -/
theorem filter_set_off (m : SMap) (key val : String) (keys : List String) (hk : keys.contains key = true) :
    (SMap.set m key val).filter (fun e => !keys.contains e.k) = m.filter (fun e => !keys.contains e.k) := by
  unfold SMap.set
  split
  · exact filter_map_upd_off m key val keys hk
  · rw [List.filter_append]
    have hk' : key ∈ keys := by simpa using hk
    simp [hk']

theorem all_congr' {α} (l : List α) (f g : α → Bool) (h : ∀ x ∈ l, f x = g x) : l.all f = l.all g := by
  induction l with
  | nil => rfl
  | cons a l ih =>
    simp only [List.all_cons]
    rw [h a (List.mem_cons_self ..), ih (fun x hx => h x (List.mem_cons_of_mem _ hx))]

/-- if `after` has the same off-`keys` entries as `before` and agrees with it on every off-`keys`
lookup, `frameOk before after keys` is the self-consistency of `before` off `keys`. -/
theorem frameOk_of_agree (before after : SMap) (keys : List String)
    (h1 : after.filter (fun e => !keys.contains e.k) = before.filter (fun e => !keys.contains e.k))
    (h2 : ∀ k, keys.contains k = false → SMap.get? after k = SMap.get? before k) :
    Spec.C19.frameOk before after keys = Spec.C19.frameOk before before keys := by
  unfold Spec.C19.frameOk
  rw [h1]
  congr 1
  apply all_congr'
  intro e he
  have : keys.contains e.k = false := by
    have := (List.mem_filter.1 he).2
    simpa using this
  rw [h2 _ this]

/-- a map with pairwise distinct keys is self-consistent: every entry is the one `get?` finds. -/
theorem get?_of_mem_nodup (m : SMap) (hnd : (m.map (·.k)).Nodup) (e : KV) (he : e ∈ m) :
    SMap.get? m e.k = some e.v := by
  induction m with
  | nil => cases he
  | cons a m ih =>
    rw [get?_cons]
    rw [List.map_cons, List.nodup_cons] at hnd
    rcases List.mem_cons.1 he with rfl | hm
    · simp
    · have hne : a.k ≠ e.k := by
        intro h
        exact hnd.1 (h ▸ List.mem_map.2 ⟨e, hm, rfl⟩)
      simp only [hne, if_false]
      exact ih hnd.2 hm

theorem frameOk_self (m : SMap) (keys : List String) (hnd : (m.map (·.k)).Nodup) :
    Spec.C19.frameOk m m keys = true := by
  unfold Spec.C19.frameOk
  simp only [Bool.and_self, List.all_eq_true, beq_iff_eq]
  intro e he
  exact get?_of_mem_nodup m hnd e (List.mem_filter.1 he).1

/-! ### the annotation keys are pairwise distinct -/

theorem paused_ne_unpaused : K.canaryPausedAnnot ≠ K.canaryUnpausedAnnot := by decide
theorem unpaused_ne_paused : K.canaryUnpausedAnnot ≠ K.canaryPausedAnnot := by decide

/-! ### inversion of `cliRun` -/

/-- the map a successful command produces. -/
def patchOf (cmd : CliCmd) (statusCanary : Option CanaryStatus) (ann : SMap) : SMap :=
  match cmd with
  | .canaryPause => SMap.set (SMap.set ann K.canaryPausedAnnot "true") K.canaryUnpausedAnnot "false"
  | .canaryUnpause => SMap.set (SMap.set ann K.canaryPausedAnnot "false") K.canaryUnpausedAnnot "true"
  | .canaryValidate =>
    match statusCanary with
    | some cs => SMap.set ann K.canaryValidAnnot cs.replicaSet
    | none => ann
  | .canaryFail => ann
  | .ruPause => SMap.set ann K.rollingUpdatePausedAnnot "true"
  | .ruUnpause => SMap.set ann K.rollingUpdatePausedAnnot "false"
  | .freeze => SMap.set ann K.rolloutFrozenAnnot "true"
  | .unfreeze => SMap.set ann K.rolloutFrozenAnnot "false"

/-- a successful command produced `patchOf` and its documented precondition held. -/
theorem cliRun_patch {cmd : CliCmd} {h : Bool} {sc : Option CanaryStatus} {ann ann' : SMap}
    (hr : cliRun cmd h sc ann = .patchAnnotations ann') :
    ann' = patchOf cmd sc ann ∧ Spec.C19.precondition cmd h sc = true := by
  cases cmd <;> cases h <;> cases sc <;>
    simp [cliRun, patchOf, Spec.C19.precondition] at hr ⊢
  all_goals (split at hr <;> (try split at hr) <;> (try split at hr) <;> simp_all)

end CliP
end Eds
