import EdsModel.CanaryS
import EdsSpec.C06
/-
  Helper lemmas about the `manageCanaryPodFailures` model (EdsModel/CanaryS.lean):

  * `failStep_eq`      — the per-pod loop body written as three stages with projections instead of
                          tuple patterns (`fsRestart`, `fsCS`, `fsDecide`);
  * `failStep_isFailed` / `failStep_isPaused` — the "step lemma": fields of one iteration in terms of
                          the specification triggers of `EdsSpec.C06`, for a non-panicking iteration;
  * `fold_isFailed` / `fold_isPaused` — the same lifted to the whole loop;
  * `mcpf_some`        — what a `some` result of `manageCanaryPodFailures` is made of;
  * `findCond_updateCond_other`, `isCondTrue_updateCond_same` — condition-list lemmas.
-/
namespace Eds
open Spec.C06

/-! ### Condition lists -/

theorem findCond_append (cs ds : List Cond) (t : String) :
    findCond (cs ++ ds) t = (findCond cs t).or (findCond ds t) := by
  unfold findCond; exact List.find?_append

theorem updateFirst_cons_pos (c : Cond) (rest : List Cond) (t : String) (f : Cond → Cond)
    (h : (c.type == t) = true) : updateFirst (c :: rest) t f = f c :: rest := by
  simp only [updateFirst, h, if_true]

theorem updateFirst_cons_neg (c : Cond) (rest : List Cond) (t : String) (f : Cond → Cond)
    (h : (c.type == t) = false) : updateFirst (c :: rest) t f = c :: updateFirst rest t f := by
  simp only [updateFirst, h, Bool.false_eq_true, if_false]

theorem findCond_cons_pos (c : Cond) (rest : List Cond) (t : String) (h : (c.type == t) = true) :
    findCond (c :: rest) t = some c := by
  simp only [findCond, List.find?_cons, h]

theorem findCond_cons_neg (c : Cond) (rest : List Cond) (t : String) (h : (c.type == t) = false) :
    findCond (c :: rest) t = findCond rest t := by
  simp only [findCond, List.find?_cons, h]

theorem findCond_append_single (cs : List Cond) (c : Cond) (t : String) (h : findCond cs t = none)
    (hc : c.type = t) : findCond (cs ++ [c]) t = some c := by
  rw [findCond_append, h]
  simp [findCond, hc]

theorem findCond_updateFirst_same (cs : List Cond) (t : String) (f : Cond → Cond)
    (hf : ∀ c, (f c).type = c.type) :
    findCond (updateFirst cs t f) t = (findCond cs t).map f := by
  induction cs with
  | nil => rfl
  | cons c rest ih =>
    cases hc : (c.type == t) with
    | true =>
      have hfc : ((f c).type == t) = true := by rw [hf c]; exact hc
      rw [updateFirst_cons_pos c rest t f hc, findCond_cons_pos _ _ _ hfc, findCond_cons_pos _ _ _ hc]
      rfl
    | false =>
      rw [updateFirst_cons_neg c rest t f hc, findCond_cons_neg _ _ _ hc, findCond_cons_neg _ _ _ hc]
      exact ih

theorem findCond_updateFirst_other (cs : List Cond) (t t' : String) (f : Cond → Cond)
    (hf : ∀ c, (f c).type = c.type) (hne : t' ≠ t) :
    findCond (updateFirst cs t' f) t = findCond cs t := by
  induction cs with
  | nil => rfl
  | cons c rest ih =>
    cases hc : (c.type == t') with
    | true =>
      have hct : c.type = t' := by simpa using hc
      have h1 : (c.type == t) = false := by simp [hct, hne]
      have h2 : ((f c).type == t) = false := by rw [hf c]; exact h1
      rw [updateFirst_cons_pos c rest t' f hc, findCond_cons_neg _ _ _ h1, findCond_cons_neg _ _ _ h2]
    | false =>
      rw [updateFirst_cons_neg c rest t' f hc]
      cases hct : (c.type == t) with
      | true => rw [findCond_cons_pos _ _ _ hct, findCond_cons_pos _ _ _ hct]
      | false => rw [findCond_cons_neg _ _ _ hct, findCond_cons_neg _ _ _ hct]; exact ih

/-- the function `updateCond` applies to the first condition of the type keeps the type. -/
theorem updateCond_fn_type (now : Time) (status reason desc : String) (sl : Bool) (c : Cond) :
    ((fun c : Cond =>
        let c1 := if c.status != status then
                    { c with lastTransition := now, status := status, lastUpdate := now } else c
        let c2 := if sl then { c1 with lastUpdate := now } else c1
        if status == "True" then { c2 with message := desc, reason := reason } else c2) c).type = c.type := by
  simp only []
  split <;> split <;> split <;> rfl

/-- … and sets the status. -/
theorem updateCond_fn_status (now : Time) (status reason desc : String) (sl : Bool) (c : Cond) :
    ((fun c : Cond =>
        let c1 := if c.status != status then
                    { c with lastTransition := now, status := status, lastUpdate := now } else c
        let c2 := if sl then { c1 with lastUpdate := now } else c1
        if status == "True" then { c2 with message := desc, reason := reason } else c2) c).status = status := by
  simp only []
  by_cases h : (c.status != status) = true
  · simp only [h, if_true]; split <;> split <;> rfl
  · have h' : c.status = status := by simpa using h
    simp only [h]; split <;> split <;> exact h'

/-- updating a condition of another type leaves the lookup of `t` alone. -/
theorem findCond_updateCond_other (cs : List Cond) (now : Time) (t t' status reason desc : String)
    (w sl : Bool) (hne : t' ≠ t) :
    findCond (updateCond cs now t' status reason desc w sl) t = findCond cs t := by
  unfold updateCond
  split
  · exact findCond_updateFirst_other cs t t' _ (updateCond_fn_type now status reason desc sl) hne
  · split
    · rw [findCond_append]
      have : findCond [({ type := t', status := status, lastTransition := now, lastUpdate := now,
                          reason := reason, message := desc } : Cond)] t = none := by
        simp [findCond, hne]
      rw [this]; simp
    · rfl

theorem isCondTrue_updateCond_other (cs : List Cond) (now : Time) (t t' status reason desc : String)
    (w sl : Bool) (hne : t' ≠ t) :
    isCondTrue (updateCond cs now t' status reason desc w sl) t = isCondTrue cs t := by
  unfold isCondTrue
  rw [findCond_updateCond_other cs now t t' status reason desc w sl hne]

/-- updating type `t` with `boolCond b` makes `isCondTrue … t = b` (with `writeFalseIfNotExist = false`
a missing condition stays missing when `b = false`, which also reads as "not true"). -/
theorem isCondTrue_updateCond_same (cs : List Cond) (now : Time) (t : String) (b : Bool)
    (reason desc : String) (w sl : Bool) :
    isCondTrue (updateCond cs now t (boolCond b) reason desc w sl) t = b := by
  unfold updateCond
  cases hfc : findCond cs t with
  | some c0 =>
    simp only []
    unfold isCondTrue
    rw [findCond_updateFirst_same cs t _ (updateCond_fn_type now (boolCond b) reason desc sl), hfc]
    simp only [Option.map_some]
    rw [updateCond_fn_status now (boolCond b) reason desc sl c0]
    cases b <;> decide
  | none =>
    simp only []
    unfold isCondTrue
    cases b with
    | true =>
      have : (boolCond true == "True" || w) = true := by simp [boolCond]
      rw [if_pos this, findCond_append_single _ _ _ hfc rfl]
      simp [boolCond]
    | false =>
      cases w with
      | true =>
        have : (boolCond false == "True" || true) = true := by simp
        rw [if_pos this, findCond_append_single _ _ _ hfc rfl]
        simp [boolCond]
      | false =>
        have : ¬ (boolCond false == "True" || false) = true := by decide
        rw [if_neg this, hfc]

/-! ### The loop body in stages -/

/-- stage 1: bookkeeping of the most recent restart. -/
def fsRestart (s : FailState) (pod : Pod) : FailState :=
  if (highestRestart pod.cstats).1 != 0 then
    if (mostRecentRestart pod.cstats).1 > s.newRestartTime then
      { s with newRestartTime := (mostRecentRestart pod.cstats).1,
               restartingPodStatus := "Pod " ++ pod.name ++ " restarting with reason: " ++ (mostRecentRestart pod.cstats).2 }
    else s
  else s

/-- the iteration dereferences `pod.Status.StartTime`. -/
def fsNeedStart (cfg : FailCfg) (pod : Pod) : Bool :=
  ((cannotStart pod.cstats).1 && cfg.maxSlowStart.isSome) ||
  (!(cannotStart pod.cstats).1 && cfg.autoPauseEnabled && pendingCreate pod.cstats && cfg.maxSlowStart.isSome)

/-- stage 2: the cannot-start verdict `(cannotStart, reason, state)`. -/
def fsCS (cfg : FailCfg) (pod : Pod) (s : FailState) : Bool × String × FailState :=
  if (cannotStart pod.cstats).1 && cfg.maxSlowStart.isSome &&
      !decide (cfg.now > pod.startTime.getD 0 + cfg.maxSlowStart.getD 0) then (false, "Unknown", s)
  else if (cannotStart pod.cstats).1 then
    (true, (cannotStart pod.cstats).2,
      { s with cannotStartPodStatus := "Pod " ++ pod.name ++ " cannot start with reason: " ++ (cannotStart pod.cstats).2,
               cannotStartPodReason := (cannotStart pod.cstats).2 })
  else if cfg.autoPauseEnabled && pendingCreate pod.cstats && cfg.maxSlowStart.isSome then
    if cfg.now > pod.startTime.getD 0 + cfg.maxSlowStart.getD 0 then
      (true, "SlowStartTimeoutExceeded",
        { s with cannotStartPodStatus := "Pod " ++ pod.name ++ " cannot start with reason: SlowStartTimeoutExceeded",
                 cannotStartPodReason := "SlowStartTimeoutExceeded" })
    else (false, (cannotStart pod.cstats).2, s)
  else (false, (cannotStart pod.cstats).2, s)

/-- stage 3: the fail / unpause / pause decision. -/
def fsDecide (cfg : FailCfg) (restartCount : Int) (highReason : String) (cs : Bool) (csr : String)
    (s : FailState) : FailState :=
  let s := { s with cannotStart := cs }
  if s.isFailed then s
  else if cfg.autoFailEnabled && restartCount > cfg.autoFailMaxRestarts then
    { s with isFailed := true, failedReason := highReason }
  else if cfg.autoFailEnabled && (match cfg.maxRestartsDuration, cfg.restartCond with
                                  | some d, some (tr, up) => up - tr > d
                                  | _, _ => false) then
    { s with isFailed := true, failedReason := "RestartsTimeoutExceeded" }
  else if cfg.autoFailEnabled && (match cfg.startCond, cfg.canaryTimeout with
                                  | some st, some d => cfg.now - st > d
                                  | _, _ => false) then
    { s with isFailed := true, failedReason := "TimeoutExceeded" }
  else if cfg.isUnpaused then { s with isPaused := false, pausedReason := "" }
  else if cfg.autoPauseEnabled then
    if cs then { s with isPaused := true, pausedReason := csr }
    else if restartCount > cfg.autoPauseMaxRestarts then { s with isPaused := true, pausedReason := highReason }
    else s
  else s

theorem failStep_eq (cfg : FailCfg) (s : FailState) (pod : Pod) :
    failStep cfg s pod =
      if s.panicked then s
      else if fsNeedStart cfg pod && pod.startTime.isNone then { fsRestart s pod with panicked := true }
      else fsDecide cfg (highestRestart pod.cstats).1 (highestRestart pod.cstats).2
             (fsCS cfg pod (fsRestart s pod)).1 (fsCS cfg pod (fsRestart s pod)).2.1
             (fsCS cfg pod (fsRestart s pod)).2.2 := by
  unfold failStep fsNeedStart fsCS fsRestart
  generalize highestRestart pod.cstats = hr
  generalize mostRecentRestart pod.cstats = mr
  generalize cannotStart pod.cstats = c0
  obtain ⟨rc, hreason⟩ := hr
  obtain ⟨rt, rr⟩ := mr
  obtain ⟨cs0, csr0⟩ := c0
  simp -zeta only []
  rfl

/-! #### stage 1 -/

theorem fsRestart_isFailed (s : FailState) (pod : Pod) : (fsRestart s pod).isFailed = s.isFailed := by
  unfold fsRestart; split <;> (try split) <;> rfl
theorem fsRestart_isPaused (s : FailState) (pod : Pod) : (fsRestart s pod).isPaused = s.isPaused := by
  unfold fsRestart; split <;> (try split) <;> rfl
theorem fsRestart_panicked (s : FailState) (pod : Pod) : (fsRestart s pod).panicked = s.panicked := by
  unfold fsRestart; split <;> (try split) <;> rfl

/-! #### stage 2 -/

theorem fsCS_isFailed (cfg : FailCfg) (pod : Pod) (s : FailState) :
    (fsCS cfg pod s).2.2.isFailed = s.isFailed := by
  unfold fsCS; split <;> (try split) <;> (try split) <;> (try split) <;> rfl
theorem fsCS_isPaused (cfg : FailCfg) (pod : Pod) (s : FailState) :
    (fsCS cfg pod s).2.2.isPaused = s.isPaused := by
  unfold fsCS; split <;> (try split) <;> (try split) <;> (try split) <;> rfl
theorem fsCS_panicked (cfg : FailCfg) (pod : Pod) (s : FailState) :
    (fsCS cfg pod s).2.2.panicked = s.panicked := by
  unfold fsCS; split <;> (try split) <;> (try split) <;> (try split) <;> rfl

/-- **non-panic ⇒ `startTime` is set wherever the specification looks at it**: when the iteration
does not dereference a nil `StartTime`, the cannot-start verdict of the code is the specification's
`podCannotStart`, or `podSlowCreate` while auto-pause is enabled. -/
theorem fsCS_verdict (cfg : FailCfg) (pod : Pod) (s : FailState)
    (hn : (fsNeedStart cfg pod && pod.startTime.isNone) = false) :
    (fsCS cfg pod s).1 =
      (podCannotStart cfg.maxSlowStart cfg.now pod ||
        (cfg.autoPauseEnabled && podSlowCreate cfg.maxSlowStart cfg.now pod)) := by
  unfold fsNeedStart at hn
  unfold fsCS podCannotStart podSlowCreate
  generalize (cannotStart pod.cstats).1 = cs0 at hn ⊢
  generalize (cannotStart pod.cstats).2 = csr0
  generalize pendingCreate pod.cstats = pc at hn ⊢
  generalize cfg.autoPauseEnabled = ape at hn ⊢
  cases hslow : cfg.maxSlowStart with
  | none => cases cs0 <;> cases ape <;> cases pc <;> simp
  | some d =>
    cases hst : pod.startTime with
    | none =>
      rw [hslow, hst] at hn
      cases cs0 <;> cases ape <;> cases pc <;> simp at hn ⊢
    | some t =>
      by_cases ha : cfg.now > t + d
      · cases cs0 <;> cases ape <;> cases pc <;> simp [ha]
      · cases cs0 <;> cases ape <;> cases pc <;> simp [ha]

/-! #### stage 3 -/

def specCfg (cfg : FailCfg) : Spec.C06.Cfg :=
  { autoPauseEnabled := cfg.autoPauseEnabled, autoPauseMaxRestarts := cfg.autoPauseMaxRestarts,
    maxSlowStart := cfg.maxSlowStart, autoFailEnabled := cfg.autoFailEnabled,
    autoFailMaxRestarts := cfg.autoFailMaxRestarts, maxRestartsDuration := cfg.maxRestartsDuration,
    canaryTimeout := cfg.canaryTimeout }

/-- `lastUpdate - lastTransition` of the stored PodRestarting condition. -/
def cfgSpan (cfg : FailCfg) : Option Dur := cfg.restartCond.map (fun p => p.2 - p.1)
/-- time since the Canary condition's last transition. -/
def cfgAge (cfg : FailCfg) : Option Dur := cfg.startCond.map (fun st => cfg.now - st)

/-- the fail condition evaluated by stage 3 for a pod with `rc` restarts. -/
def failCond (cfg : FailCfg) (rc : Int) : Bool :=
  cfg.autoFailEnabled &&
  (decide (rc > cfg.autoFailMaxRestarts) ||
   (match cfg.maxRestartsDuration, cfgSpan cfg with | some d, some s => decide (s > d) | _, _ => false) ||
   (match cfg.canaryTimeout, cfgAge cfg with | some d, some a => decide (a > d) | _, _ => false))

theorem failCond_eq_failTrigger (cfg : FailCfg) (pod : Pod) :
    failCond cfg (highestRestart pod.cstats).1 = failTrigger (specCfg cfg) (cfgSpan cfg) (cfgAge cfg) pod := rfl

theorem fsDecide_panicked (cfg : FailCfg) (rc : Int) (hr : String) (cs : Bool) (csr : String) (s : FailState) :
    (fsDecide cfg rc hr cs csr s).panicked = s.panicked := by
  unfold fsDecide
  simp only [apply_ite FailState.panicked, ite_self]

theorem restartMatch_eq (cfg : FailCfg) :
    (match cfg.maxRestartsDuration, cfg.restartCond with
     | some d, some (tr, up) => decide (up - tr > d)
     | _, _ => false) =
    (match cfg.maxRestartsDuration, cfgSpan cfg with | some d, some s => decide (s > d) | _, _ => false) := by
  unfold cfgSpan
  cases cfg.maxRestartsDuration <;> rcases cfg.restartCond with _ | ⟨tr, up⟩ <;> rfl

theorem timeoutMatch_eq (cfg : FailCfg) :
    (match cfg.startCond, cfg.canaryTimeout with
     | some st, some d => decide (cfg.now - st > d)
     | _, _ => false) =
    (match cfg.canaryTimeout, cfgAge cfg with | some d, some a => decide (a > d) | _, _ => false) := by
  unfold cfgAge
  cases cfg.startCond <;> cases cfg.canaryTimeout <;> rfl

theorem fsDecide_isFailed (cfg : FailCfg) (rc : Int) (hr : String) (cs : Bool) (csr : String) (s : FailState) :
    (fsDecide cfg rc hr cs csr s).isFailed = (s.isFailed || failCond cfg rc) := by
  unfold fsDecide failCond
  rw [← restartMatch_eq, ← timeoutMatch_eq]
  simp only [apply_ite FailState.isFailed, ite_self]
  generalize (match cfg.maxRestartsDuration, cfg.restartCond with
     | some d, some (tr, up) => decide (up - tr > d)
     | _, _ => false) = b2
  generalize (match cfg.startCond, cfg.canaryTimeout with
     | some st, some d => decide (cfg.now - st > d)
     | _, _ => false) = b3
  generalize decide (rc > cfg.autoFailMaxRestarts) = b1
  generalize cfg.autoFailEnabled = afe
  generalize s.isFailed = f0
  cases f0 <;> cases afe <;> cases b1 <;> cases b2 <;> cases b3 <;> rfl

/-- while not failed after the iteration: unpause wins, otherwise a trigger pauses. -/
theorem fsDecide_isPaused (cfg : FailCfg) (rc : Int) (hr : String) (cs : Bool) (csr : String) (s : FailState) :
    (fsDecide cfg rc hr cs csr s).isPaused =
      if (fsDecide cfg rc hr cs csr s).isFailed then s.isPaused
      else if cfg.isUnpaused then false
      else (s.isPaused || (cfg.autoPauseEnabled && (cs || decide (rc > cfg.autoPauseMaxRestarts)))) := by
  rw [fsDecide_isFailed]
  unfold fsDecide failCond
  rw [← restartMatch_eq, ← timeoutMatch_eq]
  simp only [apply_ite FailState.isPaused]
  generalize (match cfg.maxRestartsDuration, cfg.restartCond with
     | some d, some (tr, up) => decide (up - tr > d)
     | _, _ => false) = b2
  generalize (match cfg.startCond, cfg.canaryTimeout with
     | some st, some d => decide (cfg.now - st > d)
     | _, _ => false) = b3
  generalize decide (rc > cfg.autoFailMaxRestarts) = b1
  generalize cfg.autoFailEnabled = afe
  generalize cfg.isUnpaused = unp
  generalize cfg.autoPauseEnabled = ape
  generalize s.isPaused = p0
  generalize s.isFailed = f0
  by_cases h4 : rc > cfg.autoPauseMaxRestarts
  · rw [if_pos h4, decide_eq_true h4]
    cases f0 <;> (try rfl) <;> cases afe <;> cases b1 <;> (try rfl) <;> cases b2 <;> (try rfl) <;>
      cases b3 <;> (try rfl) <;> cases unp <;> (try rfl) <;> cases ape <;> (try rfl) <;>
      cases cs <;> cases p0 <;> rfl
  · rw [if_neg h4, decide_eq_false h4]
    cases f0 <;> (try rfl) <;> cases afe <;> cases b1 <;> (try rfl) <;> cases b2 <;> (try rfl) <;>
      cases b3 <;> (try rfl) <;> cases unp <;> (try rfl) <;> cases ape <;> (try rfl) <;>
      cases cs <;> cases p0 <;> rfl

/-! ### One iteration -/

theorem failStep_of_panicked (cfg : FailCfg) (s : FailState) (pod : Pod) (h : s.panicked = true) :
    failStep cfg s pod = s := by
  rw [failStep_eq, if_pos h]

/-- a panic is never undone. -/
theorem failStep_panicked_mono (cfg : FailCfg) (s : FailState) (pod : Pod)
    (h : (failStep cfg s pod).panicked = false) : s.panicked = false := by
  cases hs : s.panicked with
  | false => rfl
  | true => rw [failStep_of_panicked cfg s pod hs] at h; rw [hs] at h; exact h

/-- a non-panicking iteration did not need a missing `startTime`, and is stage 3 after stage 2. -/
theorem failStep_nonpanic (cfg : FailCfg) (s : FailState) (pod : Pod)
    (h : (failStep cfg s pod).panicked = false) :
    (fsNeedStart cfg pod && pod.startTime.isNone) = false ∧
    failStep cfg s pod =
      fsDecide cfg (highestRestart pod.cstats).1 (highestRestart pod.cstats).2
        (fsCS cfg pod (fsRestart s pod)).1 (fsCS cfg pod (fsRestart s pod)).2.1
        (fsCS cfg pod (fsRestart s pod)).2.2 := by
  have hs := failStep_panicked_mono cfg s pod h
  have hs' : ¬ s.panicked = true := by rw [hs]; decide
  rw [failStep_eq, if_neg hs'] at h ⊢
  cases hn : (fsNeedStart cfg pod && pod.startTime.isNone) with
  | true => rw [hn] at h; simp at h
  | false => exact ⟨rfl, by simp⟩

/-- **Step lemma, failed flag.** -/
theorem failStep_isFailed (cfg : FailCfg) (s : FailState) (pod : Pod)
    (h : (failStep cfg s pod).panicked = false) :
    (failStep cfg s pod).isFailed =
      (s.isFailed || failTrigger (specCfg cfg) (cfgSpan cfg) (cfgAge cfg) pod) := by
  rw [(failStep_nonpanic cfg s pod h).2, fsDecide_isFailed, fsCS_isFailed, fsRestart_isFailed,
    failCond_eq_failTrigger]

/-- **Step lemma, paused flag.** -/
theorem failStep_isPaused (cfg : FailCfg) (s : FailState) (pod : Pod)
    (h : (failStep cfg s pod).panicked = false) :
    (failStep cfg s pod).isPaused =
      if (failStep cfg s pod).isFailed then s.isPaused
      else if cfg.isUnpaused then false
      else (s.isPaused || pauseTrigger (specCfg cfg) cfg.now pod) := by
  obtain ⟨hn, he⟩ := failStep_nonpanic cfg s pod h
  rw [he, fsDecide_isPaused, fsCS_isPaused, fsRestart_isPaused, fsCS_verdict cfg pod _ hn]
  unfold pauseTrigger specCfg podRestarts
  simp only []
  generalize (fsDecide _ _ _ _ _ _).isFailed = f
  generalize podCannotStart cfg.maxSlowStart cfg.now pod = a
  generalize podSlowCreate cfg.maxSlowStart cfg.now pod = b
  generalize decide ((highestRestart pod.cstats).1 > cfg.autoPauseMaxRestarts) = c
  cases f <;> cases cfg.isUnpaused <;> cases cfg.autoPauseEnabled <;> cases s.isPaused <;>
    cases a <;> cases b <;> cases c <;> rfl

/-! ### The whole loop -/

theorem fold_of_panicked (cfg : FailCfg) (pods : List Pod) (s : FailState) (h : s.panicked = true) :
    pods.foldl (failStep cfg) s = s := by
  induction pods with
  | nil => rfl
  | cons p ps ih => rw [List.foldl_cons, failStep_of_panicked cfg s p h]; exact ih

theorem fold_panicked_mono (cfg : FailCfg) (pods : List Pod) (s : FailState)
    (h : (pods.foldl (failStep cfg) s).panicked = false) : s.panicked = false := by
  cases hs : s.panicked with
  | false => rfl
  | true => rw [fold_of_panicked cfg pods s hs, hs] at h; exact h

/-- after a non-panicking loop: failed ⇔ failed before or some pod fires a fail trigger. -/
theorem fold_isFailed (cfg : FailCfg) (pods : List Pod) (s : FailState)
    (h : (pods.foldl (failStep cfg) s).panicked = false) :
    (pods.foldl (failStep cfg) s).isFailed =
      (s.isFailed || pods.any (failTrigger (specCfg cfg) (cfgSpan cfg) (cfgAge cfg))) := by
  induction pods generalizing s with
  | nil => simp
  | cons p ps ih =>
    rw [List.foldl_cons] at h ⊢
    have hp := fold_panicked_mono cfg ps _ h
    rw [ih _ h, failStep_isFailed cfg s p hp, List.any_cons, Bool.or_assoc]

/-- after a non-panicking loop that ends not failed, over at least one pod: unpause wins, otherwise
paused ⇔ paused before or some pod fires a pause trigger.  (Over no pod the flag is unchanged.) -/
theorem fold_isPaused (cfg : FailCfg) (pods : List Pod) (s : FailState)
    (h : (pods.foldl (failStep cfg) s).panicked = false)
    (hf : (pods.foldl (failStep cfg) s).isFailed = false) :
    (pods.foldl (failStep cfg) s).isPaused =
      if pods.isEmpty then s.isPaused
      else (!cfg.isUnpaused && (s.isPaused || pods.any (pauseTrigger (specCfg cfg) cfg.now))) := by
  induction pods generalizing s with
  | nil => rfl
  | cons p ps ih =>
    rw [List.foldl_cons] at h hf ⊢
    have hp := fold_panicked_mono cfg ps _ h
    have hf1 : (failStep cfg s p).isFailed = false := by
      have := fold_isFailed cfg ps _ h
      rw [hf] at this
      cases hx : (failStep cfg s p).isFailed with
      | false => rfl
      | true => rw [hx] at this; simp at this
    have hstep := failStep_isPaused cfg s p hp
    rw [hf1] at hstep
    rw [ih _ h hf, hstep]
    simp only [List.isEmpty_cons, List.any_cons, Bool.false_eq_true, if_false]
    cases ps with
    | nil => cases cfg.isUnpaused <;> simp
    | cons q qs =>
      simp only [List.isEmpty_cons, Bool.false_eq_true, if_false]
      cases cfg.isUnpaused <;> simp [Bool.or_assoc]

/-- with auto-pause disabled and no manual unpause, the loop never changes the paused flag
(whether or not it ends failed). -/
theorem fold_isPaused_disabled (cfg : FailCfg) (pods : List Pod) (s : FailState)
    (h : (pods.foldl (failStep cfg) s).panicked = false)
    (hape : cfg.autoPauseEnabled = false) (hun : cfg.isUnpaused = false) :
    (pods.foldl (failStep cfg) s).isPaused = s.isPaused := by
  induction pods generalizing s with
  | nil => rfl
  | cons p ps ih =>
    rw [List.foldl_cons] at h ⊢
    have hp := fold_panicked_mono cfg ps _ h
    rw [ih _ h, failStep_isPaused cfg s p hp, hun]
    unfold pauseTrigger specCfg
    simp only [hape, Bool.false_and, Bool.or_false, Bool.false_eq_true, if_false]
    split <;> rfl

/-! ### `manageCanaryPodFailures` -/

/-- the loop configuration built at the top of `manageCanaryPodFailures`. -/
def mkFailCfg (ape : Bool) (apm : Int) (slow : Option Dur) (afe : Bool) (afm : Int) (mrd cto : Option Dur)
    (paramsStatus st : ERSStatus) (unpaused : Bool) (now : Time) : FailCfg :=
  { autoPauseEnabled := ape, autoPauseMaxRestarts := apm, maxSlowStart := slow,
    autoFailEnabled := afe, autoFailMaxRestarts := afm, maxRestartsDuration := mrd,
    canaryTimeout := cto, isUnpaused := unpaused,
    restartCond := (findCond paramsStatus.conds "PodRestarting").map (fun rc => (rc.lastTransition, rc.lastUpdate)),
    startCond := (findCond st.conds "Canary").map (·.lastTransition), now := now }

/-- the initial loop state (including the F3 repair). -/
def initFailState (pods : List Pod) (failed0 paused0 : Bool) (reason0 : String) (unpaused : Bool) : FailState :=
  { isFailed := failed0, failedReason := "",
    isPaused := if pods.isEmpty && unpaused && !failed0 then false else paused0,
    pausedReason := if pods.isEmpty && unpaused && !failed0 then "" else reason0 }

/-- the condition list written at the end. -/
def finalConds (paramsStatus st : ERSStatus) (now : Time) (s : FailState) : List Cond :=
  let conds := updateCond st.conds now "Canary-Failed" (boolCond s.isFailed) s.failedReason "" false true
  let conds := updateCond conds now "Canary-Paused" (boolCond s.isPaused) s.pausedReason "" false true
  let lastRestart : Time :=
    match findCond paramsStatus.conds "PodRestarting" with | some rc => rc.lastUpdate | none => zeroTime
  let conds :=
    if !isZeroTime (s.newRestartTime) && s.newRestartTime > lastRestart then
      updateCond conds s.newRestartTime "PodRestarting" "True" s.cannotStartPodReason s.restartingPodStatus false true
    else conds
  updateCond conds now "PodCannotStart" (boolCond s.cannotStart) s.cannotStartPodReason s.cannotStartPodStatus false true

/-- anatomy of a `some` result. -/
theorem mcpf_some (pods : List Pod) (canary : Option Canary) (paramsStatus st st' : ERSStatus)
    (failed0 paused0 : Bool) (reason0 : String) (unpaused : Bool) (now : Time) (s : FailState)
    (ape : Bool) (apm : Int) (slow : Option Dur) (afe : Bool) (afm : Int) (mrd cto : Option Dur)
    (hd : canaryDerefs canary = some (ape, apm, slow, afe, afm, mrd, cto))
    (h : manageCanaryPodFailures pods canary paramsStatus st failed0 paused0 reason0 unpaused now = some (s, st')) :
    s = pods.foldl (failStep (mkFailCfg ape apm slow afe afm mrd cto paramsStatus st unpaused now))
          (initFailState pods failed0 paused0 reason0 unpaused) ∧
    s.panicked = false ∧
    st'.conds = finalConds paramsStatus st now s := by
  unfold manageCanaryPodFailures at h
  rw [hd] at h
  have h' : (if (pods.foldl (failStep (mkFailCfg ape apm slow afe afm mrd cto paramsStatus st unpaused now))
                  (initFailState pods failed0 paused0 reason0 unpaused)).panicked = true then none
             else some (pods.foldl (failStep (mkFailCfg ape apm slow afe afm mrd cto paramsStatus st unpaused now))
                  (initFailState pods failed0 paused0 reason0 unpaused),
                 { st with
                   conds := finalConds paramsStatus st now
                     (pods.foldl (failStep (mkFailCfg ape apm slow afe afm mrd cto paramsStatus st unpaused now))
                       (initFailState pods failed0 paused0 reason0 unpaused)),
                   status := if (pods.foldl (failStep (mkFailCfg ape apm slow afe afm mrd cto paramsStatus st unpaused now))
                       (initFailState pods failed0 paused0 reason0 unpaused)).isFailed then "canary-failed"
                     else st.status })) = some (s, st') := h
  clear h
  split at h'
  · exact absurd h' (by simp)
  · rename_i hpan
    injection h' with h
    injection h with h1 h2
    subst h1
    refine ⟨rfl, by simpa using hpan, ?_⟩
    subst h2
    rfl

theorem specCfg_mkFailCfg (ape : Bool) (apm : Int) (slow : Option Dur) (afe : Bool) (afm : Int)
    (mrd cto : Option Dur) (paramsStatus st : ERSStatus) (unpaused : Bool) (now : Time) :
    specCfg (mkFailCfg ape apm slow afe afm mrd cto paramsStatus st unpaused now) =
      { autoPauseEnabled := ape, autoPauseMaxRestarts := apm, maxSlowStart := slow, autoFailEnabled := afe,
        autoFailMaxRestarts := afm, maxRestartsDuration := mrd, canaryTimeout := cto } := rfl

theorem cfgSpan_mkFailCfg (ape : Bool) (apm : Int) (slow : Option Dur) (afe : Bool) (afm : Int)
    (mrd cto : Option Dur) (paramsStatus st : ERSStatus) (unpaused : Bool) (now : Time) :
    cfgSpan (mkFailCfg ape apm slow afe afm mrd cto paramsStatus st unpaused now) =
      (findCond paramsStatus.conds "PodRestarting").map (fun rc => rc.lastUpdate - rc.lastTransition) := by
  unfold cfgSpan mkFailCfg
  cases findCond paramsStatus.conds "PodRestarting" <;> rfl

theorem cfgAge_mkFailCfg (ape : Bool) (apm : Int) (slow : Option Dur) (afe : Bool) (afm : Int)
    (mrd cto : Option Dur) (paramsStatus st : ERSStatus) (unpaused : Bool) (now : Time) :
    cfgAge (mkFailCfg ape apm slow afe afm mrd cto paramsStatus st unpaused now) =
      (findCond st.conds "Canary").map (fun c => now - c.lastTransition) := by
  unfold cfgAge mkFailCfg
  cases findCond st.conds "Canary" <;> rfl

theorem finalConds_failed (paramsStatus st : ERSStatus) (now : Time) (s : FailState) :
    isCondTrue (finalConds paramsStatus st now s) "Canary-Failed" = s.isFailed := by
  unfold finalConds
  simp only []
  generalize (match findCond paramsStatus.conds "PodRestarting" with
    | some rc => rc.lastUpdate | none => zeroTime) = lr
  rw [isCondTrue_updateCond_other _ _ _ _ _ _ _ _ _ (by decide)]
  split
  · rw [isCondTrue_updateCond_other _ _ _ _ _ _ _ _ _ (by decide),
      isCondTrue_updateCond_other _ _ _ _ _ _ _ _ _ (by decide), isCondTrue_updateCond_same]
  · rw [isCondTrue_updateCond_other _ _ _ _ _ _ _ _ _ (by decide), isCondTrue_updateCond_same]

theorem finalConds_paused (paramsStatus st : ERSStatus) (now : Time) (s : FailState) :
    isCondTrue (finalConds paramsStatus st now s) "Canary-Paused" = s.isPaused := by
  unfold finalConds
  simp only []
  generalize (match findCond paramsStatus.conds "PodRestarting" with
    | some rc => rc.lastUpdate | none => zeroTime) = lr
  rw [isCondTrue_updateCond_other _ _ _ _ _ _ _ _ _ (by decide)]
  split
  · rw [isCondTrue_updateCond_other _ _ _ _ _ _ _ _ _ (by decide), isCondTrue_updateCond_same]
  · rw [isCondTrue_updateCond_same]

end Eds
