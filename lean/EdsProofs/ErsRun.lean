import EdsProofs.ReconcileErs
/-
  EdsProofs.ErsRun — histories of ONE replica set: a list of syncs of the replica-set controller,
  the status written by sync k being the status read by sync k+1.

  * `Sync`            — what one `Reconcile` of the replica set reads besides the replica set itself:
                        the store (EDSs with their status, nodes, pods, settings, daemonsets), the
                        failed-pod back-off oracle, the affinity mode and the clock.  Every field is
                        free per sync: between two syncs the rest of the world (the EDS controller,
                        the kubelet, the syncs of other replica sets, users) may rewrite the store
                        arbitrarily.  The replica set's own `status` is NOT part of the store: the
                        only writer of an ERS status is the sync of that ERS (`ErsWrites.statusUpdate`),
                        so no other sync can touch it;
  * `stepErs`, `runErs` — apply the status write of a sync / of a list of syncs;
  * `stepErs_cases`   — the three shapes of a step: status untouched (no owner, gated, early error,
                        or nothing to write), the not-defaulted write (ReconcileError only), a full run;
  * `ersFinish_findCond` — a full run leaves every condition type that `Reconcile` itself does not
                        manage exactly as the strategy returned it.
-/
namespace Eds

/-- the inputs of one sync of a replica set, apart from the replica set itself. -/
structure Sync where
  st : ErsStore
  released : String → Bool := fun _ => true
  aff : Bool := true
  now : Time

/-- the writes the sync issues when it reads the replica set `rs`. -/
def Sync.run (s : Sync) (rs : ERS) : ErsWrites := reconcileErs rs s.st s.released s.aff s.now

/-- the replica set after the sync's status write has been applied (`statusUpdate = none`: the sync
found the status current and wrote nothing). -/
def stepErs (rs : ERS) (s : Sync) : ERS := { rs with status := (s.run rs).statusUpdate.getD rs.status }

/-- the replica set after a list of syncs, each reading the status the previous one left. -/
def runErs (rs : ERS) : List Sync → ERS
  | [] => rs
  | s :: ss => runErs (stepErs rs s) ss

@[simp] theorem runErs_nil (rs : ERS) : runErs rs [] = rs := rfl
@[simp] theorem runErs_cons (rs : ERS) (s : Sync) (ss : List Sync) :
    runErs rs (s :: ss) = runErs (stepErs rs s) ss := rfl

theorem runErs_append (rs : ERS) (ss ts : List Sync) :
    runErs rs (ss ++ ts) = runErs (runErs rs ss) ts := by
  induction ss generalizing rs with
  | nil => rfl
  | cons s ss ih => simp only [List.cons_append, runErs_cons, ih]

theorem runErs_snoc (rs : ERS) (ss : List Sync) (s : Sync) :
    runErs rs (ss ++ [s]) = stepErs (runErs rs ss) s := by
  rw [runErs_append]; rfl

/-- the state read by sync number `j` extends the one read by sync number `i ≤ j` by the syncs in between. -/
theorem runErs_take_le (rs : ERS) (ss : List Sync) (i j : Nat) (h : i ≤ j) :
    runErs rs (ss.take j) = runErs (runErs rs (ss.take i)) ((ss.drop i).take (j - i)) := by
  rw [← runErs_append]
  congr 1
  have : j = i + (j - i) := by omega
  conv => lhs; rw [this, List.take_add]

theorem take_succ_eq_snoc {α} (l : List α) (k : Nat) (h : k < l.length) :
    l.take (k + 1) = l.take k ++ [l[k]] := by
  rw [List.take_add_one]
  simp [List.getElem?_eq_getElem h]

/-- only the status changes. -/
theorem stepErs_name (rs : ERS) (s : Sync) : (stepErs rs s).name = rs.name := rfl
theorem stepErs_ns (rs : ERS) (s : Sync) : (stepErs rs s).ns = rs.ns := rfl
theorem stepErs_ownerEds (rs : ERS) (s : Sync) : (stepErs rs s).ownerEds = rs.ownerEds := rfl

theorem ersOwner_stepErs (rs : ERS) (s : Sync) (st : ErsStore) : ersOwner (stepErs rs s) st = ersOwner rs st := rfl

theorem runErs_name (rs : ERS) (ss : List Sync) : (runErs rs ss).name = rs.name := by
  induction ss generalizing rs with
  | nil => rfl
  | cons s ss ih => rw [runErs_cons, ih, stepErs_name]

theorem ersOwner_runErs (rs : ERS) (ss : List Sync) (st : ErsStore) : ersOwner (runErs rs ss) st = ersOwner rs st := by
  induction ss generalizing rs with
  | nil => rfl
  | cons s ss ih => rw [runErs_cons, ih, ersOwner_stepErs]

/-! ### The status after one step -/

theorem getD_ite_bne {α} [BEq α] [LawfulBEq α] (a b : α) :
    (if (a != b) = true then some a else none).getD b = a := by
  by_cases h : a = b
  · subst h; simp
  · have : (a != b) = true := by simpa using h
    rw [if_pos this]; rfl

theorem findCond_ite_updateCond_other (c : Prop) [Decidable c] (cs : List Cond) (now : Time)
    (t t' status reason desc : String) (w sl : Bool) (hne : t' ≠ t) :
    findCond (if c then updateCond cs now t' status reason desc w sl else cs) t = findCond cs t := by
  split
  · exact findCond_updateCond_other cs now t t' status reason desc w sl hne
  · rfl

/-- **A full run keeps what the strategy returned** for every condition type `Reconcile` does not
manage itself (it manages PodsCleanupDone, Unschedule, PodDeletion, PodCreation, ReconcileError and
LastFullSync): the status the next sync reads — written, or found current — has the strategy's
condition of type `t`. -/
theorem ersFinish_findCond (rs : ERS) (role : String) (freq : Dur) (sp : StratParams) (r : StratResult)
    (adds removes : List String) (se : Bool) (st0 : ERSStatus) (aff : Bool) (now : Time) (t : String)
    (h1 : "PodsCleanupDone" ≠ t) (h2 : "Unschedule" ≠ t) (h3 : "PodDeletion" ≠ t) (h4 : "PodCreation" ≠ t)
    (h5 : "ReconcileError" ≠ t) (h6 : "LastFullSync" ≠ t) :
    findCond ((ersFinish rs role freq sp r adds removes se st0 aff now).statusUpdate.getD rs.status).conds t
      = findCond st0.conds t := by
  unfold ersFinish
  simp only []
  rw [getD_ite_bne]
  simp only []
  rw [findCond_updateCond_other _ _ _ _ _ _ _ _ _ h6, findCond_updateCond_other _ _ _ _ _ _ _ _ _ h5,
    findCond_ite_updateCond_other _ _ _ _ _ _ _ _ _ _ h4, findCond_ite_updateCond_other _ _ _ _ _ _ _ _ _ _ h3,
    findCond_updateCond_other _ _ _ _ _ _ _ _ _ h2, findCond_ite_updateCond_other _ _ _ _ _ _ _ _ _ _ h1]

/-- the not-defaulted sync only touches ReconcileError. -/
theorem ersNotDefaulted_findCond (rs : ERS) (now : Time) (t : String) (h : "ReconcileError" ≠ t) :
    findCond ((ersNotDefaulted rs now).statusUpdate.getD rs.status).conds t = findCond rs.status.conds t := by
  unfold ersNotDefaulted
  simp only []
  rw [getD_ite_bne]
  exact findCond_updateCond_other _ _ _ _ _ _ _ _ _ h

/-- **The three shapes of a step.** -/
theorem stepErs_cases (rs : ERS) (s : Sync) :
    (stepErs rs s).status = rs.status ∨
    (∃ d, ersOwner rs s.st = some d ∧ isDefaulted d.strategy d.templateName = false ∧
      (stepErs rs s).status = (ersNotDefaulted rs s.now).statusUpdate.getD rs.status) ∨
    (∃ d items r adds removes se st0, ersOwner rs s.st = some d ∧
      FullRun d rs s.st s.released s.aff s.now (s.run rs) items r adds removes se st0) := by
  cases ho : ersOwner rs s.st with
  | none =>
    left
    show (s.run rs).statusUpdate.getD rs.status = rs.status
    unfold Sync.run
    rw [reconcileErs_no_owner rs s.st s.released s.aff s.now ho]; rfl
  | some d =>
    have heq : s.run rs = ersBody d rs s.st s.released s.aff s.now := reconcileErs_eq rs s.st s.released s.aff s.now d ho
    rcases ersBody_cases d rs s.st s.released s.aff s.now with h | ⟨hd, h⟩ | ⟨_, _, h⟩ | ⟨items, r, adds, removes, se, st0, F⟩
    · left
      show (s.run rs).statusUpdate.getD rs.status = rs.status
      rw [heq, h]; rfl
    · right; left
      refine ⟨d, rfl, hd, ?_⟩
      show (s.run rs).statusUpdate.getD rs.status = _
      rw [heq, h]
    · left
      show (s.run rs).statusUpdate.getD rs.status = rs.status
      rw [heq, h]; rfl
    · right; right
      exact ⟨d, items, r, adds, removes, se, st0, rfl, heq ▸ F⟩

/-! ### Condition types the strategies do not touch -/

theorem preConds_findCond (role : String) (conds : List Cond) (now : Time) (t : String)
    (h1 : "Canary" ≠ t) (h2 : "Canary-Paused" ≠ t) (h3 : "Canary-Failed" ≠ t) (h4 : "Active" ≠ t) :
    findCond (preConds role conds now) t = findCond conds t := by
  unfold preConds
  split
  · simp only []
    rw [findCond_updateCond_other _ _ _ _ _ _ _ _ _ h3, findCond_updateCond_other _ _ _ _ _ _ _ _ _ h2,
      findCond_updateCond_other _ _ _ _ _ _ _ _ _ h1]
  · split
    · simp only []
      rw [findCond_updateCond_other _ _ _ _ _ _ _ _ _ h4, findCond_updateCond_other _ _ _ _ _ _ _ _ _ h1]
    · simp only []
      rw [findCond_updateCond_other _ _ _ _ _ _ _ _ _ h4, findCond_updateCond_other _ _ _ _ _ _ _ _ _ h1]

/-- outside the active role `applyStrategy` leaves Canary-Failed (and Canary-Paused) alone. -/
theorem preConds_findCond_nonactive (role : String) (conds : List Cond) (now : Time) (t : String)
    (hr : role ≠ "active") (h1 : "Canary" ≠ t) (h4 : "Active" ≠ t) :
    findCond (preConds role conds now) t = findCond conds t := by
  unfold preConds
  have : ¬ (role == "active") = true := by simpa using hr
  rw [if_neg this]
  split
  · simp only []
    rw [findCond_updateCond_other _ _ _ _ _ _ _ _ _ h4, findCond_updateCond_other _ _ _ _ _ _ _ _ _ h1]
  · simp only []
    rw [findCond_updateCond_other _ _ _ _ _ _ _ _ _ h4, findCond_updateCond_other _ _ _ _ _ _ _ _ _ h1]

theorem rollingConds_findCond (p : StratParams) (now : Time) (t : String)
    (h1 : "RollingUpdatePaused" ≠ t) (h2 : "RolloutFrozen" ≠ t) (h3 : "Active" ≠ t) :
    findCond (rollingConds p now) t = findCond p.newStatus.conds t := by
  unfold rollingConds
  simp only []
  rw [findCond_updateCond_other _ _ _ _ _ _ _ _ _ h3, findCond_updateCond_other _ _ _ _ _ _ _ _ _ h2,
    findCond_updateCond_other _ _ _ _ _ _ _ _ _ h1]

/-- the status `ManageDeployment` returns keeps every condition type it does not manage. -/
theorem manageDeployment_findCond (p : StratParams) (now wall : Time) (cf : Bool) (r : StratResult)
    (st0 : ERSStatus) (h : manageDeployment p now wall cf = .ok r) (hs : r.newStatus = some st0) (t : String)
    (h1 : "RollingUpdatePaused" ≠ t) (h2 : "RolloutFrozen" ≠ t) (h3 : "Active" ≠ t) (h4 : "PodsCleanupDone" ≠ t) :
    findCond st0.conds t = findCond p.newStatus.conds t := by
  unfold manageDeployment at h
  simp only [] at h
  split at h
  · simp at h
  · split at h
    · simp at h
    · split at h
      · simp at h
      · simp at h
      · injection h with h
        rw [← h] at hs
        simp only [Option.some.injEq] at hs
        rw [← hs]
        split
        · simp only []
          rw [findCond_updateCond_other _ _ _ _ _ _ _ _ _ h3, findCond_updateCond_other _ _ _ _ _ _ _ _ _ h2,
            findCond_updateCond_other _ _ _ _ _ _ _ _ _ h1]
        · simp only []
          rw [findCond_updateCond_other _ _ _ _ _ _ _ _ _ h4,
            findCond_updateCond_other _ _ _ _ _ _ _ _ _ h3, findCond_updateCond_other _ _ _ _ _ _ _ _ _ h2,
            findCond_updateCond_other _ _ _ _ _ _ _ _ _ h1]

theorem manageUnknown_conds (p : StratParams) (wall : Time) (st0 : ERSStatus)
    (hs : (manageUnknown p wall).newStatus = some st0) : st0.conds = p.newStatus.conds := by
  unfold manageUnknown at hs
  simp only [Option.some.injEq] at hs
  rw [← hs]

end Eds
