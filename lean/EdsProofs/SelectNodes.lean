import EdsModel
import EdsSpec.C15
/-
  EdsProofs.SelectNodes — helper lemmas about `selectNodes` (EdsModel/EdsCtl.lean):

  * `listed` / `mem_listed`          — the nodes that pass the canary node selector;
  * `insertByKey_*` / `sortByRestarts_*` — the insertion sort is a sorted permutation of its input;
  * `filt*`                          — the first loop (drop previously selected names that are listed
                                       but no longer fit): it only erases, only names of listed unfit
                                       nodes, and erases all of them when the names are distinct;
  * `selStep` / `selFold*`           — the second loop (select additional nodes): it only appends, only
                                       names of listed fit nodes that are not in the list yet, and
                                       never beyond the request;
  * `lookupCount_*` / `incr_*` / `selFold_spread` / `c0Fold_spec` — the anti-affinity counters: a class
                                       is never filled beyond `⌈nb / #classes⌉` by the loop;
  * `selectNodes_eq` / `selectNodes_shape` — `selectNodes` in terms of the above.
-/
namespace Eds
namespace Sel

/-! ### the canary node selector -/

/-- the node matches the canary node selector (the clause of `Spec.C15.validNode`). -/
def selOk (c : Canary) (n : Node) : Bool :=
  match c.nodeSelector with
  | some sel => (labelSelectorMatches sel n.labels).getD true
  | none => true

/-- the nodes `selectNodes` lists. -/
def listed (c : Canary) (nodes : List Node) : List Node :=
  match c.nodeSelector with
  | some sel =>
    (match labelSelectorMatches sel [] with
     | none => nodes
     | some _ => nodes.filter (fun n => (labelSelectorMatches sel n.labels).getD false))
  | none => nodes

/-- whether a selector converts does not depend on the labels it is applied to. -/
theorem labelSelectorMatches_isNone (sel : LabelSelector) (ls ls' : SMap) :
    (labelSelectorMatches sel ls).isNone = (labelSelectorMatches sel ls').isNone := by
  unfold labelSelectorMatches
  simp only []
  split <;> simp

theorem mem_listed {c : Canary} {nodes : List Node} {n : Node} :
    n ∈ listed c nodes ↔ n ∈ nodes ∧ selOk c n = true := by
  unfold listed selOk
  cases hs : c.nodeSelector with
  | none => simp
  | some sel =>
    simp only []
    have hiso := labelSelectorMatches_isNone sel [] n.labels
    cases h0 : labelSelectorMatches sel [] with
    | none =>
      rw [h0] at hiso
      cases hn : labelSelectorMatches sel n.labels with
      | none => simp
      | some b => rw [hn] at hiso; simp at hiso
    | some b0 =>
      rw [h0] at hiso
      cases hn : labelSelectorMatches sel n.labels with
      | none => rw [hn] at hiso; simp at hiso
      | some b => simp [List.mem_filter, hn]

theorem listed_sublist (c : Canary) (nodes : List Node) : (listed c nodes).Sublist nodes := by
  unfold listed
  split
  · split
    · exact List.Sublist.refl _
    · exact List.filter_sublist
  · exact List.Sublist.refl _

theorem listed_names_nodup {c : Canary} {nodes : List Node} (h : (nodes.map (·.name)).Nodup) :
    ((listed c nodes).map (·.name)).Nodup :=
  List.Nodup.sublist (List.Sublist.map _ (listed_sublist c nodes)) h

theorem eq_of_name_eq {l : List Node} (h : (l.map (·.name)).Nodup) {a b : Node}
    (ha : a ∈ l) (hb : b ∈ l) (hn : a.name = b.name) : a = b := by
  induction l with
  | nil => cases ha
  | cons q rest ih =>
    simp only [List.map_cons, List.nodup_cons, List.mem_map, not_exists, not_and] at h
    simp only [List.mem_cons] at ha hb
    rcases ha with rfl | ha <;> rcases hb with rfl | hb
    · rfl
    · exact absurd hn.symm (h.1 b hb)
    · exact absurd hn (h.1 a ha)
    · exact ih h.2 ha hb

/-- `Spec.C15.validNode` spelled out. -/
theorem validNode_iff {t : Template} {c : Canary} {nodes : List Node} {x : String} :
    Spec.C15.validNode t c nodes x = true ↔ ∃ n ∈ listed c nodes, n.name = x ∧ fit t n = true := by
  unfold Spec.C15.validNode
  simp only [List.any_eq_true, Bool.and_eq_true, beq_iff_eq]
  constructor
  · rintro ⟨n, hn, ⟨hname, hfit⟩, hsel⟩
    exact ⟨n, mem_listed.mpr ⟨hn, hsel⟩, hname, hfit⟩
  · rintro ⟨n, hn, hname, hfit⟩
    obtain ⟨hn', hsel⟩ := mem_listed.mp hn
    exact ⟨n, hn', ⟨hname, hfit⟩, hsel⟩

/-! ### the sort -/

theorem insertByKey_perm (key : Node → Int) (n : Node) (l : List Node) :
    (insertByKey key n l).Perm (n :: l) := by
  induction l with
  | nil => exact List.Perm.refl _
  | cons q rest ih =>
    unfold insertByKey
    split
    · exact List.Perm.refl _
    · exact ((List.perm_cons q).mpr ih).trans (List.Perm.swap n q rest)

theorem insertByKey_sorted (key : Node → Int) (n : Node) {l : List Node}
    (h : l.Pairwise (fun a b => key a ≤ key b)) :
    (insertByKey key n l).Pairwise (fun a b => key a ≤ key b) := by
  induction l with
  | nil => simp [insertByKey]
  | cons q rest ih =>
    rw [List.pairwise_cons] at h
    unfold insertByKey
    split
    · rename_i hle
      rw [List.pairwise_cons]
      refine ⟨?_, List.pairwise_cons.mpr h⟩
      intro x hx
      rcases List.mem_cons.mp hx with rfl | hx
      · exact hle
      · exact Int.le_trans hle (h.1 x hx)
    · rename_i hnle
      rw [List.pairwise_cons]
      refine ⟨?_, ih h.2⟩
      intro x hx
      rcases List.mem_cons.mp ((insertByKey_perm key n rest).mem_iff.mp hx) with rfl | hx
      · omega
      · exact h.1 x hx

/-- **the sort is a permutation** of the listed nodes. -/
theorem sortByRestarts_perm (pods : List Pod) (l : List Node) : (sortByRestarts pods l).Perm l := by
  induction l with
  | nil => exact List.Perm.refl _
  | cons q rest ih =>
    show (insertByKey _ q (sortByRestarts pods rest)).Perm (q :: rest)
    exact (insertByKey_perm _ q _).trans ((List.perm_cons q).mpr ih)

theorem mem_sortByRestarts {pods : List Pod} {l : List Node} {n : Node} :
    n ∈ sortByRestarts pods l ↔ n ∈ l :=
  (sortByRestarts_perm pods l).mem_iff

/-- **the sort is sorted** by restart count. -/
theorem sortByRestarts_sorted (pods : List Pod) (l : List Node) :
    (sortByRestarts pods l).Pairwise
      (fun a b => nodeRestarts pods a.name ≤ nodeRestarts pods b.name) := by
  induction l with
  | nil => exact List.Pairwise.nil
  | cons q rest ih =>
    exact insertByKey_sorted (fun m => nodeRestarts pods m.name) q ih

theorem sortByRestarts_names_nodup {pods : List Pod} {l : List Node} (h : (l.map (·.name)).Nodup) :
    ((sortByRestarts pods l).map (·.name)).Nodup :=
  ((sortByRestarts_perm pods l).map _).nodup_iff.mpr h

/-! ### the first loop: dropping names of listed nodes that no longer fit -/

def filtStep (t : Template) (cur : List String) (n : Node) : List String :=
  if cur.contains n.name && !fit t n then cur.erase n.name else cur

def filt (t : Template) (l : List Node) (cur : List String) : List String :=
  l.foldl (filtStep t) cur

theorem filtStep_sublist (t : Template) (cur : List String) (n : Node) :
    (filtStep t cur n).Sublist cur := by
  unfold filtStep
  split
  · exact List.erase_sublist
  · exact List.Sublist.refl _

theorem filt_sublist (t : Template) (l : List Node) (cur : List String) :
    (filt t l cur).Sublist cur := by
  induction l generalizing cur with
  | nil => exact List.Sublist.refl _
  | cons n rest ih =>
    show (filt t rest (filtStep t cur n)).Sublist cur
    exact (ih _).trans (filtStep_sublist t cur n)

theorem filt_subset {t : Template} {l : List Node} {cur : List String} {x : String}
    (h : x ∈ filt t l cur) : x ∈ cur := (filt_sublist t l cur).subset h

theorem filt_nodup {t : Template} {l : List Node} {cur : List String} (h : cur.Nodup) :
    (filt t l cur).Nodup := List.Nodup.sublist (filt_sublist t l cur) h

theorem filt_length_le (t : Template) (l : List Node) (cur : List String) :
    (filt t l cur).length ≤ cur.length := (filt_sublist t l cur).length_le

/-- a name only disappears because a listed node of that name is unfit. -/
theorem filt_removed {t : Template} {l : List Node} {cur : List String} {x : String}
    (hx : x ∈ cur) (hnx : x ∉ filt t l cur) : ∃ n ∈ l, n.name = x ∧ fit t n = false := by
  induction l generalizing cur with
  | nil => exact absurd hx hnx
  | cons n rest ih =>
    have hnx' : x ∉ filt t rest (filtStep t cur n) := hnx
    by_cases hmem : x ∈ filtStep t cur n
    · obtain ⟨m, hm, h⟩ := ih hmem hnx'
      exact ⟨m, List.mem_cons_of_mem n hm, h⟩
    · refine ⟨n, List.mem_cons_self, ?_⟩
      unfold filtStep at hmem
      split at hmem
      · rename_i hc
        simp only [Bool.and_eq_true, Bool.not_eq_true'] at hc
        refine ⟨?_, hc.2⟩
        apply Decidable.byContradiction
        intro hne
        exact hmem ((List.mem_erase_of_ne (fun h => hne h.symm)).mpr hx)
      · exact absurd hx hmem

/-- with a duplicate-free list, every name of a listed unfit node is gone after the loop. -/
theorem filt_unfit_gone {t : Template} {l : List Node} {cur : List String} (hnd : cur.Nodup)
    {n : Node} (hn : n ∈ l) (hfit : fit t n = false) : n.name ∉ filt t l cur := by
  induction l generalizing cur with
  | nil => cases hn
  | cons m rest ih =>
    have hnd' : (filtStep t cur m).Nodup := List.Nodup.sublist (filtStep_sublist t cur m) hnd
    rcases List.mem_cons.mp hn with rfl | hn
    · intro hmem
      have hmem' : n.name ∈ filtStep t cur n := filt_subset hmem
      unfold filtStep at hmem'
      split at hmem'
      · exact (List.Nodup.mem_erase_iff hnd).mp hmem' |>.1 rfl
      · rename_i hc
        simp only [Bool.and_eq_true, Bool.not_eq_true', not_and, Bool.not_eq_false] at hc
        have : fit t n = true := hc (by simpa using hmem')
        rw [hfit] at this; cases this
    · exact ih hnd' hn

/-- a name that is not the name of a listed unfit node stays. -/
theorem filt_kept {t : Template} {l : List Node} {cur : List String} {x : String}
    (hx : x ∈ cur) (h : ∀ n ∈ l, n.name = x → fit t n = true) : x ∈ filt t l cur := by
  apply Decidable.byContradiction
  intro hnx
  obtain ⟨n, hn, hname, hfit⟩ := filt_removed hx hnx
  rw [h n hn hname] at hfit
  cases hfit

/-! ### the second loop: selecting additional nodes -/

/-- the anti-affinity test of the selection loop: the value class of `n` is full. -/
def skip (keys : List String) (nb : Int) (s : SelState) (n : Node) : Bool :=
  !keys.isEmpty && lookupCount s.counts (antiAffinityValue keys n) >=
    Int.tdiv (nb + (s.counts.length : Int) - 1) (s.counts.length : Int)

def selStep (t : Template) (keys : List String) (nb : Int) (s : SelState) (n : Node) : SelState :=
  if s.done then s
  else if s.current.contains n.name then s
  else if skip keys nb s n then s
  else
    { current := if fit t n then s.current ++ [n.name] else s.current,
      counts := if keys.isEmpty then s.counts else incr s.counts (antiAffinityValue keys n),
      done := ((if fit t n then s.current ++ [n.name] else s.current).length : Int) == nb }

theorem skip_nil (nb : Int) (s : SelState) (n : Node) : skip [] nb s n = false := by
  simp [skip]

def selFold (t : Template) (keys : List String) (nb : Int) (l : List Node) (s : SelState) : SelState :=
  l.foldl (selStep t keys nb) s

def counts0 (keys : List String) (sorted : List Node) (current : List String) : List (String × Int) :=
  if keys.isEmpty then [] else
  sorted.foldl (fun (m : List (String × Int)) n =>
    let v := antiAffinityValue keys n
    let m := if m.any (fun e => e.1 == v) then m else m ++ [(v, 0)]
    if current.contains n.name then incr m v else m) []

/-- `selectNodes` in terms of the two loops. -/
theorem selectNodes_eq (t : Template) (c : Canary) (base : Int) (cur : List String) (pods : List Pod)
    (nodes : List Node) {nb : Int} (h : resolveIntOrPercent c.replicas base = some nb) :
    selectNodes t c base cur pods nodes =
      .ok ((if ((filt t (sortByRestarts pods (listed c nodes)) cur).length : Int) < nb then
              (selFold t c.antiAffinityKeys nb (sortByRestarts pods (listed c nodes))
                { current := filt t (sortByRestarts pods (listed c nodes)) cur,
                  counts := counts0 c.antiAffinityKeys (sortByRestarts pods (listed c nodes))
                    (filt t (sortByRestarts pods (listed c nodes)) cur) }).current
            else filt t (sortByRestarts pods (listed c nodes)) cur),
           decide (((if ((filt t (sortByRestarts pods (listed c nodes)) cur).length : Int) < nb then
              (selFold t c.antiAffinityKeys nb (sortByRestarts pods (listed c nodes))
                { current := filt t (sortByRestarts pods (listed c nodes)) cur,
                  counts := counts0 c.antiAffinityKeys (sortByRestarts pods (listed c nodes))
                    (filt t (sortByRestarts pods (listed c nodes)) cur) }).current
            else filt t (sortByRestarts pods (listed c nodes)) cur).length : Int) < nb)) := by
  unfold selectNodes
  simp only [h]
  rfl

theorem selectNodes_err_iff (t : Template) (c : Canary) (base : Int) (cur : List String) (pods : List Pod)
    (nodes : List Node) (h : resolveIntOrPercent c.replicas base = none) :
    selectNodes t c base cur pods nodes = .err "replicas" := by
  unfold selectNodes
  simp only [h]

/-- what one step of the selection loop does to the list. -/
theorem selStep_cases (t : Template) (keys : List String) (nb : Int) (s : SelState) (n : Node) :
    selStep t keys nb s n = s ∨
    ((selStep t keys nb s n).current = s.current ∧ s.done = false ∧ fit t n = false ∧
      (selStep t keys nb s n).done = ((s.current.length : Int) == nb)) ∨
    (s.done = false ∧ n.name ∉ s.current ∧ fit t n = true ∧
      (selStep t keys nb s n).current = s.current ++ [n.name] ∧
      (selStep t keys nb s n).done = (((s.current.length : Int) + 1) == nb)) := by
  unfold selStep
  cases hd : s.done with
  | true => exact Or.inl (by simp)
  | false =>
    cases hc : s.current.contains n.name with
    | true => exact Or.inl (by simp)
    | false =>
      cases hk : skip keys nb s n with
      | true => exact Or.inl (by simp)
      | false =>
        have hnot : n.name ∉ s.current := by simpa using hc
        cases hf : fit t n with
        | false => exact Or.inr (Or.inl (by simp))
        | true => exact Or.inr (Or.inr ⟨rfl, hnot, rfl, by simp, by simp⟩)

theorem selFold_cons (t : Template) (keys : List String) (nb : Int) (n : Node) (l : List Node) (s : SelState) :
    selFold t keys nb (n :: l) s = selFold t keys nb l (selStep t keys nb s n) := rfl

theorem selFold_done (t : Template) (keys : List String) (nb : Int) (l : List Node) (s : SelState)
    (h : s.done = true) : selFold t keys nb l s = s := by
  induction l with
  | nil => rfl
  | cons n rest ih =>
    rw [selFold_cons]
    have : selStep t keys nb s n = s := by unfold selStep; simp [h]
    rw [this, ih]

/-- the selection loop only appends, and what it appends are names — new to the list and pairwise
distinct — of fit nodes of the list it runs over. -/
theorem selFold_shape (t : Template) (keys : List String) (nb : Int) (l : List Node) (s : SelState) :
    ∃ add : List String, (selFold t keys nb l s).current = s.current ++ add ∧ add.Nodup ∧
      (∀ y ∈ add, y ∉ s.current) ∧ (∀ y ∈ add, ∃ n ∈ l, n.name = y ∧ fit t n = true) := by
  induction l generalizing s with
  | nil => exact ⟨[], by simp [selFold], List.nodup_nil, by simp, by simp⟩
  | cons n rest ih =>
    rw [selFold_cons]
    obtain ⟨add, hcur, hnd, hnew, hfrom⟩ := ih (selStep t keys nb s n)
    have hfrom' : ∀ y ∈ add, ∃ m ∈ n :: rest, m.name = y ∧ fit t m = true := by
      intro y hy
      obtain ⟨m, hm, h⟩ := hfrom y hy
      exact ⟨m, List.mem_cons_of_mem n hm, h⟩
    rcases selStep_cases t keys nb s n with h | ⟨h, -⟩ | ⟨-, hnot, hfit, h, -⟩
    · rw [h] at hcur hnew ⊢
      exact ⟨add, hcur, hnd, hnew, hfrom'⟩
    · rw [h] at hcur hnew
      exact ⟨add, hcur, hnd, hnew, hfrom'⟩
    · rw [h] at hcur hnew
      refine ⟨n.name :: add, by rw [hcur]; simp, ?_, ?_, ?_⟩
      · rw [List.nodup_cons]
        refine ⟨fun hmem => ?_, hnd⟩
        exact hnew _ hmem (by simp)
      · intro y hy
        rcases List.mem_cons.mp hy with rfl | hy
        · exact hnot
        · intro hmem
          exact hnew y hy (List.mem_append_left _ hmem)
      · intro y hy
        rcases List.mem_cons.mp hy with rfl | hy
        · exact ⟨n, List.mem_cons_self, rfl, hfit⟩
        · exact hfrom' y hy

/-- the loop's length invariant. -/
def LenInv (nb : Int) (s : SelState) : Prop :=
  (s.current.length : Int) ≤ nb ∧ (s.done = false → (s.current.length : Int) < nb)

theorem selStep_lenInv {t : Template} {keys : List String} {nb : Int} {s : SelState} (n : Node)
    (h : LenInv nb s) : LenInv nb (selStep t keys nb s n) := by
  rcases selStep_cases t keys nb s n with h' | ⟨hc, hd, -, hdone⟩ | ⟨hd, -, -, hc, hdone⟩
  · rw [h']; exact h
  · have hlt := h.2 hd
    refine ⟨by rw [hc]; exact h.1, fun _ => by rw [hc]; exact hlt⟩
  · have hlt := h.2 hd
    have hlen : ((selStep t keys nb s n).current.length : Int) = (s.current.length : Int) + 1 := by
      rw [hc]; simp
    refine ⟨by omega, fun hf => ?_⟩
    rw [hdone] at hf
    have : ¬ ((s.current.length : Int) + 1 = nb) := by simpa using hf
    omega

theorem selFold_lenInv {t : Template} {keys : List String} {nb : Int} (l : List Node) {s : SelState}
    (h : LenInv nb s) : LenInv nb (selFold t keys nb l s) := by
  induction l generalizing s with
  | nil => exact h
  | cons n rest ih => rw [selFold_cons]; exact ih (selStep_lenInv n h)

/-- **preference** (no anti-affinity keys): run over a list sorted by restart count, every name the
loop adds has at most the restart count of any fit node of the list that is left out. -/
theorem selFold_least_restarts (t : Template) (nb : Int) (pods : List Pod) (l : List Node) (s : SelState)
    (hs : l.Pairwise (fun a b => nodeRestarts pods a.name ≤ nodeRestarts pods b.name)) :
    ∀ y ∈ (selFold t [] nb l s).current, y ∉ s.current →
      ∀ z ∈ l, fit t z = true → z.name ∉ (selFold t [] nb l s).current →
        nodeRestarts pods y ≤ nodeRestarts pods z.name := by
  induction l generalizing s with
  | nil => intro y _ _ z hz; cases hz
  | cons n rest ih =>
    rw [List.pairwise_cons] at hs
    intro y hy hny z hz hzfit hzout
    rw [selFold_cons] at hy hzout
    obtain ⟨add, hadd, -, -, -⟩ := selFold_shape t [] nb rest (selStep t [] nb s n)
    by_cases hy' : y ∈ (selStep t [] nb s n).current
    · -- `y` is added at this very step: it is the head of the sorted list
      rcases selStep_cases t [] nb s n with h | ⟨h, -⟩ | ⟨-, -, -, h, -⟩
      · rw [h] at hy'; exact absurd hy' hny
      · rw [h] at hy'; exact absurd hy' hny
      · rw [h] at hy'
        rcases List.mem_append.mp hy' with hy' | hy'
        · exact absurd hy' hny
        · have hyn : y = n.name := by simpa using hy'
          subst hyn
          rcases List.mem_cons.mp hz with rfl | hz
          · exact Int.le_refl _
          · exact hs.1 z hz
    · rcases List.mem_cons.mp hz with rfl | hz
      · -- the head is fit and left out although something is added later: impossible
        exfalso
        have hzout' : z.name ∉ (selStep t [] nb s z).current := fun hm =>
          hzout (by rw [hadd]; exact List.mem_append_left _ hm)
        by_cases hd : (selStep t [] nb s z).done = true
        · rw [selFold_done _ _ _ _ _ hd] at hy
          exact hy' hy
        · -- not done after the step, so not done before, the name is new, nothing is skipped
          unfold selStep at hzout' hd
          by_cases hd0 : s.done = true
          · simp [hd0] at hd
          · by_cases hc : s.current.contains z.name = true
            · simp only [hd0, hc] at hzout'
              exact hzout' (by simpa using hc)
            · have hc' : z.name ∉ s.current := by simpa using hc
              simp [hd0, hc', hzfit, skip_nil] at hzout'
      · exact ih (selStep t [] nb s n) hs.2 y hy hy' z hz hzfit hzout

/-- `done` means the request is met. -/
def DoneInv (nb : Int) (s : SelState) : Prop := s.done = true → (s.current.length : Int) = nb

theorem selStep_doneInv {t : Template} {keys : List String} {nb : Int} {s : SelState} (n : Node)
    (h : DoneInv nb s) : DoneInv nb (selStep t keys nb s n) := by
  rcases selStep_cases t keys nb s n with h' | ⟨hc, -, -, hdone⟩ | ⟨-, -, -, hc, hdone⟩
  · rw [h']; exact h
  · intro hd; rw [hdone] at hd; rw [hc]; simpa using hd
  · intro hd; rw [hdone] at hd; rw [hc]
    have : (s.current.length : Int) + 1 = nb := by simpa using hd
    simp; omega

theorem selFold_doneInv {t : Template} {keys : List String} {nb : Int} (l : List Node) {s : SelState}
    (h : DoneInv nb s) : DoneInv nb (selFold t keys nb l s) := by
  induction l generalizing s with
  | nil => exact h
  | cons n rest ih => rw [selFold_cons]; exact ih (selStep_doneInv n h)

theorem selFold_mono (t : Template) (keys : List String) (nb : Int) (l : List Node) (s : SelState)
    {x : String} (hx : x ∈ s.current) : x ∈ (selFold t keys nb l s).current := by
  obtain ⟨add, hadd, -⟩ := selFold_shape t keys nb l s
  rw [hadd]; exact List.mem_append_left _ hx

/-- **completeness** (no anti-affinity keys): a loop that ends without having met the request has
taken every fit node of its list. -/
theorem selFold_complete (t : Template) (nb : Int) (l : List Node) (s : SelState)
    (hnd : (selFold t [] nb l s).done = false) :
    ∀ z ∈ l, fit t z = true → z.name ∈ (selFold t [] nb l s).current := by
  induction l generalizing s with
  | nil => intro z hz; cases hz
  | cons n rest ih =>
    rw [selFold_cons] at hnd ⊢
    intro z hz hzfit
    rcases List.mem_cons.mp hz with rfl | hz
    · apply selFold_mono
      have hd' : (selStep t [] nb s z).done = false := by
        cases hd : (selStep t [] nb s z).done with
        | false => rfl
        | true => rw [selFold_done _ _ _ _ _ hd] at hnd; rw [hd] at hnd; cases hnd
      unfold selStep at hd' ⊢
      cases hd0 : s.done with
      | true => simp [hd0] at hd'
      | false =>
        by_cases hc : z.name ∈ s.current
        · simp [hc]
        · simp [hc, hzfit, skip_nil]
    · exact ih _ hnd z hz hzfit

/-! ### the counters of the anti-affinity spreading -/

/-- the update `incr` applies to an entry. -/
def bump (k : String) (e : String × Int) : String × Int := if e.1 == k then (e.1, e.2 + 1) else e

theorem bump_fst (k : String) (e : String × Int) : (bump k e).1 = e.1 := by
  unfold bump; split <;> rfl

theorem incr_eq (m : List (String × Int)) (k : String) :
    incr m k = if k ∈ m.map (·.1) then m.map (bump k) else m ++ [(k, 1)] := by
  unfold incr
  have : (m.any (fun e => e.1 == k) = true) ↔ k ∈ m.map (·.1) := by
    simp [List.any_eq_true]
  by_cases h : k ∈ m.map (·.1)
  · rw [if_pos (this.mpr h), if_pos h]; rfl
  · rw [if_neg (fun h' => h (this.mp h')), if_neg h]

theorem lookupCount_cons (e : String × Int) (m : List (String × Int)) (k : String) :
    lookupCount (e :: m) k = if e.1 == k then e.2 else lookupCount m k := by
  unfold lookupCount
  rw [List.find?_cons]
  cases h : e.1 == k <;> simp

theorem lookupCount_of_not_mem {m : List (String × Int)} {k : String} (h : k ∉ m.map (·.1)) :
    lookupCount m k = 0 := by
  induction m with
  | nil => rfl
  | cons e m ih =>
    rw [lookupCount_cons]
    simp only [List.map_cons, List.mem_cons, not_or] at h
    have : (e.1 == k) = false := by
      rw [beq_eq_false_iff_ne]; exact fun h' => h.1 h'.symm
    rw [this]; exact ih h.2

theorem lookupCount_append_of_not_mem {m : List (String × Int)} {k : String} (m' : List (String × Int))
    (h : k ∉ m.map (·.1)) : lookupCount (m ++ m') k = lookupCount m' k := by
  induction m with
  | nil => rfl
  | cons e m ih =>
    simp only [List.map_cons, List.mem_cons, not_or] at h
    have : (e.1 == k) = false := by
      rw [beq_eq_false_iff_ne]; exact fun h' => h.1 h'.symm
    rw [List.cons_append, lookupCount_cons, this]; exact ih h.2

theorem lookupCount_append_of_mem {m : List (String × Int)} {k : String} (m' : List (String × Int))
    (h : k ∈ m.map (·.1)) : lookupCount (m ++ m') k = lookupCount m k := by
  induction m with
  | nil => simp at h
  | cons e m ih =>
    rw [List.cons_append, lookupCount_cons, lookupCount_cons]
    cases he : e.1 == k with
    | true => rfl
    | false =>
      simp only [List.map_cons, List.mem_cons] at h
      rcases h with h | h
      · rw [h] at he; simp at he
      · exact ih h

theorem lookupCount_map_bump_other (m : List (String × Int)) {k k' : String} (h : k' ≠ k) :
    lookupCount (m.map (bump k)) k' = lookupCount m k' := by
  induction m with
  | nil => rfl
  | cons e m ih =>
    rw [List.map_cons, lookupCount_cons, lookupCount_cons, bump_fst, ih]
    cases he : e.1 == k' with
    | false => rfl
    | true =>
      have hek : e.1 = k' := by simpa using he
      have : (e.1 == k) = false := by simp [hek, h]
      simp [bump, this]

theorem lookupCount_map_bump_self {m : List (String × Int)} {k : String} (h : k ∈ m.map (·.1)) :
    lookupCount (m.map (bump k)) k = lookupCount m k + 1 := by
  induction m with
  | nil => simp at h
  | cons e m ih =>
    rw [List.map_cons, lookupCount_cons, lookupCount_cons, bump_fst]
    cases he : e.1 == k with
    | true => simp [bump, he]
    | false =>
      simp only [List.map_cons, List.mem_cons] at h
      rcases h with h | h
      · rw [h] at he; simp at he
      · exact ih h

theorem lookupCount_incr_self (m : List (String × Int)) (k : String) :
    lookupCount (incr m k) k = lookupCount m k + 1 := by
  rw [incr_eq]
  split
  · rename_i h; exact lookupCount_map_bump_self h
  · rename_i h
    rw [lookupCount_append_of_not_mem _ h, lookupCount_of_not_mem h]
    simp [lookupCount]

theorem lookupCount_incr_other (m : List (String × Int)) {k k' : String} (h : k' ≠ k) :
    lookupCount (incr m k) k' = lookupCount m k' := by
  rw [incr_eq]
  split
  · exact lookupCount_map_bump_other m h
  · by_cases hm : k' ∈ m.map (·.1)
    · exact lookupCount_append_of_mem _ hm
    · rw [lookupCount_append_of_not_mem _ hm, lookupCount_of_not_mem hm]
      have : (k == k') = false := by simp [Ne.symm h]
      simp [this, lookupCount]

theorem incr_keys_of_mem {m : List (String × Int)} {k : String} (h : k ∈ m.map (·.1)) :
    (incr m k).map (·.1) = m.map (·.1) := by
  rw [incr_eq, if_pos h, List.map_map]
  apply List.map_congr_left
  intro e _
  exact bump_fst k e

theorem incr_keys_of_not_mem {m : List (String × Int)} {k : String} (h : k ∉ m.map (·.1)) :
    (incr m k).map (·.1) = m.map (·.1) ++ [k] := by
  rw [incr_eq, if_neg h]; simp

theorem incr_length_of_mem {m : List (String × Int)} {k : String} (h : k ∈ m.map (·.1)) :
    (incr m k).length = m.length := by
  have := congrArg List.length (incr_keys_of_mem h)
  simpa using this

/-- one step of the selection loop with anti-affinity keys, counters included. -/
theorem selStep_counts_cases (t : Template) (keys : List String) (nb : Int) (s : SelState) (n : Node)
    (hk : keys.isEmpty = false) :
    selStep t keys nb s n = s ∨
    (lookupCount s.counts (antiAffinityValue keys n) <
        Int.tdiv (nb + (s.counts.length : Int) - 1) (s.counts.length : Int) ∧
      (selStep t keys nb s n).counts = incr s.counts (antiAffinityValue keys n) ∧
      (selStep t keys nb s n).current = if fit t n then s.current ++ [n.name] else s.current) := by
  unfold selStep
  cases hd : s.done with
  | true => exact Or.inl (by simp)
  | false =>
    cases hc : s.current.contains n.name with
    | true => exact Or.inl (by simp)
    | false =>
      cases hsk : skip keys nb s n with
      | true => exact Or.inl (by simp)
      | false =>
        refine Or.inr ⟨?_, by simp [hk], by simp⟩
        unfold skip at hsk
        simp only [hk, Bool.not_false, Bool.true_and, decide_eq_false_iff_not, ge_iff_le, Int.not_le] at hsk
        exact hsk

/-- **Spreading** (anti-affinity keys present, every value class of the list known to the counters):
the loop adds the names of a sublist `addN` of fit nodes; the number of classes is unchanged; and for
every value `v` the counter of `v` grows at least by the number of added nodes of class `v` and never
beyond `⌈nb / #classes⌉` (unless it was beyond before, in which case it does not grow at all). -/
theorem selFold_spread (t : Template) (keys : List String) (nb : Int) (hk : keys.isEmpty = false)
    (l : List Node) (s : SelState)
    (hcl : ∀ n ∈ l, antiAffinityValue keys n ∈ s.counts.map (·.1)) :
    ∃ addN : List Node, addN.Sublist l ∧
      (selFold t keys nb l s).current = s.current ++ addN.map (·.name) ∧
      (∀ n ∈ addN, fit t n = true) ∧
      (selFold t keys nb l s).counts.length = s.counts.length ∧
      ∀ v, lookupCount s.counts v + ((addN.filter (fun n => antiAffinityValue keys n == v)).length : Int)
              ≤ lookupCount (selFold t keys nb l s).counts v ∧
           lookupCount (selFold t keys nb l s).counts v ≤
              max (lookupCount s.counts v) (Int.tdiv (nb + (s.counts.length : Int) - 1) (s.counts.length : Int)) := by
  induction l generalizing s with
  | nil => exact ⟨[], List.Sublist.refl _, by simp [selFold], by simp, rfl, fun v => by simp [selFold]; omega⟩
  | cons n rest ih =>
    rw [selFold_cons]
    have hcl_rest : ∀ m ∈ rest, antiAffinityValue keys m ∈ s.counts.map (·.1) :=
      fun m hm => hcl m (List.mem_cons_of_mem n hm)
    rcases selStep_counts_cases t keys nb s n hk with h | ⟨hlt, hcounts, hcur⟩
    · rw [h]
      obtain ⟨addN, hsub, hc, hfit, hlen, hv⟩ := ih s hcl_rest
      exact ⟨addN, hsub.cons n, hc, hfit, hlen, hv⟩
    · have hmem : antiAffinityValue keys n ∈ s.counts.map (·.1) := hcl n List.mem_cons_self
      have hkeys' : (selStep t keys nb s n).counts.map (·.1) = s.counts.map (·.1) := by
        rw [hcounts]; exact incr_keys_of_mem hmem
      have hlen' : (selStep t keys nb s n).counts.length = s.counts.length := by
        rw [hcounts]; exact incr_length_of_mem hmem
      obtain ⟨addN, hsub, hc, hfit, hlen, hv⟩ := ih (selStep t keys nb s n)
        (fun m hm => by rw [hkeys']; exact hcl_rest m hm)
      rw [hlen'] at hlen hv
      -- the counters after the step
      have hself : lookupCount (selStep t keys nb s n).counts (antiAffinityValue keys n) =
          lookupCount s.counts (antiAffinityValue keys n) + 1 := by
        rw [hcounts]; exact lookupCount_incr_self _ _
      have hother : ∀ v, v ≠ antiAffinityValue keys n →
          lookupCount (selStep t keys nb s n).counts v = lookupCount s.counts v := by
        intro v hne; rw [hcounts]; exact lookupCount_incr_other _ hne
      cases hf : fit t n with
      | false =>
        rw [hf] at hcur
        simp only [Bool.false_eq_true, if_false] at hcur
        refine ⟨addN, hsub.cons n, by rw [hc, hcur], hfit, hlen, ?_⟩
        intro v
        obtain ⟨h1, h2⟩ := hv v
        by_cases hvn : v = antiAffinityValue keys n
        · subst hvn
          rw [hself] at h1 h2
          exact ⟨by omega, by omega⟩
        · rw [hother v hvn] at h1 h2
          exact ⟨h1, h2⟩
      | true =>
        rw [hf] at hcur
        simp only [if_true] at hcur
        refine ⟨n :: addN, hsub.cons_cons n, by rw [hc, hcur]; simp, ?_, hlen, ?_⟩
        · intro m hm
          rcases List.mem_cons.mp hm with rfl | hm
          · exact hf
          · exact hfit m hm
        · intro v
          obtain ⟨h1, h2⟩ := hv v
          by_cases hvn : v = antiAffinityValue keys n
          · subst hvn
            rw [hself] at h1 h2
            have : (List.filter (fun m => antiAffinityValue keys m == antiAffinityValue keys n) (n :: addN)).length
                = (List.filter (fun m => antiAffinityValue keys m == antiAffinityValue keys n) addN).length + 1 := by
              rw [List.filter_cons_of_pos (by simp)]; simp
            rw [this]
            exact ⟨by omega, by omega⟩
          · rw [hother v hvn] at h1 h2
            have : (List.filter (fun m => antiAffinityValue keys m == v) (n :: addN))
                = (List.filter (fun m => antiAffinityValue keys m == v) addN) := by
              rw [List.filter_cons_of_neg]
              simpa using fun h => hvn h.symm
            rw [this]
            exact ⟨h1, h2⟩

/-! ### the initial counters -/

/-- make sure the counters have an entry for `v`. -/
def ensure (m : List (String × Int)) (v : String) : List (String × Int) :=
  if m.any (fun e => e.1 == v) then m else m ++ [(v, 0)]

def c0Step (keys : List String) (current : List String) (m : List (String × Int)) (n : Node) :
    List (String × Int) :=
  if current.contains n.name then incr (ensure m (antiAffinityValue keys n)) (antiAffinityValue keys n)
  else ensure m (antiAffinityValue keys n)

theorem counts0_eq (keys : List String) (sorted : List Node) (current : List String)
    (hk : keys.isEmpty = false) : counts0 keys sorted current = sorted.foldl (c0Step keys current) [] := by
  unfold counts0
  rw [hk]
  rfl

theorem ensure_eq (m : List (String × Int)) (v : String) :
    ensure m v = if v ∈ m.map (·.1) then m else m ++ [(v, 0)] := by
  unfold ensure
  have : (m.any (fun e => e.1 == v) = true) ↔ v ∈ m.map (·.1) := by simp [List.any_eq_true]
  by_cases h : v ∈ m.map (·.1)
  · rw [if_pos (this.mpr h), if_pos h]
  · rw [if_neg (fun h' => h (this.mp h')), if_neg h]

theorem ensure_keys (m : List (String × Int)) (v : String) :
    (ensure m v).map (·.1) = if v ∈ m.map (·.1) then m.map (·.1) else m.map (·.1) ++ [v] := by
  rw [ensure_eq]; split <;> simp

theorem mem_ensure_keys (m : List (String × Int)) (v : String) : v ∈ (ensure m v).map (·.1) := by
  rw [ensure_keys]; split
  · assumption
  · simp

theorem lookupCount_ensure (m : List (String × Int)) (v v' : String) :
    lookupCount (ensure m v) v' = lookupCount m v' := by
  rw [ensure_eq]
  split
  · rfl
  · rename_i h
    by_cases hm : v' ∈ m.map (·.1)
    · exact lookupCount_append_of_mem _ hm
    · rw [lookupCount_append_of_not_mem _ hm, lookupCount_of_not_mem hm]
      cases hv : v == v' <;> simp [lookupCount, hv]

theorem c0Step_keys (keys : List String) (current : List String) (m : List (String × Int)) (n : Node) :
    (c0Step keys current m n).map (·.1) = (ensure m (antiAffinityValue keys n)).map (·.1) := by
  unfold c0Step
  split
  · exact incr_keys_of_mem (mem_ensure_keys _ _)
  · rfl

theorem lookupCount_c0Step (keys : List String) (current : List String) (m : List (String × Int)) (n : Node)
    (v : String) :
    lookupCount (c0Step keys current m n) v =
      lookupCount m v + if (antiAffinityValue keys n == v && current.contains n.name) then 1 else 0 := by
  unfold c0Step
  cases hc : current.contains n.name with
  | false => simp [lookupCount_ensure]
  | true =>
    simp only [if_true, Bool.and_true]
    by_cases hv : v = antiAffinityValue keys n
    · subst hv
      rw [lookupCount_incr_self, lookupCount_ensure]; simp
    · rw [lookupCount_incr_other _ hv, lookupCount_ensure]
      have : (antiAffinityValue keys n == v) = false := by
        rw [beq_eq_false_iff_ne]; exact fun h => hv h.symm
      simp [this]

/-- the counters after the initial pass over `l`, started from `m`. -/
theorem c0Fold_spec (keys : List String) (current : List String) (l : List Node) (m : List (String × Int)) :
    (∀ v, v ∈ (l.foldl (c0Step keys current) m).map (·.1) ↔
        v ∈ m.map (·.1) ∨ ∃ n ∈ l, antiAffinityValue keys n = v) ∧
    ((m.map (·.1)).Nodup → ((l.foldl (c0Step keys current) m).map (·.1)).Nodup) ∧
    (∀ v, lookupCount (l.foldl (c0Step keys current) m) v = lookupCount m v +
        ((l.filter (fun n => antiAffinityValue keys n == v && current.contains n.name)).length : Int)) := by
  induction l generalizing m with
  | nil => simp
  | cons n rest ih =>
    obtain ⟨h1, h2, h3⟩ := ih (c0Step keys current m n)
    rw [List.foldl_cons]
    have hkeys := c0Step_keys keys current m n
    have hek := ensure_keys m (antiAffinityValue keys n)
    refine ⟨?_, ?_, ?_⟩
    · intro v
      rw [h1 v, hkeys, hek]
      by_cases hm : antiAffinityValue keys n ∈ m.map (·.1)
      · rw [if_pos hm]
        constructor
        · rintro (h | ⟨x, hx, h⟩)
          · exact Or.inl h
          · exact Or.inr ⟨x, List.mem_cons_of_mem n hx, h⟩
        · rintro (h | ⟨x, hx, h⟩)
          · exact Or.inl h
          · rcases List.mem_cons.mp hx with rfl | hx
            · rw [← h]; exact Or.inl hm
            · exact Or.inr ⟨x, hx, h⟩
      · rw [if_neg hm]
        constructor
        · rintro (h | ⟨x, hx, h⟩)
          · rcases List.mem_append.mp h with h | h
            · exact Or.inl h
            · exact Or.inr ⟨n, List.mem_cons_self, by simpa [eq_comm] using h⟩
          · exact Or.inr ⟨x, List.mem_cons_of_mem n hx, h⟩
        · rintro (h | ⟨x, hx, h⟩)
          · exact Or.inl (List.mem_append_left _ h)
          · rcases List.mem_cons.mp hx with rfl | hx
            · rw [← h]; exact Or.inl (by simp)
            · exact Or.inr ⟨x, hx, h⟩
    · intro hnd
      apply h2
      rw [hkeys, hek]
      split
      · exact hnd
      · rename_i hm
        rw [List.nodup_append]
        refine ⟨hnd, by simp, ?_⟩
        intro a ha b hb hab
        have : b = antiAffinityValue keys n := by simpa using hb
        rw [hab, this] at ha
        exact hm ha
    · intro v
      rw [h3 v, lookupCount_c0Step, List.filter_cons]
      split <;> simp <;> omega

/-! ### `selectNodes` as a whole -/

/-- the previously selected names that survive the first loop. -/
def kept (t : Template) (c : Canary) (pods : List Pod) (nodes : List Node) (cur : List String) : List String :=
  filt t (sortByRestarts pods (listed c nodes)) cur

/-- **Shape of the result.** A successful `selectNodes` resolved the request to some `nb`; its result is
the surviving previous names followed by added names; the added names are pairwise distinct, new, and
names of listed fit nodes; names are added only when the survivors are fewer than the request and
then never beyond it; the flag is "fewer than requested". -/
theorem selectNodes_shape {t : Template} {c : Canary} {base : Int} {cur : List String} {pods : List Pod}
    {nodes : List Node} {res : List String} {short : Bool}
    (h : selectNodes t c base cur pods nodes = .ok (res, short)) :
    ∃ (nb : Int) (add : List String),
      resolveIntOrPercent c.replicas base = some nb ∧
      short = decide ((res.length : Int) < nb) ∧
      res = kept t c pods nodes cur ++ add ∧
      add.Nodup ∧
      (∀ y ∈ add, y ∉ kept t c pods nodes cur) ∧
      (∀ y ∈ add, ∃ n ∈ listed c nodes, n.name = y ∧ fit t n = true) ∧
      (add ≠ [] → ((kept t c pods nodes cur).length : Int) < nb) ∧
      (((kept t c pods nodes cur).length : Int) < nb → (res.length : Int) ≤ nb) := by
  cases hr : resolveIntOrPercent c.replicas base with
  | none => rw [selectNodes_err_iff t c base cur pods nodes hr] at h; cases h
  | some nb =>
    rw [selectNodes_eq t c base cur pods nodes hr] at h
    simp only [Outcome.ok.injEq, Prod.mk.injEq] at h
    obtain ⟨hres, hshort⟩ := h
    refine ⟨nb, ?_⟩
    show ∃ add, some nb = some nb ∧ _
    by_cases hlt : ((filt t (sortByRestarts pods (listed c nodes)) cur).length : Int) < nb
    · rw [if_pos hlt] at hres hshort
      obtain ⟨add, hcur, hnd, hnew, hfrom⟩ := selFold_shape t c.antiAffinityKeys nb
        (sortByRestarts pods (listed c nodes))
        { current := filt t (sortByRestarts pods (listed c nodes)) cur,
          counts := counts0 c.antiAffinityKeys (sortByRestarts pods (listed c nodes))
            (filt t (sortByRestarts pods (listed c nodes)) cur) }
      have hlen := (selFold_lenInv (t := t) (keys := c.antiAffinityKeys) (sortByRestarts pods (listed c nodes))
        (s := { current := filt t (sortByRestarts pods (listed c nodes)) cur,
                counts := counts0 c.antiAffinityKeys (sortByRestarts pods (listed c nodes))
                  (filt t (sortByRestarts pods (listed c nodes)) cur) })
        ⟨Int.le_of_lt hlt, fun _ => hlt⟩).1
      rw [hres] at hcur hlen hshort
      refine ⟨add, rfl, hshort.symm, hcur, hnd, hnew, ?_, fun _ => hlt, fun _ => hlen⟩
      intro y hy
      obtain ⟨n, hn, h⟩ := hfrom y hy
      exact ⟨n, mem_sortByRestarts.mp hn, h⟩
    · rw [if_neg hlt] at hres hshort
      rw [hres] at hshort
      refine ⟨[], rfl, hshort.symm, by rw [← hres]; simp [kept], List.nodup_nil, by simp, by simp, by simp,
        fun h => absurd h hlt⟩

/-! ### a list lemma -/

/-- a sublist of a duplicate-free list that contains every element satisfying `p` has the same
`p`-elements, in the same order. -/
theorem filter_eq_of_sublist {α} {l' l : List α} (p : α → Bool) (hs : l'.Sublist l) (hnd : l.Nodup)
    (h : ∀ x ∈ l, p x = true → x ∈ l') : l'.filter p = l.filter p := by
  induction hs with
  | slnil => rfl
  | cons a hs ih =>
    rw [List.nodup_cons] at hnd
    have hpa : p a = false := by
      cases hp : p a with
      | false => rfl
      | true => exact absurd (hs.subset (h a List.mem_cons_self hp)) hnd.1
    rw [List.filter_cons_of_neg (by simp [hpa])]
    exact ih hnd.2 (fun x hx hp => h x (List.mem_cons_of_mem a hx) hp)
  | cons_cons a hs ih =>
    rw [List.nodup_cons] at hnd
    have ih' := ih hnd.2 (fun x hx hp => by
      rcases List.mem_cons.mp (h x (List.mem_cons_of_mem a hx) hp) with rfl | hm
      · exact absurd hx hnd.1
      · exact hm)
    simp only [List.filter_cons, ih']

end Sel
end Eds
