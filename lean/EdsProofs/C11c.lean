import EdsProps.C02c
/-
  EdsProofs.C11c — helper lemmas for EdsProps/C11c.lean (recovery after faults at store level).

    1  counting by keys: `countP_key_sublist` (the members of a sub-list of the distinct keys of a list are counted
       by its length), `countP_pointwise` (a pointwise identity between 0/1 indicators sums up)
    2  the candidates of a cooperative store: `oldCands_names_sublist`, `mem_oldCands_storeEntries_old`
       (a deletion candidate is an OUTDATED pod: the pod comparison fails)
    3  `stepPods_counts`: the counters (empty eligible nodes, outdated pods) after ANY set of creations on empty
       eligible nodes and ANY set of deletions of outdated pods — the generalisation of `coopStep_counts`
       (C02b, "the first nc / the first nd candidates") that dropped writes need
    4  `stepPods_coopStore`: such a step keeps the store cooperative
-/
namespace Eds
open Spec.C03

/-! ## 1. Counting by keys -/

/-- the elements of `l` whose key lies in a sub-list `A` of the (distinct) keys of `l` are `A.length` many. -/
theorem countP_key_sublist {α} (key : α → String) :
    ∀ (l : List α) (A : List String), (l.map key).Nodup → A.Sublist (l.map key) →
      l.countP (fun x => decide (key x ∈ A)) = A.length := by
  intro l
  induction l with
  | nil =>
    intro A _ hA
    have : A = [] := by simpa using hA
    subst this
    rfl
  | cons x l ih =>
    intro A hnd hA
    rw [List.map_cons, List.nodup_cons] at hnd
    obtain ⟨hx, hnd'⟩ := hnd
    rw [List.map_cons, List.sublist_cons_iff] at hA
    rcases hA with hA | ⟨r, rfl, hr⟩
    · have hxA : key x ∉ A := fun h => hx (hA.subset h)
      rw [List.countP_cons, ih A hnd' hA]
      simp [hxA]
    · rw [List.countP_cons]
      have hcong : l.countP (fun y => decide (key y ∈ key x :: r)) = l.countP (fun y => decide (key y ∈ r)) := by
        apply List.countP_congr
        intro y hy
        have hne : key y ≠ key x := fun h => hx (h ▸ List.mem_map.mpr ⟨y, hy, rfl⟩)
        simp [hne]
      rw [hcong, ih r hnd' hr]
      simp

/-- a pointwise identity between 0/1 indicators sums up over the list. -/
theorem countP_pointwise {α} (p1 p2 p3 p4 : α → Bool) (l : List α)
    (h : ∀ x ∈ l, (p1 x).toNat + (p2 x).toNat = (p3 x).toNat + (p4 x).toNat) :
    l.countP p1 + l.countP p2 = l.countP p3 + l.countP p4 := by
  induction l with
  | nil => rfl
  | cons x l ih =>
    have ih := ih (fun y hy => h y (List.mem_cons_of_mem _ hy))
    have hx := h x List.mem_cons_self
    simp only [List.countP_cons]
    cases h1 : p1 x <;> cases h2 : p2 x <;> cases h3 : p3 x <;> cases h4 : p4 x <;>
      simp [h1, h2, h3, h4] at hx ⊢ <;> omega

theorem countP_false' {α} (l : List α) : l.countP (fun _ => false) = 0 := by
  rw [List.countP_eq_zero]
  intro _ _ h
  cases h

/-! ## 2. The candidates of a cooperative store -/

theorem oldCands_names_sublist (tg : String) (wall : Time) (es : List Entry) :
    ((oldCands tg wall es).map (·.1.node.name)).Sublist (es.map (·.1.node.name)) := by
  induction es with
  | nil => exact List.Sublist.refl _
  | cons e es ih =>
    unfold oldCands at ih ⊢
    rw [List.filterMap_cons]
    split
    · exact List.Sublist.cons _ ih
    · rename_i x hx
      split at hx
      · split at hx
        · simp only [Option.some.injEq] at hx
          subst hx
          exact List.Sublist.cons_cons _ ih
        · cases hx
      · cases hx

/-- a deletion candidate of a cooperative store sits on an eligible node, is the pod of the EDS on it,
and is OUTDATED: the controller's pod comparison fails. -/
theorem mem_oldCands_storeEntries_old {d : EDS} {rs : ERS} {gen : String → String} {items : List NodeItem}
    {st : ErsStore} (S : CoopStore d rs gen items st) {wall : Time} {x : NodeItem × Pod}
    (h : x ∈ oldCands rs.templateGeneration wall (storeEntries rs items (edsPodsOf d st))) :
    x.1 ∈ fitItems rs items ∧ podOn (edsPodsOf d st) x.1.node.name = some x.2 ∧
    comparePod rs.templateGeneration x.2 x.1 = false := by
  obtain ⟨h1, h2⟩ := mem_oldCands_storeEntries h
  refine ⟨h1, h2, ?_⟩
  unfold oldCands storeEntries at h
  simp only [List.mem_filterMap, List.mem_map] at h
  obtain ⟨e, ⟨nj, _, rfl⟩, he⟩ := h
  simp only [] at he
  split at he
  · rename_i p hp
    split at he
    · rename_i hold
      simp only [Option.some.injEq] at he
      subst he
      simp only [] at h2 ⊢
      obtain ⟨hpE, _⟩ := podOn_some hp
      obtain ⟨hd, _, hr, _⟩ := S.settled p hpE
      have hc := classify_settled rs.templateGeneration wall nj p (S.bound hpE) hd hr
      unfold isOldE at hold
      rw [hp, hc] at hold
      cases hcp : comparePod rs.templateGeneration p nj with
      | false => rfl
      | true => rw [hcp] at hold; simp at hold
    · cases he
  · cases he

/-! ## 3. The counters after an arbitrary step -/

section Counts
variable {d : EDS} {rs : ERS} {gen : String → String} {items : List NodeItem} {st : ErsStore}

/-- **The counters after ANY step of the cooperative kind.**  `Ci`: eligible nodes without a pod of the EDS that
receive the (up-to-date) pod `mk ni`; `Dp`: outdated pods of the EDS, on eligible nodes, that are removed; both
without repetition (sub-lists of the eligible nodes by name).  Then

    empty' + |Ci| = empty + |Dp|        outdated' + |Dp| = outdated. -/
theorem stepPods_counts (S : CoopStore d rs gen items st) (mk : NodeItem → Pod) (Ci : List NodeItem)
    (Dp : List (NodeItem × Pod))
    (hmkNode : ∀ ni ∈ fitItems rs items, (mk ni).nodeName = ni.node.name)
    (hmkCur : ∀ ni ∈ fitItems rs items, comparePod rs.templateGeneration (mk ni) ni = true)
    (hC : ∀ ni ∈ Ci, ni ∈ fitItems rs items ∧ podOn (edsPodsOf d st) ni.node.name = none)
    (hCs : (Ci.map (·.node.name)).Sublist ((fitItems rs items).map (·.node.name)))
    (hD : ∀ x ∈ Dp, x.1 ∈ fitItems rs items ∧ podOn (edsPodsOf d st) x.1.node.name = some x.2 ∧
      comparePod rs.templateGeneration x.2 x.1 = false)
    (hDs : (Dp.map (·.1.node.name)).Sublist ((fitItems rs items).map (·.node.name))) :
    emptyNodes rs items (stepPods (edsPodsOf d st) mk Ci Dp) + Ci.length =
      emptyNodes rs items (edsPodsOf d st) + Dp.length ∧
    outdatedNodes rs items (stepPods (edsPodsOf d st) mk Ci Dp) + Dp.length =
      outdatedNodes rs items (edsPodsOf d st) := by
  have hnd := fitItems_names_nodup S
  have hCnd : (Ci.map (·.node.name)).Nodup := List.Nodup.sublist hCs hnd
  have hD' : ∀ x ∈ Dp, x.1 ∈ fitItems rs items ∧ podOn (edsPodsOf d st) x.1.node.name = some x.2 :=
    fun x hx => ⟨(hD x hx).1, (hD x hx).2.1⟩
  have hentry : ∀ ni ∈ fitItems rs items, _ := fun ni hni =>
    stepPods_entry (fitItems rs items) (edsPodsOf d st) mk Ci Dp hnd S.onePer S.nameNode hmkNode hC hCnd hD' hni
  have hlenC : (fitItems rs items).countP (fun ni => decide (ni.node.name ∈ Ci.map (·.node.name))) = Ci.length := by
    rw [countP_key_sublist (fun ni : NodeItem => ni.node.name) _ _ hnd hCs, List.length_map]
  have hlenD : (fitItems rs items).countP (fun ni => decide (ni.node.name ∈ Dp.map (·.1.node.name))) = Dp.length := by
    rw [countP_key_sublist (fun ni : NodeItem => ni.node.name) _ _ hnd hDs, List.length_map]
  -- a node that is created on is empty, the node of a deleted pod carries that outdated pod
  have hCe : ∀ ni ∈ fitItems rs items, ni.node.name ∈ Ci.map (·.node.name) →
      podOn (edsPodsOf d st) ni.node.name = none := by
    intro ni hni hmem
    obtain ⟨nj, hnj, hn⟩ := List.mem_map.mp hmem
    rw [← hn]; exact (hC nj hnj).2
  have hDo : ∀ ni ∈ fitItems rs items, ni.node.name ∈ Dp.map (·.1.node.name) →
      ∃ p, podOn (edsPodsOf d st) ni.node.name = some p ∧ comparePod rs.templateGeneration p ni = false := by
    intro ni hni hmem
    obtain ⟨x, hx, hn⟩ := List.mem_map.mp hmem
    obtain ⟨h1, h2, h3⟩ := hD x hx
    have : x.1 = ni := inj_of_nodup_map _ hnd h1 hni hn
    subst this
    exact ⟨x.2, h2, h3⟩
  rw [← hlenC, ← hlenD]
  constructor
  · unfold emptyNodes
    apply countP_pointwise
    intro ni hni
    have he := congrArg Prod.snd (hentry ni hni)
    simp only [] at he
    rw [he]
    unfold coopUpd
    simp only []
    by_cases h1 : ni.node.name ∈ Ci.map (·.node.name)
    · have h2 : ni.node.name ∉ Dp.map (·.1.node.name) := by
        intro h2
        obtain ⟨p, hp, _⟩ := hDo ni hni h2
        rw [hCe ni hni h1] at hp; cases hp
      simp [h1, h2, hCe ni hni h1]
    · by_cases h2 : ni.node.name ∈ Dp.map (·.1.node.name)
      · obtain ⟨p, hp, _⟩ := hDo ni hni h2
        simp [h1, h2, hp]
      · simp [h1, h2]
  · unfold outdatedNodes
    have := countP_pointwise
      (fun ni : NodeItem => match podOn (stepPods (edsPodsOf d st) mk Ci Dp) ni.node.name with
        | some p => !comparePod rs.templateGeneration p ni
        | none => false)
      (fun ni : NodeItem => decide (ni.node.name ∈ Dp.map (·.1.node.name)))
      (fun ni : NodeItem => match podOn (edsPodsOf d st) ni.node.name with
        | some p => !comparePod rs.templateGeneration p ni
        | none => false)
      (fun _ => false) (fitItems rs items) ?_
    · rw [countP_false'] at this
      exact this
    · intro ni hni
      have he := congrArg Prod.snd (hentry ni hni)
      simp only [] at he
      rw [he]
      unfold coopUpd
      simp only []
      by_cases h1 : ni.node.name ∈ Ci.map (·.node.name)
      · have h2 : ni.node.name ∉ Dp.map (·.1.node.name) := by
          intro h2
          obtain ⟨p, hp, _⟩ := hDo ni hni h2
          rw [hCe ni hni h1] at hp; cases hp
        simp [h1, h2, hCe ni hni h1, hmkCur ni hni]
      · by_cases h2 : ni.node.name ∈ Dp.map (·.1.node.name)
        · obtain ⟨p, hp, hcp⟩ := hDo ni hni h2
          simp [h1, h2, hp, hcp]
        · simp [h1, h2]

end Counts

end Eds
