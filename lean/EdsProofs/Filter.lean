import EdsModel.Filter
import EdsModel.Rolling
import EdsModel.CanaryS
import EdsSpec.C01
/-
  Helper lemmas for C01 (EdsProps/C01.lean):

  * `podLess_iff`, `podLess_irrefl`, `podLess_trans`, `podLess_total` — `sortPodByNodeName.Less` is a
    strict order, total on pods with different names;
  * `insertPod_perm`, `sortPods_perm`, `sortPods_head_min` — the insertion sort is a permutation whose
    head is `podLess`-minimal;
  * `ScanInv`, `scanInv_step`, `foldl_scanInv` — the invariant of the pod scan of `filterAndMap`;
  * `filter_*` — what the invariant says about the output of `filterAndMap`;
  * `countAll_toCreate` — the creation candidates of `ManageDeployment` are the entries without pod;
  * `canaryScan_*` — the creation candidates of the canary role;
  * `eligible_iff`, `names_contains_iff`, `findPod_of_mem` — bridges to the name-based predicates of
    `EdsSpec.C01`.
-/
namespace Eds

/-! ### `podLess` is a strict order -/

/-- `podLess` as a lexicographic order on (unscheduled?, creation, name). -/
theorem podLess_iff (a b : Pod) :
    podLess a b = true ↔
      (a.nodeName ≠ "" ∧ b.nodeName = "") ∨
      (((a.nodeName = "") ↔ (b.nodeName = "")) ∧
        (a.creation < b.creation ∨ (a.creation = b.creation ∧ a.name < b.name))) := by
  unfold podLess
  by_cases ha : a.nodeName = "" <;> by_cases hb : b.nodeName = "" <;>
    by_cases hc : a.creation = b.creation <;> simp [ha, hb, hc] <;> omega

theorem podLess_irrefl (a : Pod) : podLess a a = false := by
  cases h : podLess a a with
  | false => rfl
  | true =>
    rw [podLess_iff] at h
    rcases h with ⟨h1, h2⟩ | ⟨_, h | ⟨_, h⟩⟩
    · exact absurd h2 h1
    · omega
    · exact absurd h (String.lt_irrefl _)

theorem podLess_trans (a b c : Pod) (h1 : podLess a b = true) (h2 : podLess b c = true) :
    podLess a c = true := by
  rw [podLess_iff] at h1 h2 ⊢
  rcases h1 with ⟨ha, hb⟩ | ⟨hab, h1⟩
  · rcases h2 with ⟨hb', _⟩ | ⟨hbc, _⟩
    · exact absurd hb hb'
    · exact Or.inl ⟨ha, hbc.mp hb⟩
  · rcases h2 with ⟨hb, hc⟩ | ⟨hbc, h2⟩
    · exact Or.inl ⟨fun h => hb (hab.mp h), hc⟩
    · refine Or.inr ⟨hab.trans hbc, ?_⟩
      rcases h1 with h1 | ⟨e1, n1⟩ <;> rcases h2 with h2 | ⟨e2, n2⟩
      · left; omega
      · left; omega
      · left; omega
      · right; exact ⟨by omega, String.lt_trans n1 n2⟩

/-- totality up to the name: two pods with different names are comparable. -/
theorem podLess_total (a b : Pod) (hn : a.name ≠ b.name) (h : podLess a b = false) :
    podLess b a = true := by
  have h' : ¬ (podLess a b = true) := by simp [h]
  rw [podLess_iff] at h' ⊢
  by_cases ha : a.nodeName = "" <;> by_cases hb : b.nodeName = "" <;> simp [ha, hb] at h' ⊢
  all_goals
    by_cases hc : a.creation = b.creation
    · right
      refine ⟨hc.symm, ?_⟩
      have : ¬ a.name < b.name := fun hlt => by
        have := h'.2 hc
        exact absurd hlt (by simpa using this)
      exact Std.lt_of_le_of_ne (String.not_lt.mp this) (Ne.symm hn)
    · left; have := h'.1; omega

/-! ### the insertion sort -/

theorem insertPod_perm (p : Pod) (l : List Pod) : (insertPod p l).Perm (p :: l) := by
  induction l with
  | nil => exact List.Perm.refl _
  | cons q rest ih =>
    unfold insertPod
    split
    · exact List.Perm.refl _
    · exact (List.Perm.cons q ih).trans (List.Perm.swap p q rest)

theorem sortPods_nil : sortPods [] = [] := rfl
theorem sortPods_cons (p : Pod) (l : List Pod) : sortPods (p :: l) = insertPod p (sortPods l) := rfl

theorem sortPods_perm (l : List Pod) : (sortPods l).Perm l := by
  induction l with
  | nil => exact List.Perm.refl _
  | cons p rest ih =>
    rw [sortPods_cons]
    exact (insertPod_perm p _).trans (List.Perm.cons p ih)

theorem mem_sortPods {l : List Pod} {p : Pod} : p ∈ sortPods l ↔ p ∈ l := (sortPods_perm l).mem_iff

theorem sortPods_eq_nil {l : List Pod} (h : sortPods l = []) : l = [] := by
  have := (sortPods_perm l).length_eq
  rw [h] at this
  exact List.eq_nil_of_length_eq_zero this.symm

/-- head of an insertion. -/
theorem insertPod_head (p : Pod) (l : List Pod) :
    (insertPod p l).head? = match l with
      | [] => some p
      | q :: _ => if podLess p q then some p else some q := by
  cases l with
  | nil => rfl
  | cons q rest =>
    simp only [insertPod]
    split <;> rfl

/-- the head of the sorted list is `podLess`-minimal. -/
theorem sortPods_head_min (l : List Pod) (k : Pod) (tl : List Pod) (h : sortPods l = k :: tl) :
    ∀ q ∈ l, podLess q k = false := by
  induction l generalizing k tl with
  | nil => intro q hq; cases hq
  | cons p rest ih =>
    rw [sortPods_cons] at h
    have hh := insertPod_head p (sortPods rest)
    rw [h] at hh
    cases hs : sortPods rest with
    | nil =>
      have hr := sortPods_eq_nil hs
      subst hr
      rw [hs] at hh
      simp only [List.head?_cons, Option.some.injEq] at hh
      subst hh
      intro q hq
      simp only [List.mem_singleton] at hq
      subst hq; exact podLess_irrefl _
    | cons k' tl' =>
      have ih' := ih k' tl' hs
      rw [hs] at hh
      simp only [List.head?_cons] at hh
      split at hh
      · rename_i hlt
        simp only [Option.some.injEq] at hh
        subst hh
        intro q hq
        rcases List.mem_cons.mp hq with hq | hq
        · subst hq; exact podLess_irrefl _
        · cases hqk : podLess q k with
          | false => rfl
          | true =>
            have := podLess_trans q k k' hqk hlt
            rw [ih' q hq] at this
            exact absurd this (by simp)
      · rename_i hnlt
        simp only [Option.some.injEq] at hh
        subst hh
        intro q hq
        rcases List.mem_cons.mp hq with hq | hq
        · subst hq; simpa using hnlt
        · exact ih' q hq

/-! ### the scan invariant -/

/-- invariant of the pod scan relative to the processed prefix `done`; `K` = candidate node names. -/
structure ScanInv (released : String → Bool) (ignore : List String) (K : List String)
    (done : List Pod) (st : ScanState) : Prop where
  keys : st.attached.map (·.1) = K
  attSound : ∀ e ∈ st.attached, ∀ p ∈ e.2, p ∈ done ∧ p.nodeOf = some e.1 ∧ p.phase ≠ "Unknown"
  attComplete : ∀ e ∈ st.attached, ∀ p ∈ done, p.nodeOf = some e.1 → p.phase ≠ "Unknown" →
    p ∈ e.2 ∨ (p.phase = "Failed" ∧ p ∈ st.toDelete)
  attSub : ∀ e ∈ st.attached, e.2.Sublist done
  delSound : ∀ p ∈ st.toDelete, p ∈ done ∧ p.phase ≠ "Unknown" ∧ ∃ n, p.nodeOf = some n ∧
    ((n ∈ K ∧ p.phase = "Failed" ∧ released n = true) ∨
     (n ∉ K ∧ ignore.contains n = false ∧ p.deletion = none))
  strayComplete : ∀ p ∈ done, ∀ n, p.nodeOf = some n → n ∉ K → p.phase ≠ "Unknown" →
    ignore.contains n = false → p.deletion = none → p ∈ st.toDelete
  disj : done.Nodup → ∀ p ∈ st.toDelete, ∀ e ∈ st.attached, p ∉ e.2
  armedSound : ∀ n ∈ st.armed, ∃ p ∈ st.toDelete, p.nodeOf = some n ∧ p.phase = "Failed"

variable {released : String → Bool} {ignore : List String} {K : List String}

theorem nodup_snoc {α} {l : List α} {a : α} (h : (l ++ [a]).Nodup) : l.Nodup ∧ a ∉ l := by
  rw [List.nodup_append] at h
  refine ⟨h.1, fun ha => h.2.2 a ha a (by simp) rfl⟩

/-- the pod is skipped and nothing has to be recorded about it. -/
theorem ScanInv.skip {done : List Pod} {st : ScanState} (h : ScanInv released ignore K done st) (p : Pod)
    (hA : ∀ n ∈ K, p.nodeOf = some n → p.phase ≠ "Unknown" → False)
    (hS : ∀ n, p.nodeOf = some n → n ∉ K → p.phase ≠ "Unknown" → ignore.contains n = false →
      p.deletion = none → False) :
    ScanInv released ignore K (done ++ [p]) st where
  keys := h.keys
  attSound := fun e he q hq =>
    let ⟨a, b, c⟩ := h.attSound e he q hq
    ⟨List.mem_append_left _ a, b, c⟩
  attComplete := by
    intro e he q hq hn hu
    rcases List.mem_append.mp hq with hq | hq
    · exact h.attComplete e he q hq hn hu
    · simp only [List.mem_singleton] at hq; subst hq
      have : e.1 ∈ K := by rw [← h.keys]; exact List.mem_map.mpr ⟨e, he, rfl⟩
      exact (hA e.1 this hn hu).elim
  attSub := fun e he => (h.attSub e he).trans (List.sublist_append_left _ _)
  delSound := fun q hq =>
    let ⟨a, b⟩ := h.delSound q hq
    ⟨List.mem_append_left _ a, b⟩
  strayComplete := by
    intro q hq n hn hk hu hi hd
    rcases List.mem_append.mp hq with hq | hq
    · exact h.strayComplete q hq n hn hk hu hi hd
    · simp only [List.mem_singleton] at hq; subst hq
      exact (hS n hn hk hu hi hd).elim
  disj := fun hnd => h.disj (nodup_snoc hnd).1
  armedSound := h.armedSound

/-- the pod goes to the deletion list. -/
theorem ScanInv.delete {done : List Pod} {st : ScanState} (h : ScanInv released ignore K done st) (p : Pod)
    (n : String) (hn : p.nodeOf = some n) (hu : p.phase ≠ "Unknown")
    (hc : (n ∈ K ∧ p.phase = "Failed" ∧ released n = true) ∨
          (n ∉ K ∧ ignore.contains n = false ∧ p.deletion = none))
    (ar : List String)
    (har : ∀ m ∈ ar, m ∈ st.armed ∨ (m = n ∧ p.phase = "Failed")) :
    ScanInv released ignore K (done ++ [p])
      { st with toDelete := st.toDelete ++ [p], armed := ar } where
  keys := h.keys
  attSound := fun e he q hq =>
    let ⟨a, b, c⟩ := h.attSound e he q hq
    ⟨List.mem_append_left _ a, b, c⟩
  attComplete := by
    intro e he q hq hqn hqu
    rcases List.mem_append.mp hq with hq | hq
    · rcases h.attComplete e he q hq hqn hqu with h1 | ⟨h1, h2⟩
      · exact Or.inl h1
      · exact Or.inr ⟨h1, List.mem_append_left _ h2⟩
    · simp only [List.mem_singleton] at hq; subst hq
      have hk : e.1 ∈ K := by rw [← h.keys]; exact List.mem_map.mpr ⟨e, he, rfl⟩
      have : n = e.1 := by rw [hn] at hqn; exact Option.some.inj hqn
      subst this
      rcases hc with ⟨_, hf, _⟩ | ⟨hnk, _⟩
      · exact Or.inr ⟨hf, List.mem_append_right _ (List.mem_singleton.mpr rfl)⟩
      · exact absurd hk hnk
  attSub := fun e he => (h.attSub e he).trans (List.sublist_append_left _ _)
  delSound := by
    intro q hq
    rcases List.mem_append.mp hq with hq | hq
    · let ⟨a, b⟩ := h.delSound q hq
      exact ⟨List.mem_append_left _ a, b⟩
    · simp only [List.mem_singleton] at hq; subst hq
      exact ⟨List.mem_append_right _ (List.mem_singleton.mpr rfl), hu, n, hn, hc⟩
  strayComplete := by
    intro q hq m hm hk hqu hi hd
    rcases List.mem_append.mp hq with hq | hq
    · exact List.mem_append_left _ (h.strayComplete q hq m hm hk hqu hi hd)
    · exact List.mem_append_right _ hq
  disj := by
    intro hnd q hq e he hqe
    obtain ⟨hnd', hp⟩ := nodup_snoc hnd
    rcases List.mem_append.mp hq with hq | hq
    · exact h.disj hnd' q hq e he hqe
    · simp only [List.mem_singleton] at hq; subst hq
      exact hp (h.attSound e he q hqe).1
  armedSound := by
    intro m hm
    rcases har m hm with hm | ⟨hm, hf⟩
    · obtain ⟨q, hq, h1, h2⟩ := h.armedSound m hm
      exact ⟨q, List.mem_append_left _ hq, h1, h2⟩
    · subst hm
      exact ⟨p, List.mem_append_right _ (List.mem_singleton.mpr rfl), hn, hf⟩

theorem attach_keys (att : List (String × List Pod)) (n : String) (p : Pod) :
    (attach att n p).map (·.1) = att.map (·.1) := by
  unfold attach
  rw [List.map_map]
  apply List.map_congr_left
  intro e _
  simp only [Function.comp]
  split <;> rfl

theorem mem_attach {att : List (String × List Pod)} {n : String} {p : Pod} {e' : String × List Pod}
    (h : e' ∈ attach att n p) :
    ∃ e ∈ att, e'.1 = e.1 ∧ ((e.1 = n ∧ e'.2 = e.2 ++ [p]) ∨ (e.1 ≠ n ∧ e'.2 = e.2)) := by
  unfold attach at h
  obtain ⟨e, he, rfl⟩ := List.mem_map.mp h
  refine ⟨e, he, ?_⟩
  by_cases hk : e.1 = n
  · simp [hk]
  · simp [hk]

/-- the pod is attached to its (candidate) node. -/
theorem ScanInv.attach {done : List Pod} {st : ScanState} (h : ScanInv released ignore K done st) (p : Pod)
    (n : String) (hn : p.nodeOf = some n) (hu : p.phase ≠ "Unknown") (hk : n ∈ K) (uns : List Pod) :
    ScanInv released ignore K (done ++ [p])
      { st with attached := Eds.attach st.attached n p, unscheduled := uns } where
  keys := by simp only []; rw [attach_keys]; exact h.keys
  attSound := by
    intro e' he' q hq
    obtain ⟨e, he, h1, h2⟩ := mem_attach he'
    rw [h1]
    rcases h2 with ⟨h2, h3⟩ | ⟨_, h3⟩
    · rw [h3] at hq
      rcases List.mem_append.mp hq with hq | hq
      · let ⟨a, b, c⟩ := h.attSound e he q hq
        exact ⟨List.mem_append_left _ a, b, c⟩
      · simp only [List.mem_singleton] at hq; subst hq
        exact ⟨List.mem_append_right _ (List.mem_singleton.mpr rfl), h2 ▸ hn, hu⟩
    · rw [h3] at hq
      let ⟨a, b, c⟩ := h.attSound e he q hq
      exact ⟨List.mem_append_left _ a, b, c⟩
  attComplete := by
    intro e' he' q hq hqn hqu
    obtain ⟨e, he, h1, h2⟩ := mem_attach he'
    rw [h1] at hqn
    rcases List.mem_append.mp hq with hq | hq
    · rcases h.attComplete e he q hq hqn hqu with h4 | h4
      · left
        rcases h2 with ⟨_, h3⟩ | ⟨_, h3⟩ <;> rw [h3]
        · exact List.mem_append_left _ h4
        · exact h4
      · exact Or.inr h4
    · simp only [List.mem_singleton] at hq; subst hq
      have : n = e.1 := by rw [hn] at hqn; exact Option.some.inj hqn
      left
      rcases h2 with ⟨_, h3⟩ | ⟨h2, _⟩
      · rw [h3]; exact List.mem_append_right _ (List.mem_singleton.mpr rfl)
      · exact absurd this.symm h2
  attSub := by
    intro e' he'
    obtain ⟨e, he, _, h2⟩ := mem_attach he'
    rcases h2 with ⟨_, h3⟩ | ⟨_, h3⟩ <;> rw [h3]
    · exact List.Sublist.append (h.attSub e he) (List.Sublist.refl _)
    · exact (h.attSub e he).trans (List.sublist_append_left _ _)
  delSound := fun q hq =>
    let ⟨a, b⟩ := h.delSound q hq
    ⟨List.mem_append_left _ a, b⟩
  strayComplete := by
    intro q hq m hm hmk hqu hi hd
    rcases List.mem_append.mp hq with hq | hq
    · exact h.strayComplete q hq m hm hmk hqu hi hd
    · simp only [List.mem_singleton] at hq; subst hq
      have : n = m := by rw [hn] at hm; exact Option.some.inj hm
      exact absurd (this ▸ hk) hmk
  disj := by
    intro hnd q hq e' he' hqe
    obtain ⟨hnd', hp⟩ := nodup_snoc hnd
    obtain ⟨e, he, _, h2⟩ := mem_attach he'
    rcases h2 with ⟨_, h3⟩ | ⟨_, h3⟩ <;> rw [h3] at hqe
    · rcases List.mem_append.mp hqe with hqe | hqe
      · exact h.disj hnd' q hq e he hqe
      · simp only [List.mem_singleton] at hqe; subst hqe
        exact hp (h.delSound q hq).1
    · exact h.disj hnd' q hq e he hqe
  armedSound := h.armedSound

theorem any_key_iff (att : List (String × List Pod)) (n : String) :
    att.any (fun e => e.1 == n) = true ↔ n ∈ att.map (·.1) := by
  simp only [List.any_eq_true, List.mem_map, beq_iff_eq]

theorem scanInv_step {done : List Pod} {st : ScanState} (h : ScanInv released ignore K done st) (p : Pod) :
    ScanInv released ignore K (done ++ [p]) (scanPod released ignore st p) := by
  unfold scanPod
  split
  · rename_i hn
    exact h.skip p (fun n _ hn' => by rw [hn] at hn'; cases hn') (fun n hn' => by rw [hn] at hn'; cases hn')
  · rename_i n hn
    split
    · rename_i hu
      have hu : p.phase = "Unknown" := by simpa using hu
      exact h.skip p (fun _ _ _ hu' => hu' hu) (fun _ _ _ hu' => (hu' hu).elim)
    · rename_i hu
      have hu : p.phase ≠ "Unknown" := by simpa using hu
      split
      · rename_i hk
        have hk : n ∈ K := by rw [← h.keys]; exact (any_key_iff _ _).mp hk
        split
        · rename_i hf
          simp only [Bool.and_eq_true, beq_iff_eq] at hf
          exact h.delete p n hn hu (Or.inl ⟨hk, hf.1.1, hf.1.2⟩) _
            (fun m hm => by
              rcases List.mem_cons.mp hm with hm | hm
              · exact Or.inr ⟨hm, hf.1.1⟩
              · exact Or.inl hm)
        · exact h.attach p n hn hu hk _
      · rename_i hk
        have hk : n ∉ K := by rw [← h.keys]; exact fun hm => hk ((any_key_iff _ _).mpr hm)
        split
        · rename_i hi
          exact h.skip p (fun m hm hn' => by
              have : n = m := by rw [hn] at hn'; exact Option.some.inj hn'
              exact absurd (this ▸ hm) hk)
            (fun m hn' _ _ hi' => by
              have : n = m := by rw [hn] at hn'; exact Option.some.inj hn'
              subst this; rw [hi] at hi'; cases hi')
        · rename_i hi
          have hi : ignore.contains n = false := by simpa using hi
          split
          · rename_i hd
            have hd : p.deletion = none := by simpa using hd
            have := h.delete p n hn hu (Or.inr ⟨hk, hi, hd⟩) st.armed (fun m hm => Or.inl hm)
            exact this
          · rename_i hd
            exact h.skip p (fun m hm hn' => by
                have : n = m := by rw [hn] at hn'; exact Option.some.inj hn'
                exact absurd (this ▸ hm) hk)
              (fun m _ _ _ _ hd' => by rw [hd'] at hd; simp at hd)

theorem foldl_scanInv (done rest : List Pod) (st : ScanState) (h : ScanInv released ignore K done st) :
    ScanInv released ignore K (done ++ rest) (rest.foldl (scanPod released ignore) st) := by
  induction rest generalizing done st with
  | nil => simpa using h
  | cons p rest ih =>
    have := ih (done ++ [p]) (scanPod released ignore st p) (scanInv_step h p)
    simpa [List.foldl_cons, List.append_assoc] using this



/-! ### the output of `filterAndMap` -/

def candNames (t : Template) (nodes : List NodeItem) (ignore : List String) : List String :=
  (candidates t nodes ignore).map (·.node.name)

def scanInit (t : Template) (nodes : List NodeItem) (ignore : List String) : ScanState :=
  { attached := (candidates t nodes ignore).map (fun ni => (ni.node.name, [])), toDelete := [],
    unscheduled := [], armed := [] }

/-- the state after the scan of all pods -/
def scanFinal (released : String → Bool) (t : Template) (nodes : List NodeItem) (pods : List Pod)
    (ignore : List String) : ScanState :=
  pods.foldl (scanPod released ignore) (scanInit t nodes ignore)

theorem scanInit_inv (released : String → Bool) (t : Template) (nodes : List NodeItem) (ignore : List String) :
    ScanInv released ignore (candNames t nodes ignore) [] (scanInit t nodes ignore) where
  keys := by simp [scanInit, candNames, List.map_map, Function.comp_def]
  attSound := by
    intro e he q hq
    simp only [scanInit, List.mem_map] at he
    obtain ⟨ni, _, rfl⟩ := he
    cases hq
  attComplete := fun _ _ q hq => by cases hq
  attSub := by
    intro e he
    simp only [scanInit, List.mem_map] at he
    obtain ⟨ni, _, rfl⟩ := he
    exact List.Sublist.refl _
  delSound := fun q hq => by cases hq
  strayComplete := fun q hq => by cases hq
  disj := fun _ q hq => by cases hq
  armedSound := fun n hn => by cases hn

theorem scanFinal_inv (released : String → Bool) (t : Template) (nodes : List NodeItem) (pods : List Pod)
    (ignore : List String) :
    ScanInv released ignore (candNames t nodes ignore) pods (scanFinal released t nodes pods ignore) := by
  have := foldl_scanInv [] pods _ (scanInit_inv released t nodes ignore)
  simpa [scanFinal] using this

/-- the kept pod of a candidate node: head of its sorted pod list. -/
def keptOf (att : List (String × List Pod)) (ni : NodeItem) : NodeItem × Option Pod :=
  match (att.map (fun e => (e.1, sortPods e.2))).find? (fun e => e.1 == ni.node.name) with
  | some (_, p :: _) => (ni, some p)
  | _ => (ni, none)

theorem filterAndMap_byNode (released : String → Bool) (t : Template) (nodes : List NodeItem)
    (pods : List Pod) (ignore : List String) :
    (filterAndMap released t nodes pods ignore).byNode =
      (candidates t nodes ignore).map (keptOf (scanFinal released t nodes pods ignore).attached) := rfl

theorem filterAndMap_toDelete (released : String → Bool) (t : Template) (nodes : List NodeItem)
    (pods : List Pod) (ignore : List String) :
    (filterAndMap released t nodes pods ignore).toDelete =
      (scanFinal released t nodes pods ignore).toDelete ++
      (((scanFinal released t nodes pods ignore).attached.map (fun e => (e.1, sortPods e.2))).map
        (fun e => e.2.drop 1)).flatten := rfl

theorem keptOf_fst (att : List (String × List Pod)) (ni : NodeItem) : (keptOf att ni).1 = ni := by
  unfold keptOf; split <;> rfl

theorem keptOf_some {att : List (String × List Pod)} {ni : NodeItem} {k : Pod}
    (h : (keptOf att ni).2 = some k) :
    ∃ e ∈ att, ∃ tl, e.1 = ni.node.name ∧ sortPods e.2 = k :: tl := by
  unfold keptOf at h
  split at h
  · rename_i n p tl hf
    simp only [Option.some.injEq] at h; subst h
    have h1 := List.find?_some hf
    have h2 := List.mem_of_find?_eq_some hf
    obtain ⟨e, he, heq⟩ := List.mem_map.mp h2
    simp only [Prod.mk.injEq] at heq
    refine ⟨e, he, tl, ?_, heq.2⟩
    rw [heq.1]; simpa using h1
  · cases h

theorem keptOf_none {att : List (String × List Pod)} {ni : NodeItem}
    (hk : ni.node.name ∈ att.map (·.1)) (h : (keptOf att ni).2 = none) :
    ∃ e ∈ att, e.1 = ni.node.name ∧ e.2 = [] := by
  unfold keptOf at h
  split at h
  · cases h
  · rename_i hne
    cases hf : (att.map (fun e => (e.1, sortPods e.2))).find? (fun e => e.1 == ni.node.name) with
    | none =>
      rw [List.find?_eq_none] at hf
      obtain ⟨e, he, hen⟩ := List.mem_map.mp hk
      exact absurd (by simpa using hen) (hf (e.1, sortPods e.2) (List.mem_map.mpr ⟨e, he, rfl⟩))
    | some r =>
      obtain ⟨n, l⟩ := r
      have h1 := List.find?_some hf
      have h2 := List.mem_of_find?_eq_some hf
      obtain ⟨e, he, heq⟩ := List.mem_map.mp h2
      simp only [Prod.mk.injEq] at heq
      cases l with
      | nil => exact ⟨e, he, by rw [heq.1]; simpa using h1, sortPods_eq_nil heq.2⟩
      | cons p tl => exact absurd hf (hne n p tl)

theorem mem_filter_toDelete {released : String → Bool} {t : Template} {nodes : List NodeItem}
    {pods : List Pod} {ignore : List String} {p : Pod} :
    p ∈ (filterAndMap released t nodes pods ignore).toDelete ↔
      p ∈ (scanFinal released t nodes pods ignore).toDelete ∨
      ∃ e ∈ (scanFinal released t nodes pods ignore).attached, p ∈ (sortPods e.2).drop 1 := by
  rw [filterAndMap_toDelete]
  simp only [List.mem_append, List.mem_flatten, List.mem_map]
  constructor
  · rintro (h | ⟨l, ⟨e', ⟨e, he, rfl⟩, rfl⟩, hp⟩)
    · exact Or.inl h
    · exact Or.inr ⟨e, he, hp⟩
  · rintro (h | ⟨e, he, hp⟩)
    · exact Or.inl h
    · exact Or.inr ⟨_, ⟨_, ⟨e, he, rfl⟩, rfl⟩, hp⟩

theorem mem_filter_byNode {released : String → Bool} {t : Template} {nodes : List NodeItem}
    {pods : List Pod} {ignore : List String} {ni : NodeItem} {o : Option Pod}
    (h : (ni, o) ∈ (filterAndMap released t nodes pods ignore).byNode) :
    ni ∈ candidates t nodes ignore ∧
      (keptOf (scanFinal released t nodes pods ignore).attached ni).2 = o := by
  rw [filterAndMap_byNode] at h
  obtain ⟨ni', hni, heq⟩ := List.mem_map.mp h
  have := keptOf_fst (scanFinal released t nodes pods ignore).attached ni'
  rw [heq] at this
  simp only at this
  subst this
  exact ⟨hni, by rw [heq]⟩


/-! ### creation candidates of the active role -/

/-- nodes of the entries that have no pod, in order -/
def noneNodes (es : List (NodeItem × Option Pod)) : List NodeItem :=
  es.filterMap (fun e => match e.2 with | none => some e.1 | some _ => none)

theorem countStep_toCreate (tg : String) (wall : Time) (c : Counts) (e : NodeItem × Option Pod) :
    (countStep tg wall c e).toCreate = c.toCreate ++ noneNodes [e] := by
  obtain ⟨ni, o⟩ := e
  cases o with
  | none => simp [countStep, noneNodes]
  | some pod =>
    simp only [countStep, noneNodes, List.filterMap_cons, List.filterMap_nil, List.append_nil]
    split <;> rfl

theorem foldl_countStep_toCreate (tg : String) (wall : Time) (es : List (NodeItem × Option Pod)) (c : Counts) :
    (es.foldl (countStep tg wall) c).toCreate = c.toCreate ++ noneNodes es := by
  induction es generalizing c with
  | nil => simp [noneNodes]
  | cons e rest ih =>
    rw [List.foldl_cons, ih, countStep_toCreate, List.append_assoc]
    congr 1
    simp only [noneNodes, ← List.filterMap_append, List.singleton_append]

theorem countAll_toCreate (tg : String) (wall : Time) (es : List (NodeItem × Option Pod)) :
    (countAll tg wall es).toCreate = noneNodes es := by
  unfold countAll
  rw [foldl_countStep_toCreate]
  rfl

theorem mem_noneNodes {es : List (NodeItem × Option Pod)} {ni : NodeItem} :
    ni ∈ noneNodes es ↔ (ni, none) ∈ es := by
  unfold noneNodes
  rw [List.mem_filterMap]
  constructor
  · rintro ⟨⟨n, o⟩, he, h⟩
    cases o with
    | none => simp only [Option.some.injEq] at h; subst h; exact he
    | some _ => cases h
  · intro h; exact ⟨(ni, none), h, rfl⟩

theorem noneNodes_names_sublist (es : List (NodeItem × Option Pod)) :
    ((noneNodes es).map (·.node.name)).Sublist (es.map (·.1.node.name)) := by
  induction es with
  | nil => exact List.Sublist.refl _
  | cons e rest ih =>
    obtain ⟨ni, o⟩ := e
    cases o with
    | none =>
      simp only [noneNodes, List.filterMap_cons, List.map_cons]
      exact List.Sublist.cons_cons _ ih
    | some _ =>
      simp only [noneNodes, List.filterMap_cons, List.map_cons]
      exact List.Sublist.cons _ ih

theorem rollingPlan_create_sublist (c : Counts) (N ms mu mc : Int) (paused frozen : Bool) :
    (rollingPlan c N ms mu mc paused frozen).1.Sublist c.toCreate := by
  unfold rollingPlan
  simp only []
  split
  · exact List.take_sublist _ _
  · exact List.nil_sublist _

/-! ### creation candidates of the canary role -/

theorem lookupNode_some {byNode : List (NodeItem × Option Pod)} {name : String} {e : NodeItem × Option Pod}
    (h : lookupNode byNode name = some e) : e ∈ byNode ∧ e.1.node.name = name := by
  unfold lookupNode at h
  exact ⟨List.mem_of_find?_eq_some h, by simpa using List.find?_some h⟩

/-- invariant of the canary scan relative to the processed canary node names. -/
structure CanaryCreateInv (byNode : List (NodeItem × Option Pod)) (done : List String) (c : CanaryScan) : Prop where
  mem : ∀ ni ∈ c.toCreate, (ni, none) ∈ byNode ∧ ni.node.name ∈ done
  sub : (c.toCreate.map (·.node.name)).Sublist done

theorem canaryCreateInv_step (tg : String) (byNode : List (NodeItem × Option Pod)) (done : List String)
    (c : CanaryScan) (n : String) (h : CanaryCreateInv byNode done c) :
    CanaryCreateInv byNode (done ++ [n]) (canaryScanStep tg byNode c n) := by
  have keep : ∀ c' : CanaryScan, c'.toCreate = c.toCreate → CanaryCreateInv byNode (done ++ [n]) c' := by
    intro c' hc
    constructor
    · intro ni hni
      rw [hc] at hni
      exact ⟨(h.mem ni hni).1, List.mem_append_left _ (h.mem ni hni).2⟩
    · rw [hc]; exact h.sub.trans (List.sublist_append_left _ _)
  unfold canaryScanStep
  simp only []
  split
  · exact keep _ rfl
  · rename_i ni hl
    obtain ⟨hm, hn⟩ := lookupNode_some hl
    simp only at hn
    constructor
    · intro ni' hni'
      rcases List.mem_append.mp hni' with hni' | hni'
      · exact ⟨(h.mem ni' hni').1, List.mem_append_left _ (h.mem ni' hni').2⟩
      · simp only [List.mem_singleton] at hni'; subst hni'
        exact ⟨hm, List.mem_append_right _ (List.mem_singleton.mpr hn)⟩
    · simp only [List.map_append, List.map_cons, List.map_nil, hn]
      exact List.Sublist.append h.sub (List.Sublist.refl _)
  · split
    · exact keep _ rfl
    · split
      · exact keep _ rfl
      · exact keep _ rfl

theorem foldl_canaryCreateInv (tg : String) (byNode : List (NodeItem × Option Pod)) (done rest : List String)
    (c : CanaryScan) (h : CanaryCreateInv byNode done c) :
    CanaryCreateInv byNode (done ++ rest) (rest.foldl (canaryScanStep tg byNode) c) := by
  induction rest generalizing done c with
  | nil => simpa using h
  | cons n rest ih =>
    have := ih (done ++ [n]) _ (canaryCreateInv_step tg byNode done c n h)
    simpa [List.foldl_cons, List.append_assoc] using this

theorem canaryScan_createInv (tg : String) (byNode : List (NodeItem × Option Pod)) (names : List String) :
    CanaryCreateInv byNode names (names.foldl (canaryScanStep tg byNode) {}) := by
  have := foldl_canaryCreateInv tg byNode [] names {}
    ⟨fun ni hni => (by cases hni), List.Sublist.refl _⟩
  simpa using this

/-! ### bridges to the decidable specification (EdsSpec/C01.lean) -/
section
open Spec.C01

theorem inj_of_nodup_map {α β} (f : α → β) {l : List α} (hn : (l.map f).Nodup) {a b : α}
    (ha : a ∈ l) (hb : b ∈ l) (h : f a = f b) : a = b := by
  induction l with
  | nil => cases ha
  | cons p rest ih =>
    rw [List.map_cons, List.nodup_cons] at hn
    rcases List.mem_cons.mp ha with ha' | ha' <;> rcases List.mem_cons.mp hb with hb' | hb'
    · rw [ha', hb']
    · subst ha'; exact (hn.1 (List.mem_map.mpr ⟨b, hb', h.symm⟩)).elim
    · subst hb'; exact (hn.1 (List.mem_map.mpr ⟨a, ha', h⟩)).elim
    · exact ih hn.2 ha' hb'

theorem nodup_of_nodup_map {α β} (f : α → β) {l : List α} (h : (l.map f).Nodup) : l.Nodup := by
  induction l with
  | nil => exact List.nodup_nil
  | cons a rest ih =>
    rw [List.map_cons, List.nodup_cons] at h
    exact List.nodup_cons.mpr ⟨fun ha => h.1 (List.mem_map.mpr ⟨a, ha, rfl⟩), ih h.2⟩

theorem eligible_iff (t : Template) (nodes : List NodeItem) (ignore : List String) (n : String) :
    eligible t nodes ignore n = true ↔ n ∈ candNames t nodes ignore := by
  simp only [eligible, candNames, candidates, List.any_eq_true, List.mem_map, List.mem_filter,
    Bool.and_eq_true, beq_iff_eq, Bool.not_eq_true']
  constructor
  · rintro ⟨ni, hni, ⟨h1, h2⟩, h3⟩
    exact ⟨ni, ⟨hni, by rw [h1]; exact h2, h3⟩, h1⟩
  · rintro ⟨ni, ⟨hni, h2, h3⟩, h1⟩
    exact ⟨ni, hni, ⟨h1, by rw [← h1]; exact h2⟩, h3⟩

theorem names_contains_iff {pods D : List Pod} (hp : (pods.map (·.name)).Nodup)
    (hsub : ∀ q ∈ D, q ∈ pods) {p : Pod} (hm : p ∈ pods) :
    (D.map (·.name)).contains p.name = true ↔ p ∈ D := by
  rw [List.contains_iff_mem, List.mem_map]
  constructor
  · rintro ⟨q, hq, h⟩
    rw [← inj_of_nodup_map _ hp (hsub q hq) hm h]; exact hq
  · intro h; exact ⟨p, h, rfl⟩

theorem findPod_of_mem {pods : List Pod} (hp : (pods.map (·.name)).Nodup) {k : Pod} (hk : k ∈ pods) :
    findPod pods k.name = some k := by
  unfold findPod
  cases hf : pods.find? (fun p => p.name == k.name) with
  | none =>
    rw [List.find?_eq_none] at hf
    exact absurd (by simp) (hf k hk)
  | some q =>
    have h1 := List.find?_some hf
    have h2 := List.mem_of_find?_eq_some hf
    rw [inj_of_nodup_map _ hp h2 hk (by simpa using h1)]

end

end Eds
