import EdsModel
import EdsProofs.CanaryS
import EdsProofs.PodBuild
/-
  EdsProofs.ReconcileEds — helper lemmas about the L2 model of the ExtendedDaemonSet reconcile
  (EdsModel/ReconcileEds.lean, EdsModel/EdsCtl.lean):

  * `lastWhere_*`               — the "last listed element satisfying p" selector;
  * `mcsc_*`                    — the two conditions `manageCanaryStatusConditions` maintains;
  * `manageStatus_*`            — the three branches of `manageStatus`;
  * `updateInstance_*`          — `updateInstanceWithCurrentRS`: the no-canary case, the failed case,
                                  and `updateInstance_status_shape` (whatever branch is taken the status
                                  is `manageStatus …` up to the canary node list);
  * `edsMain_*`                 — projections of `edsMain`.
-/
namespace Eds

theorem edsMain_deleted (d : EDS) (list : List ERS) (u : ERS) (pods : List Pod) (nodes : List Node) (now : Time) :
    (edsMain d list u pods nodes now).deletedErs =
      cleanupTargetsERS now list (currentOf d list u now).1.name u.name := by
  unfold edsMain
  simp only []
  split <;> rfl

theorem edsMain_created (d : EDS) (list : List ERS) (u : ERS) (pods : List Pod) (nodes : List Node) (now : Time) :
    (edsMain d list u pods nodes now).created = none := by
  unfold edsMain
  simp only []
  split <;> rfl



/-! ### `lastWhere` -/

theorem lastWhere_eq_none_iff {α} (p : α → Bool) (l : List α) :
    lastWhere p l = none ↔ ∀ x ∈ l, p x = false := by
  unfold lastWhere
  rw [List.getLast?_eq_none_iff, List.filter_eq_nil_iff]
  constructor
  · intro h x hx
    have := h x hx
    simpa using this
  · intro h x hx
    simp [h x hx]

theorem lastWhere_mem {α} {p : α → Bool} {l : List α} {x : α} (h : lastWhere p l = some x) :
    x ∈ l ∧ p x = true := by
  unfold lastWhere at h
  have := List.mem_of_getLast? h
  simpa [List.mem_filter] using this

theorem lastWhere_isSome_of_mem {α} {p : α → Bool} {l : List α} {x : α} (hx : x ∈ l) (hp : p x = true) :
    ∃ y, lastWhere p l = some y := by
  cases h : lastWhere p l with
  | some y => exact ⟨y, rfl⟩
  | none =>
    have := (lastWhere_eq_none_iff p l).1 h x hx
    rw [hp] at this
    exact absurd this (by decide)

/-- if `a` is the only listed element satisfying `p`, `lastWhere` finds it. -/
theorem lastWhere_eq_of_unique {α} {p : α → Bool} {l : List α} {a : α} (ha : a ∈ l) (hp : p a = true)
    (huniq : ∀ x ∈ l, p x = true → x = a) : lastWhere p l = some a := by
  obtain ⟨y, hy⟩ := lastWhere_isSome_of_mem ha hp
  obtain ⟨hyl, hyp⟩ := lastWhere_mem hy
  rw [hy, huniq y hyl hyp]

theorem eq_of_nodup_map {α β} (f : α → β) {l : List α} (h : (l.map f).Nodup) {x y : α}
    (hx : x ∈ l) (hy : y ∈ l) (hxy : f x = f y) : x = y := by
  induction l with
  | nil => cases hx
  | cons z l ih =>
    simp only [List.map_cons, List.nodup_cons, List.mem_map, not_exists, not_and] at h
    rcases List.mem_cons.1 hx with rfl | hx' <;> rcases List.mem_cons.1 hy with rfl | hy'
    · rfl
    · exact absurd hxy.symm (h.1 y hy')
    · exact absurd hxy (h.1 x hx')
    · exact ih h.2 hx' hy'

/-- with distinct names, looking a replica set up by its name finds it. -/
theorem lastWhere_name_of_nodup {list : List ERS} (hnd : (list.map (·.name)).Nodup) {a : ERS}
    (ha : a ∈ list) (nm : String) (hnm : a.name = nm) :
    lastWhere (fun e => e.name == nm) list = some a := by
  apply lastWhere_eq_of_unique ha
  · simp [hnm]
  · intro x hx hpx
    have : x.name = nm := by simpa using hpx
    exact eq_of_nodup_map (·.name) hnd hx ha (by rw [this, hnm])

/-! ### `manageCanaryStatusConditions` -/

theorem mcsc_failed (conds : List Cond) (now : Time) (failed paused : Bool) (reason nm : String) :
    isCondTrue (manageCanaryStatusConditions conds now failed paused reason nm) "Canary-Failed" = failed := by
  unfold manageCanaryStatusConditions
  have hne : "Canary-Paused" ≠ "Canary-Failed" := by decide
  have h1 : isCondTrue (if failed = true then
        updateCond conds now "Canary-Failed" "True" "CanaryFailed" ("canary failed with ers: " ++ nm) false false
      else updateCond conds now "Canary-Failed" "False" "" "" false false) "Canary-Failed" = failed := by
    cases failed with
    | true => exact isCondTrue_updateCond_same conds now "Canary-Failed" true _ _ false false
    | false => exact isCondTrue_updateCond_same conds now "Canary-Failed" false _ _ false false
  simp only []
  split
  · rw [isCondTrue_updateCond_other _ _ _ _ _ _ _ _ _ hne]; exact h1
  · rw [isCondTrue_updateCond_other _ _ _ _ _ _ _ _ _ hne]; exact h1

theorem mcsc_paused (conds : List Cond) (now : Time) (failed paused : Bool) (reason nm : String) :
    isCondTrue (manageCanaryStatusConditions conds now failed paused reason nm) "Canary-Paused" =
      (paused && !failed) := by
  unfold manageCanaryStatusConditions
  simp only []
  split
  · next h =>
    rw [h]
    exact isCondTrue_updateCond_same _ now "Canary-Paused" true _ _ false false
  · next h =>
    have : (paused && !failed) = false := by simpa using h
    rw [this]
    exact isCondTrue_updateCond_same _ now "Canary-Paused" false _ _ false false

/-! ### `manageStatus` -/

theorem manageStatus_failed (st : EDSStatus) (u : ERS) (active paused : Bool) (reason : String) (ann : SMap) :
    manageStatus st u active true paused reason ann =
      { st with canary := none, state := "Canary Failed", reason := "" } := by
  simp [manageStatus]

theorem manageStatus_inactive (st : EDSStatus) (u : ERS) (paused : Bool) (reason : String) (ann : SMap) :
    manageStatus st u false false paused reason ann =
      { st with canary := none, state := nonCanaryState ann, reason := "" } := by
  simp [manageStatus]

theorem manageStatus_active (st : EDSStatus) (u : ERS) (paused : Bool) (reason : String) (ann : SMap) :
    manageStatus st u true false paused reason ann =
      { st with
        desired := st.desired + u.status.desired, upToDate := u.status.current,
        ignored := st.ignored + u.status.ignored,
        state := if !paused then "Canary" else "Canary Paused",
        reason := if !paused then "" else reason,
        canary := some { (st.canary.getD { replicaSet := "", nodes := [] }) with replicaSet := u.name } } := by
  simp [manageStatus]

/-! ### `updateInstance` -/

/-- the status before the canary bookkeeping. -/
def baseStatus (d : EDS) (current : ERS) (cur rdy avail : Int) : EDSStatus :=
  { d.status with
    current := cur, ready := rdy, available := avail,
    activeReplicaSet := current.name, desired := current.status.desired,
    upToDate := current.status.current, state := nonCanaryState d.annotations,
    ignored := current.status.ignored }

/-- the status `updateInstance` computes before the canary node selection. -/
def managedStatus (d : EDS) (current u : ERS) (cur rdy avail : Int) (now : Time) : EDSStatus :=
  let failed := isCanaryFailed (some u)
  let pr := isCanaryPaused d.annotations (some u)
  let active := isCanaryActive d.strategy.canary current.name u.name failed
  manageStatus
    { baseStatus d current cur rdy avail with
      conds := manageCanaryStatusConditions d.status.conds now failed pr.1 pr.2 u.name }
    u active failed pr.1 pr.2 d.annotations

theorem updateInstance_no_canary (d : EDS) (current u : ERS) (cur rdy avail : Int) (now : Time)
    (pods : List Pod) (nodes : List Node) (hc : d.strategy.canary = none) :
    updateInstance d current u cur rdy avail now pods nodes =
      { status := baseStatus d current cur rdy avail, restoreFrom := none,
        annotations := d.annotations, selectErr := false } := by
  unfold updateInstance
  simp only [hc]
  rfl

/-- `t` is `s` up to the node list inside the canary block. -/
def SameUpToNodes (s t : EDSStatus) : Prop :=
  t = s ∨ ∃ sel, t = { s with canary := s.canary.map (fun cs => { cs with nodes := sel }) }

/-- with a canary strategy, whatever branch `updateInstance` takes, the status it returns is
`managedStatus` up to the selected canary nodes. -/
theorem updateInstance_status_shape (d : EDS) (current u : ERS) (cur rdy avail : Int) (now : Time)
    (pods : List Pod) (nodes : List Node) (c : Canary) (hc : d.strategy.canary = some c) :
    SameUpToNodes (managedStatus d current u cur rdy avail now)
      (updateInstance d current u cur rdy avail now pods nodes).status := by
  unfold updateInstance managedStatus
  simp only [hc]
  repeat' split
  all_goals first | (left; rfl) | (right; exact ⟨_, rfl⟩)

/-- the failed case: the canary is not active, the status is the failed one, the template of the
active replica set is restored, the pause annotations are cleared, no node selection takes place. -/
theorem updateInstance_failed (d : EDS) (current u : ERS) (cur rdy avail : Int) (now : Time)
    (pods : List Pod) (nodes : List Node) (c : Canary) (hc : d.strategy.canary = some c)
    (hf : isCanaryFailed (some u) = true) :
    updateInstance d current u cur rdy avail now pods nodes =
      { status :=
          { baseStatus d current cur rdy avail with
            conds := manageCanaryStatusConditions d.status.conds now true
              (isCanaryPaused d.annotations (some u)).1 (isCanaryPaused d.annotations (some u)).2 u.name,
            canary := none, state := "Canary Failed", reason := "" },
        restoreFrom := some current,
        annotations := (clearCanaryAnnotations d.annotations).1,
        selectErr := false } := by
  unfold updateInstance
  simp only [hc, hf]
  have ha : isCanaryActive (some c) current.name u.name true = false := by simp [isCanaryActive]
  simp only [ha, manageStatus_failed]
  rfl

/-- the not-active, not-failed case (no canary running). -/
theorem updateInstance_idle (d : EDS) (current u : ERS) (cur rdy avail : Int) (now : Time)
    (pods : List Pod) (nodes : List Node) (c : Canary) (hc : d.strategy.canary = some c)
    (hf : isCanaryFailed (some u) = false) (hsame : current.name = u.name) :
    updateInstance d current u cur rdy avail now pods nodes =
      { status :=
          { baseStatus d current cur rdy avail with
            conds := manageCanaryStatusConditions d.status.conds now false
              (isCanaryPaused d.annotations (some u)).1 (isCanaryPaused d.annotations (some u)).2 u.name,
            canary := none, state := nonCanaryState d.annotations, reason := "" },
        restoreFrom := none,
        annotations := (clearCanaryAnnotations d.annotations).1,
        selectErr := false } := by
  unfold updateInstance
  simp only [hc, hf]
  have ha : isCanaryActive (some c) current.name u.name false = false := by simp [isCanaryActive, hsame]
  simp only [ha, manageStatus_inactive]
  rfl

/-- in every branch the status names the selected replica set as the active one. -/
theorem updateInstance_activeReplicaSet (d : EDS) (current u : ERS) (cur rdy avail : Int) (now : Time)
    (pods : List Pod) (nodes : List Node) :
    (updateInstance d current u cur rdy avail now pods nodes).status.activeReplicaSet = current.name := by
  cases hc : d.strategy.canary with
  | none => rw [updateInstance_no_canary _ _ _ _ _ _ _ _ _ hc]; rfl
  | some c =>
    have hm : (managedStatus d current u cur rdy avail now).activeReplicaSet = current.name := by
      unfold managedStatus manageStatus
      simp only []
      split
      · rfl
      · split <;> rfl
    rcases updateInstance_status_shape d current u cur rdy avail now pods nodes c hc with h | ⟨sel, h⟩
    · rw [h]; exact hm
    · rw [h]; exact hm

/-! ### `edsMain` projections -/

/-- `updateInstance` on the arguments `edsMain` passes to it. -/
def edsUpd (d : EDS) (list : List ERS) (current u : ERS) (pods : List Pod) (nodes : List Node) (now : Time) : UpdOut :=
  updateInstance d current u
    (list.foldl (fun a e => a + e.status.current) 0) (list.foldl (fun a e => a + e.status.ready) 0)
    (list.foldl (fun a e => a + e.status.available) 0) now (ownPods d pods) nodes

theorem edsMain_err_iff (d : EDS) (list : List ERS) (u : ERS) (pods : List Pod) (nodes : List Node) (now : Time) :
    (edsMain d list u pods nodes now).err =
      (edsUpd d list (currentOf d list u now).1 u pods nodes now).selectErr := by
  unfold edsMain edsUpd
  simp only []
  generalize updateInstance _ _ _ _ _ _ _ _ _ = upd
  cases h : upd.selectErr <;> simp

/-- a status write of `edsMain` is the status `updateInstance` computed. -/
theorem edsMain_statusUpdate (d : EDS) (list : List ERS) (u : ERS) (pods : List Pod) (nodes : List Node)
    (now : Time) (st : EDSStatus) (h : (edsMain d list u pods nodes now).statusUpdate = some st) :
    st = (edsUpd d list (currentOf d list u now).1 u pods nodes now).status := by
  unfold edsMain at h
  unfold edsUpd
  simp only [] at h
  generalize updateInstance _ _ _ _ _ _ _ _ _ = upd at h ⊢
  split at h
  · simp at h
  · simp only [] at h
    split at h <;> split at h <;> first | exact (Option.some.inj h).symm | exact absurd h (by simp)

/-- the writes when a template restore is due: status, then spec. -/
theorem edsMain_restore (d : EDS) (list : List ERS) (u : ERS) (pods : List Pod) (nodes : List Node)
    (now : Time) (r : ERS)
    (hse : (edsUpd d list (currentOf d list u now).1 u pods nodes now).selectErr = false)
    (hr : (edsUpd d list (currentOf d list u now).1 u pods nodes now).restoreFrom = some r)
    (hne : r.templateGeneration ≠ d.templateHash) :
    (edsMain d list u pods nodes now).statusUpdate =
      some (edsUpd d list (currentOf d list u now).1 u pods nodes now).status ∧
    (edsMain d list u pods nodes now).specUpdate =
      some (r.templateGeneration, (edsUpd d list (currentOf d list u now).1 u pods nodes now).annotations) := by
  unfold edsMain
  unfold edsUpd at hse hr ⊢
  simp only []
  generalize updateInstance _ _ _ _ _ _ _ _ _ = upd at hse hr ⊢
  have hne' : (r.templateGeneration != d.templateHash) = true := by simpa using hne
  simp [hse, hr, hne']

end Eds

/-! ### A small concrete world for the non-vacuity examples of C07 / C13 / C14 -/
namespace Eds.ExReconcile

def tpl : Template :=
  { labels := [], annotations := [], nodeSelector := [], affOther := "", affRequired := none,
    tolerations := [], containers := [] }

/-- a defaulted strategy with a canary (auto validation, 10 min). -/
def strategy : Strategy :=
  (defaultSpec { rollingUpdate := ⟨none, none, none, none, none⟩,
                 canary := some { replicas := none, duration := none, nodeSelector := none,
                                  antiAffinityKeys := [], autoPause := none, autoFail := none,
                                  noRestartsDuration := none, validationMode := "" },
                 reconcileFrequency := none } "auto").1

/-- replica set `nm` of daemonset `ns/ds` for template hash `h`, reporting `n` pods in every counter. -/
def rs (nm h : String) (n : Int) (conds : List Cond) : ERS :=
  { name := nm, ns := "ns", uid := nm, labels := [⟨K.edsNameLabel, "ds"⟩],
    annotations := [⟨K.templateHashAnnot, h⟩], creation := 0, deleted := false,
    ownerEds := some "ds", selector := none, templateGeneration := h, template := tpl,
    status := { status := "", desired := n, current := n, ready := n, available := n, ignored := 0, conds := conds } }

def status (active : String) (canary : Option CanaryStatus) : EDSStatus :=
  { desired := 3, current := 3, ready := 3, available := 3, upToDate := 3, ignored := 0, state := "Canary",
    activeReplicaSet := active, reason := "", canary := canary, conds := [] }

def eds (h : String) (ann : SMap) (st : EDSStatus) : EDS :=
  { name := "ds", ns := "ns", labels := [], annotations := ann, templateHash := h, templateName := "",
    template := tpl, strategy := strategy, status := st }

def failedCond : Cond := ⟨"Canary-Failed", "True", 0, 0, "", ""⟩
/-- `ds-a` runs template `h1` on 3 nodes; `ds-b` is the canary for `h2` (`n` pods), and has failed at time 0. -/
def store (n : Int) : List ERS := [rs "ds-a" "h1" 3 [], rs "ds-b" "h2" n [failedCond]]
/-- the daemonset in the middle of the canary for `h2`. -/
def dCanary : EDS := eds "h2" [] (status "ds-a" (some ⟨"ds-b", ["n1"]⟩))

def rolledBack : EDSStatus :=
  { desired := 3, current := 4, ready := 4, available := 4, upToDate := 3, ignored := 0, state := "Canary Failed",
    activeReplicaSet := "ds-a", reason := "", canary := none,
    conds := [⟨"Canary-Failed", "True", minute, minute, "CanaryFailed", "canary failed with ers: ds-b"⟩] }
/-- the daemonset at rest on template `h1`; the replica set of an older template `h2` still exists, drained. -/
def dStable : EDS := eds "h1" [] { status "ds-a" none with state := "Running" }
def store2 : List ERS := [rs "ds-a" "h1" 3 [], rs "ds-b" "h2" 0 []]

end Eds.ExReconcile
