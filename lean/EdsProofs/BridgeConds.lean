import EdsModel.Generated.DecConds
import EdsModel.EdsCtl
import EdsModel.ReconcileErs
/-
  EdsProofs.BridgeConds — the hand-written model functions the property theorems are stated about are
  *equal* to the Lean definitions the translator (tools/extract/gotolean.go) regenerates from the Go
  source on every run (EdsModel/Generated/DecConds.lean).  A change to one of these Go functions
  changes the generated definition and breaks the corresponding `src_*` theorem.

  `none` on the generated side is a Go panic; every theorem therefore also says that the function
  does not panic on the stated arguments (non-nil where the callers pass non-nil).
-/
set_option linter.unusedSimpArgs false
namespace Eds.Bridge
open Eds

/-! ### the condition list of a replica set (controllers/extendeddaemonsetreplicaset/conditions) -/

/-- the `range` loop of `GetIndexForConditionType`, started at index `i`. -/
theorem ersIndexLoop (t : String) (k : Unit → Option Int) (cs : List Cond) (i : Int) :
    Generated.Decisions.getIndexForConditionType.loop1 t k cs i =
      match cs.findIdx? (fun c => c.type == t) with
      | some j => some (i + (j : Int))
      | none => k () := by
  induction cs generalizing i with
  | nil => simp [Generated.Decisions.getIndexForConditionType.loop1]
  | cons c rest ih =>
    simp only [Generated.Decisions.getIndexForConditionType.loop1, List.findIdx?_cons]
    by_cases h : (c.type == t) = true
    · simp [h]
    · simp only [h, Bool.false_eq_true, if_false, ih]
      cases List.findIdx? (fun c => c.type == t) rest with
      | none => simp
      | some j => simp; omega

theorem src_getIndexForConditionType (st : ERSStatus) (t : String) :
    Generated.Decisions.getIndexForConditionType (some st) t = some (Go.condIndex st.conds t) := by
  unfold Generated.Decisions.getIndexForConditionType Go.condIndex
  simp only [Option.isNone_some, Bool.false_eq_true, if_false, Option.bind_some, ersIndexLoop]
  cases List.findIdx? (fun c => c.type == t) st.conds <;> simp

theorem src_getIndexForConditionType_nil (t : String) :
    Generated.Decisions.getIndexForConditionType none t = some (-1) := rfl

/-- where `GetIndexForConditionType` points: the list splits around the first entry of the type. -/
theorem condIndex_split {cs : List Cond} {t : String} {c : Cond} (h : findCond cs t = some c) :
    ∃ pre post, cs = pre ++ c :: post ∧ (∀ x ∈ pre, (x.type == t) = false) ∧ (c.type == t) = true ∧
      Go.condIndex cs t = (pre.length : Int) := by
  induction cs with
  | nil => simp [findCond] at h
  | cons x xs ih =>
    unfold findCond at h ih
    by_cases hx : (x.type == t) = true
    · simp only [List.find?, hx] at h
      cases h
      exact ⟨[], xs, rfl, by simp, hx, by simp [Go.condIndex, List.findIdx?_cons, hx]⟩
    · simp only [List.find?, hx] at h
      obtain ⟨pre, post, hcs, hpre, hc, hi⟩ := ih h
      refine ⟨x :: pre, post, by simp [hcs], ?_, hc, ?_⟩
      · intro y hy
        rcases List.mem_cons.mp hy with rfl | hy
        · simpa using hx
        · exact hpre y hy
      · unfold Go.condIndex at hi ⊢
        simp only [List.findIdx?_cons, hx]
        cases hj : List.findIdx? (fun c => c.type == t) xs with
        | none => simp [hj] at hi
        | some j => simp [hj] at hi ⊢; omega

theorem condIndex_none {cs : List Cond} {t : String} (h : findCond cs t = none) : Go.condIndex cs t = -1 := by
  unfold findCond at h
  unfold Go.condIndex
  have : List.findIdx? (fun c => c.type == t) cs = none := by
    rw [List.findIdx?_eq_none_iff]
    intro x hx
    have := List.find?_eq_none.mp h x hx
    simpa using this
  simp [this]

theorem index_at {α} (pre : List α) (c : α) (post : List α) :
    Go.index (pre ++ c :: post) (pre.length : Int) = some c := by
  unfold Go.index
  have : ¬ ((pre.length : Int) < 0) := by omega
  simp [this]

theorem setIndex_at {α} (pre : List α) (c v : α) (post : List α) :
    Go.setIndex (pre ++ c :: post) (pre.length : Int) v = some (pre ++ v :: post) := by
  unfold Go.setIndex
  have : ¬ ((pre.length : Int) < 0) := by omega
  simp [this]

theorem updateFirst_at (pre : List Cond) (c : Cond) (post : List Cond) (t : String) (f : Cond → Cond)
    (hpre : ∀ x ∈ pre, (x.type == t) = false) (hc : (c.type == t) = true) :
    updateFirst (pre ++ c :: post) t f = pre ++ f c :: post := by
  induction pre with
  | nil => simp [updateFirst, hc]
  | cons x xs ih =>
    have hx : (x.type == t) = false := hpre x (by simp)
    have := ih (fun y hy => hpre y (by simp [hy]))
    simp [updateFirst, hx, this]

theorem src_getERSCondition (st : ERSStatus) (t : String) :
    Generated.Decisions.getERSCondition (some st) t = some (findCond st.conds t) := by
  unfold Generated.Decisions.getERSCondition
  simp only [src_getIndexForConditionType, Option.bind_some]
  cases h : findCond st.conds t with
  | none => simp [condIndex_none h]
  | some c =>
    obtain ⟨pre, post, hcs, _, _, hi⟩ := condIndex_split h
    have hne : ¬ ((pre.length : Int) = -1) := by omega
    rw [hcs] at hi
    simp [hi, hcs, index_at, hne]

theorem src_getERSCondition_nil (t : String) :
    Generated.Decisions.getERSCondition none t = some none := rfl

theorem src_isERSConditionTrue (st : ERSStatus) (t : String) :
    Generated.Decisions.isERSConditionTrue (some st) t = some (isCondTrue st.conds t) := by
  unfold Generated.Decisions.isERSConditionTrue isCondTrue
  simp only [src_getERSCondition, Option.bind_some]
  cases findCond st.conds t with
  | none => simp
  | some c => by_cases h : c.status = "True" <;> simp [h]

theorem src_isERSConditionTrue_nil (t : String) :
    Generated.Decisions.isERSConditionTrue none t = some false := rfl

theorem src_newERSCondition (t st : String) (now : Time) (reason msg : String) (b : Bool) :
    Generated.Decisions.newERSCondition t st now reason msg b =
      some { type := t, status := st, lastTransition := now, lastUpdate := now, reason := reason, message := msg } := rfl

theorem src_updateERSCondition (st : ERSStatus) (now : Time) (t cs reason desc : String) (w s : Bool) :
    Generated.Decisions.updateERSCondition (some st) now t cs reason desc w s =
      some (some { st with conds := updateCond st.conds now t cs reason desc w s }) := by
  unfold Generated.Decisions.updateERSCondition updateCond
  simp only [src_getIndexForConditionType, Option.bind_some]
  cases h : findCond st.conds t with
  | none =>
    simp only [condIndex_none h, src_newERSCondition]
    by_cases hc : (cs == "True" || w) = true <;> simp [hc]
  | some c =>
    obtain ⟨pre, post, hcs, hpre, hc, hi⟩ := condIndex_split h
    have hge : ((pre.length : Int) ≥ 0) := by omega
    rcases st with ⟨a1, a2, a3, a4, a5, a6, conds⟩
    simp only at hcs hi ⊢
    subst hcs
    simp only [hi, hge, decide_true, if_true, Option.bind_some, index_at, setIndex_at,
      updateFirst_at pre c post t _ hpre hc]
    by_cases h1 : (c.status != cs) = true <;> by_cases h2 : s = true <;> by_cases h3 : (cs == "True") = true <;>
      simp [h1, h2, h3, index_at, setIndex_at]

/-- on a nil status the function panics exactly when it would append (the callers pass `&x.Status`). -/
theorem src_updateERSCondition_nil (now : Time) (t cs reason desc : String) (w s : Bool) :
    Generated.Decisions.updateERSCondition none now t cs reason desc w s =
      if cs == "True" || w then none else some none := by
  unfold Generated.Decisions.updateERSCondition
  simp only [src_getIndexForConditionType_nil, Option.bind_some]
  by_cases hc : (cs == "True" || w) = true <;> simp [hc]

/-- `UpdateErrorCondition` of the replica set: the `ReconcileError` condition follows `err != nil`. -/
theorem src_updateERSErrorCondition (st : ERSStatus) (now : Time) (err : Option String) (desc : String) :
    Generated.Decisions.updateERSErrorCondition (some st) now err desc =
      some (some { st with conds := updateCond st.conds now "ReconcileError" (boolCond err.isSome) "" desc false true }) := by
  unfold Generated.Decisions.updateERSErrorCondition
  cases err <;> simp [src_updateERSCondition, boolCond]

/-! ### the condition list of the ExtendedDaemonSet (controllers/extendeddaemonset/conditions): the same code -/

theorem edsIndexLoop (t : String) (k : Unit → Option Int) (cs : List Cond) (i : Int) :
    Generated.Decisions.getEDSIndexForConditionType.loop1 t k cs i =
      match cs.findIdx? (fun c => c.type == t) with
      | some j => some (i + (j : Int))
      | none => k () := by
  induction cs generalizing i with
  | nil => simp [Generated.Decisions.getEDSIndexForConditionType.loop1]
  | cons c rest ih =>
    simp only [Generated.Decisions.getEDSIndexForConditionType.loop1, List.findIdx?_cons]
    by_cases h : (c.type == t) = true
    · simp [h]
    · simp only [h, Bool.false_eq_true, if_false, ih]
      cases List.findIdx? (fun c => c.type == t) rest with
      | none => simp
      | some j => simp; omega

theorem src_getEDSIndexForConditionType (st : EDSStatus) (t : String) :
    Generated.Decisions.getEDSIndexForConditionType (some st) t = some (Go.condIndex st.conds t) := by
  unfold Generated.Decisions.getEDSIndexForConditionType Go.condIndex
  simp only [Option.isNone_some, Bool.false_eq_true, if_false, Option.bind_some, edsIndexLoop]
  cases List.findIdx? (fun c => c.type == t) st.conds <;> simp

theorem src_getEDSIndexForConditionType_nil (t : String) :
    Generated.Decisions.getEDSIndexForConditionType none t = some (-1) := rfl

theorem src_getEDSCondition (st : EDSStatus) (t : String) :
    Generated.Decisions.getEDSCondition (some st) t = some (findCond st.conds t) := by
  unfold Generated.Decisions.getEDSCondition
  simp only [src_getEDSIndexForConditionType, Option.bind_some]
  cases h : findCond st.conds t with
  | none => simp [condIndex_none h]
  | some c =>
    obtain ⟨pre, post, hcs, _, _, hi⟩ := condIndex_split h
    have hne : ¬ ((pre.length : Int) = -1) := by omega
    rw [hcs] at hi
    simp [hi, hcs, index_at, hne]

theorem src_getEDSCondition_nil (t : String) :
    Generated.Decisions.getEDSCondition none t = some none := rfl

theorem src_isEDSConditionTrue (st : EDSStatus) (t : String) :
    Generated.Decisions.isEDSConditionTrue (some st) t = some (isCondTrue st.conds t) := by
  unfold Generated.Decisions.isEDSConditionTrue isCondTrue
  simp only [src_getEDSCondition, Option.bind_some]
  cases findCond st.conds t with
  | none => simp
  | some c => by_cases h : c.status = "True" <;> simp [h]

theorem src_isEDSConditionTrue_nil (t : String) :
    Generated.Decisions.isEDSConditionTrue none t = some false := rfl

/-- how `UpdateExtendedDaemonSetStatusCondition` reads its options (note the inverted name:
`writeFalseIfNotExist = options.IgnoreFalseConditionIfNotExist`). -/
def optWriteFalse (o : Option GUpdateConditionOptions) : Bool :=
  match o with | some o => o.ignoreFalseConditionIfNotExist | none => false
def optSupportLastUpdate (o : Option GUpdateConditionOptions) : Bool :=
  match o with | some o => o.supportLastUpdate | none => false

theorem src_updateEDSCondition (st : EDSStatus) (now : Time) (t cs reason desc : String)
    (o : Option GUpdateConditionOptions) :
    Generated.Decisions.updateEDSCondition (some st) now t cs reason desc o =
      some (some { st with conds := updateCond st.conds now t cs reason desc (optWriteFalse o) (optSupportLastUpdate o) }) := by
  unfold Generated.Decisions.updateEDSCondition updateCond
  have hopt : (if o.isSome = true then
        o.bind fun o1 => some (o1.supportLastUpdate, o1.ignoreFalseConditionIfNotExist)
      else some (false, false)) = some (optSupportLastUpdate o, optWriteFalse o) := by
    cases o <;> simp [optSupportLastUpdate, optWriteFalse]
  simp only [hopt, src_getEDSIndexForConditionType, Option.bind_some]
  generalize optWriteFalse o = w
  generalize optSupportLastUpdate o = s
  cases h : findCond st.conds t with
  | none =>
    simp only [condIndex_none h]
    by_cases hc : (cs == "True" || w) = true <;> simp [hc, Generated.Decisions.newEDSCondition]
  | some c =>
    obtain ⟨pre, post, hcs, hpre, hc, hi⟩ := condIndex_split h
    have hge : ((pre.length : Int) ≥ 0) := by omega
    rcases st with ⟨a1, a2, a3, a4, a5, a6, a7, a8, a9, a10, conds⟩
    simp only at hcs hi ⊢
    subst hcs
    simp only [hi, hge, decide_true, if_true, Option.bind_some, index_at, setIndex_at,
      updateFirst_at pre c post t _ hpre hc]
    by_cases h1 : (c.status != cs) = true <;> by_cases h2 : s = true <;> by_cases h3 : (cs == "True") = true <;>
      simp [h1, h2, h3, index_at, setIndex_at]

/-- `UpdateErrorCondition` of the ExtendedDaemonSet. -/
theorem src_updateEDSErrorCondition (st : EDSStatus) (now : Time) (err : Option String) (desc : String) :
    Generated.Decisions.updateEDSErrorCondition (some st) now err desc =
      some (some { st with conds := updateCond st.conds now "ReconcileError" (boolCond err.isSome) "" desc false true }) := by
  unfold Generated.Decisions.updateEDSErrorCondition
  cases err <;> simp [src_updateEDSCondition, boolCond, optWriteFalse, optSupportLastUpdate]

/-! ### the role of a replica set, and whether a canary is running -/

/-- `retrieveReplicaSetStatus` is the model's `ersRole`, for every Go object with the status the model reads. -/
theorem src_retrieveReplicaSetStatus (g : GEds) (d : EDS) (h : g.status = d.status) (n : String) :
    Generated.Decisions.retrieveReplicaSetStatus (some g) n = some (ersRole d n) := by
  unfold Generated.Decisions.retrieveReplicaSetStatus ersRole
  simp only [Option.bind_some, h]
  by_cases h1 : d.status.activeReplicaSet = ""
  · simp [h1]
  · by_cases h2 : d.status.activeReplicaSet = n
    · subst h2; simp [h1]
    · cases hc : d.status.canary with
      | none => simp [h1, h2]
      | some c => by_cases h3 : c.replicaSet = n <;> simp [h1, h2, h3]

theorem src_isCanaryActive (g : GEds) (a u : String) (failed : Bool) :
    Generated.Decisions.isCanaryActive (some g) a u failed =
      some (Eds.isCanaryActive g.spec.strategy.canary a u failed) := by
  unfold Generated.Decisions.isCanaryActive Eds.isCanaryActive
  cases hc : g.spec.strategy.canary <;> cases failed <;> by_cases h : a = u <;> simp [h, hc]

/-! ### pod helpers (pkg/controller/utils/pod/pod.go)

The translated functions work on the Go-side records (`GPod`, `GContainerStatus`, …); the model works on the
harness's canonical form.  `Go.canonCstat` / `Go.canonCstats` / `Go.canonPodConds` (EdsModel/GoPrelude.lean) are
`harness/canon` written as Lean functions, so each theorem reads: the Go function applied to a pod equals the
model function applied to the canonical form of that pod. -/

theorem src_containerStatusList (p : GPod) :
    Generated.Decisions.containerStatusList (some p) =
      some (p.status.containerStatuses ++ p.status.initContainerStatuses ++ p.status.ephemeralContainerStatuses) := rfl

/-- one iteration of the model's `mostRecentRestart`. -/
def mrStep (acc : Time × String) (s : ContainerStatus) : Time × String :=
  match s.lastTerm with
  | some t =>
    if s.restarts != 0 && t.finishedAt > acc.1 then
      (t.finishedAt, if t.reason != "" then t.reason else "Unknown")
    else acc
  | none => acc

theorem mostRecentRestart_fold (cs : List ContainerStatus) : Eds.mostRecentRestart cs = cs.foldl mrStep (zeroTime, "") := rfl

theorem mostRecentLoop (k : String → Int → Option (Int × String)) (l : List GContainerStatus) (i : Int)
    (reason : String) (rt : Int) (hwf : ∀ s ∈ l, Go.lastStateWF s) :
    Generated.Decisions.mostRecentRestart.loop1 k l i reason rt =
      k ((l.map Go.canonCstat).foldl mrStep (rt, reason)).2 ((l.map Go.canonCstat).foldl mrStep (rt, reason)).1 := by
  induction l generalizing i reason rt with
  | nil => simp [Generated.Decisions.mostRecentRestart.loop1]
  | cons s rest ih =>
    have hs := hwf s (by simp)
    have hrest : ∀ x ∈ rest, Go.lastStateWF x := fun x hx => hwf x (by simp [hx])
    simp only [Generated.Decisions.mostRecentRestart.loop1, List.map_cons, List.foldl_cons]
    rcases s with ⟨name, state, ⟨w, r, tm⟩, cnt⟩
    by_cases h0 : cnt = 0
    · subst h0
      cases tm <;> simp [mrStep, Go.canonCstat] <;> exact ih _ _ _ hrest
    · have hs' := hs h0
      simp only at hs'
      cases tm with
      | none =>
        have hz : (⟨w, r, none⟩ : GContainerState) = Go.zeroState := by
          by_cases h : (⟨w, r, none⟩ : GContainerState) = Go.zeroState
          · exact h
          · simpa using hs' h
        simp [h0, hz, Go.zeroState, mrStep, Go.canonCstat]
        exact ih _ _ _ hrest
      | some t =>
        by_cases hgt : t.finishedAt > rt <;> by_cases hr : t.reason = "" <;>
          simp [h0, hgt, hr, mrStep, Go.canonCstat] <;> exact ih _ _ _ hrest


/-- one iteration of the model's `highestRestart`. -/
def hrStep (acc : Int × String) (s : ContainerStatus) : Int × String :=
  if s.restarts > acc.1 then
    (s.restarts,
      match s.lastTerm with
      | some t => if !t.empty && t.reason != "" then t.reason else "Unknown"
      | none => "Unknown")
  else acc

theorem highestRestart_fold (cs : List ContainerStatus) : highestRestart cs = cs.foldl hrStep (0, "") := rfl

theorem highestLoop (k : String → Int → Option (Int × String)) (l : List GContainerStatus) (i : Int)
    (reason : String) (rc : Int) (hrc : 0 ≤ rc) (hwf : ∀ s ∈ l, Go.lastStateWF s) :
    Generated.Decisions.highestRestartCount.loop1 k l i reason rc =
      k ((l.map Go.canonCstat).foldl hrStep (rc, reason)).2 ((l.map Go.canonCstat).foldl hrStep (rc, reason)).1 := by
  induction l generalizing i reason rc with
  | nil => simp [Generated.Decisions.highestRestartCount.loop1]
  | cons s rest ih =>
    have hs := hwf s (by simp)
    have hrest : ∀ x ∈ rest, Go.lastStateWF x := fun x hx => hwf x (by simp [hx])
    simp only [Generated.Decisions.highestRestartCount.loop1, List.map_cons, List.foldl_cons]
    by_cases hgt : s.restartCount > rc
    · have hne : s.restartCount ≠ 0 := by omega
      have hs' := hs hne
      rcases s with ⟨name, state, ⟨w, r, tm⟩, cnt⟩
      simp only at hgt hne hs'
      cases tm with
      | none =>
        have hz : (⟨w, r, none⟩ : GContainerState) = Go.zeroState := by
          by_cases h : (⟨w, r, none⟩ : GContainerState) = Go.zeroState
          · exact h
          · simpa using hs' h
        simp [hgt, hz, Go.zeroState, hrStep, Go.canonCstat]
        exact ih _ _ _ (by omega) hrest
      | some t =>
        by_cases ht : t = Go.zeroTerminated
        · subst ht
          simp [hgt, Go.zeroState, Go.zeroTerminated, hrStep, Go.canonCstat]
          exact ih _ _ _ (by omega) hrest
        · have ht' := ht
          unfold Go.zeroTerminated at ht'
          by_cases hr : t.reason = ""
          · simp [hgt, Go.zeroState, Go.zeroTerminated, hrStep, Go.canonCstat, ht, ht', hr]
            exact ih _ _ _ (by omega) hrest
          · simp [hgt, Go.zeroState, Go.zeroTerminated, hrStep, Go.canonCstat, ht, ht', hr]
            exact ih _ _ _ (by omega) hrest
    · simp [hgt, hrStep, Go.canonCstat]
      exact ih _ _ _ hrc hrest


theorem src_cannotStartReasons : Generated.Decisions.cannotStartReasons = Eds.cannotStartReasons := rfl

theorem src_isCannotStartReason (r : String) :
    Generated.Decisions.isCannotStartReason r = some (Eds.cannotStartReasons.contains r) := rfl

theorem src_convertReason (r : String) :
    Generated.Decisions.convertReasonToEDSStatusReason r = some (convertReason r) := by
  unfold Generated.Decisions.convertReasonToEDSStatusReason convertReason knownStatusReasons
  simp only [List.contains_cons, List.contains_nil, Bool.or_false, Bool.or_assoc]
  split <;> simp_all

/-- the predicate of the model's `cannotStart`. -/
def csPred (s : ContainerStatus) : Bool :=
  match s.waiting with
  | some r => Eds.cannotStartReasons.contains r
  | none => false

theorem cannotStart_find (cs : List ContainerStatus) :
    Eds.cannotStart cs = match cs.find? csPred with
      | some s => (true, convertReason (s.waiting.getD ""))
      | none => (false, "Unknown") := rfl

theorem cannotStartLoop (k : Unit → Option (Bool × String)) (l : List GContainerStatus) (i : Int) :
    Generated.Decisions.cannotStart.loop1 k l i =
      match (l.map Go.canonCstat).find? csPred with
      | some s => some (true, convertReason (s.waiting.getD ""))
      | none => k () := by
  induction l generalizing i with
  | nil => simp [Generated.Decisions.cannotStart.loop1]
  | cons s rest ih =>
    simp only [Generated.Decisions.cannotStart.loop1, List.map_cons, List.find?_cons, src_isCannotStartReason,
      src_convertReason]
    cases hw : s.state.waiting with
    | none =>
      have hp : csPred (Go.canonCstat s) = false := by simp [csPred, Go.canonCstat, hw]
      simp only [hp, Option.isSome_none, Bool.false_eq_true, if_false, Option.bind_some]
      exact ih _
    | some wt =>
      have hp : csPred (Go.canonCstat s) = Eds.cannotStartReasons.contains wt.reason := by
        simp [csPred, Go.canonCstat, hw]
      have hg : (Go.canonCstat s).waiting.getD "" = wt.reason := by simp [Go.canonCstat, hw]
      simp only [hp, Option.isSome_some, if_true, Option.bind_some]
      cases h : Eds.cannotStartReasons.contains wt.reason with
      | true => simp only [if_true, hg]
      | false => simp only [Bool.false_eq_true, if_false]; exact ih _

theorem src_cannotStart (p : GPod) :
    Generated.Decisions.cannotStart (some p) = some (Eds.cannotStart (Go.canonCstats p)) := by
  unfold Generated.Decisions.cannotStart
  simp only [src_containerStatusList, Option.bind_some, cannotStartLoop, cannotStart_find, Go.canonCstats]
  cases List.find? csPred (List.map Go.canonCstat
    (p.status.containerStatuses ++ p.status.initContainerStatuses ++ p.status.ephemeralContainerStatuses)) <;> rfl

theorem pendingCreateLoop (k : Unit → Option Bool) (l : List GContainerStatus) (i : Int) :
    Generated.Decisions.pendingCreate.loop1 k l i =
      if (l.map Go.canonCstat).any (fun s => s.waiting == some "ContainerCreating") then some true else k () := by
  induction l generalizing i with
  | nil => simp [Generated.Decisions.pendingCreate.loop1]
  | cons s rest ih =>
    simp only [Generated.Decisions.pendingCreate.loop1, List.map_cons, List.any_cons]
    cases hw : s.state.waiting with
    | none =>
      have hp : ((Go.canonCstat s).waiting == some "ContainerCreating") = false := by simp [Go.canonCstat, hw]
      simp only [hp, Option.isSome_none, Bool.false_eq_true, if_false, Option.bind_some, Bool.false_or]
      exact ih _
    | some wt =>
      have hp : ((Go.canonCstat s).waiting == some "ContainerCreating") = (wt.reason == "ContainerCreating") := by
        simp [Go.canonCstat, hw]
      simp only [hp, Option.isSome_some, if_true, Option.bind_some]
      cases h : (wt.reason == "ContainerCreating") with
      | true => simp
      | false => simp only [Bool.false_eq_true, if_false, Bool.false_or]; exact ih _

theorem src_pendingCreate (p : GPod) :
    Generated.Decisions.pendingCreate (some p) = some (Eds.pendingCreate (Go.canonCstats p)) := by
  unfold Generated.Decisions.pendingCreate Eds.pendingCreate
  simp only [src_containerStatusList, Option.bind_some, pendingCreateLoop, Go.canonCstats]
  cases List.any (List.map Go.canonCstat
    (p.status.containerStatuses ++ p.status.initContainerStatuses ++ p.status.ephemeralContainerStatuses))
    (fun s => s.waiting == some "ContainerCreating") <;> rfl

/-- all container statuses of a pod satisfy `Go.lastStateWF`. -/
def podLastStatesWF (p : GPod) : Prop :=
  ∀ s ∈ p.status.containerStatuses ++ p.status.initContainerStatuses ++ p.status.ephemeralContainerStatuses,
    Go.lastStateWF s

theorem src_highestRestartCount (p : GPod) (hwf : podLastStatesWF p) :
    Generated.Decisions.highestRestartCount (some p) = some (highestRestart (Go.canonCstats p)) := by
  unfold Generated.Decisions.highestRestartCount
  simp only [src_containerStatusList, Option.bind_some, highestRestart_fold, Go.canonCstats]
  rw [highestLoop _ _ _ _ _ (by omega) hwf]

theorem src_mostRecentRestart (p : GPod) (hwf : podLastStatesWF p) :
    Generated.Decisions.mostRecentRestart (some p) = some (Eds.mostRecentRestart (Go.canonCstats p)) := by
  unfold Generated.Decisions.mostRecentRestart
  simp only [src_containerStatusList, Option.bind_some, mostRecentRestart_fold, Go.canonCstats]
  rw [mostRecentLoop _ _ _ _ _ hwf]

/-! **Finding (hypothesis `podLastStatesWF` is necessary).**  A container status with a restart and a
`lastState` that is set but not to `terminated` (e.g. `lastState.running`) makes both Go functions dereference
the nil `LastTerminationState.Terminated`: they panic, while `harness/canon` drops such a `lastState` and the
model answers `(1, "Unknown")` / `(zeroTime, "")`.  The API schema allows the object; the kubelet only ever
writes `terminated` into `lastState`. -/

def findingPod : GPod :=
  { name := "p", ns := "ns", creationTimestamp := 0, deletionTimestamp := none, deletionGracePeriodSeconds := none,
    spec := { nodeName := "n", affinity := none },
    status := { phase := "Running", conditions := [], reason := "", startTime := none, initContainerStatuses := [],
                ephemeralContainerStatuses := [],
                containerStatuses := [{ name := "c", state := Go.zeroState, restartCount := 1,
                                        lastTerminationState := { waiting := none, running := some { startedAt := 0 },
                                                                  terminated := none } }] } }

theorem finding_highestRestartCount_panics :
    Generated.Decisions.highestRestartCount (some findingPod) = none ∧
    highestRestart (Go.canonCstats findingPod) = (1, "Unknown") := by
  constructor <;> decide

theorem finding_mostRecentRestart_panics :
    Generated.Decisions.mostRecentRestart (some findingPod) = none ∧
    Eds.mostRecentRestart (Go.canonCstats findingPod) = (zeroTime, "") := by
  constructor <;> decide

/-! `podLastStatesWF` is exactly the condition under which `MostRecentRestart` does not panic. -/

theorem mostRecentLoop_panics (k : String → Int → Option (Int × String)) (l : List GContainerStatus) (i : Int)
    (reason : String) (rt : Int) (hbad : ∃ s ∈ l, ¬ Go.lastStateWF s) :
    Generated.Decisions.mostRecentRestart.loop1 k l i reason rt = none := by
  induction l generalizing i reason rt with
  | nil => simp at hbad
  | cons s rest ih =>
    by_cases hs : Go.lastStateWF s
    · have hrest : ∃ x ∈ rest, ¬ Go.lastStateWF x := by
        obtain ⟨x, hx, hb⟩ := hbad
        rcases List.mem_cons.mp hx with rfl | hx
        · exact absurd hs hb
        · exact ⟨x, hx, hb⟩
      simp only [Generated.Decisions.mostRecentRestart.loop1]
      rcases s with ⟨name, state, ⟨w, r, tm⟩, cnt⟩
      by_cases h0 : cnt = 0
      · subst h0
        simp; exact ih _ _ _ hrest
      · have hs' := hs h0
        simp only at hs'
        cases tm with
        | none =>
          have hz : (⟨w, r, none⟩ : GContainerState) = Go.zeroState := by
            by_cases h : (⟨w, r, none⟩ : GContainerState) = Go.zeroState
            · exact h
            · simpa using hs' h
          simp [h0, hz, Go.zeroState]
          exact ih _ _ _ hrest
        | some t =>
          by_cases hgt : t.finishedAt > rt <;> by_cases hr : t.reason = "" <;>
            simp [h0, hgt, hr] <;> exact ih _ _ _ hrest
    · simp only [Generated.Decisions.mostRecentRestart.loop1]
      rcases s with ⟨name, state, ⟨w, r, tm⟩, cnt⟩
      unfold Go.lastStateWF at hs
      simp only [Classical.not_imp] at hs
      obtain ⟨h0, hz, hn⟩ := hs
      cases tm with
      | some t => simp at hn
      | none =>
        have : ((⟨w, r, none⟩ : GContainerState) != ⟨none, none, none⟩) = true := by
          simpa [Go.zeroState] using hz
        simp [h0, this]

theorem src_mostRecentRestart_panics_iff (p : GPod) :
    Generated.Decisions.mostRecentRestart (some p) = none ↔ ¬ podLastStatesWF p := by
  constructor
  · intro h hwf
    rw [src_mostRecentRestart p hwf] at h
    cases h
  · intro h
    unfold podLastStatesWF at h
    simp only [Classical.not_forall] at h
    obtain ⟨s, hs, hb⟩ := h
    unfold Generated.Decisions.mostRecentRestart
    simp only [src_containerStatusList, Option.bind_some]
    exact mostRecentLoop_panics _ _ _ _ _ ⟨s, hs, hb⟩


/-! ### readiness / availability -/

/-- what the index loop of `GetPodConditionFromList` computes from position `i` on. -/
def findFrom (ct : String) : List GPodCondition → Int → Int × Option GPodCondition
  | [], _ => (-1, none)
  | c :: rest, i => if c.type == ct then (i, some c) else findFrom ct rest (i + 1)

theorem findFrom_snd (ct : String) (l : List GPodCondition) (i : Int) :
    (findFrom ct l i).2 = l.find? (fun c => c.type == ct) := by
  induction l generalizing i with
  | nil => rfl
  | cons c rest ih =>
    simp only [findFrom, List.find?_cons]
    cases h : (c.type == ct) <;> simp [ih]

/-- the loop `for i := range conditions { … conditions[i] … }`: the index expressions never panic. -/
theorem podCondLoop (ct : String) (pre suf : List GPodCondition) :
    Generated.Decisions.getPodConditionFromList.loop1 ct (pre ++ suf) (fun _ => some (-1, none)) suf (pre.length : Int) =
      some (findFrom ct suf (pre.length : Int)) := by
  induction suf generalizing pre with
  | nil => simp [Generated.Decisions.getPodConditionFromList.loop1, findFrom]
  | cons c rest ih =>
    simp only [Generated.Decisions.getPodConditionFromList.loop1, index_at, Option.bind_some, findFrom]
    cases h : (c.type == ct) with
    | true => simp
    | false =>
      simp only [Bool.false_eq_true, if_false]
      have := ih (pre ++ [c])
      simp only [List.append_assoc, List.singleton_append, List.length_append, List.length_singleton,
        Int.natCast_add, Int.natCast_one] at this
      exact this

theorem src_getPodConditionFromList (l : List GPodCondition) (ct : String) (nilSlice : Bool) :
    Generated.Decisions.getPodConditionFromList l ct nilSlice = some (findFrom ct l 0) := by
  unfold Generated.Decisions.getPodConditionFromList Go.sliceIsNil
  have := podCondLoop ct [] l
  simp only [List.nil_append, List.length_nil, Int.natCast_zero] at this
  cases l with
  | nil => cases nilSlice <;> simp [findFrom, Generated.Decisions.getPodConditionFromList.loop1]
  | cons c rest => simp [this]

theorem src_getPodCondition (st : GPodStatus) (ct : String) (nilSlice : Bool) :
    Generated.Decisions.getPodCondition (some st) ct nilSlice = some (findFrom ct st.conditions 0) := by
  simp [Generated.Decisions.getPodCondition, src_getPodConditionFromList]

theorem src_getPodCondition_nil (ct : String) (nilSlice : Bool) :
    Generated.Decisions.getPodCondition none ct nilSlice = some (-1, none) := rfl

theorem src_getPodReadyCondition (st : GPodStatus) (nilSlice : Bool) :
    Generated.Decisions.getPodReadyCondition st nilSlice = some (st.conditions.find? (fun c => c.type == "Ready")) := by
  simp [Generated.Decisions.getPodReadyCondition, src_getPodCondition, findFrom_snd]

/-- `IsPodReady` on the Go-side record. -/
def readyOf (l : List GPodCondition) : Bool :=
  match l.find? (fun c => c.type == "Ready") with
  | some c => c.status == "True"
  | none => false

theorem src_isPodReadyConditionTrue (st : GPodStatus) (nilSlice : Bool) :
    Generated.Decisions.isPodReadyConditionTrue st nilSlice = some (readyOf st.conditions) := by
  unfold Generated.Decisions.isPodReadyConditionTrue readyOf
  simp only [src_getPodReadyCondition, Option.bind_some]
  cases List.find? (fun c => c.type == "Ready") st.conditions <;> simp

theorem readyOf_canon (p : GPod) (m : Pod) (h : m.conds = Go.canonPodConds p) : readyOf p.status.conditions = m.ready := by
  unfold readyOf Pod.ready
  rw [h, Go.canonPodConds, List.find?_map]
  have : ((fun c : PodCond => c.type == "Ready") ∘ Go.canonPodCond) = (fun c : GPodCondition => c.type == "Ready") := rfl
  rw [this]
  cases List.find? (fun c : GPodCondition => c.type == "Ready") p.status.conditions <;> simp [Go.canonPodCond]

/-- `IsPodReady` is the model's `Pod.ready` of the canonical form. -/
theorem src_isPodReady (p : GPod) (m : Pod) (h : m.conds = Go.canonPodConds p) (nilSlice : Bool) :
    Generated.Decisions.isPodReady (some p) nilSlice = some m.ready := by
  simp [Generated.Decisions.isPodReady, src_isPodReadyConditionTrue, readyOf_canon p m h]

/-- `IsPodAvailable(pod, minReadySeconds, now)` in general. -/
theorem src_isPodAvailable_gen (p : GPod) (mrs : Int) (now : Time) (nilSlice : Bool) :
    Generated.Decisions.isPodAvailable (some p) mrs now nilSlice =
      some (match p.status.conditions.find? (fun c => c.type == "Ready") with
            | some c => c.status == "True" &&
                (mrs == 0 || (!isZeroTime c.lastTransitionTime && decide (c.lastTransitionTime + mrs * sec < now)))
            | none => false) := by
  unfold Generated.Decisions.isPodAvailable
  simp only [Generated.Decisions.isPodReady, src_isPodReadyConditionTrue, src_getPodReadyCondition, Option.bind_some,
    readyOf]
  cases hf : List.find? (fun c => c.type == "Ready") p.status.conditions with
  | none => simp
  | some c =>
    by_cases hs : c.status = "True" <;> by_cases h0 : mrs = 0 <;> simp [hs, h0]
    split <;> simp_all

/-- with `minReadySeconds = 0` (what the controller passes) availability is the model's `Pod.available`. -/
theorem src_isPodAvailable (p : GPod) (m : Pod) (h : m.conds = Go.canonPodConds p) (now : Time) (nilSlice : Bool) :
    Generated.Decisions.isPodAvailable (some p) 0 now nilSlice = some m.available := by
  rw [src_isPodAvailable_gen]
  unfold Pod.available
  rw [← readyOf_canon p m h, readyOf]
  cases List.find? (fun c => c.type == "Ready") p.status.conditions <;> simp


/-! ### node name from the affinity, scheduler issue -/

def namePred (f : Req) : Bool := f.key == "metadata.name" && !f.values.isEmpty

/-- the node name the nested loops of `GetNodeNameFromAffinity` find, if any. -/
def firstName : List Term → Option String
  | [] => none
  | t :: rest =>
    match t.fields.find? namePred with
    | some f => some f.values.head!
    | none => firstName rest

theorem nodeNameFromTerms_first (ts : List Term) : nodeNameFromTerms ts = (firstName ts).getD "" := by
  induction ts with
  | nil => rfl
  | cons t rest ih =>
    unfold nodeNameFromTerms firstName
    have : (fun f : Req => f.key == "metadata.name" && !f.values.isEmpty) = namePred := rfl
    rw [this]
    cases List.find? namePred t.fields with
    | none => simpa using ih
    | some f => simp

theorem affinityFieldLoop (k : Unit → Option String) (fs : List Req) (i : Int) :
    Generated.Decisions.getNodeNameFromAffinity.loop2 k fs i =
      match fs.find? namePred with
      | some f => some f.values.head!
      | none => k () := by
  induction fs generalizing i with
  | nil => simp [Generated.Decisions.getNodeNameFromAffinity.loop2]
  | cons f rest ih =>
    simp only [Generated.Decisions.getNodeNameFromAffinity.loop2, List.find?_cons]
    rcases f with ⟨key, op, values⟩
    cases values with
    | nil => simp [namePred]; exact ih _
    | cons v vs =>
      by_cases hk : key = "metadata.name"
      · have h0 : (0 : Int) < (vs.length : Int) + 1 := by omega
        simp [namePred, hk, Go.index, h0, List.head!]
      · have hk' : (key == "metadata.name") = false := by simpa using hk
        simp only [namePred, hk', Bool.false_and, Bool.false_eq_true, if_false]
        exact ih _

theorem affinityTermLoop (k : Unit → Option String) (ts : List Term) (i : Int) :
    Generated.Decisions.getNodeNameFromAffinity.loop1 k ts i =
      match firstName ts with
      | some n => some n
      | none => k () := by
  induction ts generalizing i with
  | nil => simp [Generated.Decisions.getNodeNameFromAffinity.loop1, firstName]
  | cons t rest ih =>
    simp only [Generated.Decisions.getNodeNameFromAffinity.loop1, affinityFieldLoop, firstName]
    cases List.find? namePred t.fields with
    | none => simp only []; exact ih _
    | some f => rfl

/-- `affinity.GetNodeNameFromAffinity` never panics and is the model's `nodeNameFromAffinity`. -/
theorem src_getNodeNameFromAffinity (a : Option GAffinity) :
    Generated.Decisions.getNodeNameFromAffinity a = some (nodeNameFromAffinity (Go.canonAffRequired a)) := by
  unfold Generated.Decisions.getNodeNameFromAffinity nodeNameFromAffinity Go.canonAffRequired
  cases a with
  | none => simp
  | some a =>
    cases hna : a.nodeAffinity with
    | none => simp [hna]
    | some na =>
      cases hr : na.required with
      | none => simp [hna, hr]
      | some sel =>
        simp only [Option.isNone_some, Bool.false_eq_true, if_false, Option.bind_some, hna, hr, Option.isSome_some,
          if_true, affinityTermLoop, nodeNameFromTerms_first]
        cases firstName sel.nodeSelectorTerms <;> rfl

theorem src_isPodScheduled (p : GPod) :
    Generated.Decisions.isPodScheduled (some p) =
      some (nodeNameFromAffinity (Go.canonAffRequired p.spec.affinity), p.spec.nodeName != "") := by
  simp [Generated.Decisions.isPodScheduled, src_getNodeNameFromAffinity]

/-- `HasPodSchedulerIssue`, both reads of the wall clock returning `wall`, is the model's `Pod.schedulerIssue`
(ten minutes unscheduled, or terminating for longer than the grace period). -/
theorem src_hasPodSchedulerIssue (p : GPod) (m : Pod) (wall : Time)
    (hn : m.nodeName = p.spec.nodeName) (hc : m.creation = p.creationTimestamp)
    (hd : m.deletion = p.deletionTimestamp) (hg : m.gracePeriod = p.deletionGracePeriodSeconds) :
    Generated.Decisions.hasPodSchedulerIssue (some p) wall wall = some (m.schedulerIssue wall) := by
  unfold Generated.Decisions.hasPodSchedulerIssue Pod.schedulerIssue Pod.scheduled
  simp only [src_isPodScheduled, Option.bind_some, hn, hc, hd, hg]
  have h10 : (10 : Int) * minute = 600 * sec := by simp [minute]; omega
  rw [h10]
  cases p.deletionTimestamp <;> cases p.deletionGracePeriodSeconds <;>
    by_cases h1 : p.spec.nodeName = "" <;> simp [h1] <;> split <;> simp_all <;> split <;> simp_all

/-! ### `HighestRestartCount`: the exact no-panic condition -/

/-- exactly the statuses `HighestRestartCount` dereferences `LastTerminationState.Terminated` of (those that
raise the running maximum `rc`) have a `lastState` that is unset or set to `terminated`. -/
def hrSafe : List GContainerStatus → Int → Bool
  | [], _ => true
  | s :: rest, rc =>
    if s.restartCount > rc then
      (s.lastTerminationState == Go.zeroState || s.lastTerminationState.terminated.isSome) &&
        hrSafe rest s.restartCount
    else hrSafe rest rc

theorem hrSafe_of_wf (l : List GContainerStatus) (rc : Int) (hrc : 0 ≤ rc) (hwf : ∀ s ∈ l, Go.lastStateWF s) :
    hrSafe l rc = true := by
  induction l generalizing rc with
  | nil => rfl
  | cons s rest ih =>
    unfold hrSafe
    have hrest : ∀ x ∈ rest, Go.lastStateWF x := fun x hx => hwf x (by simp [hx])
    split
    · next h =>
      have h1 := hwf s (by simp) (by omega)
      have h2 := ih s.restartCount (by omega) hrest
      by_cases hz : s.lastTerminationState = Go.zeroState
      · simp [hz, h2]
      · simp [h1 hz, h2]
    · exact ih _ hrc hrest

/-- `HighestRestartCount` panics exactly on `¬ hrSafe`, and is the model's function otherwise. -/
theorem highestLoop_exact (k : String → Int → Option (Int × String)) (l : List GContainerStatus) (i : Int)
    (reason : String) (rc : Int) :
    Generated.Decisions.highestRestartCount.loop1 k l i reason rc =
      if hrSafe l rc then
        k ((l.map Go.canonCstat).foldl hrStep (rc, reason)).2 ((l.map Go.canonCstat).foldl hrStep (rc, reason)).1
      else none := by
  induction l generalizing i reason rc with
  | nil => simp [Generated.Decisions.highestRestartCount.loop1, hrSafe]
  | cons s rest ih =>
    simp only [Generated.Decisions.highestRestartCount.loop1, List.map_cons, List.foldl_cons]
    rcases s with ⟨name, state, ⟨w, r, tm⟩, cnt⟩
    by_cases hgt : cnt > rc
    · cases tm with
      | none =>
        by_cases hz : (⟨w, r, none⟩ : GContainerState) = Go.zeroState
        · simp [hgt, hz, Go.zeroState, hrStep, Go.canonCstat, hrSafe]
          exact ih _ _ _
        · have hb : ((⟨w, r, none⟩ : GContainerState) != ⟨none, none, none⟩) = true := by
            simpa [Go.zeroState] using hz
          simp [hgt, hb, hrSafe, hz]
      | some t =>
        by_cases ht : t = Go.zeroTerminated
        · subst ht
          simp [hgt, Go.zeroState, Go.zeroTerminated, hrStep, Go.canonCstat, hrSafe]
          exact ih _ _ _
        · have ht' := ht
          unfold Go.zeroTerminated at ht'
          by_cases hr : t.reason = ""
          · simp [hgt, Go.zeroState, Go.zeroTerminated, hrStep, Go.canonCstat, ht, ht', hr, hrSafe]
            exact ih _ _ _
          · simp [hgt, Go.zeroState, Go.zeroTerminated, hrStep, Go.canonCstat, ht, ht', hr, hrSafe]
            exact ih _ _ _
    · simp [hgt, hrStep, Go.canonCstat, hrSafe]
      exact ih _ _ _

theorem src_highestRestartCount_exact (p : GPod) :
    Generated.Decisions.highestRestartCount (some p) =
      if hrSafe (p.status.containerStatuses ++ p.status.initContainerStatuses ++ p.status.ephemeralContainerStatuses) 0
      then some (highestRestart (Go.canonCstats p)) else none := by
  unfold Generated.Decisions.highestRestartCount
  simp only [src_containerStatusList, Option.bind_some, highestRestart_fold, Go.canonCstats, highestLoop_exact]

end Eds.Bridge
