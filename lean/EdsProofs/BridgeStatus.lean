import EdsModel.Generated.DecStatus
import EdsProofs.BridgeConds
import EdsProofs.BridgeCanary
import EdsModel.CanaryS
import EdsModel.Filter
import EdsModel.SettingCtl
/-
  EdsProofs.BridgeStatus — the hand-written model functions the property theorems are stated about are
  *equal* to the Lean definitions the translator (tools/extract/gotolean.go) regenerates from the Go
  source on every run (EdsModel/Generated/DecStatus.lean): the canary failure evaluation of the replica-set
  controller (`manageCanaryPodFailures`, C06), the status functions of the ExtendedDaemonSet controller
  (`manageStatus`, `manageCanaryStatusConditions`, `clearCanaryAnnotations`; C14, C07) and small pure helpers.

  `none` on the generated side is a Go panic; every theorem therefore also says that the function
  does not panic on the stated arguments (non-nil where the callers pass non-nil).
-/
set_option linter.unusedSimpArgs false
set_option linter.unusedVariables false
namespace Eds.Bridge
open Eds

/-! ### small pure helpers -/

theorem src_boolToCondition (b : Bool) : Generated.Decisions.boolToCondition b = some (boolCond b) := by
  cases b <;> rfl

/-- `utils.MergeResult` is the model's `mergeResult` on (requeue, requeueAfter). -/
theorem src_mergeResult (r1 r2 : GReconcileResult) :
    Generated.Decisions.mergeResult r1 r2 =
      some { requeue := (Eds.mergeResult (r1.requeue, r1.requeueAfter) (r2.requeue, r2.requeueAfter)).1,
             requeueAfter := (Eds.mergeResult (r1.requeue, r1.requeueAfter) (r2.requeue, r2.requeueAfter)).2 } := by
  unfold Generated.Decisions.mergeResult Eds.mergeResult
  rcases r1 with ⟨q1, a1⟩
  rcases r2 with ⟨q2, a2⟩
  by_cases h0 : a1 + a2 > 0 <;> by_cases h1 : a2 = 0 <;> by_cases h2 : a1 = 0 <;> by_cases h3 : a1 > a2 <;>
    cases q1 <;> cases q2 <;> simp [h0, h1, h2, h3] <;> (try (split <;> simp_all)) <;> (try omega)

theorem containsLoop (s : String) (k : Unit → Option Bool) (l : List String) (i : Int) :
    Generated.Decisions.containsString.loop1 s k l i = if l.contains s then some true else k () := by
  induction l generalizing i with
  | nil => simp [Generated.Decisions.containsString.loop1]
  | cons v rest ih =>
    simp only [Generated.Decisions.containsString.loop1, List.contains_cons]
    by_cases h : v = s
    · simp [h]
    · have h' : (s == v) = false := by simpa using fun e => h e.symm
      simp [h, h', ih]

/-- `utils.ContainsString` never panics and is list membership. -/
theorem src_containsString (l : List String) (s : String) :
    Generated.Decisions.containsString l s = some (l.contains s) := by
  unfold Generated.Decisions.containsString
  rw [containsLoop]
  cases l.contains s <;> rfl

/-! ### the model pod as the canonical form of the Go pod -/

/-- `m` is `harness/canon.CPod` of `g`, as far as the functions translated in this group read a pod. -/
structure PodRel (g : GPod) (m : Pod) : Prop where
  name : m.name = g.name
  nodeName : m.nodeName = g.spec.nodeName
  creation : m.creation = g.creationTimestamp
  startTime : m.startTime = g.status.startTime
  conds : m.conds = Go.canonPodConds g
  cstats : m.cstats = Go.canonCstats g
  affRequired : m.affRequired = Go.canonAffRequired g.spec.affinity
  annotations : m.annotations = g.annotations

/-- the pointwise relation of a list of Go pods and the list of their canonical forms. -/
inductive PodsRel : List GPod → List Pod → Prop
  | nil : PodsRel [] []
  | cons {g : GPod} {m : Pod} {gs : List GPod} {ms : List Pod} : PodRel g m → PodsRel gs ms → PodsRel (g :: gs) (m :: ms)

/-- `compareSpecTemplateMD5Hash`: the pod carries the template hash annotation with this value. -/
theorem src_compareSpecTemplateMD5Hash (hash : String) (g : GPod) (m : Pod) (h : m.annotations = g.annotations) :
    Generated.Decisions.compareSpecTemplateMD5Hash hash (some g) = some (compareSpecTemplateHash hash m) := by
  unfold Generated.Decisions.compareSpecTemplateMD5Hash compareSpecTemplateHash SMap.getD SMap.contains
  simp only [Option.bind_some, h, K.templateHashAnnot]
  cases SMap.get? g.annotations "extendeddaemonset.datadoghq.com/templatehash" with
  | none => simp
  | some v => by_cases hv : v = hash <;> simp [hv]

theorem strLen_ne_zero (s : String) : (Go.strLen s != 0) = (s != "") := by
  unfold Go.strLen
  by_cases h : s = ""
  · subst h; rfl
  · have : s.utf8ByteSize ≠ 0 := fun e => h (String.utf8ByteSize_eq_zero_iff.mp e)
    have h2 : ((s.utf8ByteSize : Int) != 0) = true := by simp; omega
    simp [h, h2]

theorem strLen_eq_zero (s : String) : (Go.strLen s == 0) = (s == "") := by
  have := strLen_ne_zero s
  simp only [bne] at this
  cases h1 : (Go.strLen s == 0) <;> cases h2 : (s == "") <;> simp_all

/-- `sortPodByNodeName.Less(i, j)` on two non-nil pods is the model's `podLess` of their canonical forms. -/
theorem src_sortPodByNodeNameLess (o : List (Option GPod)) (i j : Int) (a b : GPod) (ma mb : Pod)
    (hi : Go.index o i = some (some a)) (hj : Go.index o j = some (some b))
    (ha : PodRel a ma) (hb : PodRel b mb) :
    Generated.Decisions.sortPodByNodeNameLess o i j = some (podLess ma mb) := by
  unfold Generated.Decisions.sortPodByNodeNameLess podLess
  simp only [hi, hj, Option.bind_some, strLen_ne_zero, strLen_eq_zero, ha.nodeName, hb.nodeName, ha.creation, hb.creation,
    ha.name, hb.name]
  by_cases h1 : a.spec.nodeName = "" <;> by_cases h2 : b.spec.nodeName = "" <;>
    by_cases h3 : a.creationTimestamp = b.creationTimestamp <;> simp [h1, h2, h3]

/-- `edsNodeByCreationTimestampAndPhase.Less(i, j)` is the model's `settingLess`. -/
theorem src_edsNodeByCreationTimestampAndPhaseLess (o : List (Option Setting)) (i j : Int) (a b : Setting)
    (hi : Go.index o i = some (some a)) (hj : Go.index o j = some (some b)) :
    Generated.Decisions.edsNodeByCreationTimestampAndPhaseLess o i j = some (settingLess a b) := by
  unfold Generated.Decisions.edsNodeByCreationTimestampAndPhaseLess settingLess
  simp only [hi, hj, Option.bind_some]
  by_cases h : a.creation = b.creation <;> simp [h]

/-! ### the status functions of the ExtendedDaemonSet controller (controllers/extendeddaemonset/controller.go) -/

/-- `manageStatus` on non-nil arguments never panics and is the model's `manageStatus`. -/
theorem src_manageStatus (st : EDSStatus) (u : ERS) (ca f p : Bool) (pr : String) (g : GEds) :
    Generated.Decisions.manageStatus (some st) (some u) ca f p pr (some g) =
      some (some (Eds.manageStatus st u ca f p pr g.annotations)) := by
  unfold Generated.Decisions.manageStatus Eds.manageStatus
  cases f <;> cases ca <;> cases p <;> cases hc : st.canary <;>
    simp [src_nonCanaryState, hc]

/-- a failed canary: neither the up-to-date replica set nor the daemonset is read. -/
theorem src_manageStatus_failed (st : EDSStatus) (u : Option ERS) (ca p : Bool) (pr : String) (g : Option GEds) :
    Generated.Decisions.manageStatus (some st) u ca true p pr g =
      some (some { st with canary := none, state := "Canary Failed", reason := "" }) := by
  unfold Generated.Decisions.manageStatus
  simp

/-- `manageCanaryStatusConditions` rewrites the two canary conditions of the ExtendedDaemonSet status. -/
theorem src_manageCanaryStatusConditions (st : EDSStatus) (now : Time) (f p : Bool) (pr name : String) :
    Generated.Decisions.manageCanaryStatusConditions (some st) now f p pr name =
      some (some { st with conds := Eds.manageCanaryStatusConditions st.conds now f p pr name }) := by
  unfold Generated.Decisions.manageCanaryStatusConditions Eds.manageCanaryStatusConditions
  cases f <;> cases p <;> simp [src_updateEDSCondition, optWriteFalse, optSupportLastUpdate]

/-! #### `clearCanaryAnnotations` -/

theorem smap_contains_any (m : SMap) (k : String) : SMap.contains m k = m.any (fun e => e.k == k) := by
  unfold SMap.contains SMap.get?
  induction m with
  | nil => rfl
  | cons e rest ih =>
    simp only [List.find?_cons, List.any_cons]
    cases h : (e.k == k) with
    | true => simp
    | false => simpa using ih

theorem smap_erase_absent (m : SMap) (k : String) (h : SMap.contains m k = false) : SMap.erase m k = m := by
  unfold SMap.erase
  rw [List.filter_eq_self]
  intro e he
  rw [smap_contains_any] at h
  have := List.any_eq_false.mp h e he
  simpa [bne] using this

theorem smap_contains_erase_ne (m : SMap) (k1 k2 : String) (h : k1 ≠ k2) :
    SMap.contains (SMap.erase m k1) k2 = SMap.contains m k2 := by
  rw [smap_contains_any, smap_contains_any]
  unfold SMap.erase
  rw [List.any_filter]
  congr 1
  funext e
  by_cases he : e.k = k2
  · subst he
    have : (e.k != k1) = true := by simpa [bne] using fun x => h x.symm
    simp [this]
  · simp [he]

theorem clear_step (m : SMap) (k : String) :
    (if SMap.contains m k = true then SMap.erase m k else m) = SMap.erase m k := by
  cases h : SMap.contains m k
  · simp [smap_erase_absent m k h]
  · simp

/-- `clearCanaryAnnotations(eds)`: the three canary annotations are removed, the result says whether one was there. -/
theorem src_clearCanaryAnnotations (g : GEds) :
    Generated.Decisions.clearCanaryAnnotations (some g) =
      some ((Eds.clearCanaryAnnotations g.annotations).2,
            some { g with annotations := (Eds.clearCanaryAnnotations g.annotations).1 }) := by
  have hann : ∀ (b : Bool) (x : SMap) (k : String) (u : Bool),
      (if b = true then (({ g with annotations := SMap.erase x k } : GEds), true) else (({ g with annotations := x } : GEds), u)) =
      (({ g with annotations := if b = true then SMap.erase x k else x } : GEds), b || u) := by
    intro b x k u; cases b <;> simp
  unfold Generated.Decisions.clearCanaryAnnotations Eds.clearCanaryAnnotations
  simp only [Generated.Decisions.clearCanaryAnnotations.loop1, Option.bind_some, K.canaryPausedAnnot,
    K.canaryPausedReasonAnnot, K.canaryUnpausedAnnot]
  rcases g with ⟨spec, ann, st⟩
  simp only [hann, clear_step]
  have e12 : SMap.contains (SMap.erase ann "extendeddaemonset.datadoghq.com/canary-paused")
      "extendeddaemonset.datadoghq.com/canary-paused-reason" =
      SMap.contains ann "extendeddaemonset.datadoghq.com/canary-paused-reason" :=
    smap_contains_erase_ne _ _ _ (by decide)
  have e13 : SMap.contains (SMap.erase (SMap.erase ann "extendeddaemonset.datadoghq.com/canary-paused")
      "extendeddaemonset.datadoghq.com/canary-paused-reason") "extendeddaemonset.datadoghq.com/canary-unpaused" =
      SMap.contains ann "extendeddaemonset.datadoghq.com/canary-unpaused" := by
    rw [smap_contains_erase_ne _ _ _ (by decide), smap_contains_erase_ne _ _ _ (by decide)]
  simp only [e12, e13]
  have hf : SMap.erase (SMap.erase (SMap.erase ann "extendeddaemonset.datadoghq.com/canary-paused")
      "extendeddaemonset.datadoghq.com/canary-paused-reason") "extendeddaemonset.datadoghq.com/canary-unpaused" =
      List.filter (fun e => !["extendeddaemonset.datadoghq.com/canary-paused",
        "extendeddaemonset.datadoghq.com/canary-paused-reason", "extendeddaemonset.datadoghq.com/canary-unpaused"].contains e.k) ann := by
    unfold SMap.erase
    rw [List.filter_filter, List.filter_filter]
    apply List.filter_congr
    intro e _
    simp only [List.contains_cons, List.contains_nil, Bool.or_false, bne, Bool.not_or]
    cases (e.k == "extendeddaemonset.datadoghq.com/canary-paused") <;>
      cases (e.k == "extendeddaemonset.datadoghq.com/canary-unpaused") <;>
      cases (e.k == "extendeddaemonset.datadoghq.com/canary-paused-reason") <;> rfl
  simp only [hf, List.any_cons, List.any_nil, Bool.or_false]
  cases SMap.contains ann "extendeddaemonset.datadoghq.com/canary-paused" <;>
    cases SMap.contains ann "extendeddaemonset.datadoghq.com/canary-paused-reason" <;>
    cases SMap.contains ann "extendeddaemonset.datadoghq.com/canary-unpaused" <;> rfl

/-- a nil ExtendedDaemonSet is dereferenced. -/
theorem src_clearCanaryAnnotations_nil : Generated.Decisions.clearCanaryAnnotations none = none := rfl

/-! ### `manageUnscheduledPodNodes` (strategy/utils.go) -/

theorem findFrom_none (ct : String) (l : List GPodCondition) (i : Int)
    (h : l.find? (fun c => c.type == ct) = none) : findFrom ct l i = (-1, none) := by
  induction l generalizing i with
  | nil => rfl
  | cons c rest ih =>
    simp only [List.find?_cons] at h
    cases hc : (c.type == ct) with
    | true => simp [hc] at h
    | false => simp only [hc] at h; simp [findFrom, hc, ih _ h]

theorem findFrom_some (ct : String) (l : List GPodCondition) (i : Int) (hi : 0 ≤ i) (c : GPodCondition)
    (h : l.find? (fun c => c.type == ct) = some c) : ∃ j, 0 ≤ j ∧ findFrom ct l i = (j, some c) := by
  induction l generalizing i with
  | nil => simp at h
  | cons x rest ih =>
    simp only [List.find?_cons] at h
    cases hx : (x.type == ct) with
    | true => simp only [hx, Option.some.injEq] at h; subst h; exact ⟨i, hi, by simp [findFrom, hx]⟩
    | false =>
      simp only [hx] at h
      obtain ⟨j, hj, he⟩ := ih (i + 1) (by omega) h
      exact ⟨j, hj, by simp [findFrom, hx, he]⟩

/-- one entry of the model's `unscheduledNodes`. -/
def unschedOf (p : Pod) : Option String :=
  match p.conds.find? (fun c => c.type == "PodScheduled") with
  | some c =>
    if c.status == "False" && c.reason == "Unschedulable" then
      some (if p.nodeName != "" then p.nodeName else nodeNameFromAffinity p.affRequired)
    else none
  | none => none

theorem unscheduledNodes_cons (m : Pod) (ms : List Pod) :
    unscheduledNodes (m :: ms) = (match unschedOf m with | some x => [x] | none => []) ++ unscheduledNodes ms := by
  have e : ∀ l, unscheduledNodes l = l.filterMap unschedOf := fun _ => rfl
  rw [e, e, List.filterMap_cons]
  cases unschedOf m <;> rfl

theorem unschedLoop (nilSlice : Bool) (k : List String → Option (List String)) (gs : List GPod) (ms : List Pod)
    (hrel : PodsRel gs ms) (i : Int) (out : List String) :
    Generated.Decisions.manageUnscheduledPodNodes.loop1 nilSlice k (gs.map some) i out =
      k (out ++ unscheduledNodes ms) := by
  induction hrel generalizing i out with
  | nil => simp [Generated.Decisions.manageUnscheduledPodNodes.loop1, unscheduledNodes]
  | @cons g m gs ms hr _ ih =>
    simp only [List.map_cons, Generated.Decisions.manageUnscheduledPodNodes.loop1, Option.bind_some, src_getPodCondition,
      src_getNodeNameFromAffinity, unscheduledNodes_cons]
    have hfind : m.conds.find? (fun c => c.type == "PodScheduled") =
        (g.status.conditions.find? (fun c => c.type == "PodScheduled")).map Go.canonPodCond := by
      rw [hr.conds, Go.canonPodConds, List.find?_map]; rfl
    cases hf : g.status.conditions.find? (fun c => c.type == "PodScheduled") with
    | none =>
      have hu : unschedOf m = none := by simp [unschedOf, hfind, hf]
      simp only [findFrom_none _ _ _ hf, hu]
      simpa using ih (i + 1) out
    | some c =>
      obtain ⟨j, hj, he⟩ := findFrom_some "PodScheduled" g.status.conditions 0 (by omega) c hf
      have hne : ¬ (j = -1) := by omega
      simp only [he, hne, beq_iff_eq, if_false, Option.bind_some]
      by_cases hc : (c.status == "False" && c.reason == "Unschedulable") = true
      · by_cases hn : g.spec.nodeName = ""
        · have hu : unschedOf m = some (nodeNameFromAffinity (Go.canonAffRequired g.spec.affinity)) := by
            simp [unschedOf, hfind, hf, Go.canonPodCond, hr.nodeName, hr.affRequired, hn]
            simpa using hc
          simp only [hc, hn, hu, if_true, beq_self_eq_true, Option.bind_some]
          simpa [List.append_assoc] using ih (i + 1) (out ++ [nodeNameFromAffinity (Go.canonAffRequired g.spec.affinity)])
        · have hu : unschedOf m = some g.spec.nodeName := by
            simp [unschedOf, hfind, hf, Go.canonPodCond, hr.nodeName, hr.affRequired, hn]
            simpa using hc
          simp only [hc, hn, hu, if_true, if_false, Option.bind_some]
          simpa [List.append_assoc] using ih (i + 1) (out ++ [g.spec.nodeName])
      · have hu : unschedOf m = none := by
          simp [unschedOf, hfind, hf, Go.canonPodCond]
          simpa using hc
        simp only [hc, hu, Bool.false_eq_true, if_false, Option.bind_some]
        simpa using ih (i + 1) out

/-- `manageUnscheduledPodNodes` on non-nil pods never panics and is the model's `unscheduledNodes` of their
canonical forms. -/
theorem src_manageUnscheduledPodNodes (gs : List GPod) (ms : List Pod) (hrel : PodsRel gs ms)
    (nilSlice : Bool) :
    Generated.Decisions.manageUnscheduledPodNodes (gs.map some) nilSlice = some (unscheduledNodes ms) := by
  unfold Generated.Decisions.manageUnscheduledPodNodes
  rw [unschedLoop nilSlice _ gs ms hrel]
  simp

/-! ### `manageCanaryPodFailures` (strategy/canary.go)

The body of the translated loop is cut into three pieces in continuation-passing style (`cutA`: restart bookkeeping,
`cutB`: the cannot-start / slow-start evaluation, `cutC`: the fail / pause decision).  The three definitions are the
text of `Generated.Decisions.manageCanaryPodFailures.loop1`; `loop_cons` (by `rfl`) states that the loop body is
their composition, so a change of the Go function breaks `loop_cons`. -/

section Cuts
open Generated.Decisions

def cutA {β : Type} (pod : Option GPod) (restartCount : Int) (newRestartTime : Int) (restartingPodStatus : String)
    (K : Int × String → Option β) : Option β :=
    Option.bind (if (restartCount != 0) then
    Option.bind (Generated.Decisions.mostRecentRestart pod) fun r22 =>
    let (restartTime, recentRestartReason) := r22
    Option.bind (if (decide (restartTime > newRestartTime)) then
    let newRestartTime : Int := restartTime
    Option.bind pod fun pod_23 =>
    let restartingPodStatus : String := ("Pod " ++ pod_23.name ++ " restarting with reason: " ++ recentRestartReason)
    some (newRestartTime, restartingPodStatus)
    else
    some (newRestartTime, restartingPodStatus)) fun (newRestartTime, restartingPodStatus) =>
    some (newRestartTime, restartingPodStatus)
    else
    some (newRestartTime, restartingPodStatus)) K

def cutB {β : Type} (pod : Option GPod) (params_1 : GParams) (autoPauseEnabled : Bool) (now : Int)
    (cannotStartPodReason cannotStartPodStatus : String) (K : Bool × String × String × String → Option β) : Option β :=
    let cannotStartReason : String := ""
    Option.bind (Generated.Decisions.cannotStart pod) fun r24 =>
    let (cannotStart', cannotStartReason) := r24
    Option.bind (if cannotStart' then (Option.bind params_1.strategy fun p25 =>
    Option.bind p25.canary fun p26 =>
    Option.bind p26.autoPause fun p27 =>
    some (p27.maxSlowStartDuration).isSome) else some false) fun c28 =>
    Option.bind (if c28 then (Option.bind pod fun pod_29 =>
    Option.bind pod_29.status.startTime fun p30 =>
    Option.bind params_1.strategy fun p31 =>
    Option.bind p31.canary fun p32 =>
    Option.bind p32.autoPause fun p33 =>
    Option.bind p33.maxSlowStartDuration fun p34 =>
    some (!(decide (now > (p30 + p34))))) else some false) fun c35 =>
    Option.bind (if c35 then
    let cannotStart' : Bool := false
    let cannotStartReason : String := "Unknown"
    some (cannotStart', cannotStartPodReason, cannotStartPodStatus, cannotStartReason)
    else
    Option.bind (if cannotStart' then
    Option.bind pod fun pod_36 =>
    let cannotStartPodStatus : String := ("Pod " ++ pod_36.name ++ " cannot start with reason: " ++ cannotStartReason)
    let cannotStartPodReason : String := cannotStartReason
    some (cannotStart', cannotStartPodReason, cannotStartPodStatus, cannotStartReason)
    else
    Option.bind (if autoPauseEnabled then (Option.bind (Generated.Decisions.pendingCreate pod) fun r37 =>
    some r37) else some false) fun c38 =>
    Option.bind (if c38 then (Option.bind params_1.strategy fun p39 =>
    Option.bind p39.canary fun p40 =>
    Option.bind p40.autoPause fun p41 =>
    some (p41.maxSlowStartDuration).isSome) else some false) fun c42 =>
    Option.bind (if c42 then
    Option.bind pod fun pod_43 =>
    Option.bind pod_43.status.startTime fun p44 =>
    Option.bind params_1.strategy fun p45 =>
    Option.bind p45.canary fun p46 =>
    Option.bind p46.autoPause fun p47 =>
    Option.bind p47.maxSlowStartDuration fun p48 =>
    Option.bind (if (decide (now > (p44 + p48))) then
    Option.bind params_1.strategy fun p49 =>
    Option.bind p49.canary fun p50 =>
    Option.bind p50.autoPause fun p51 =>
    Option.bind p51.maxSlowStartDuration fun p52 =>
    let cannotStart' : Bool := true
    let cannotStartReason : String := "SlowStartTimeoutExceeded"
    let cannotStartPodStatus : String := ("Pod " ++ pod_43.name ++ " cannot start with reason: " ++ cannotStartReason)
    let cannotStartPodReason : String := cannotStartReason
    some (cannotStart', cannotStartPodReason, cannotStartPodStatus, cannotStartReason)
    else
    some (cannotStart', cannotStartPodReason, cannotStartPodStatus, cannotStartReason)) fun (cannotStart', cannotStartPodReason, cannotStartPodStatus, cannotStartReason) =>
    some (cannotStart', cannotStartPodReason, cannotStartPodStatus, cannotStartReason)
    else
    some (cannotStart', cannotStartPodReason, cannotStartPodStatus, cannotStartReason)) fun (cannotStart', cannotStartPodReason, cannotStartPodStatus, cannotStartReason) =>
    some (cannotStart', cannotStartPodReason, cannotStartPodStatus, cannotStartReason)) fun (cannotStart', cannotStartPodReason, cannotStartPodStatus, cannotStartReason) =>
    some (cannotStart', cannotStartPodReason, cannotStartPodStatus, cannotStartReason)) K

def cutC {β : Type} (autoFailCanaryTimeout : Option (Int)) (autoFailEnabled : Bool) (autoFailMaxRestarts : Int)
    (autoFailMaxRestartsDuration : Option (Int)) (autoPauseEnabled : Bool) (autoPauseMaxRestarts : Int) (now : Int)
    (restartCondition : Option (Cond)) (startCondition : Option (Cond)) (restartCount : Int) (highRestartReason : String)
    (cannotStart' : Bool) (cannotStartReason : String) (result_16 : GResult) (next : GResult → Option β) : Option β :=
    if result_16.isFailed then
    next result_16
    else
    Option.bind (if (autoFailEnabled && (decide (restartCount > autoFailMaxRestarts))) then
    let result_16 : GResult := { result_16 with isFailed := true }
    let result_16 : GResult := { result_16 with failedReason := highRestartReason }
    some result_16
    else
    Option.bind (if ((autoFailEnabled && (autoFailMaxRestartsDuration).isSome) && (restartCondition).isSome) then (Option.bind restartCondition fun restartCondition_53 =>
    Option.bind autoFailMaxRestartsDuration fun autoFailMaxRestartsDuration_54 =>
    some (decide ((restartCondition_53.lastUpdate - restartCondition_53.lastTransition) > autoFailMaxRestartsDuration_54))) else some false) fun c55 =>
    Option.bind (if c55 then
    let result_16 : GResult := { result_16 with isFailed := true }
    let result_16 : GResult := { result_16 with failedReason := "RestartsTimeoutExceeded" }
    some result_16
    else
    Option.bind (if ((autoFailEnabled && (startCondition).isSome) && (autoFailCanaryTimeout).isSome) then (Option.bind startCondition fun startCondition_56 =>
    Option.bind autoFailCanaryTimeout fun autoFailCanaryTimeout_57 =>
    some (decide ((now - startCondition_56.lastTransition) > autoFailCanaryTimeout_57))) else some false) fun c58 =>
    let result_16 := if c58 then
    let result_16 : GResult := { result_16 with isFailed := true }
    let result_16 : GResult := { result_16 with failedReason := "TimeoutExceeded" }
    result_16
    else
    let result_16 := if result_16.isUnpaused then
    let result_16 : GResult := { result_16 with isPaused := false }
    let result_16 : GResult := { result_16 with pausedReason := "" }
    result_16
    else
    let result_16 := if autoPauseEnabled then
    let result_16 := if cannotStart' then
    let result_16 : GResult := { result_16 with isPaused := true }
    let result_16 : GResult := { result_16 with pausedReason := cannotStartReason }
    result_16
    else
    let result_16 := if (decide (restartCount > autoPauseMaxRestarts)) then
    let result_16 : GResult := { result_16 with isPaused := true }
    let result_16 : GResult := { result_16 with pausedReason := highRestartReason }
    result_16
    else
    result_16
    result_16
    result_16
    else
    result_16
    result_16
    result_16
    some result_16) fun result_16 =>
    some result_16) fun result_16 =>
    next result_16

theorem loop_cons (autoFailCanaryTimeout : Option (Int)) (autoFailEnabled : Bool) (autoFailMaxRestarts : Int) (autoFailMaxRestartsDuration : Option (Int)) (autoPauseEnabled : Bool) (autoPauseMaxRestarts : Int) (now : Int) (params_1 : GParams) (restartCondition : Option (Cond)) (startCondition : Option (Cond))
    (k_ : Bool → String → String → Int → String → GResult → Option (Option (GResult))) (pod : Option GPod) (rest20 : List (Option GPod)) (i19 : Int)
    (cannotStart' : Bool) (cannotStartPodReason cannotStartPodStatus : String) (newRestartTime : Int) (restartingPodStatus : String) (result_16 : GResult) :
    Generated.Decisions.manageCanaryPodFailures.loop1 autoFailCanaryTimeout autoFailEnabled autoFailMaxRestarts autoFailMaxRestartsDuration autoPauseEnabled autoPauseMaxRestarts now params_1 restartCondition startCondition k_ (pod :: rest20) i19 cannotStart' cannotStartPodReason cannotStartPodStatus newRestartTime restartingPodStatus result_16 =
    (Option.bind (Generated.Decisions.highestRestartCount pod) fun r21 =>
    let (restartCount, highRestartReason) := r21
    cutA pod restartCount newRestartTime restartingPodStatus fun (newRestartTime, restartingPodStatus) =>
    cutB pod params_1 autoPauseEnabled now cannotStartPodReason cannotStartPodStatus fun (cannotStart', cannotStartPodReason, cannotStartPodStatus, cannotStartReason) =>
    cutC autoFailCanaryTimeout autoFailEnabled autoFailMaxRestarts autoFailMaxRestartsDuration autoPauseEnabled autoPauseMaxRestarts now restartCondition startCondition restartCount highRestartReason cannotStart' cannotStartReason result_16 fun result_16 =>
    Generated.Decisions.manageCanaryPodFailures.loop1 autoFailCanaryTimeout autoFailEnabled autoFailMaxRestarts autoFailMaxRestartsDuration autoPauseEnabled autoPauseMaxRestarts now params_1 restartCondition startCondition k_ rest20 (i19 + 1) cannotStart' cannotStartPodReason cannotStartPodStatus newRestartTime restartingPodStatus result_16) := rfl

end Cuts

/-! the model's `failStep` in three phases -/

/-- restart bookkeeping -/
def phaseA (s : FailState) (pod : Pod) (restartCount : Int) : FailState :=
  if restartCount != 0 then
    let (rt, rr) := Eds.mostRecentRestart pod.cstats
    if rt > s.newRestartTime then
      { s with newRestartTime := rt,
               restartingPodStatus := "Pod " ++ pod.name ++ " restarting with reason: " ++ rr }
    else s
  else s

/-- the cannot-start / slow-start evaluation: (cannotStart, cannotStartReason, state); `none` = `pod.Status.StartTime`
is dereferenced and nil. -/
def phaseB (cfg : FailCfg) (s : FailState) (pod : Pod) : Option (Bool × String × FailState) :=
  let (cs0, csr0) := Eds.cannotStart pod.cstats
  let needStart := (cs0 && cfg.maxSlowStart.isSome) ||
                   (!cs0 && cfg.autoPauseEnabled && Eds.pendingCreate pod.cstats && cfg.maxSlowStart.isSome)
  if needStart && pod.startTime.isNone then none else
  let startT := pod.startTime.getD 0
  let slow := cfg.maxSlowStart.getD 0
  let after := cfg.now > startT + slow
  some (
    if cs0 && cfg.maxSlowStart.isSome && !after then (false, "Unknown", s)
    else if cs0 then
      (true, csr0, { s with cannotStartPodStatus := "Pod " ++ pod.name ++ " cannot start with reason: " ++ csr0,
                            cannotStartPodReason := csr0 })
    else if cfg.autoPauseEnabled && Eds.pendingCreate pod.cstats && cfg.maxSlowStart.isSome then
      if after then
        (true, "SlowStartTimeoutExceeded",
          { s with cannotStartPodStatus := "Pod " ++ pod.name ++ " cannot start with reason: SlowStartTimeoutExceeded",
                   cannotStartPodReason := "SlowStartTimeoutExceeded" })
      else (false, csr0, s)
    else (false, csr0, s))

/-- the fail / pause decision -/
def phaseC (cfg : FailCfg) (restartCount : Int) (highReason : String) (cs : Bool) (csr : String) (s : FailState) : FailState :=
  if s.isFailed then s
  else if cfg.autoFailEnabled && restartCount > cfg.autoFailMaxRestarts then
    { s with isFailed := true, failedReason := highReason }
  else if cfg.autoFailEnabled && (match cfg.maxRestartsDuration, cfg.restartCond with
                                  | some d, some (tr, up) => up - tr > d
                                  | _, _ => false) then
    { s with isFailed := true, failedReason := "RestartsTimeoutExceeded" }
  else if cfg.autoFailEnabled && (match cfg.startCond, cfg.canaryTimeout with
                                  | some st, some d => cfg.now - st > d
                                  | _, _ => false) then
    { s with isFailed := true, failedReason := "TimeoutExceeded" }
  else if cfg.isUnpaused then { s with isPaused := false, pausedReason := "" }
  else if cfg.autoPauseEnabled then
    if cs then { s with isPaused := true, pausedReason := csr }
    else if restartCount > cfg.autoPauseMaxRestarts then { s with isPaused := true, pausedReason := highReason }
    else s
  else s

theorem failStep_phases (cfg : FailCfg) (s : FailState) (m : Pod) (hs : s.panicked = false) :
    failStep cfg s m =
      match phaseB cfg (phaseA s m (highestRestart m.cstats).1) m with
      | none => { phaseA s m (highestRestart m.cstats).1 with panicked := true }
      | some (cs, csr, sB) =>
        phaseC cfg (highestRestart m.cstats).1 (highestRestart m.cstats).2 cs csr { sB with cannotStart := cs } := by
  unfold failStep phaseA phaseB phaseC
  simp only [hs, Bool.false_eq_true, if_false]
  by_cases hN : (((Eds.cannotStart m.cstats).fst && cfg.maxSlowStart.isSome ||
        !(Eds.cannotStart m.cstats).fst && cfg.autoPauseEnabled && Eds.pendingCreate m.cstats && cfg.maxSlowStart.isSome) &&
      m.startTime.isNone) = true
  · simp only [hN, if_true]
  · simp only [hN, Bool.false_eq_true, if_false]
    rfl

/-- the flags of the Go `Result` are the flags of the model's state; the other fields are not touched by the loop. -/
def withState (R0 : GResult) (s : FailState) : GResult :=
  { R0 with isFailed := s.isFailed, failedReason := s.failedReason, isPaused := s.isPaused, pausedReason := s.pausedReason }

theorem cutA_eq {β : Type} (g : GPod) (m : Pod) (hr : PodRel g m) (hwf : podLastStatesWF g) (s : FailState)
    (rcnt : Int) (K : Int × String → Option β) :
    cutA (some g) rcnt s.newRestartTime s.restartingPodStatus K =
      K ((phaseA s m rcnt).newRestartTime, (phaseA s m rcnt).restartingPodStatus) := by
  unfold cutA phaseA
  simp only [src_mostRecentRestart g hwf, Option.bind_some, hr.cstats, hr.name]
  generalize Eds.mostRecentRestart (Go.canonCstats g) = p
  rcases p with ⟨rt, rr⟩
  by_cases h0 : rcnt = 0 <;> by_cases h1 : rt > s.newRestartTime <;> simp [h0, h1]

theorem slow_lit : " cannot start with reason: " ++ "SlowStartTimeoutExceeded" =
    " cannot start with reason: SlowStartTimeoutExceeded" := by decide

theorem slow_msg (n : String) : "Pod " ++ n ++ " cannot start with reason: " ++ "SlowStartTimeoutExceeded" =
    "Pod " ++ n ++ " cannot start with reason: SlowStartTimeoutExceeded" := by
  rw [String.append_assoc (s₁ := "Pod " ++ n), slow_lit]

theorem cutB_eq {β : Type} (g : GPod) (m : Pod) (hr : PodRel g m) (P : GParams) (strat : Strategy) (c : Canary)
    (ap : AutoPause) (hP : P.strategy = some strat) (hc : strat.canary = some c) (hap : c.autoPause = some ap)
    (cfg : FailCfg) (hslow : cfg.maxSlowStart = ap.maxSlowStartDuration) (ape : Bool) (hape : cfg.autoPauseEnabled = ape)
    (now : Int) (hnow : cfg.now = now) (s : FailState)
    (K : Bool × String × String × String → Option β) :
    cutB (some g) P ape now s.cannotStartPodReason s.cannotStartPodStatus K =
      match phaseB cfg s m with
      | none => none
      | some (cs, csr, sB) => K (cs, sB.cannotStartPodReason, sB.cannotStartPodStatus, csr) := by
  unfold cutB phaseB
  simp only [src_cannotStart, src_pendingCreate, Option.bind_some, hP, hc, hap, hr.cstats, hr.name, hr.startTime, hslow]
  generalize Eds.cannotStart (Go.canonCstats g) = p
  rcases p with ⟨cs0, csr0⟩
  generalize Eds.pendingCreate (Go.canonCstats g) = pc
  subst hape hnow
  generalize cfg.autoPauseEnabled = ape
  generalize cfg.now = now
  rcases ap with ⟨e1, e2, slow⟩
  simp only
  cases cs0 <;> cases slow <;> cases g.status.startTime <;> cases ape <;> cases pc <;> simp <;>
    split <;> simp_all [slow_msg]

/-- the model's configuration of the evaluation, from the values the Go function reads at its top. -/
def mkCfg (ape : Bool) (apm : Int) (slow : Option Dur) (afe : Bool) (afm : Int) (mrd cto : Option Dur) (unp : Bool)
    (rc sc : Option Cond) (now : Time) : FailCfg :=
  { autoPauseEnabled := ape, autoPauseMaxRestarts := apm, maxSlowStart := slow, autoFailEnabled := afe,
    autoFailMaxRestarts := afm, maxRestartsDuration := mrd, canaryTimeout := cto, isUnpaused := unp,
    restartCond := rc.map (fun c => (c.lastTransition, c.lastUpdate)), startCond := sc.map (·.lastTransition), now := now }

theorem cutC_eq {β : Type} (cto : Option Int) (afe : Bool) (afm : Int) (mrd : Option Int) (ape : Bool) (apm : Int) (now : Int)
    (rc sc : Option Cond) (slow : Option Dur) (rcnt : Int) (hreason : String) (cs : Bool) (csr : String) (R0 : GResult)
    (s : FailState) (next : GResult → Option β) :
    cutC cto afe afm mrd ape apm now rc sc rcnt hreason cs csr (withState R0 s) next =
      next (withState R0 (phaseC (mkCfg ape apm slow afe afm mrd cto R0.isUnpaused rc sc now) rcnt hreason cs csr s)) := by
  unfold cutC phaseC
  by_cases hF : s.isFailed = true
  · simp [withState, hF]
  · have hF' : s.isFailed = false := by simpa using hF
    cases afe with
    | false =>
      cases hu : R0.isUnpaused <;> cases ape <;> cases cs <;> by_cases g2 : rcnt > apm <;>
        simp [mkCfg, withState, hF', g2, hu]
    | true =>
      by_cases g1 : rcnt > afm
      · simp [mkCfg, withState, hF', g1]
      · rcases mrd with _ | d <;> rcases rc with _ | c
        all_goals (rcases sc with _ | sc' <;> rcases cto with _ | t)
        all_goals (cases hu : R0.isUnpaused <;> cases ape <;> cases cs <;> by_cases g2 : rcnt > apm)
        all_goals (first
          | (by_cases c1 : c.lastUpdate - c.lastTransition > d <;> by_cases c2 : now - sc'.lastTransition > t <;>
              simp [mkCfg, withState, hF', g1, g2, hu, c1, c2]; done)
          | (by_cases c1 : c.lastUpdate - c.lastTransition > d <;> simp [mkCfg, withState, hF', g1, g2, hu, c1]; done)
          | (by_cases c2 : now - sc'.lastTransition > t <;> simp [mkCfg, withState, hF', g1, g2, hu, c2]; done)
          | simp [mkCfg, withState, hF', g1, g2, hu])

theorem phaseA_frame (s : FailState) (m : Pod) (r : Int) :
    (phaseA s m r).isFailed = s.isFailed ∧ (phaseA s m r).failedReason = s.failedReason ∧
    (phaseA s m r).isPaused = s.isPaused ∧ (phaseA s m r).pausedReason = s.pausedReason ∧
    (phaseA s m r).cannotStart = s.cannotStart ∧ (phaseA s m r).cannotStartPodReason = s.cannotStartPodReason ∧
    (phaseA s m r).cannotStartPodStatus = s.cannotStartPodStatus ∧ (phaseA s m r).panicked = s.panicked := by
  unfold phaseA
  (repeat' split) <;> simp_all

theorem phaseB_frame (cfg : FailCfg) (s : FailState) (m : Pod) (cs : Bool) (csr : String) (sB : FailState)
    (h : phaseB cfg s m = some (cs, csr, sB)) :
    sB.isFailed = s.isFailed ∧ sB.failedReason = s.failedReason ∧ sB.isPaused = s.isPaused ∧
    sB.pausedReason = s.pausedReason ∧ sB.newRestartTime = s.newRestartTime ∧
    sB.restartingPodStatus = s.restartingPodStatus ∧ sB.panicked = s.panicked := by
  unfold phaseB at h
  simp only at h
  split at h
  · cases h
  · simp only [Option.some.injEq] at h
    (repeat' split at h) <;> (simp only [Prod.mk.injEq] at h; obtain ⟨_, _, rfl⟩ := h; simp)

theorem phaseC_frame (cfg : FailCfg) (r : Int) (hr : String) (cs : Bool) (csr : String) (s : FailState) :
    (phaseC cfg r hr cs csr s).cannotStart = s.cannotStart ∧
    (phaseC cfg r hr cs csr s).cannotStartPodReason = s.cannotStartPodReason ∧
    (phaseC cfg r hr cs csr s).cannotStartPodStatus = s.cannotStartPodStatus ∧
    (phaseC cfg r hr cs csr s).newRestartTime = s.newRestartTime ∧
    (phaseC cfg r hr cs csr s).restartingPodStatus = s.restartingPodStatus ∧
    (phaseC cfg r hr cs csr s).panicked = s.panicked := by
  unfold phaseC
  (repeat' split) <;> simp

theorem fold_panicked (cfg : FailCfg) (ms : List Pod) (s : FailState) (h : s.panicked = true) :
    ms.foldl (failStep cfg) s = s := by
  induction ms with
  | nil => rfl
  | cons m rest ih =>
    have : failStep cfg s m = s := by unfold failStep; simp [h]
    simp [List.foldl_cons, this, ih]

/-- the translated loop over the pods is the fold of the model's `failStep`; a panic of an iteration is the model's
`panicked` flag. -/
theorem failLoop (cto : Option Int) (afe : Bool) (afm : Int) (mrd : Option Int) (ape : Bool) (apm : Int) (now : Int)
    (P : GParams) (strat : Strategy) (c : Canary) (ap : AutoPause)
    (hP : P.strategy = some strat) (hc : strat.canary = some c) (hap : c.autoPause = some ap)
    (rc sc : Option Cond) (k : Bool → String → String → Int → String → GResult → Option (Option GResult)) (R0 : GResult)
    (gs : List GPod) (ms : List Pod) (hrel : PodsRel gs ms) (hwf : ∀ g ∈ gs, podLastStatesWF g)
    (i : Int) (s : FailState) (hs : s.panicked = false) :
    Generated.Decisions.manageCanaryPodFailures.loop1 cto afe afm mrd ape apm now P rc sc k (gs.map some) i
        s.cannotStart s.cannotStartPodReason s.cannotStartPodStatus s.newRestartTime s.restartingPodStatus (withState R0 s) =
      if (ms.foldl (failStep (mkCfg ape apm ap.maxSlowStartDuration afe afm mrd cto R0.isUnpaused rc sc now)) s).panicked then none
      else k (ms.foldl (failStep (mkCfg ape apm ap.maxSlowStartDuration afe afm mrd cto R0.isUnpaused rc sc now)) s).cannotStart
        (ms.foldl (failStep (mkCfg ape apm ap.maxSlowStartDuration afe afm mrd cto R0.isUnpaused rc sc now)) s).cannotStartPodReason
        (ms.foldl (failStep (mkCfg ape apm ap.maxSlowStartDuration afe afm mrd cto R0.isUnpaused rc sc now)) s).cannotStartPodStatus
        (ms.foldl (failStep (mkCfg ape apm ap.maxSlowStartDuration afe afm mrd cto R0.isUnpaused rc sc now)) s).newRestartTime
        (ms.foldl (failStep (mkCfg ape apm ap.maxSlowStartDuration afe afm mrd cto R0.isUnpaused rc sc now)) s).restartingPodStatus
        (withState R0 (ms.foldl (failStep (mkCfg ape apm ap.maxSlowStartDuration afe afm mrd cto R0.isUnpaused rc sc now)) s)) := by
  induction hrel generalizing i s with
  | nil => simp [Generated.Decisions.manageCanaryPodFailures.loop1, hs]
  | @cons g m gs ms hr _ ih =>
    have hwg : podLastStatesWF g := hwf g (by simp)
    have hwr : ∀ x ∈ gs, podLastStatesWF x := fun x hx => hwf x (by simp [hx])
    rw [List.map_cons, loop_cons]
    simp only [src_highestRestartCount g hwg, Option.bind_some, List.foldl_cons]
    have hhr : highestRestart m.cstats = highestRestart (Go.canonCstats g) := by rw [hr.cstats]
    simp only [failStep_phases _ s m hs, hhr]
    generalize highestRestart (Go.canonCstats g) = hrp
    rcases hrp with ⟨rcnt, hreason⟩
    simp only []
    rw [cutA_eq g m hr hwg s rcnt]
    simp only []
    obtain ⟨fa1, fa2, fa3, fa4, fa5, fa6, fa7, fa8⟩ := phaseA_frame s m rcnt
    have hB := @cutB_eq (Option GResult) g m hr P strat c ap hP hc hap
      (mkCfg ape apm ap.maxSlowStartDuration afe afm mrd cto R0.isUnpaused rc sc now) rfl ape rfl now rfl (phaseA s m rcnt)
    rw [fa6, fa7] at hB
    rw [hB]
    cases hpb : phaseB (mkCfg ape apm ap.maxSlowStartDuration afe afm mrd cto R0.isUnpaused rc sc now) (phaseA s m rcnt) m with
    | none =>
      simp only []
      rw [fold_panicked _ _ _ (by simp)]
      simp
    | some v =>
      rcases v with ⟨cs, csr, sB⟩
      obtain ⟨fb1, fb2, fb3, fb4, fb5, fb6, fb7⟩ := phaseB_frame _ _ m cs csr sB hpb
      simp only []
      have hw : withState R0 s = withState R0 { sB with cannotStart := cs } := by
        simp [withState, fb1, fb2, fb3, fb4, fa1, fa2, fa3, fa4]
      rw [hw, cutC_eq (slow := ap.maxSlowStartDuration)]
      obtain ⟨fc1, fc2, fc3, fc4, fc5, fc6⟩ := phaseC_frame
        (mkCfg ape apm ap.maxSlowStartDuration afe afm mrd cto R0.isUnpaused rc sc now) rcnt hreason cs csr { sB with cannotStart := cs }
      have hs3 : (phaseC (mkCfg ape apm ap.maxSlowStartDuration afe afm mrd cto R0.isUnpaused rc sc now) rcnt hreason cs csr
          { sB with cannotStart := cs }).panicked = false := by
        rw [fc6]; simp [fb7, fa8, hs]
      have := ih hwr (i + 1) _ hs3
      rw [fc1, fc2, fc3, fc4, fc5] at this
      simp only [fb5, fb6] at this ⊢
      exact this

theorem podsRel_isEmpty {gs : List GPod} {ms : List Pod} (h : PodsRel gs ms) :
    ((Int.ofNat (List.length (gs.map some))) == 0) = ms.isEmpty := by
  cases h with
  | nil => rfl
  | cons _ _ =>
    simp only [List.map_cons, List.length_cons, List.isEmpty_cons]
    have : ∀ n : Nat, ((Int.ofNat (n + 1)) == 0) = false := by intro n; simp; omega
    exact this _

/-- **`manageCanaryPodFailures`** (C06).  On non-nil pods whose container statuses satisfy `Go.lastStateWF`, a non-nil
`params` with a non-nil `Strategy`, and a non-nil `result` whose `NewStatus` is non-nil (and not the object
`params.NewStatus` points to) and whose `FailedReason` is still empty — what `manageCanaryStatus` passes — the
translated function is the model's `manageCanaryPodFailures` on the canonical form of the pods: same panics (nil
`Canary` / `AutoPause` / `AutoFail` fields, nil `StartTime` where the slow-start gate reads it), same flags and
reasons, same status (conditions and `canary-failed`). -/
theorem src_manageCanaryPodFailures_gen (gs : List GPod) (ms : List Pod) (hrel : PodsRel gs ms)
    (hwf : ∀ g ∈ gs, podLastStatesWF g) (P : GParams) (strat : Strategy) (pst st : ERSStatus) (R : GResult)
    (hPs : P.strategy = some strat) (hPn : P.newStatus = some pst)
    (hst : R.newStatus = some st) (hfr : R.failedReason = "") (now : Time) :
    Generated.Decisions.manageCanaryPodFailures (gs.map some) (some P) (some R) now =
      match Eds.manageCanaryPodFailures ms strat.canary pst st R.isFailed R.isPaused R.pausedReason R.isUnpaused now with
      | none => none
      | some (s, st') =>
        some (some { R with isFailed := s.isFailed, failedReason := s.failedReason, isPaused := s.isPaused,
                            pausedReason := s.pausedReason, newStatus := some st' }) := by
  rcases R with ⟨fz, ip, pr, iu, ifl, fr, ns, ptc, ptd, rr, un⟩
  simp only at hst hfr
  subst hst hfr
  unfold Generated.Decisions.manageCanaryPodFailures Eds.manageCanaryPodFailures canaryDerefs
  simp only [Option.bind_some, hPs]
  cases hcan : strat.canary with
  | none => simp
  | some c =>
  cases hap : c.autoPause with
  | none => simp [hap]
  | some ap =>
  cases hape : ap.enabled with
  | none => simp [hap, hape]
  | some ape =>
  cases hapm : ap.maxRestarts with
  | none => simp [hap, hape, hapm]
  | some apm =>
  cases haf : c.autoFail with
  | none => simp [hap, hape, hapm, haf]
  | some af =>
  cases hafe : af.enabled with
  | none => simp [hap, hape, hapm, haf, hafe]
  | some afe =>
  cases hafm : af.maxRestarts with
  | none => simp [hap, hape, hapm, haf, hafe, hafm]
  | some afm =>
  have hmrd : ∀ (x : Option Int), (if x.isSome = true then some x else some none) = some x := by
    intro x; cases x <;> rfl
  have hR0 : ∀ b : Bool,
      (if b = true then ({ isFrozen := fz, isPaused := false, pausedReason := "", isUnpaused := iu, isFailed := ifl,
                            failedReason := "", newStatus := some st, podsToCreate := ptc, podsToDelete := ptd, result := rr,
                            unscheduledNodes := un } : GResult)
       else { isFrozen := fz, isPaused := ip, pausedReason := pr, isUnpaused := iu, isFailed := ifl,
              failedReason := "", newStatus := some st, podsToCreate := ptc, podsToDelete := ptd, result := rr,
              unscheduledNodes := un }) =
      withState { isFrozen := fz, isPaused := ip, pausedReason := pr, isUnpaused := iu, isFailed := ifl,
                  failedReason := "", newStatus := some st, podsToCreate := ptc, podsToDelete := ptd, result := rr,
                  unscheduledNodes := un }
        { isFailed := ifl, failedReason := "", isPaused := if b = true then false else ip,
          pausedReason := if b = true then "" else pr } := by
    intro b; cases b <;> simp [withState]
  simp only [hPs, hPn, hcan, hap, hape, hapm, haf, hafe, hafm, Option.bind_some, src_getERSCondition, hmrd,
    podsRel_isEmpty hrel, hR0]
  refine (failLoop af.canaryTimeout afe afm af.maxRestartsDuration ape apm now _ strat c ap hPs hcan hap _ _ _ _
    gs ms hrel hwf 0 { isFailed := ifl, failedReason := "",
                       isPaused := if (ms.isEmpty && iu && !ifl) = true then false else ip,
                       pausedReason := if (ms.isEmpty && iu && !ifl) = true then "" else pr } rfl).trans ?_
  simp only [mkCfg, Option.pure_def, Option.bind_eq_bind, Option.bind_some, hap, hape, hapm, haf, hafe, hafm]
  generalize (ms.isEmpty && iu && !ifl) = ov
  obtain ⟨s', hs'⟩ : ∃ s', List.foldl (failStep (mkCfg ape apm ap.maxSlowStartDuration afe afm af.maxRestartsDuration
      af.canaryTimeout iu (findCond pst.conds "PodRestarting") (findCond st.conds "Canary") now))
      { isFailed := ifl, failedReason := "", isPaused := if ov = true then false else ip,
        pausedReason := if ov = true then "" else pr } ms = s' := ⟨_, rfl⟩
  simp only [mkCfg] at hs'
  simp only [hs']
  cases hp : s'.panicked
  · simp only [Bool.false_eq_true, if_false, withState, src_boolToCondition, src_updateERSCondition, Option.bind_some]
    cases hrc : findCond pst.conds "PodRestarting" with
    | none =>
      by_cases h1 : isZeroTime s'.newRestartTime = false ∧ zeroTime < s'.newRestartTime <;>
        cases hcs : s'.cannotStart <;> cases hfl : s'.isFailed <;>
        simp [h1, src_updateERSCondition, boolCond]
    | some rcond =>
      by_cases h1 : isZeroTime s'.newRestartTime = false ∧ rcond.lastUpdate < s'.newRestartTime <;>
        cases hcs : s'.cannotStart <;> cases hfl : s'.isFailed <;>
        simp [h1, src_updateERSCondition, boolCond]
  · simp

/-- `src_manageCanaryPodFailures_gen` on the parameters that carry nothing but `Strategy` and `NewStatus` (the other
fields are not read by the function). -/
theorem src_manageCanaryPodFailures (gs : List GPod) (ms : List Pod) (hrel : PodsRel gs ms)
    (hwf : ∀ g ∈ gs, podLastStatesWF g) (strat : Strategy) (pst st : ERSStatus) (R : GResult)
    (hst : R.newStatus = some st) (hfr : R.failedReason = "") (now : Time) :
    Generated.Decisions.manageCanaryPodFailures (gs.map some)
        (some { strategy := some strat, newStatus := some pst }) (some R) now =
      match Eds.manageCanaryPodFailures ms strat.canary pst st R.isFailed R.isPaused R.pausedReason R.isUnpaused now with
      | none => none
      | some (s, st') =>
        some (some { R with isFailed := s.isFailed, failedReason := s.failedReason, isPaused := s.isPaused,
                            pausedReason := s.pausedReason, newStatus := some st' }) :=
  src_manageCanaryPodFailures_gen gs ms hrel hwf _ strat pst st R rfl rfl hst hfr now

/-! **The hypothesis `podLastStatesWF` is necessary** (the finding of BridgeConds carried to its caller): on the pod
with a restarted container whose `lastState` is set to `running`, `HighestRestartCount` dereferences the nil
`LastTerminationState.Terminated`, so `manageCanaryPodFailures` — hence the whole replica-set sync — panics, while the
model (on the canonical form, where `harness/canon` drops that `lastState`) returns.  The API schema allows the object;
the kubelet only ever writes `terminated` into `lastState`. -/

def findingStrategy : Strategy :=
  { rollingUpdate := { maxUnavailable := none, maxPodSchedulerFailure := none, maxParallelPodCreation := none,
                       slowStartInterval := none, slowStartAdditiveIncrease := none },
    canary := some { replicas := none, duration := none, nodeSelector := none, antiAffinityKeys := [],
                     autoPause := some { enabled := some false, maxRestarts := some 2, maxSlowStartDuration := none },
                     autoFail := some { enabled := some false, maxRestarts := some 5, maxRestartsDuration := none,
                                        canaryTimeout := none },
                     noRestartsDuration := none, validationMode := "auto" },
    reconcileFrequency := none }

def findingStatus : ERSStatus := { status := "canary", desired := 1, current := 1, ready := 1, available := 1, ignored := 0, conds := [] }

def findingResult : GResult :=
  { isFrozen := false, isPaused := false, pausedReason := "", isUnpaused := false, isFailed := false, failedReason := "",
    newStatus := some findingStatus }

def findingModelPod : Pod := { (default : Pod) with name := "p", cstats := Go.canonCstats findingPod }

theorem finding_manageCanaryPodFailures_panics :
    Generated.Decisions.manageCanaryPodFailures [some findingPod]
      (some { strategy := some findingStrategy, newStatus := some findingStatus }) (some findingResult) 0 = none ∧
    (Eds.manageCanaryPodFailures [findingModelPod] findingStrategy.canary findingStatus findingStatus
      false false "" false 0).isSome = true := by
  constructor <;> decide
end Eds.Bridge
