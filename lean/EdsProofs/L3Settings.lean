import EdsModel.ClusterSettings
import EdsProps.C18b
import EdsProps.L3
/-
  Helper lemmas for `EdsProps/L3Settings.lean`:

  A. the winner of one snapshot: what a `none` verdict of `conflictScanNode` on a sorted list says about
     the position of the instance (`C18_winner`, `C18_valid_iff_newest`);
  B. list-level facts about the settings operations of `EdsModel/ClusterSettings.lean`
     (keys, namespace filter, `sameSpecs`);
  C. the invariant `InvS` of the extended machine and its preservation by `stepS`.
-/
namespace Eds
open ClusterS Cluster

/-! ## A. the winner of one snapshot -/

/-- two differently named settings are strictly ordered: "may stand before" is "is newer (ties:
greater name)". -/
theorem settingLess_of_LE_of_name_ne {s t : Setting} (h : settingLE s t) (hne : s.name ≠ t.name) :
    settingLess s t = true := by
  rw [settingLE_iff] at h
  rw [settingLess_iff]
  by_cases hc : s.creation = t.creation
  · left
    refine ⟨hc, ?_⟩
    apply Decidable.byContradiction
    intro hlt
    exact hne (String.le_antisymm (String.not_lt.mp hlt) (h.2 hc.symm))
  · right
    exact ⟨hc, by omega⟩

/-- `settingLess s t` spelled out: `s` is newer, or as old with the greater name. -/
theorem settingLess_newer_iff (s t : Setting) :
    settingLess s t = true ↔ t.creation < s.creation ∨ (t.creation = s.creation ∧ t.name < s.name) := by
  rw [settingLess_iff]
  constructor
  · rintro (⟨h1, h2⟩ | ⟨_, h2⟩)
    · exact Or.inr ⟨h1.symm, h2⟩
    · exact Or.inl h2
  · rintro (h | ⟨h1, h2⟩)
    · exact Or.inr ⟨by omega, h⟩
    · exact Or.inl ⟨h1.symm, h2⟩

/-- **A passing scan puts the instance first**: when the scan of `l` for (the name of) `s` passes,
`s` is in `l` and matches the node, then every other matching element of `l` stands AFTER `s`
(`R s t` for any relation `R` the list is pairwise related by). -/
theorem scan_none_inst_first {R : Setting → Setting → Prop} (ls : SMap) {l : List Setting} {s : Setting}
    (hp : l.Pairwise R) (hs : s ∈ l) (hms : settingMatches s ls = some true) (prev : Option String)
    (h : conflictScanNode s.name ls l prev = .none) :
    ∀ t ∈ l, settingMatches t ls = some true → t.name ≠ s.name → R s t := by
  induction l generalizing prev with
  | nil => cases hs
  | cons q rest ih =>
    rw [List.pairwise_cons] at hp
    have hrest : ∀ x : Setting, x ∈ q :: rest → q ≠ x → x ∈ rest := fun x hx hne => by
      rcases List.mem_cons.mp hx with rfl | h
      · exact absurd rfl hne
      · exact h
    intro t ht hmt hne
    unfold conflictScanNode at h
    cases hq : settingMatches q ls with
    | none => simp [hq] at h
    | some b =>
      cases b with
      | false =>
        simp only [hq] at h
        have hqs : q ≠ s := fun e => by subst e; rw [hms] at hq; cases hq
        have hqt : q ≠ t := fun e => by subst e; rw [hmt] at hq; cases hq
        exact ih hp.2 (hrest s hs hqs) prev h t (hrest t ht hqt) hmt hne
      | true =>
        simp only [hq] at h
        -- the head matches: it must be `s` itself, else `s` further down sees it
        have hqs : q = s := by
          apply Decidable.byContradiction
          intro hqs
          have hs' := hrest s hs hqs
          by_cases hn : q.name = s.name
          · simp only [hn, beq_self_eq_true, if_true] at h
            cases prev with
            | some o => simp at h
            | none => exact scan_ne_none_of_prev ls hs' hms _ h
          · simp only [beq_iff_eq, hn, if_false] at h
            exact scan_ne_none_of_prev ls hs' hms _ h
        subst hqs
        have hqt : q ≠ t := fun e => hne (by rw [e])
        exact hp.1 t (hrest t ht hqt)

/-- **… and conversely**: in a list with unique names and usable selectors, pairwise `settingLE`, in
which every other element matching the node is strictly after `s`, the scan for `s` passes. -/
theorem scan_none_of_inst_first (ls : SMap) {l : List Setting} {s : Setting}
    (hp : l.Pairwise settingLE) (hnd : (l.map (·.name)).Nodup)
    (hgood : ∀ x ∈ l, settingMatches x ls ≠ none) (hs : s ∈ l)
    (hfirst : settingMatches s ls = some true →
      ∀ t ∈ l, t.name ≠ s.name → settingMatches t ls = some true → settingLess s t = true) :
    conflictScanNode s.name ls l none = .none := by
  by_cases hms : settingMatches s ls = some true
  · induction l with
    | nil => rfl
    | cons q rest ih =>
      rw [List.pairwise_cons] at hp
      have hnd' := hnd
      simp only [List.map_cons, List.nodup_cons, List.mem_map, not_exists, not_and] at hnd'
      have hgood' : ∀ x ∈ rest, settingMatches x ls ≠ none :=
        fun x hx => hgood x (List.mem_cons_of_mem q hx)
      unfold conflictScanNode
      cases hq : settingMatches q ls with
      | none => exact absurd hq (hgood q List.mem_cons_self)
      | some b =>
        cases b with
        | false =>
          simp only []
          have hqs : s ∈ rest := by
            rcases List.mem_cons.mp hs with rfl | h
            · rw [hms] at hq; cases hq
            · exact h
          exact ih hp.2 hnd'.2 hgood' hqs (fun hm t ht => hfirst hm t (List.mem_cons_of_mem q ht))
        | true =>
          simp only []
          by_cases hn : q.name = s.name
          · simp only [hn, beq_self_eq_true, if_true]
            apply scan_none_of_no_inst_match s.name ls hgood'
            intro x hx hxn
            exact absurd (hxn.trans hn.symm) (hnd'.1 x hx)
          · -- a matching head that is not `s` would be before `s` and after `s`
            have hqs : s ∈ rest := by
              rcases List.mem_cons.mp hs with rfl | h
              · exact absurd rfl hn
              · exact h
            have h1 : settingLess s q = true := hfirst hms q List.mem_cons_self hn hq
            have h2 : settingLess s q = false := hp.1 s hqs
            rw [h1] at h2
            cases h2
  · -- `s` does not match the node: nothing named like it does
    apply scan_none_of_no_inst_match s.name ls hgood
    intro x hx hxn
    have : x = s := eq_of_name_eq_of_nodup hnd hx hs hxn
    rw [this]
    exact hms

/-! ## B. the settings operations on lists -/

theorem hasKey_iff (ns name : String) (s : Setting) : hasKey ns name s = true ↔ settingKey s = (ns, name) := by
  unfold hasKey settingKey
  simp only [Bool.and_eq_true, beq_iff_eq, Prod.mk.injEq]

theorem hasKey_self (s : Setting) : hasKey s.ns s.name s = true := (hasKey_iff _ _ _).mpr rfl

theorem mem_settingsOfNs {ss : List Setting} {ns : String} {s : Setting} :
    s ∈ settingsOfNs ss ns ↔ s ∈ ss ∧ s.ns = ns := by
  unfold settingsOfNs
  simp only [List.mem_filter, beq_iff_eq]

theorem eq_of_key_eq_of_nodup {l : List Setting} (h : (l.map settingKey).Nodup) {a b : Setting}
    (ha : a ∈ l) (hb : b ∈ l) (hk : settingKey a = settingKey b) : a = b := by
  induction l with
  | nil => cases ha
  | cons q rest ih =>
    simp only [List.map_cons, List.nodup_cons, List.mem_map, not_exists, not_and] at h
    simp only [List.mem_cons] at ha hb
    rcases ha with rfl | ha <;> rcases hb with rfl | hb
    · rfl
    · exact absurd hk.symm (h.1 b hb)
    · exact absurd hk (h.1 a ha)
    · exact ih h.2 ha hb

/-- unique keys: inside one namespace the names are unique (the hypothesis of C18). -/
theorem names_nodup_of_keys_nodup {ss : List Setting} (h : (ss.map settingKey).Nodup) (ns : String) :
    ((settingsOfNs ss ns).map (·.name)).Nodup := by
  induction ss with
  | nil => exact List.nodup_nil
  | cons q rest ih =>
    simp only [List.map_cons, List.nodup_cons, List.mem_map, not_exists, not_and] at h
    unfold settingsOfNs
    rw [List.filter_cons]
    split
    · rename_i hq
      rw [List.map_cons, List.nodup_cons]
      refine ⟨?_, ih h.2⟩
      intro hmem
      obtain ⟨x, hx, hxn⟩ := List.mem_map.mp hmem
      have hx' := mem_settingsOfNs.mp hx
      apply h.1 x hx'.1
      unfold settingKey
      rw [hxn, hx'.2, eq_of_beq hq]
    · exact ih h.2

theorem findSetting_some {ss : List Setting} {ns name : String} {inst : Setting}
    (h : findSetting ss ns name = some inst) : inst ∈ ss ∧ settingKey inst = (ns, name) :=
  ⟨List.mem_of_find?_eq_some h, (hasKey_iff _ _ _).mp (List.find?_some h)⟩

theorem findSetting_isSome_of_mem {ss : List Setting} {ns name : String} {t : Setting}
    (ht : t ∈ ss) (hk : settingKey t = (ns, name)) : (findSetting ss ns name).isSome = true := by
  unfold findSetting
  rw [List.find?_isSome]
  exact ⟨t, ht, (hasKey_iff _ _ _).mpr hk⟩

/-! ### the status write -/

theorem writeSettingStatus_sameSpecs (ss : List Setting) (ns name : String) (st : String × String) :
    sameSpecs ss (writeSettingStatus ss ns name st) := by
  unfold writeSettingStatus
  apply Forall₂.map_right _ (sameSpecs.refl ss)
  intro a b hab
  split
  · exact ⟨hab.1, hab.2.1, hab.2.2.1, hab.2.2.2.1, hab.2.2.2.2.1, hab.2.2.2.2.2.1, hab.2.2.2.2.2.2⟩
  · exact hab

theorem sameSpecs.keys_eq {l l' : List Setting} (h : sameSpecs l l') :
    l.map settingKey = l'.map settingKey := by
  induction h with
  | nil => rfl
  | cons hab _ ih =>
    rw [List.map_cons, List.map_cons, ih]
    unfold settingKey
    rw [hab.1, hab.2.1]

theorem sameSpecs.ofNs {l l' : List Setting} (h : sameSpecs l l') (ns : String) :
    sameSpecs (settingsOfNs l ns) (settingsOfNs l' ns) := by
  unfold settingsOfNs
  apply Forall₂.filter h
  intro a b hab
  rw [hab.2.1]

theorem reconcileSettingIn_sameSpecs (nodes : List Node) (ss : List Setting) (ns name : String) :
    sameSpecs ss (reconcileSettingIn nodes ss ns name) := by
  unfold reconcileSettingIn
  split
  · exact sameSpecs.refl ss
  · exact writeSettingStatus_sameSpecs _ _ _ _

/-- a member of the list after the write: untouched, or an old object under the key with the new status. -/
theorem mem_writeSettingStatus {ss : List Setting} {ns name : String} {st : String × String} {t : Setting}
    (h : t ∈ writeSettingStatus ss ns name st) :
    (t ∈ ss ∧ hasKey ns name t = false) ∨
    (∃ t₀ ∈ ss, hasKey ns name t₀ = true ∧ t = { t₀ with status := st.1, error := st.2 }) := by
  unfold writeSettingStatus at h
  obtain ⟨t₀, ht₀, rfl⟩ := List.mem_map.mp h
  by_cases hk : hasKey ns name t₀ = true
  · right
    exact ⟨t₀, ht₀, hk, by rw [if_pos hk]⟩
  · left
    rw [if_neg hk]
    exact ⟨ht₀, by simpa using hk⟩

/-- **What `Reconcile` of `ns/name` leaves behind** (unique keys): only statuses change; an object
that is not stored under the key is untouched; the object stored under the key carries the verdict
computed from the list — and that verdict is the same when recomputed on the NEW list. -/
theorem reconcileSettingIn_spec (nodes : List Node) {ss : List Setting} (hk : (ss.map settingKey).Nodup)
    (ns name : String) (t : Setting) (ht : t ∈ reconcileSettingIn nodes ss ns name) :
    (hasKey ns name t = false ∧ t ∈ ss) ∨
    (hasKey ns name t = true ∧ (findSetting ss ns name).isSome = true ∧
      (∃ t₀ ∈ ss, sameSpec t₀ t ∧ (t.status, t.error) = settingReconcile t₀ nodes (settingsOfNs ss ns)) ∧
      (t.status, t.error) =
        settingReconcile t nodes (settingsOfNs (reconcileSettingIn nodes ss ns name) t.ns)) := by
  have hss := reconcileSettingIn_sameSpecs nodes ss ns name
  unfold reconcileSettingIn at ht ⊢
  cases hf : findSetting ss ns name with
  | none =>
    simp only [hf] at ht ⊢
    left
    refine ⟨?_, ht⟩
    cases hkt : hasKey ns name t with
    | false => rfl
    | true =>
      have := findSetting_isSome_of_mem ht ((hasKey_iff _ _ _).mp hkt)
      rw [hf] at this
      cases this
  | some inst =>
    simp only [hf] at ht ⊢
    obtain ⟨hi, hik⟩ := findSetting_some hf
    rcases mem_writeSettingStatus ht with ⟨h1, h2⟩ | ⟨t₀, ht₀, hk₀, rfl⟩
    · exact Or.inl ⟨h2, h1⟩
    · right
      have : t₀ = inst := eq_of_key_eq_of_nodup hk ht₀ hi (((hasKey_iff _ _ _).mp hk₀).trans hik.symm)
      subst this
      have hns : t₀.ns = ns := congrArg Prod.fst hik
      subst hns
      have hspec : sameSpec t₀ { t₀ with status := (settingReconcile t₀ nodes (settingsOfNs ss t₀.ns)).1, error := (settingReconcile t₀ nodes (settingsOfNs ss t₀.ns)).2 } :=
        ⟨rfl, rfl, rfl, rfl, rfl, rfl, rfl⟩
      refine ⟨hk₀, rfl, ⟨t₀, ht₀, hspec, rfl⟩, ?_⟩
      have hss' : sameSpecs (settingsOfNs ss t₀.ns)
          (settingsOfNs (writeSettingStatus ss t₀.ns name (settingReconcile t₀ nodes (settingsOfNs ss t₀.ns))) t₀.ns) := by
        simp only [reconcileSettingIn, hf] at hss
        exact hss.ofNs t₀.ns
      exact C18_status_independent t₀ _ nodes _ _ hspec hss'

/-! ### apply / delete -/

theorem applySettingIn_keys_nodup {ss : List Setting} (hk : (ss.map settingKey).Nodup) (s : Setting) :
    ((applySettingIn ss s).map settingKey).Nodup := by
  unfold applySettingIn
  split
  · have : (ss.map (fun t => if hasKey s.ns s.name t then storedSetting s else t)).map settingKey
        = ss.map settingKey := by
      rw [List.map_map]
      apply List.map_congr_left
      intro t _
      simp only [Function.comp]
      split
      · rename_i h
        rw [(hasKey_iff _ _ _).mp h]
        rfl
      · rfl
    rw [this]
    exact hk
  · rename_i hany
    rw [List.map_append, List.map_cons, List.map_nil]
    apply List.nodup_append.mpr
    refine ⟨hk, List.pairwise_singleton _ _, ?_⟩
    intro a ha b hb
    rw [List.mem_singleton] at hb
    subst hb
    intro hab
    subst hab
    obtain ⟨t, ht, htk⟩ := List.mem_map.mp ha
    apply hany
    rw [List.any_eq_true]
    exact ⟨t, ht, (hasKey_iff _ _ _).mpr htk⟩

theorem deleteSettingIn_keys_nodup {ss : List Setting} (hk : (ss.map settingKey).Nodup) (ns name : String) :
    ((deleteSettingIn ss ns name).map settingKey).Nodup :=
  List.Nodup.sublist (List.Sublist.map _ List.filter_sublist) hk

/-- an object of another namespace in the list after `applySetting s` was there before. -/
theorem mem_applySettingIn_other {ss : List Setting} {s t : Setting} (h : t ∈ applySettingIn ss s)
    (hns : t.ns ≠ s.ns) : t ∈ ss := by
  unfold applySettingIn at h
  split at h
  · obtain ⟨t₀, ht₀, rfl⟩ := List.mem_map.mp h
    split at hns
    · exact absurd rfl hns
    · rename_i hk
      rw [if_neg hk]
      exact ht₀
  · rcases List.mem_append.mp h with h | h
    · exact h
    · rw [List.mem_singleton] at h
      subst h
      exact absurd rfl hns

/-- an object in the list after `applySetting s`: an old one under another key, or the stored `s`. -/
theorem mem_applySettingIn {ss : List Setting} {s t : Setting} (h : t ∈ applySettingIn ss s) :
    (t ∈ ss ∧ settingKey t ≠ settingKey s) ∨ t = storedSetting s := by
  unfold applySettingIn at h
  split at h
  · obtain ⟨t₀, ht₀, rfl⟩ := List.mem_map.mp h
    by_cases hk : hasKey s.ns s.name t₀ = true
    · right; rw [if_pos hk]
    · left
      rw [if_neg hk]
      exact ⟨ht₀, fun e => hk ((hasKey_iff _ _ _).mpr e)⟩
  · rename_i hany
    rcases List.mem_append.mp h with h | h
    · left
      refine ⟨h, fun e => hany ?_⟩
      rw [List.any_eq_true]
      exact ⟨t, h, (hasKey_iff _ _ _).mpr e⟩
    · right
      exact List.mem_singleton.mp h

/-- `applySetting s` does not change what a List of another namespace returns. -/
theorem settingsOfNs_applySettingIn (ss : List Setting) (s : Setting) (ns : String) (hns : ns ≠ s.ns) :
    settingsOfNs (applySettingIn ss s) ns = settingsOfNs ss ns := by
  have hst : ((storedSetting s).ns == ns) = false := by
    show (s.ns == ns) = false
    rw [beq_eq_false_iff_ne]
    exact fun e => hns e.symm
  have hmap : (ss.map (fun t => if hasKey s.ns s.name t then storedSetting s else t)).filter (fun x => x.ns == ns)
      = ss.filter (fun x => x.ns == ns) := by
    induction ss with
    | nil => rfl
    | cons q rest ih =>
      rw [List.map_cons, List.filter_cons, List.filter_cons, ih]
      by_cases hk : hasKey s.ns s.name q = true
      · rw [if_pos hk, hst]
        have : (q.ns == ns) = false := by
          have := congrArg Prod.fst ((hasKey_iff _ _ _).mp hk)
          simp only [settingKey] at this
          rw [this, beq_eq_false_iff_ne]
          exact fun e => hns e.symm
        rw [this]
        simp
      · rw [if_neg hk]
  unfold applySettingIn settingsOfNs
  split
  · exact hmap
  · rw [List.filter_append, List.filter_cons, hst]
    simp

theorem settingsOfNs_deleteSettingIn (ss : List Setting) (ns' name ns : String) (hns : ns ≠ ns') :
    settingsOfNs (deleteSettingIn ss ns' name) ns = settingsOfNs ss ns := by
  unfold deleteSettingIn settingsOfNs
  rw [List.filter_filter]
  apply List.filter_congr
  intro x _
  by_cases hx : x.ns = ns
  · have : hasKey ns' name x = false := by
      unfold hasKey
      have : (x.ns == ns') = false := by rw [beq_eq_false_iff_ne, hx]; exact hns
      rw [this]; rfl
    rw [this]; simp
  · have : (x.ns == ns) = false := by rw [beq_eq_false_iff_ne]; exact hx
    rw [this]; simp

/-! ### update (status kept) -/

theorem updateSettingIn_keys (ss : List Setting) (s : Setting) :
    (updateSettingIn ss s).map settingKey = ss.map settingKey := by
  unfold updateSettingIn
  rw [List.map_map]
  apply List.map_congr_left
  intro t _
  simp only [Function.comp]
  split
  · rename_i h
    rw [(hasKey_iff _ _ _).mp h]
    rfl
  · rfl

/-- an object in the list after `updateSetting s`: an old one under another key, or `s` carrying the
status, error and creation time of the old object stored under its key. -/
theorem mem_updateSettingIn {ss : List Setting} {s t : Setting} (h : t ∈ updateSettingIn ss s) :
    (t ∈ ss ∧ settingKey t ≠ settingKey s) ∨
    (∃ old ∈ ss, settingKey old = settingKey s ∧ t = updatedSetting s old) := by
  unfold updateSettingIn at h
  obtain ⟨t₀, ht₀, rfl⟩ := List.mem_map.mp h
  by_cases hk : hasKey s.ns s.name t₀ = true
  · right
    rw [if_pos hk]
    exact ⟨t₀, ht₀, (hasKey_iff _ _ _).mp hk, rfl⟩
  · left
    rw [if_neg hk]
    exact ⟨ht₀, fun e => hk ((hasKey_iff _ _ _).mpr e)⟩

theorem mem_updateSettingIn_other {ss : List Setting} {s t : Setting} (h : t ∈ updateSettingIn ss s)
    (hns : t.ns ≠ s.ns) : t ∈ ss := by
  rcases mem_updateSettingIn h with ⟨h1, _⟩ | ⟨old, _, _, rfl⟩
  · exact h1
  · exact absurd rfl hns

theorem settingsOfNs_updateSettingIn (ss : List Setting) (s : Setting) (ns : String) (hns : ns ≠ s.ns) :
    settingsOfNs (updateSettingIn ss s) ns = settingsOfNs ss ns := by
  unfold updateSettingIn settingsOfNs
  induction ss with
  | nil => rfl
  | cons q rest ih =>
    rw [List.map_cons, List.filter_cons, List.filter_cons, ih]
    by_cases hk : hasKey s.ns s.name q = true
    · rw [if_pos hk]
      have h1 : ((updatedSetting s q).ns == ns) = false := by
        show (s.ns == ns) = false
        rw [beq_eq_false_iff_ne]
        exact fun e => hns e.symm
      have h2 : (q.ns == ns) = false := by
        have := congrArg Prod.fst ((hasKey_iff _ _ _).mp hk)
        simp only [settingKey] at this
        rw [this, beq_eq_false_iff_ne]
        exact fun e => hns e.symm
      rw [h1, h2]
      simp
    · rw [if_neg hk]

theorem mem_dropNs {fresh : List (String × String)} {ns : String} {k : String × String} :
    k ∈ dropNs fresh ns ↔ k ∈ fresh ∧ k.1 ≠ ns := by
  unfold dropNs
  simp only [List.mem_filter, Bool.not_eq_true', beq_eq_false_iff_ne, ne_eq]

/-! ## C. the invariant of the extended machine -/

/-- the settings and (unless the op is `setNodes`) the nodes are untouched by the L3 machine. -/
theorem step_settings (w : World) (op : Op) : (step w op).settings = w.settings := by
  cases op with
  | reconcileEds nn m => rfl
  | reconcileErs name rel aff =>
    show (match findErs w name with
      | none => w
      | some rs => Cluster.applyErs w rs (Cluster.ersWrites w rs rel aff)).settings = _
    split <;> rfl
  | setNodes _ => rfl
  | kubelet _ => rfl
  | userSpec _ _ _ _ => rfl
  | tick _ => rfl

theorem step_nodes (w : World) (op : Op) (h : ∀ ns, op ≠ .setNodes ns) : (step w op).nodes = w.nodes := by
  cases op with
  | reconcileEds nn m => rfl
  | reconcileErs name rel aff =>
    show (match findErs w name with
      | none => w
      | some rs => Cluster.applyErs w rs (Cluster.ersWrites w rs rel aff)).nodes = _
    split <;> rfl
  | setNodes ns => exact absurd rfl (h ns)
  | kubelet _ => rfl
  | userSpec _ _ _ _ => rfl
  | tick _ => rfl

/-- **fresh means reconciled against the current world**: a setting whose key is in `fresh` stores
the verdict `settingReconcile` computes from the CURRENT nodes and the CURRENT settings of its
namespace. -/
def FreshOk (ws : WorldS) : Prop :=
  ∀ s ∈ ws.w.settings, settingKey s ∈ ws.fresh →
    (s.status, s.error) = settingReconcile s ws.w.nodes (settingsOfNs ws.w.settings s.ns)

/-- the invariant of the extended machine. -/
def InvS (ws : WorldS) : Prop := SettingKeysNodup ws.w ∧ FreshOk ws

theorem InvS_initS (w : World) (h : SettingKeysNodup w) : InvS (initS w) :=
  ⟨h, fun _ _ hf => by cases hf⟩

theorem keysNodup_stepS (ws : WorldS) (op : OpS) (h : SettingKeysNodup ws.w) :
    SettingKeysNodup (stepS ws op).w := by
  unfold SettingKeysNodup at *
  cases op with
  | cluster op =>
    show ((step ws.w op).settings.map settingKey).Nodup
    rw [step_settings]; exact h
  | reconcileSetting ns name =>
    show ((reconcileSettingIn ws.w.nodes ws.w.settings ns name).map settingKey).Nodup
    rw [← (reconcileSettingIn_sameSpecs _ _ _ _).keys_eq]; exact h
  | applySetting s => exact applySettingIn_keys_nodup h s
  | deleteSetting ns name => exact deleteSettingIn_keys_nodup h ns name
  | updateSetting s =>
    show ((updateSettingIn ws.w.settings s).map settingKey).Nodup
    rw [updateSettingIn_keys]; exact h

theorem InvS_stepS (ws : WorldS) (op : OpS) (h : InvS ws) : InvS (stepS ws op) := by
  refine ⟨keysNodup_stepS ws op h.1, ?_⟩
  obtain ⟨hk, hf⟩ := h
  cases op with
  | cluster op =>
    intro s hs hfr
    have hset : (stepS ws (.cluster op)).w.settings = ws.w.settings := step_settings ws.w op
    rw [hset] at hs ⊢
    by_cases hop : ∃ ns, op = .setNodes ns
    · obtain ⟨ns, rfl⟩ := hop
      cases hfr
    · have hne : ∀ ns, op ≠ .setNodes ns := fun ns e => hop ⟨ns, e⟩
      have hnodes : (stepS ws (.cluster op)).w.nodes = ws.w.nodes := step_nodes ws.w op hne
      rw [hnodes]
      apply hf s hs
      have : (stepS ws (.cluster op)).fresh = ws.fresh := by
        cases op <;> first | rfl | exact absurd rfl (hne _)
      rw [← this]; exact hfr
  | reconcileSetting ns name =>
    intro t ht hfr
    change t ∈ reconcileSettingIn ws.w.nodes ws.w.settings ns name at ht
    show _ = settingReconcile t ws.w.nodes
      (settingsOfNs (reconcileSettingIn ws.w.nodes ws.w.settings ns name) t.ns)
    rcases reconcileSettingIn_spec ws.w.nodes hk ns name t ht with ⟨hkt, hmem⟩ | ⟨_, _, _, hres⟩
    · -- not the reconciled object: it was fresh before, and the verdict ignores the new status
      have hfr' : settingKey t ∈ ws.fresh := by
        change settingKey t ∈ (if (findSetting ws.w.settings ns name).isSome then (ns, name) :: ws.fresh
          else ws.fresh) at hfr
        split at hfr
        · rcases List.mem_cons.mp hfr with e | e
          · rw [(hasKey_iff _ _ _).mpr e] at hkt; cases hkt
          · exact e
        · exact hfr
      rw [hf t hmem hfr']
      exact C18_status_independent t t ws.w.nodes _ _ (sameSpec.refl t)
        ((reconcileSettingIn_sameSpecs ws.w.nodes ws.w.settings ns name).ofNs t.ns)
    · exact hres
  | applySetting s =>
    intro t ht hfr
    change t ∈ applySettingIn ws.w.settings s at ht
    change settingKey t ∈ dropNs ws.fresh s.ns at hfr
    obtain ⟨hfr', hns'⟩ := mem_dropNs.mp hfr
    have hns : t.ns ≠ s.ns := hns'
    show _ = settingReconcile t ws.w.nodes (settingsOfNs (applySettingIn ws.w.settings s) t.ns)
    rw [settingsOfNs_applySettingIn _ _ _ hns]
    exact hf t (mem_applySettingIn_other ht hns) hfr'
  | deleteSetting ns name =>
    intro t ht hfr
    change t ∈ deleteSettingIn ws.w.settings ns name at ht
    change settingKey t ∈ dropNs ws.fresh ns at hfr
    obtain ⟨hfr', hns'⟩ := mem_dropNs.mp hfr
    have hns : t.ns ≠ ns := hns'
    show _ = settingReconcile t ws.w.nodes (settingsOfNs (deleteSettingIn ws.w.settings ns name) t.ns)
    rw [settingsOfNs_deleteSettingIn _ _ _ _ hns]
    exact hf t (List.mem_filter.mp ht).1 hfr'
  | updateSetting s =>
    intro t ht hfr
    change t ∈ updateSettingIn ws.w.settings s at ht
    change settingKey t ∈ dropNs ws.fresh s.ns at hfr
    obtain ⟨hfr', hns'⟩ := mem_dropNs.mp hfr
    have hns : t.ns ≠ s.ns := hns'
    show _ = settingReconcile t ws.w.nodes (settingsOfNs (updateSettingIn ws.w.settings s) t.ns)
    rw [settingsOfNs_updateSettingIn _ _ _ hns]
    exact hf t (mem_updateSettingIn_other ht hns) hfr'

theorem runS_append (ws : WorldS) (ops : List OpS) (op : OpS) :
    runS ws (ops ++ [op]) = stepS (runS ws ops) op := by
  unfold runS; rw [List.foldl_append]; rfl

theorem runS_append' (ws : WorldS) (ops ops' : List OpS) :
    runS ws (ops ++ ops') = runS (runS ws ops) ops' := by
  unfold runS; rw [List.foldl_append]

theorem runS_cons (ws : WorldS) (op : OpS) (ops : List OpS) :
    runS ws (op :: ops) = runS (stepS ws op) ops := rfl

theorem InvS_runS (ws : WorldS) (ops : List OpS) (h : InvS ws) : InvS (runS ws ops) := by
  induction ops generalizing ws with
  | nil => exact h
  | cons op ops ih => exact ih _ (InvS_stepS ws op h)

end Eds
