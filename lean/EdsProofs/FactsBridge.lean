import EdsModel
/-
  FactsBridge — the constants and tables the hand-written model uses are the ones extracted from the
  Go sources on this run (`EdsModel/Generated/Facts.lean`).  Changing a constant in /repo breaks the
  corresponding obligation here (and every property file that imports it).
-/
namespace Eds
open Generated

theorem facts_keys :
    K.edsNameLabel = Facts.const_ExtendedDaemonSetNameLabelKey ∧
    K.ersNameLabel = Facts.const_ExtendedDaemonSetReplicaSetNameLabelKey ∧
    K.settingNameLabel = Facts.const_ExtendedDaemonSetSettingNameLabelKey ∧
    K.settingNsLabel = Facts.const_ExtendedDaemonSetSettingNamespaceLabelKey ∧
    K.canaryLabel = Facts.const_ExtendedDaemonSetReplicaSetCanaryLabelKey ∧
    "true" = Facts.const_ExtendedDaemonSetReplicaSetCanaryLabelValue ∧
    K.templateHashAnnot = Facts.const_MD5ExtendedDaemonSetAnnotationKey ∧
    K.canaryValidAnnot = Facts.const_ExtendedDaemonSetCanaryValidAnnotationKey ∧
    K.canaryPausedAnnot = Facts.const_ExtendedDaemonSetCanaryPausedAnnotationKey ∧
    K.canaryPausedReasonAnnot = Facts.const_ExtendedDaemonSetCanaryPausedReasonAnnotationKey ∧
    K.canaryUnpausedAnnot = Facts.const_ExtendedDaemonSetCanaryUnpausedAnnotationKey ∧
    K.oldDaemonsetAnnot = Facts.const_ExtendedDaemonSetOldDaemonsetAnnotationKey ∧
    K.nodeHashAnnot = Facts.const_MD5NodeExtendedDaemonSetAnnotationKey ∧
    K.rollingUpdatePausedAnnot = Facts.const_ExtendedDaemonSetRollingUpdatePausedAnnotationKey ∧
    K.rolloutFrozenAnnot = Facts.const_ExtendedDaemonSetRolloutFrozenAnnotationKey ∧
    "true" = Facts.const_ValueStringTrue ∧ "false" = Facts.const_ValueStringFalse := by decide

theorem facts_defaults :
    Dflt.canaryReplica = Facts.default_defaultCanaryReplica ∧
    Dflt.canaryDuration = Facts.default_duration_Duration ∧
    Dflt.canaryNoRestartsDuration = Facts.default_duration_NoRestartsDuration ∧
    Dflt.autoPauseEnabled = Facts.default_defaultCanaryAutoPauseEnabled ∧
    Dflt.autoPauseMaxRestarts = Facts.default_defaultCanaryAutoPauseMaxRestarts ∧
    Dflt.autoFailEnabled = Facts.default_defaultCanaryAutoFailEnabled ∧
    Dflt.autoFailMaxRestarts = Facts.default_defaultCanaryAutoFailMaxRestarts ∧
    Dflt.slowStartInterval = Facts.default_duration_SlowStartIntervalDuration ∧
    Dflt.maxParallelPodCreation = Facts.default_defaultMaxParallelPodCreation ∧
    Dflt.reconcileFrequency = Facts.default_defaultReconcileFrequency ∧
    Dflt.maxUnavailable = Facts.default_rolling_MaxUnavailable ∧
    Dflt.maxPodSchedulerFailure = Facts.default_rolling_MaxPodSchedulerFailure ∧
    Dflt.slowStartAdditiveIncrease = Facts.default_rolling_SlowStartAdditiveIncrease := by decide

theorem facts_reason_tables :
    cannotStartReasons.isPerm Facts.cannotStartReasons = true ∧
    knownStatusReasons.isPerm Facts.knownStatusReasons = true := by decide

theorem facts_tolerations :
    standardTolerations.map (fun t => (t.key, t.op, t.value, t.effect)) = Facts.standardTolerations := by decide

theorem facts_times :
    Facts.failedErsRetention = 2 * minute ∧ Facts.cleanCanaryLabelsThreshold = 5 * minute ∧
    Facts.schedulerIssueAge = 600 * sec ∧ Facts.backoffInitial = 10 * sec ∧ Facts.backoffMax = 15 * minute := by decide

theorem facts_states :
    Facts.types_ExtendedDaemonSetStatusStateRunning = "Running" ∧
    Facts.types_ExtendedDaemonSetStatusStateRollingUpdatePaused = "RollingUpdate Paused" ∧
    Facts.types_ExtendedDaemonSetStatusStateRolloutFrozen = "Rollout frozen" ∧
    Facts.types_ExtendedDaemonSetStatusStateCanary = "Canary" ∧
    Facts.types_ExtendedDaemonSetStatusStateCanaryPaused = "Canary Paused" ∧
    Facts.types_ExtendedDaemonSetStatusStateCanaryFailed = "Canary Failed" ∧
    Facts.types_ConditionTypeEDSCanaryPaused = "Canary-Paused" ∧
    Facts.types_ConditionTypeEDSCanaryFailed = "Canary-Failed" ∧
    Facts.ers_ConditionTypeCanaryPaused = "Canary-Paused" ∧
    Facts.ers_ConditionTypeCanaryFailed = "Canary-Failed" ∧
    Facts.ers_ConditionTypeActive = "Active" ∧ Facts.ers_ConditionTypeCanary = "Canary" ∧
    Facts.ers_ConditionTypePodRestarting = "PodRestarting" ∧
    Facts.ers_ConditionTypePodCannotStart = "PodCannotStart" ∧
    Facts.ers_ConditionTypeLastFullSync = "LastFullSync" ∧
    Facts.ers_ConditionTypePodsCleanupDone = "PodsCleanupDone" ∧
    Facts.ers_ConditionTypeReconcileError = "ReconcileError" ∧
    Facts.ers_ConditionTypePodCreation = "PodCreation" ∧ Facts.ers_ConditionTypePodDeletion = "PodDeletion" ∧
    Facts.ers_ConditionTypeRollingUpdatePaused = "RollingUpdatePaused" ∧
    Facts.ers_ConditionTypeRolloutFrozen = "RolloutFrozen" ∧ Facts.ers_ConditionTypeUnschedule = "Unschedule" ∧
    Facts.setting_ExtendedDaemonsetSettingStatusValid = "valid" ∧
    Facts.setting_ExtendedDaemonsetSettingStatusError = "error" ∧
    Facts.types_ExtendedDaemonSetSpecStrategyCanaryValidationModeAuto = "auto" ∧
    Facts.types_ExtendedDaemonSetSpecStrategyCanaryValidationModeManual = "manual" := by decide

theorem facts_clear_canary_annotations :
    Facts.clearCanaryAnnotationKeys = [K.canaryPausedAnnot, K.canaryPausedReasonAnnot, K.canaryUnpausedAnnot] := by decide

end Eds

namespace Eds
open Generated

/-- which annotation keys each kubectl-eds `run()` body assigns and which client write verbs it
calls, as extracted from pkg/plugin: merge patches limited to the documented annotations, a status
update for `fail`, nothing else. -/
theorem facts_plugin_writes :
    Facts.pluginWrites = [
      ("pkg/plugin/canary/pause.go", [K.canaryPausedAnnot, K.canaryUnpausedAnnot], ["Patch"]),
      ("pkg/plugin/canary/validate.go", [K.canaryValidAnnot], ["Patch"]),
      ("pkg/plugin/canary/fail.go", [], ["Status.Update"]),
      ("pkg/plugin/pause/rollingupdate.go", [K.rollingUpdatePausedAnnot], ["Patch"]),
      ("pkg/plugin/freeze/rollout.go", [K.rolloutFrozenAnnot], ["Patch"])] := by decide

end Eds
