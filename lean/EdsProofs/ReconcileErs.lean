import EdsModel.ReconcileErs
import EdsProofs.Filter
import EdsProofs.Rolling
import EdsProofs.CanaryS
/-
  Helper lemmas about the L2 model of the replica-set controller's `Reconcile`
  (EdsModel/ReconcileErs.lean).

  * named pieces of the chain (`ersOwner`, `ersGated`, `ersCanaryNodes`, `ersIgnore`, `ersFilter`,
    `ersParams`, `ersStrategy`, `ersFinish`, `ersRun`, `ersBody`) and
    `reconcileErs_eq : ersOwner rs st = some d → reconcileErs … = ersBody d …`;
  * the inversion lemmas `reconcileErs_cases` (no pod write at all, or a *full run*) and
    `reconcileErs_full` (a defaulted, non-gated, non-early-return sync is a full run);
  * `ersStrategy_active / _canary / _unknown`: what the strategy result is made of per role;
  * membership lemmas for the deletion lists of the two strategies (`countAll_toDelete_mem`,
    `canaryScan_deleteInv`), for `ersPods`, and `findCond_updateCond_same_true`.
-/
namespace Eds

/-! ### Named pieces -/

/-- the owner EDS `Reconcile` fetches (`none`: no owner reference, or the owner does not exist). -/
def ersOwner (rs : ERS) (st : ErsStore) : Option EDS :=
  match rs.ownerEds with
  | none => none
  | some ownerName => st.edss.find? (fun d => d.ns == rs.ns && d.name == ownerName)

def ersFreq (d : EDS) : Dur := d.strategy.reconcileFrequency.getD 0

/-- the LastFullSync gate. -/
def ersGated (d : EDS) (rs : ERS) (now : Time) : Bool :=
  match findCond rs.status.conds "LastFullSync" with
  | some c => decide (c.lastUpdate + ersFreq d > now)
  | none => false

def ersGateWait (d : EDS) (rs : ERS) (now : Time) : Dur :=
  match findCond rs.status.conds "LastFullSync" with
  | some c => c.lastUpdate + ersFreq d - now
  | none => 0

/-- `eds.status.canary.nodes` (empty without a canary). -/
def ersCanaryNodes (d : EDS) : List String :=
  match d.status.canary with | some cs => cs.nodes | none => []

/-- the nodes `FilterAndMapPodsByNode` is told to ignore: the canary nodes, for the active replica set. -/
def ersIgnore (d : EDS) (rs : ERS) : List String :=
  if d.status.canary.isSome && d.status.activeReplicaSet == rs.name then ersCanaryNodes d else []

def ersFilter (released : String → Bool) (d : EDS) (rs : ERS) (items : List NodeItem) (pods : List Pod) : FilterOut :=
  filterAndMap released rs.template items pods (ersIgnore d rs)

def ersParams (released : String → Bool) (d : EDS) (rs : ERS) (items : List NodeItem) (pods : List Pod)
    (now : Time) : StratParams :=
  { edsName := d.name, edsAnnotations := d.annotations, strategy := d.strategy, ers := rs,
    newStatus := { rs.status with conds := preConds (ersRole d rs.name) rs.status.conds now },
    canaryNodes := ersCanaryNodes d,
    byNode := (ersFilter released d rs items pods).byNode,
    toCleanUp := (ersFilter released d rs items pods).toDelete,
    unscheduled := (ersFilter released d rs items pods).unscheduled }

/-- the strategy dispatch: (result, label adds, label removes, strategy error); `none` = panic.
`labelled` = names of the pods of `canaryLabelled d.name rs st`. -/
def ersStrategy (rs : ERS) (labelled : List String) (role : String) (sp : StratParams) (now : Time) :
    Option (StratResult × List String × List String × Bool) :=
  if role == "active" then
    match manageDeployment sp now now false with
    | .ok r =>
      let start := rollingUpdateStartTime rs.status now
      let removes := if now - start < 5 * minute then labelled else []
      some (r, [], removes, false)
    | .err _ =>
        -- early error return of ManageDeployment (a rolling-update parameter that does not parse): no
        -- status was computed; Reconcile keeps the current one, with the conditions already updated,
        -- and reports the error in it (F15 repair: it used to dereference the nil status)
        some ({ newStatus := some { sp.newStatus with conds := rollingConds sp now } }, [], [], true)
    | .panic => none
  else if role == "canary" then
    match manageCanaryStatus sp now with
    | some r => some ({ r with cleanupDeletes := cleanupTargets sp.toCleanUp,
                               unscheduledNodes := unscheduledNodes sp.unscheduled }, canaryLabelAdds sp, [], false)
    | none => none
  else some (manageUnknown sp now, [], [], false)

/-- everything after the strategy returned a status `st0`. -/
def ersFinish (rs : ERS) (role : String) (freq : Dur) (sp : StratParams) (r : StratResult)
    (adds removes : List String) (stratErr : Bool) (st0 : ERSStatus) (affinity : Bool) (now : Time) : ErsWrites :=
  let cleanupConds := if role == "canary" && !sp.toCleanUp.isEmpty
    then updateCond st0.conds now "PodsCleanupDone" "True" "" "" false false else st0.conds
  let st1 := { st0 with conds := cleanupConds }
  let desc := if r.unscheduledNodes.isEmpty then "" else "nodes:" ++ ";".intercalate r.unscheduledNodes
  let conds := updateCond st1.conds now "Unschedule" (boolCond (!r.unscheduledNodes.isEmpty)) "" desc false false
  let delGated : Bool := match findCond conds "PodDeletion" with
    | some c => decide (now - c.lastUpdate < freq)
    | none => false
  let deletes := if delGated then [] else r.deleteE.map (·.2.name)
  let conds := if !delGated && !r.deleteE.isEmpty
    then updateCond conds now "PodDeletion" "True" "" "pods deleted" false true else conds
  let creGated : Bool := match findCond conds "PodCreation" with
    | some c => decide (now - c.lastUpdate < freq)
    | none => false
  let creates := if creGated then [] else
    r.createE.map (fun ni => (ni.node.name, (createPod rs (some ni.node) ni.setting affinity).pod))
  let conds := if !creGated && !r.createE.isEmpty
    then updateCond conds now "PodCreation" "True" "" "pods created" false true else conds
  let conds := updateCond conds now "ReconcileError" (boolCond stratErr) "" "" false true
  let conds := updateCond conds now "LastFullSync" "True" "" "full sync" true true
  let stF := { st1 with conds := conds }
  let rqAfter := if delGated || creGated then freq else r.requeueAfter
  { cleanupDeletes := r.cleanupDeletes, labelAdds := adds, labelRemoves := removes,
    deletes := deletes, creates := creates,
    deleteCands :=
      if role == "active" then
        let c := countAll rs.templateGeneration now (targeted sp)
        (c.toDeleteUnavail ++ c.toDeleteAvail).map (·.2.name)
      else r.deleteE.map (·.2.name),
    createCands :=
      if role == "active" then (countAll rs.templateGeneration now (targeted sp)).toCreate else r.createE,
    entries := if role == "active" then targeted sp else [],
    statusUpdate := if stF != rs.status then some stF else none,
    requeue := r.requeue, requeueAfter := rqAfter }

/-- the sync once the node list is known.  The store is read only through `pods` (= `ersPods d st`)
and `labelled` (= the names of `canaryLabelled d.name rs st`). -/
def ersRun (d : EDS) (rs : ERS) (pods : List Pod) (labelled : List String) (released : String → Bool)
    (affinity : Bool) (now : Time) (items : List NodeItem) : ErsWrites :=
  match ersStrategy rs labelled (ersRole d rs.name) (ersParams released d rs items pods now) now with
  | none => { earlyErr := true }
  | some (r, adds, removes, stratErr) =>
    match r.newStatus with
    | none => { earlyErr := true }
    | some st0 =>
      ersFinish rs (ersRole d rs.name) (ersFreq d) (ersParams released d rs items pods now) r adds removes
        stratErr st0 affinity now

def ersNotDefaulted (rs : ERS) (now : Time) : ErsWrites :=
  let conds := updateCond rs.status.conds now "ReconcileError" "True" ""
    "Parent ExtendedDaemonSet is not defaulted, requeuing" false true
  let st' := { rs.status with conds := conds }
  { statusUpdate := if st' != rs.status then some st' else none, requeueAfter := sec }

/-- `Reconcile` once the owner `d` has been fetched. -/
def ersBody (d : EDS) (rs : ERS) (st : ErsStore) (released : String → Bool) (affinity : Bool) (now : Time) :
    ErsWrites :=
  if !isDefaulted d.strategy d.templateName then ersNotDefaulted rs now
  else if ersGated d rs now then { requeueAfter := ersGateWait d rs now }
  else match ersNodeItems d rs st with
    | none => { earlyErr := true }
    | some items =>
      ersRun d rs (ersPods d st) ((canaryLabelled d.name rs st).map (·.name)) released affinity now items

/-! ### `reconcileErs` is the composition -/

theorem reconcileErs_no_owner (rs : ERS) (st : ErsStore) (released : String → Bool) (aff : Bool) (now : Time)
    (h : ersOwner rs st = none) : reconcileErs rs st released aff now = { earlyErr := true } := by
  unfold ersOwner at h
  unfold reconcileErs
  split
  · rfl
  · rename_i o ho
    rw [ho] at h
    simp only [] at h
    rw [h]

theorem reconcileErs_eq (rs : ERS) (st : ErsStore) (released : String → Bool) (aff : Bool) (now : Time)
    (d : EDS) (h : ersOwner rs st = some d) :
    reconcileErs rs st released aff now = ersBody d rs st released aff now := by
  unfold ersOwner at h
  unfold reconcileErs
  split
  · rename_i ho; rw [ho] at h; cases h
  · rename_i o ho
    rw [ho] at h
    simp only [] at h
    rw [h]
    rfl


/-! ### Inversion -/

/-- none of the five pod-write lists holds anything. -/
def ErsWrites.noPodWrite (w : ErsWrites) : Prop :=
  w.cleanupDeletes = [] ∧ w.labelAdds = [] ∧ w.labelRemoves = [] ∧ w.deletes = [] ∧ w.creates = []

instance (w : ErsWrites) : Decidable w.noPodWrite :=
  inferInstanceAs (Decidable (w.cleanupDeletes = [] ∧ w.labelAdds = [] ∧ w.labelRemoves = [] ∧ w.deletes = [] ∧
    w.creates = []))

/-- some pod write is issued. -/
def ErsWrites.issuesPodWrite (w : ErsWrites) : Prop :=
  w.cleanupDeletes ≠ [] ∨ w.labelAdds ≠ [] ∨ w.labelRemoves ≠ [] ∨ w.deletes ≠ [] ∨ w.creates ≠ []

theorem ErsWrites.noPodWrite_not_issues {w : ErsWrites} (h : w.noPodWrite) : ¬ w.issuesPodWrite := by
  obtain ⟨h1, h2, h3, h4, h5⟩ := h
  rintro (h | h | h | h | h) <;> contradiction

/-- a *full run*: owner `d` defaulted, sync not gated, node list `items`, the strategy returned
`(r, adds, removes, se)` with a status `st0`, and the writes are `ersFinish` of these. -/
structure FullRun (d : EDS) (rs : ERS) (st : ErsStore) (released : String → Bool) (aff : Bool) (now : Time)
    (w : ErsWrites) (items : List NodeItem) (r : StratResult) (adds removes : List String) (se : Bool)
    (st0 : ERSStatus) : Prop where
  defaulted : isDefaulted d.strategy d.templateName = true
  notGated : ersGated d rs now = false
  hitems : ersNodeItems d rs st = some items
  strat : ersStrategy rs ((canaryLabelled d.name rs st).map (·.name)) (ersRole d rs.name)
            (ersParams released d rs items (ersPods d st) now) now = some (r, adds, removes, se)
  status : r.newStatus = some st0
  eq : w = ersFinish rs (ersRole d rs.name) (ersFreq d) (ersParams released d rs items (ersPods d st) now)
             r adds removes se st0 aff now

theorem ersRun_cases (d : EDS) (rs : ERS) (pods : List Pod) (labelled : List String) (released : String → Bool)
    (aff : Bool) (now : Time) (items : List NodeItem) :
    ersRun d rs pods labelled released aff now items = { earlyErr := true } ∨
    ∃ r adds removes se st0,
      ersStrategy rs labelled (ersRole d rs.name) (ersParams released d rs items pods now) now
        = some (r, adds, removes, se) ∧
      r.newStatus = some st0 ∧
      ersRun d rs pods labelled released aff now items =
        ersFinish rs (ersRole d rs.name) (ersFreq d) (ersParams released d rs items pods now) r adds removes
          se st0 aff now := by
  unfold ersRun
  split
  · exact Or.inl rfl
  · rename_i r adds removes se hs
    split
    · exact Or.inl rfl
    · rename_i st0 hst
      exact Or.inr ⟨r, adds, removes, se, st0, hs, hst, rfl⟩

/-- **Inversion of `ersBody`.** -/
theorem ersBody_cases (d : EDS) (rs : ERS) (st : ErsStore) (released : String → Bool) (aff : Bool) (now : Time) :
    (ersBody d rs st released aff now = { earlyErr := true }) ∨
    (isDefaulted d.strategy d.templateName = false ∧ ersBody d rs st released aff now = ersNotDefaulted rs now) ∨
    (isDefaulted d.strategy d.templateName = true ∧ ersGated d rs now = true ∧
      ersBody d rs st released aff now = { requeueAfter := ersGateWait d rs now }) ∨
    ∃ items r adds removes se st0,
      FullRun d rs st released aff now (ersBody d rs st released aff now) items r adds removes se st0 := by
  unfold ersBody
  cases hd : isDefaulted d.strategy d.templateName with
  | false => exact Or.inr (Or.inl ⟨rfl, rfl⟩)
  | true =>
    cases hg : ersGated d rs now with
    | true => exact Or.inr (Or.inr (Or.inl ⟨rfl, rfl, rfl⟩))
    | false =>
      simp only [Bool.not_true, Bool.false_eq_true, if_false]
      cases hi : ersNodeItems d rs st with
      | none => exact Or.inl rfl
      | some items =>
        simp only []
        rcases ersRun_cases d rs (ersPods d st) ((canaryLabelled d.name rs st).map (·.name)) released aff now items
          with h | ⟨r, adds, removes, se, st0, hs, hst, he⟩
        · exact Or.inl h
        · exact Or.inr (Or.inr (Or.inr ⟨items, r, adds, removes, se, st0, ⟨hd, hg, hi, hs, hst, he⟩⟩))

/-- **Inversion of `reconcileErs`**: with the owner found, either no pod write is issued or the sync
is a full run. -/
theorem reconcileErs_cases (rs : ERS) (st : ErsStore) (released : String → Bool) (aff : Bool) (now : Time)
    (d : EDS) (h : ersOwner rs st = some d) :
    (reconcileErs rs st released aff now).noPodWrite ∨
    ∃ items r adds removes se st0,
      FullRun d rs st released aff now (reconcileErs rs st released aff now) items r adds removes se st0 := by
  rw [reconcileErs_eq rs st released aff now d h]
  rcases ersBody_cases d rs st released aff now with h | ⟨_, h⟩ | ⟨_, _, h⟩ | h
  · left; rw [h]; exact ⟨rfl, rfl, rfl, rfl, rfl⟩
  · left; rw [h]; exact ⟨rfl, rfl, rfl, rfl, rfl⟩
  · left; rw [h]; exact ⟨rfl, rfl, rfl, rfl, rfl⟩
  · exact Or.inr h

/-- without an owner nothing is written. -/
theorem reconcileErs_noPodWrite_of_no_owner (rs : ERS) (st : ErsStore) (released : String → Bool) (aff : Bool)
    (now : Time) (h : ersOwner rs st = none) : (reconcileErs rs st released aff now).noPodWrite := by
  rw [reconcileErs_no_owner rs st released aff now h]; exact ⟨rfl, rfl, rfl, rfl, rfl⟩

theorem ersFinish_earlyErr (rs : ERS) (role : String) (freq : Dur) (sp : StratParams) (r : StratResult)
    (adds removes : List String) (se : Bool) (st0 : ERSStatus) (aff : Bool) (now : Time) :
    (ersFinish rs role freq sp r adds removes se st0 aff now).earlyErr = false := rfl

/-- a defaulted, non-gated sync that is not an early return is a full run. -/
theorem reconcileErs_full (rs : ERS) (st : ErsStore) (released : String → Bool) (aff : Bool) (now : Time)
    (d : EDS) (h : ersOwner rs st = some d) (hd : isDefaulted d.strategy d.templateName = true)
    (hg : ersGated d rs now = false) (he : (reconcileErs rs st released aff now).earlyErr = false) :
    ∃ items r adds removes se st0,
      FullRun d rs st released aff now (reconcileErs rs st released aff now) items r adds removes se st0 := by
  rw [reconcileErs_eq rs st released aff now d h] at he ⊢
  rcases ersBody_cases d rs st released aff now with h | ⟨h, _⟩ | ⟨_, h, _⟩ | h
  · rw [h] at he; cases he
  · rw [hd] at h; cases h
  · rw [hg] at h; cases h
  · exact h

/-- a sync that issues a pod write is a full run. -/
theorem reconcileErs_full_of_write (rs : ERS) (st : ErsStore) (released : String → Bool) (aff : Bool) (now : Time)
    (d : EDS) (h : ersOwner rs st = some d) (hw : (reconcileErs rs st released aff now).issuesPodWrite) :
    ∃ items r adds removes se st0,
      FullRun d rs st released aff now (reconcileErs rs st released aff now) items r adds removes se st0 := by
  rcases reconcileErs_cases rs st released aff now d h with h | h
  · exact absurd hw (ErsWrites.noPodWrite_not_issues h)
  · exact h

/-! ### Fields of `ersFinish` -/

section Finish
variable (rs : ERS) (role : String) (freq : Dur) (sp : StratParams) (r : StratResult)
  (adds removes : List String) (se : Bool) (st0 : ERSStatus) (aff : Bool) (now : Time)

theorem ersFinish_cleanupDeletes :
    (ersFinish rs role freq sp r adds removes se st0 aff now).cleanupDeletes = r.cleanupDeletes := rfl
theorem ersFinish_labelAdds :
    (ersFinish rs role freq sp r adds removes se st0 aff now).labelAdds = adds := rfl
theorem ersFinish_labelRemoves :
    (ersFinish rs role freq sp r adds removes se st0 aff now).labelRemoves = removes := rfl

theorem ersFinish_deletes_eq :
    ∃ b : Bool, (ersFinish rs role freq sp r adds removes se st0 aff now).deletes =
      if b then [] else r.deleteE.map (·.2.name) := ⟨_, rfl⟩

theorem ersFinish_creates_eq :
    ∃ b : Bool, (ersFinish rs role freq sp r adds removes se st0 aff now).creates =
      if b then [] else
        r.createE.map (fun ni => (ni.node.name, (createPod rs (some ni.node) ni.setting aff).pod)) := ⟨_, rfl⟩

theorem ersFinish_deletes_sub :
    ∀ n ∈ (ersFinish rs role freq sp r adds removes se st0 aff now).deletes, n ∈ r.deleteE.map (·.2.name) := by
  intro n hn
  obtain ⟨b, hb⟩ := ersFinish_deletes_eq rs role freq sp r adds removes se st0 aff now
  rw [hb] at hn
  cases b
  · exact hn
  · cases hn

theorem ersFinish_creates_sub :
    ∀ x ∈ (ersFinish rs role freq sp r adds removes se st0 aff now).creates,
      ∃ ni ∈ r.createE, x = (ni.node.name, (createPod rs (some ni.node) ni.setting aff).pod) := by
  intro x hx
  obtain ⟨b, hb⟩ := ersFinish_creates_eq rs role freq sp r adds removes se st0 aff now
  rw [hb] at hx
  cases b
  · obtain ⟨ni, hni, rfl⟩ := List.mem_map.mp hx
    exact ⟨ni, hni, rfl⟩
  · cases hx

/-- the status compared with the stored one ends with the LastFullSync stamp. -/
theorem ersFinish_statusUpdate :
    ∃ (s1 : ERSStatus) (cs : List Cond),
      (ersFinish rs role freq sp r adds removes se st0 aff now).statusUpdate =
        (if ({ s1 with conds := updateCond cs now "LastFullSync" "True" "" "full sync" true true } : ERSStatus)
              != rs.status
         then some { s1 with conds := updateCond cs now "LastFullSync" "True" "" "full sync" true true }
         else none) :=
  ⟨_, _, rfl⟩

end Finish

/-! ### The strategy result per role -/

/-- the strategy result of the active role when `ManageDeployment` returns its early error: nothing
planned, the current status with the three rolling conditions updated. -/
def ersErrResult (sp : StratParams) (now : Time) : StratResult :=
  { newStatus := some { sp.newStatus with conds := rollingConds sp now } }

/-- the early-error result plans no pod write. -/
theorem ersErrResult_empty (sp : StratParams) (now : Time) :
    (ersErrResult sp now).createE = [] ∧ (ersErrResult sp now).deleteE = [] ∧
    (ersErrResult sp now).cleanupDeletes = [] ∧ (ersErrResult sp now).unscheduledNodes = [] :=
  ⟨rfl, rfl, rfl, rfl⟩

/-- the active role: either `ManageDeployment` succeeded with `r`, or it returned its early error
and the result is `ersErrResult` (no label patch, strategy error reported). -/
theorem ersStrategy_active {rs : ERS} {labelled : List String} {sp : StratParams} {now : Time}
    {r : StratResult} {adds removes : List String} {se : Bool} {st0 : ERSStatus}
    (h : ersStrategy rs labelled "active" sp now = some (r, adds, removes, se))
    (_hs : r.newStatus = some st0) :
    (manageDeployment sp now now false = .ok r ∧ adds = [] ∧
      removes = (if now - rollingUpdateStartTime rs.status now < 5 * minute then labelled else []) ∧
      se = false) ∨
    ((∃ msg, manageDeployment sp now now false = .err msg) ∧
      r = ersErrResult sp now ∧ adds = [] ∧ removes = [] ∧ se = true) := by
  unfold ersStrategy at h
  simp only [beq_self_eq_true, if_true] at h
  split at h
  · rename_i r0 hr0
    simp only [Option.some.injEq, Prod.mk.injEq] at h
    obtain ⟨h1, h2, h3, h4⟩ := h
    subst h1
    exact Or.inl ⟨hr0, h2.symm, h3.symm, h4.symm⟩
  · rename_i msg hmsg
    simp only [Option.some.injEq, Prod.mk.injEq] at h
    obtain ⟨h1, h2, h3, h4⟩ := h
    exact Or.inr ⟨⟨msg, hmsg⟩, h1.symm, h2.symm, h3.symm, h4.symm⟩
  · cases h

/-- a full-run write list built from the early-error result holds no pod write. -/
theorem ersFinish_errResult_noPodWrite (rs : ERS) (role : String) (freq : Dur) (sp sp' : StratParams)
    (se : Bool) (st0 : ERSStatus) (aff : Bool) (now : Time) :
    (ersFinish rs role freq sp (ersErrResult sp' now) [] [] se st0 aff now).noPodWrite := by
  refine ⟨rfl, rfl, rfl, ?_, ?_⟩
  · obtain ⟨b, hb⟩ := ersFinish_deletes_eq rs role freq sp (ersErrResult sp' now) [] [] se st0 aff now
    rw [hb]; cases b <;> rfl
  · obtain ⟨b, hb⟩ := ersFinish_creates_eq rs role freq sp (ersErrResult sp' now) [] [] se st0 aff now
    rw [hb]; cases b <;> rfl

theorem ersStrategy_canary {rs : ERS} {labelled : List String} {sp : StratParams} {now : Time}
    {r : StratResult} {adds removes : List String} {se : Bool}
    (h : ersStrategy rs labelled "canary" sp now = some (r, adds, removes, se)) :
    ∃ r0, manageCanaryStatus sp now = some r0 ∧
      r = { r0 with cleanupDeletes := cleanupTargets sp.toCleanUp,
                    unscheduledNodes := unscheduledNodes sp.unscheduled } ∧
      adds = canaryLabelAdds sp ∧ removes = [] ∧ se = false := by
  unfold ersStrategy at h
  have h1 : (("canary" : String) == "active") = false := by decide
  simp only [h1, Bool.false_eq_true, if_false, beq_self_eq_true, if_true] at h
  split at h
  · rename_i r0 hr0
    simp only [Option.some.injEq, Prod.mk.injEq] at h
    obtain ⟨h1, h2, h3, h4⟩ := h
    exact ⟨r0, hr0, h1.symm, h2.symm, h3.symm, h4.symm⟩
  · cases h

theorem ersStrategy_unknown {rs : ERS} {labelled : List String} {role : String} {sp : StratParams} {now : Time}
    {r : StratResult} {adds removes : List String} {se : Bool}
    (ha : role ≠ "active") (hc : role ≠ "canary")
    (h : ersStrategy rs labelled role sp now = some (r, adds, removes, se)) :
    r = manageUnknown sp now ∧ adds = [] ∧ removes = [] ∧ se = false := by
  unfold ersStrategy at h
  have h1 : (role == "active") = false := by simpa using ha
  have h2 : (role == "canary") = false := by simpa using hc
  simp only [h1, h2, Bool.false_eq_true, if_false, Option.some.injEq, Prod.mk.injEq] at h
  obtain ⟨a, b, c, e⟩ := h
  exact ⟨a.symm, b.symm, c.symm, e.symm⟩

/-! ### Deletion lists of the strategies -/

theorem countStep_toDelete_mem (tg : String) (wall : Time) (c : Counts) (e : NodeItem × Option Pod)
    (x : NodeItem × Pod)
    (hx : x ∈ (countStep tg wall c e).toDeleteUnavail ++ (countStep tg wall c e).toDeleteAvail) :
    x ∈ c.toDeleteUnavail ++ c.toDeleteAvail ∨ e = (x.1, some x.2) := by
  obtain ⟨ni, o⟩ := e
  cases o with
  | none => left; simpa [countStep] using hx
  | some pod =>
    simp only [countStep] at hx
    split at hx
    all_goals first
      | (left; exact hx)
      | (simp only [List.mem_append, List.mem_singleton] at hx ⊢
         rcases hx with hx | hx | hx
         · exact Or.inl (Or.inl hx)
         · first | exact Or.inl (Or.inr hx) | (subst hx; exact Or.inr rfl)
         · first | exact Or.inl (Or.inr hx) | (subst hx; exact Or.inr rfl))
      | (simp only [List.mem_append, List.mem_singleton] at hx ⊢
         rcases hx with (hx | hx) | hx
         · exact Or.inl (Or.inl hx)
         · subst hx; exact Or.inr rfl
         · exact Or.inl (Or.inr hx))

theorem foldl_countStep_toDelete_mem (tg : String) (wall : Time) (es : List (NodeItem × Option Pod)) (c : Counts)
    (x : NodeItem × Pod)
    (hx : x ∈ (es.foldl (countStep tg wall) c).toDeleteUnavail ++ (es.foldl (countStep tg wall) c).toDeleteAvail) :
    x ∈ c.toDeleteUnavail ++ c.toDeleteAvail ∨ (x.1, some x.2) ∈ es := by
  induction es generalizing c with
  | nil => exact Or.inl hx
  | cons e rest ih =>
    rw [List.foldl_cons] at hx
    rcases ih _ hx with h | h
    · rcases countStep_toDelete_mem tg wall c e x h with h | h
      · exact Or.inl h
      · exact Or.inr (h ▸ List.mem_cons_self)
    · exact Or.inr (List.mem_cons_of_mem _ h)

/-- the deletion candidates of the active role are (node, kept pod) entries of the map. -/
theorem countAll_toDelete_mem (tg : String) (wall : Time) (es : List (NodeItem × Option Pod))
    (x : NodeItem × Pod)
    (hx : x ∈ (countAll tg wall es).toDeleteUnavail ++ (countAll tg wall es).toDeleteAvail) :
    (x.1, some x.2) ∈ es := by
  unfold countAll at hx
  rcases foldl_countStep_toDelete_mem tg wall es {} x hx with h | h
  · simp at h
  · exact h

theorem rollingPlan_delete_sub (c : Counts) (N ms mu mc : Int) (paused frozen : Bool) :
    ∀ x ∈ (rollingPlan c N ms mu mc paused frozen).2, x ∈ c.toDeleteUnavail ++ c.toDeleteAvail := by
  intro x hx
  rw [rollingPlan_delete] at hx
  split at hx
  · exact List.mem_of_mem_take hx
  · cases hx

/-- what the active role deletes for updating: kept pods of targeted (non-canary) entries. -/
theorem manageDeployment_delete_mem (p : StratParams) (now wall : Time) (cf : Bool) (r : StratResult)
    (h : manageDeployment p now wall cf = .ok r) :
    ∀ x ∈ r.deleteE, (x.1, some x.2) ∈ targeted p := by
  obtain ⟨ms, mu, mc, _, _, _, _, hdel⟩ := manageDeployment_plan p now wall cf r h
  intro x hx
  rw [hdel] at hx
  exact countAll_toDelete_mem _ _ _ x (rollingPlan_delete_sub _ _ _ _ _ _ _ x hx)

theorem manageDeployment_cleanup (p : StratParams) (now wall : Time) (cf : Bool) (r : StratResult)
    (h : manageDeployment p now wall cf = .ok r) : r.cleanupDeletes = cleanupTargets p.toCleanUp := by
  unfold manageDeployment at h
  simp only [] at h
  split at h
  · simp at h
  · split at h
    · simp at h
    · split at h
      · simp at h
      · simp at h
      · injection h with h
        rw [← h]

/-- invariant of the canary scan: deletion candidates. -/
structure CanaryDeleteInv (byNode : List (NodeItem × Option Pod)) (done : List String) (c : CanaryScan) : Prop where
  mem : ∀ x ∈ c.toDelete, (x.1, some x.2) ∈ byNode ∧ x.1.node.name ∈ done

theorem canaryDeleteInv_step (tg : String) (byNode : List (NodeItem × Option Pod)) (done : List String)
    (c : CanaryScan) (n : String) (h : CanaryDeleteInv byNode done c) :
    CanaryDeleteInv byNode (done ++ [n]) (canaryScanStep tg byNode c n) := by
  have keep : ∀ c' : CanaryScan, c'.toDelete = c.toDelete → CanaryDeleteInv byNode (done ++ [n]) c' := by
    intro c' hc
    constructor
    intro x hx
    rw [hc] at hx
    exact ⟨(h.mem x hx).1, List.mem_append_left _ (h.mem x hx).2⟩
  unfold canaryScanStep
  simp only []
  split
  · exact keep _ rfl
  · exact keep _ rfl
  · rename_i ni pod hl
    obtain ⟨hm, hn⟩ := lookupNode_some hl
    simp only at hn
    split
    · exact keep _ rfl
    · split
      · constructor
        intro x hx
        rcases List.mem_append.mp hx with hx | hx
        · exact ⟨(h.mem x hx).1, List.mem_append_left _ (h.mem x hx).2⟩
        · simp only [List.mem_singleton] at hx; subst hx
          exact ⟨hm, List.mem_append_right _ (List.mem_singleton.mpr hn)⟩
      · exact keep _ rfl

theorem foldl_canaryDeleteInv (tg : String) (byNode : List (NodeItem × Option Pod)) (done rest : List String)
    (c : CanaryScan) (h : CanaryDeleteInv byNode done c) :
    CanaryDeleteInv byNode (done ++ rest) (rest.foldl (canaryScanStep tg byNode) c) := by
  induction rest generalizing done c with
  | nil => simpa using h
  | cons n rest ih =>
    have := ih (done ++ [n]) _ (canaryDeleteInv_step tg byNode done c n h)
    simpa [List.foldl_cons, List.append_assoc] using this

theorem canaryScan_deleteInv (tg : String) (byNode : List (NodeItem × Option Pod)) (names : List String) :
    CanaryDeleteInv byNode names (names.foldl (canaryScanStep tg byNode) {}) := by
  have := foldl_canaryDeleteInv tg byNode [] names {} ⟨fun x hx => (by cases hx)⟩
  simpa using this

/-- what the canary role deletes for updating: kept pods of entries of canary nodes. -/
theorem manageCanaryStatus_delete_mem (p : StratParams) (now : Time) (r : StratResult)
    (h : manageCanaryStatus p now = some r) :
    ∀ x ∈ r.deleteE, (x.1, some x.2) ∈ p.byNode ∧ x.1.node.name ∈ p.canaryNodes := by
  have inv := canaryScan_deleteInv p.ers.templateGeneration p.byNode p.canaryNodes
  unfold manageCanaryStatus at h
  simp only [] at h
  split at h
  · exact absurd h (by simp)
  · injection h with h
    subst h
    exact inv.mem

/-! ### The pod list -/

/-- the pods the replica-set controller lists: in the EDS's namespace, carrying the EDS's name label
or owned by the DaemonSet named by the old-daemonset annotation. -/
theorem mem_ersPods {d : EDS} {st : ErsStore} {p : Pod} (h : p ∈ ersPods d st) :
    p ∈ st.pods ∧ p.ns = d.ns ∧
    (SMap.get? p.labels K.edsNameLabel = some d.name ∨
     ∃ dsName, SMap.get? d.annotations K.oldDaemonsetAnnot = some dsName ∧
       p.owners.any (fun o => o.kind == "DaemonSet" && o.name == dsName) = true) := by
  unfold ersPods at h
  simp only [] at h
  rcases List.mem_append.mp h with h | h
  · simp only [List.mem_filter, Bool.and_eq_true, beq_iff_eq] at h
    exact ⟨h.1, h.2.1, Or.inl h.2.2⟩
  · split at h
    · cases h
    · rename_i dsName hds
      split at h
      · cases h
      · rename_i ds _
        rw [List.mem_filter] at h
        obtain ⟨hl, ho⟩ := h
        have : p ∈ st.pods ∧ p.ns = d.ns := by
          split at hl
          · simp only [List.mem_filter, beq_iff_eq] at hl; exact hl
          · simp only [List.mem_filter, Bool.and_eq_true, beq_iff_eq] at hl; exact ⟨hl.1, hl.2.1⟩
        exact ⟨this.1, this.2, Or.inr ⟨dsName, hds, ho⟩⟩

theorem mem_canaryLabelled {edsName : String} {rs : ERS} {st : ErsStore} {p : Pod} :
    p ∈ canaryLabelled edsName rs st ↔
      p ∈ st.pods ∧ p.ns = rs.ns ∧ SMap.get? p.labels K.canaryLabel = some "true" ∧
      SMap.get? p.labels K.ersNameLabel = some rs.name ∧
      SMap.get? p.labels K.edsNameLabel = some edsName := by
  unfold canaryLabelled
  simp only [List.mem_filter, Bool.and_eq_true, beq_iff_eq, and_assoc]

/-- the owner found lives in the replica set's namespace and is a stored EDS. -/
theorem ersOwner_some {rs : ERS} {st : ErsStore} {d : EDS} (h : ersOwner rs st = some d) :
    d ∈ st.edss ∧ d.ns = rs.ns ∧ rs.ownerEds = some d.name := by
  unfold ersOwner at h
  split at h
  · cases h
  · rename_i o ho
    have h1 := List.find?_some h
    simp only [Bool.and_eq_true, beq_iff_eq] at h1
    exact ⟨List.mem_of_find?_eq_some h, h1.1, by rw [ho, h1.2]⟩

/-! ### Condition stamp -/

/-- after `updateCond … t "True" … (supportLastUpdate := true)` the first condition of type `t` is
True with `lastUpdate = now`. -/
theorem findCond_updateCond_same_true (cs : List Cond) (now : Time) (t reason desc : String) (w : Bool) :
    ∃ c, findCond (updateCond cs now t "True" reason desc w true) t = some c ∧
      c.lastUpdate = now ∧ c.status = "True" := by
  unfold updateCond
  split
  · rename_i c0 hfc
    rw [findCond_updateFirst_same cs t _ (updateCond_fn_type now "True" reason desc true), hfc]
    refine ⟨_, rfl, ?_, updateCond_fn_status now "True" reason desc true c0⟩
    simp only [beq_self_eq_true, if_true]
  · rename_i hfc
    simp only [beq_self_eq_true, Bool.true_or, if_true]
    exact ⟨_, findCond_append_single _ _ _ hfc rfl, rfl, rfl⟩

/-! ### Role -/

theorem ersRole_cases (d : EDS) (n : String) :
    ersRole d n = "active" ∨ ersRole d n = "canary" ∨ ersRole d n = "unknown" := by
  unfold ersRole
  split
  · exact Or.inr (Or.inr rfl)
  · split
    · exact Or.inl rfl
    · split
      · split
        · exact Or.inr (Or.inl rfl)
        · exact Or.inr (Or.inr rfl)
      · exact Or.inr (Or.inr rfl)

theorem ersRole_active_iff (d : EDS) (n : String) :
    ersRole d n = "active" ↔ d.status.activeReplicaSet ≠ "" ∧ d.status.activeReplicaSet = n := by
  unfold ersRole
  constructor
  · intro h
    split at h
    · exact absurd h (by decide)
    · rename_i h1
      split at h
      · rename_i h2
        exact ⟨by simpa using h1, by simpa using h2⟩
      · split at h
        · split at h <;> exact absurd h (by decide)
        · exact absurd h (by decide)
  · rintro ⟨h1, h2⟩
    have h1' : ¬ (d.status.activeReplicaSet == "") = true := by simpa using h1
    have h2' : (d.status.activeReplicaSet == n) = true := by simpa using h2
    rw [if_neg h1', if_pos h2']

theorem ersRole_canary_iff (d : EDS) (n : String) :
    ersRole d n = "canary" ↔
      d.status.activeReplicaSet ≠ "" ∧ d.status.activeReplicaSet ≠ n ∧
      ∃ cs, d.status.canary = some cs ∧ cs.replicaSet = n := by
  unfold ersRole
  constructor
  · intro h
    split at h
    · exact absurd h (by decide)
    · rename_i h1
      split at h
      · exact absurd h (by decide)
      · rename_i h2
        split at h
        · rename_i cs hcs
          split at h
          · rename_i h3
            exact ⟨by simpa using h1, by simpa using h2, cs, hcs, by simpa using h3⟩
          · exact absurd h (by decide)
        · exact absurd h (by decide)
  · rintro ⟨h1, h2, cs, hcs, h3⟩
    have h1' : ¬ (d.status.activeReplicaSet == "") = true := by simpa using h1
    have h2' : ¬ (d.status.activeReplicaSet == n) = true := by simpa using h2
    rw [if_neg h1', if_neg h2', hcs]
    simp only []
    rw [if_pos (by simpa using h3)]

end Eds
