import EdsModel.Generated.DecSetting
import EdsProofs.SettingCtl
import EdsProofs.BridgeStatus
import EdsProofs.PodBuild
import EdsProofs.GoSort
/-
  EdsProofs.BridgeSetting — the translated `searchPossibleConflict` (controllers/extendeddaemonsetsetting/controller.go,
  `Generated/DecSetting.lean`, regenerated from the Go source on every run) is the model's `searchConflict`
  (`EdsModel/SettingCtl.lean`, the function C18 is stated about).

  Library code mapped to model functions (tied by correspondence only): `sort.Sort` -> `Go.stableSortBy` with the TRANSLATED
  `edsNodeByCreationTimestampAndPhase.Less` (group Status) applied to the two-element slice of the elements compared;
  `metav1.LabelSelectorAsSelector` / `selector.Matches` -> `Go.labelSelectorAsSelector` / `Go.selectorMatches`
  (`EdsModel/GoPreludeSetting.lean`: together the model's `settingMatches`, `Go.settingMatches_eq`).

  Hypotheses of the bridge, both guarantees of the API server (the second is shown to be needed: `nodeNames_needed`):
  * `NoTies all`: two different settings of the list do not have the same creation time AND the same name (one namespace
    is listed, names are unique there).  `sort.Sort` is not stable and the model's insertion sort is anti-stable: on a tie
    the three orders (Go's pdqsort, merge sort, the model) may differ and the scan depends on the order.
  * the node names are pairwise distinct.  The code keeps ONE map `nodesAlreadySelected` across the nodes and leaves the
    entry `node.Name -> ""` behind after each node; the model scans every node from an empty state.
-/
set_option linter.unusedSimpArgs false
set_option linter.unusedVariables false
namespace Eds.Bridge
open Eds
open Generated.Decisions

/-! ### the copy loop: `edsNodes = append(edsNodes, &edsNodeList.Items[id])` -/

theorem setting_loop1 (items : List Setting) (k : List (Option Setting) → Option (String × Option String)) :
    ∀ (suf pre : List Setting) (acc : List (Option Setting)), items = pre ++ suf →
      searchPossibleConflict.loop1 ⟨items⟩ k suf (pre.length : Int) acc = k (acc ++ suf.map some) := by
  intro suf
  induction suf with
  | nil => intro pre acc _; simp [searchPossibleConflict.loop1]
  | cons x suf ih =>
    intro pre acc h
    have hidx : Go.index items (pre.length : Int) = some x := by
      subst h
      simp [Go.index]
    have := ih (pre ++ [x]) (acc ++ [some x]) (by simp [h])
    simp only [List.length_append, List.length_singleton, Int.natCast_add, Int.cast_ofNat_Int] at this
    simp only [searchPossibleConflict.loop1, hidx, Option.bind_some]
    simpa using this

/-! ### the sort -/

/-- no ties of `Less` between different settings of the list -/
def NoTies (all : List Setting) : Prop :=
  ∀ a ∈ all, ∀ b ∈ all, a.creation = b.creation → a.name = b.name → a = b

theorem noTies_of_names_nodup {all : List Setting} (h : (all.map (·.name)).Nodup) : NoTies all :=
  fun _ ha _ hb _ hn => eq_of_name_eq_of_nodup h ha hb hn

/-- the comparator `sort.Sort` is given: `Less` on the two-element slice `[a, b]` at `(0, 1)` is the model's `settingLess`. -/
theorem src_settingLess_pair (a b : Setting) :
    edsNodeByCreationTimestampAndPhaseLess [some a, some b] 0 1 = some (settingLess a b) :=
  Bridge.src_edsNodeByCreationTimestampAndPhaseLess _ 0 1 a b (by simp [Go.index]) (by simp [Go.index])

def settingLEb (a b : Setting) : Bool := !settingLess b a

theorem settingLEb_iff (a b : Setting) : settingLEb a b = true ↔ settingLE a b := by
  unfold settingLEb settingLE; cases settingLess b a <;> simp

theorem settingLEb_trans (a b c : Setting) : settingLEb a b = true → settingLEb b c = true → settingLEb a c = true := by
  simp only [settingLEb_iff]; exact settingLE_trans

theorem settingLEb_total (a b : Setting) : (settingLEb a b || settingLEb b a) = true := by
  cases h : settingLess b a with
  | false => simp [settingLEb, h]
  | true =>
    have := settingLess_asymm h
    unfold settingLE at this
    simp [settingLEb, h, this]

/-- with no ties, merge sort and the model's insertion sort return the same list (as every sorting algorithm does). -/
theorem mergeSort_eq_sortSettings {all : List Setting} (h : NoTies all) :
    all.mergeSort settingLEb = sortSettings all := by
  apply List.Perm.eq_of_pairwise (le := settingLE)
  · intro a b ha hb hab hba
    have ha' : a ∈ all := (List.mergeSort_perm all settingLEb).mem_iff.mp ha
    have hb' : b ∈ all := mem_sortSettings.mp hb
    have := settingLE_antisymm hab hba
    exact h a ha' b hb' this.1 this.2
  · have := List.pairwise_mergeSort (le := settingLEb) settingLEb_trans settingLEb_total all
    exact this.imp (fun h => (settingLEb_iff _ _).mp h)
  · exact sortSettings_sorted all
  · exact (List.mergeSort_perm all settingLEb).trans (sortSettings_perm all).symm

/-- **`sort.Sort(edsNodes)`** (mapped to `Go.stableSortBy` with the translated `Less`): never panics and, with no ties,
is the model's `sortSettings`. -/
theorem src_sortSettings {all : List Setting} (h : NoTies all) :
    Go.stableSortBy (fun a b => edsNodeByCreationTimestampAndPhaseLess [a, b] 0 1) (all.map some) =
      some ((sortSettings all).map some) := by
  unfold Go.stableSortBy
  have hall : ((all.map some).all fun a => (all.map some).all fun b =>
      (edsNodeByCreationTimestampAndPhaseLess [a, b] 0 1).isSome) = true := by
    simp [List.all_map, Function.comp_def, src_settingLess_pair]
  rw [if_pos hall]
  have := List.map_mergeSort (f := some) (r := settingLEb)
    (s := fun a b => !((edsNodeByCreationTimestampAndPhaseLess [b, a] 0 1).getD false)) (l := all)
    (by intro a _ b _; simp [src_settingLess_pair, settingLEb])
  rw [← this, mergeSort_eq_sortSettings h]

/-! ### the scan of one node -/

/-- the settings the model keeps (`usableFor`): the code sorts all of them and skips the others inside the loop -/
def usableP (inst : Setting) (s : Setting) : Bool := !(s.badSelector && s.name != inst.name)

theorem usableFor_eq_filter (inst : Setting) (all : List Setting) : usableFor inst all = all.filter (usableP inst) := rfl

/-- filtering commutes with the sort when there are no ties -/
theorem sortSettings_filter {all : List Setting} (h : NoTies all) (p : Setting → Bool) :
    sortSettings (all.filter p) = (sortSettings all).filter p := by
  apply List.Perm.eq_of_pairwise (le := settingLE)
  · intro a b ha hb hab hba
    have ha' : a ∈ all := (List.mem_filter.mp (mem_sortSettings.mp ha)).1
    have hb' : b ∈ all := mem_sortSettings.mp (List.mem_filter.mp hb).1
    have := settingLE_antisymm hab hba
    exact h a ha' b hb' this.1 this.2
  · exact sortSettings_sorted _
  · exact (sortSettings_sorted all).sublist List.filter_sublist
  · exact (sortSettings_perm _).trans ((sortSettings_perm all).filter p).symm

/-- the error text of a conflict names the node -/
def conflictText (n : Node) : String := "extendedDaemonsetSetting already assigned to the node " ++ n.name

theorem conflictText_eq (n : Node) : "extendedDaemonsetSetting already assigned to the node " ++ n.name = conflictText n := rfl

/-- the inner loop over the sorted settings for one node, against the model's `conflictScanNode` over the usable ones:
`prev` is what the map holds for the node's name; when the scan finds nothing the loop continues with a map that differs
from the initial one at most at this node's name. -/
theorem setting_scan (inst : Setting) (node : Node) (k : SMap → Option (String × Option String)) :
    ∀ (L : List Setting) (m : SMap) (prev : Option String) (i : Int), SMap.get? m node.name = prev →
      match conflictScanNode inst.name node.labels (L.filter (usableP inst)) prev with
      | .none => ∃ m', (∀ key, key ≠ node.name → SMap.get? m' key = SMap.get? m key) ∧
          searchPossibleConflict.loop3 (some inst) node k (L.map some) i m = k m'
      | .conflict o => searchPossibleConflict.loop3 (some inst) node k (L.map some) i m = some (o, some (conflictText node))
      | .selectorError => searchPossibleConflict.loop3 (some inst) node k (L.map some) i m = some ("", some Go.selectorErrText) := by
  intro L
  induction L with
  | nil =>
    intro m prev i _
    simp only [List.filter_nil, conflictScanNode, List.map_nil, searchPossibleConflict.loop3]
    exact ⟨m, fun _ _ => rfl, rfl⟩
  | cons s L ih =>
    intro m prev i hm
    simp only [List.map_cons, searchPossibleConflict.loop3, Option.bind_some, Go.labelSelectorAsSelector]
    cases hb : s.badSelector with
    | true =>
      by_cases hn : s.name = inst.name
      · have hu : usableP inst s = true := by simp [usableP, hn]
        simp [List.filter_cons, hu, conflictScanNode, Go.settingMatches_eq, hb, hn]
      · have hu : usableP inst s = false := by simp [usableP, hb, hn]
        have := ih m prev (i + 1) hm
        simpa [List.filter_cons, hu, hn] using this
    | false =>
      have hu : usableP inst s = true := by simp [usableP, hb]
      cases hmt : Go.selectorMatches ⟨s⟩ node.labels with
      | false =>
        have := ih m prev (i + 1) hm
        simpa [List.filter_cons, hu, conflictScanNode, Go.settingMatches_eq, hb, hmt] using this
      | true =>
        have hset : SMap.get? (SMap.set m node.name s.name) node.name = some s.name := SMap.get?_set_self _ _ _
        have ih' := ih (SMap.set m node.name s.name) (some s.name) (i + 1) hset
        have hcont : match conflictScanNode inst.name node.labels (L.filter (usableP inst)) (some s.name) with
            | .none => ∃ m', (∀ key, key ≠ node.name → SMap.get? m' key = SMap.get? m key) ∧
                searchPossibleConflict.loop3 (some inst) node k (L.map some) (i + 1) (SMap.set m node.name s.name) = k m'
            | .conflict o => searchPossibleConflict.loop3 (some inst) node k (L.map some) (i + 1) (SMap.set m node.name s.name) =
                some (o, some (conflictText node))
            | .selectorError => searchPossibleConflict.loop3 (some inst) node k (L.map some) (i + 1) (SMap.set m node.name s.name) =
                some ("", some Go.selectorErrText) := by
          revert ih'
          cases conflictScanNode inst.name node.labels (L.filter (usableP inst)) (some s.name) with
          | none =>
            rintro ⟨m', h1, h2⟩
            exact ⟨m', fun key hk => (h1 key hk).trans (SMap.get?_set_other _ _ _ _ hk), h2⟩
          | conflict o => exact id
          | selectorError => exact id
        by_cases hn : s.name = inst.name
        · cases prev with
          | some o =>
            simp only [List.filter_cons, hu, conflictScanNode, Go.settingMatches_eq, hb, hmt, hn, SMap.contains, SMap.getD, hm]
            simp [conflictScanNode, Go.settingMatches_eq, hb, hmt, conflictText_eq, hn]
          | none =>
            simpa [List.filter_cons, hu, conflictScanNode, Go.settingMatches_eq, hb, hmt, hn, SMap.contains, SMap.getD, hm]
              using hcont
        · simpa [List.filter_cons, hu, conflictScanNode, Go.settingMatches_eq, hb, hmt, hn] using hcont

/-! ### the loop over the nodes -/

/-- what the translated function returns for a result of the model: the name of the other setting and the error (the
model's `conflict` does not carry the node named in the error text; `Reconcile` only tests the error against nil). -/
def ConflictOut (nodes : List Node) (r : ConflictResult) (out : Option (String × Option String)) : Prop :=
  match r with
  | .none => out = some ("", none)
  | .conflict o => ∃ n ∈ nodes, out = some (o, some (conflictText n))
  | .selectorError => out = some ("", some Go.selectorErrText)

theorem setting_nodes (inst : Setting) (sorted : List Setting) :
    ∀ (nodes : List Node) (m : SMap) (i : Int), (∀ n ∈ nodes, SMap.get? m n.name = none) → (nodes.map (·.name)).Nodup →
      ConflictOut nodes (searchConflict.go inst (sorted.filter (usableP inst)) nodes)
        (searchPossibleConflict.loop2 (sorted.map some) (some inst) (fun _ => some ("", none)) nodes i m) := by
  intro nodes
  induction nodes with
  | nil => intro m i _ _; simp [searchConflict.go, searchPossibleConflict.loop2, ConflictOut]
  | cons node rest ih =>
    intro m i hm hnd
    have hnd' : node.name ∉ rest.map (·.name) ∧ (rest.map (·.name)).Nodup := by
      rw [List.map_cons] at hnd; exact List.nodup_cons.mp hnd
    have hs := setting_scan inst node
      (fun nodesAlreadySelected => searchPossibleConflict.loop2 (sorted.map some) (some inst) (fun _ => some ("", none)) rest (i + 1)
        (SMap.set nodesAlreadySelected node.name "")) sorted m none 0 (hm node List.mem_cons_self)
    simp only [searchConflict.go, searchPossibleConflict.loop2]
    revert hs
    cases conflictScanNode inst.name node.labels (sorted.filter (usableP inst)) none with
    | none =>
      rintro ⟨m', h1, h2⟩
      rw [h2]
      have hm' : ∀ n ∈ rest, SMap.get? (SMap.set m' node.name "") n.name = none := by
        intro n hn
        have hne : n.name ≠ node.name := by
          intro he
          exact hnd'.1 (he ▸ List.mem_map_of_mem hn)
        rw [SMap.get?_set_other _ _ _ _ hne, h1 _ hne]
        exact hm n (List.mem_cons_of_mem _ hn)
      have := ih (SMap.set m' node.name "") (i + 1) hm' hnd'.2
      revert this
      unfold ConflictOut
      cases searchConflict.go inst (sorted.filter (usableP inst)) rest with
      | none => exact id
      | conflict o => rintro ⟨n, hn, h⟩; exact ⟨n, List.mem_cons_of_mem _ hn, h⟩
      | selectorError => exact id
    | conflict o => intro h; exact ⟨node, List.mem_cons_self, h⟩
    | selectorError => intro h; exact h

/-! ### the function -/

/-- the function up to the loop over the nodes: the copy loop and the sort are the model's `sortSettings`. -/
theorem searchPossibleConflict_eq_nodes (inst : Setting) (nodes : List Node) (all : List Setting) (hties : NoTies all) :
    searchPossibleConflict (some inst) (some ⟨nodes⟩) (some ⟨all⟩) =
      searchPossibleConflict.loop2 ((sortSettings all).map some) (some inst) (fun _ => some ("", none)) nodes 0 [] := by
  have h1 := setting_loop1 all
    (fun edsNodes => Option.bind (Go.stableSortBy (fun a5 b6 => edsNodeByCreationTimestampAndPhaseLess [a5, b6] 0 1) edsNodes) fun l7 =>
      searchPossibleConflict.loop2 l7 (some inst) (fun _ => some ("", none)) nodes 0 []) all [] [] (by simp)
  unfold searchPossibleConflict
  simp only [Option.bind_some]
  simp only [List.length_nil, Int.natCast_zero, Int.cast_ofNat_Int, List.nil_append] at h1
  rw [h1, src_sortSettings hties]
  rfl

/-- **`searchPossibleConflict` is the model's `searchConflict`**: for a non-nil instance and lists, settings without ties
of the sort order and nodes with distinct names, the translated function never panics and returns the model's result
(`ConflictOut`: no conflict — `("", nil)`; a conflict — the other setting's name and an error naming a node of the list;
the instance's own unusable selector — `("", err)`). -/
theorem src_searchPossibleConflict (inst : Setting) (nodes : List Node) (all : List Setting)
    (hties : NoTies all) (hnodes : (nodes.map (·.name)).Nodup) :
    ConflictOut nodes (searchConflict inst nodes all)
      (searchPossibleConflict (some inst) (some ⟨nodes⟩) (some ⟨all⟩)) := by
  rw [searchPossibleConflict_eq_nodes inst nodes all hties, searchConflict_eq, usableFor_eq_filter, sortSettings_filter hties]
  exact setting_nodes inst (sortSettings all) nodes [] 0 (fun _ _ => rfl) hnodes

/-! ### the hypothesis on the node names is needed -/

def exConflictSetting : Setting :=
  { name := "a", ns := "ns", creation := 1, reference := some "eds", nodeSelector := { matchLabels := [], exprs := [] },
    containers := [], status := "", error := "" }
def exConflictNode : Node := { name := "n", labels := [], annotations := [], taints := [] }

/-- Two listed nodes with the same name (the API server never lists that): the code keeps one map across the nodes and
leaves `nodesAlreadySelected["n"] = ""` behind, so the instance's own match on the second node is reported as a conflict
with the setting `""`; the model scans every node from an empty state and finds nothing.  Not a defect of the code under
the API server's guarantee; the bridge carries the hypothesis. -/
theorem nodeNames_needed :
    searchPossibleConflict (some exConflictSetting) (some ⟨[exConflictNode, exConflictNode]⟩) (some ⟨[exConflictSetting]⟩) = some ("", some (conflictText exConflictNode)) ∧
      searchConflict exConflictSetting [exConflictNode, exConflictNode] [exConflictSetting] = .none := by
  constructor
  · rw [searchPossibleConflict_eq_nodes _ _ _ (by intro a ha b hb _ _; simp at ha hb; rw [ha, hb])]
    decide
  · decide

/-- non-vacuity: a second setting that selects the same node is reported, through the bridge. -/
theorem ex_searchPossibleConflict :
    ∃ err, searchPossibleConflict (some exConflictSetting) (some ⟨[exConflictNode]⟩) (some ⟨[exConflictSetting, { exConflictSetting with name := "b", creation := 2 }]⟩) =
      some ("b", some err) := by
  have h := src_searchPossibleConflict exConflictSetting [exConflictNode] [exConflictSetting, { exConflictSetting with name := "b", creation := 2 }]
    (by intro a ha b hb _ hn; simp at ha hb; rcases ha with rfl | rfl <;> rcases hb with rfl | rfl <;> simp_all [exConflictSetting])
    (by simp)
  have hm : searchConflict exConflictSetting [exConflictNode] [exConflictSetting, { exConflictSetting with name := "b", creation := 2 }] = .conflict "b" := by decide
  rw [hm] at h
  obtain ⟨n, _, h⟩ := h
  exact ⟨_, h⟩

/-- what `Reconcile` computes from the result (`if err != nil { status = error; error = "conflict …: " + other }`, else
`valid` when no error was recorded before) is the model's `settingReconcile` for a setting with a reference. -/
theorem src_searchPossibleConflict_reconcile (inst : Setting) (nodes : List Node) (all : List Setting) (ref : String)
    (href : inst.reference = some ref) (hne : ref ≠ "")
    (hties : NoTies all) (hnodes : (nodes.map (·.name)).Nodup) :
    ∃ other err, searchPossibleConflict (some inst) (some ⟨nodes⟩) (some ⟨all⟩) = some (other, err) ∧
      settingReconcile inst nodes all =
        (if err.isSome then ("error", "conflict with another ExtendedDaemonsetSetting: " ++ other) else ("valid", "")) := by
  have h := src_searchPossibleConflict inst nodes all hties hnodes
  unfold settingReconcile
  rw [href]
  revert h
  unfold ConflictOut
  cases searchConflict inst nodes all with
  | none => intro h; exact ⟨"", none, h, by cases ref <;> simp_all⟩
  | conflict o => rintro ⟨n, _, h⟩; exact ⟨o, _, h, by cases ref <;> simp_all⟩
  | selectorError => intro h; exact ⟨"", _, h, by cases ref <;> simp_all⟩

/-- with a nil instance the function panics as soon as a setting with a usable selector matches a node. -/
theorem src_searchPossibleConflict_nil_lists (inst : Option Setting) (nodes : Option GNodeList) :
    searchPossibleConflict inst nodes none = none := rfl

end Eds.Bridge
