import EdsModel.GoPrelude
/-
  EdsProofs.GoSort — `Go.stableSortBy` (GoPrelude: what `sort.SliceStable(xs, less)` is mapped to, `List.mergeSort` with
  `le a b := !less b a`) for a comparator of the form `less a b = !key a && key b` — a two-class strict weak ordering: the
  `key = false` elements first, each class in its original order.  `ManageDeployment` sorts its deletion candidates this
  way (`key` = the pod of the node is available).  Core `List.mergeSort` lemmas only (no Mathlib).
-/
set_option linter.unusedSimpArgs false
set_option linter.unusedVariables false
namespace Eds.Go

/-- `mergeSort` only ever compares elements of the list. -/
theorem mergeSort_congr {α : Type} (r s : α → α → Bool) (l : List α) (h : ∀ a ∈ l, ∀ b ∈ l, r a b = s a b) :
    l.mergeSort r = l.mergeSort s := by
  have := List.map_mergeSort (f := id) (r := r) (s := s) (l := l) (by simpa using h)
  simpa using this

/-- the order of a two-class key: `false` before `true`. -/
def le2 {α : Type} (key : α → Bool) (a b : α) : Bool := !key a || key b

theorem le2_trans {α : Type} (key : α → Bool) (a b c : α) : le2 key a b = true → le2 key b c = true → le2 key a c = true := by
  unfold le2; cases key a <;> cases key b <;> cases key c <;> simp

theorem le2_total {α : Type} (key : α → Bool) (a b : α) : (le2 key a b || le2 key b a) = true := by
  unfold le2; cases key a <;> cases key b <;> simp

/-- the stable sort by a two-class key is the stable partition. -/
theorem mergeSort_twoClass {α : Type} (key : α → Bool) (l : List α) :
    l.mergeSort (le2 key) = l.filter (fun a => !key a) ++ l.filter key := by
  induction l with
  | nil => simp
  | cons a l ih =>
    obtain ⟨l₁, l₂, h₁, h₂, h₃⟩ := List.mergeSort_cons (le := le2 key) (le2_trans key) (le2_total key) a l
    have hs := List.pairwise_mergeSort (le := le2 key) (le2_trans key) (le2_total key) (a :: l)
    rw [h₁] at hs ⊢
    rw [ih] at h₂
    cases ha : key a with
    | false =>
      have : l₁ = [] := by
        cases l₁ with
        | nil => rfl
        | cons b bs =>
          have := h₃ b List.mem_cons_self
          simp [le2, ha] at this
      subst this
      simp only [List.nil_append] at h₂ ⊢
      simp [List.filter_cons, ha, h₂]
    | true =>
      have h1 : ∀ b ∈ l₁, key b = false := by
        intro b hb
        have := h₃ b hb
        simpa [le2, ha] using this
      have h2 : ∀ c ∈ l₂, key c = true := by
        intro c hc
        have hp := (List.pairwise_append.mp hs).2.1
        have := List.rel_of_pairwise_cons hp hc
        simpa [le2, ha] using this
      have e1 : (l₁ ++ l₂).filter (fun a => !key a) = l₁ := by
        rw [List.filter_append]
        have a1 : l₁.filter (fun a => !key a) = l₁ := List.filter_eq_self.mpr (by intro b hb; simp [h1 b hb])
        have a2 : l₂.filter (fun a => !key a) = [] := List.filter_eq_nil_iff.mpr (by intro c hc; simp [h2 c hc])
        rw [a1, a2, List.append_nil]
      have e2 : (l₁ ++ l₂).filter key = l₂ := by
        rw [List.filter_append]
        have a1 : l₁.filter key = [] := List.filter_eq_nil_iff.mpr (by intro b hb; simp [h1 b hb])
        have a2 : l₂.filter key = l₂ := List.filter_eq_self.mpr (by intro c hc; simp [h2 c hc])
        rw [a1, a2, List.nil_append]
      rw [← h₂] at e1 e2
      have f1 : (l.filter (fun a => !key a) ++ l.filter key).filter (fun a => !key a) = l.filter (fun a => !key a) := by
        rw [List.filter_append, List.filter_filter, List.filter_filter]
        have : l.filter (fun a => (!key a) && key a) = [] := List.filter_eq_nil_iff.mpr (by intro c _; cases key c <;> simp)
        simp [this]
      have f2 : (l.filter (fun a => !key a) ++ l.filter key).filter key = l.filter key := by
        rw [List.filter_append, List.filter_filter, List.filter_filter]
        have : l.filter (fun a => key a && !key a) = [] := List.filter_eq_nil_iff.mpr (by intro c _; cases key c <;> simp)
        simp [this]
      rw [f1] at e1
      rw [f2] at e2
      simp [List.filter_cons, ha, e1, e2]

/-- **`sort.SliceStable` with a comparator `!key(i) && key(j)`**: when the translated comparator is that function of the
two elements on the elements of the slice (in particular it does not panic on them), the sort is the stable partition —
the `key = false` elements first, each class in the order of the slice. -/
theorem stableSortBy_twoClass {α : Type} (less : α → α → Option Bool) (key : α → Bool) (xs : List α)
    (h : ∀ a ∈ xs, ∀ b ∈ xs, less a b = some (!key a && key b)) :
    stableSortBy less xs = some (xs.filter (fun a => !key a) ++ xs.filter key) := by
  unfold stableSortBy
  have hall : (xs.all fun a => xs.all fun b => (less a b).isSome) = true := by
    simp only [List.all_eq_true]
    intro a ha b hb
    simp [h a ha b hb]
  simp only [hall, if_true]
  rw [mergeSort_congr _ (le2 key) xs, mergeSort_twoClass]
  intro a ha b hb
  rw [h b hb a ha]
  unfold le2
  cases key a <;> cases key b <;> simp

/-- the two-class comparator is a strict weak ordering — the contract under which the result of `sort.SliceStable` is
determined (and is what `Go.stableSortBy` says): irreflexive, transitive, incomparability transitive. -/
theorem twoClass_strictWeak {α : Type} (key : α → Bool) :
    (∀ a : α, (!key a && key a) = false) ∧
    (∀ a b c : α, (!key a && key b) = true → (!key b && key c) = true → (!key a && key c) = true) ∧
    (∀ a b c : α, (!key a && key b) = false → (!key b && key a) = false → (!key b && key c) = false →
      (!key c && key b) = false → ((!key a && key c) = false ∧ (!key c && key a) = false)) := by
  refine ⟨?_, ?_, ?_⟩
  · intro a; cases key a <;> rfl
  · intro a b c; cases key a <;> cases key b <;> cases key c <;> simp
  · intro a b c; cases key a <;> cases key b <;> cases key c <;> simp

end Eds.Go
