import EdsProofs.ErsRun
/-
  EdsProofs.CanaryRestart — the PodRestarting bookkeeping of `manageCanaryPodFailures`
  (strategy/canary.go), and what a whole sync of the replica-set controller does to the stored
  PodRestarting condition.

  * `observedRestart pods`  — the restart time one evaluation of `pods` observes: the loop variable
                              `newRestartTime` after the per-pod loop (`fold_newRestartTime`).  It is
                              the LATEST `lastState.terminated.finishedAt` among the container statuses
                              with a non-zero restart count of the evaluated pods whose highest restart
                              count is non-zero, or Go's zero time if there is none
                              (`observedRestart_spec`, `mostRecentRestart_spec`).  It is NOT the clock
                              `now`: the clock never enters the PodRestarting condition.
  * `restartView`, `recordView` — the (status, lastTransition, lastUpdate) projection of the stored
                              condition and the effect of `UpdateExtendedDaemonSetReplicaSetStatusCondition
                              (status, metav1.NewTime(newRestartTime), PodRestarting, True, …, false, true)`.
  * `finalConds_restartView` — the condition list `manageCanaryPodFailures` returns.
  * `recorded rs s`          — the time the sync `s` of replica set `rs` records, as a function of what the
                              sync reads; `restartView_step` — the stored condition after the sync.
-/
namespace Eds

/-! ### 1. The loop variable `newRestartTime` -/

/-- one iteration's update of `newRestartTime`. -/
def obsStep (acc : Time) (pod : Pod) : Time :=
  if (highestRestart pod.cstats).1 != 0 then
    if (mostRecentRestart pod.cstats).1 > acc then (mostRecentRestart pod.cstats).1 else acc
  else acc

/-- the restart time an evaluation of `pods` observes (`newRestartTime` after the loop). -/
def observedRestart (pods : List Pod) : Time := pods.foldl obsStep zeroTime

theorem fsRestart_newRestartTime (s : FailState) (pod : Pod) :
    (fsRestart s pod).newRestartTime = obsStep s.newRestartTime pod := by
  unfold fsRestart obsStep; split <;> (try split) <;> rfl

theorem fsCS_newRestartTime (cfg : FailCfg) (pod : Pod) (s : FailState) :
    (fsCS cfg pod s).2.2.newRestartTime = s.newRestartTime := by
  unfold fsCS; split <;> (try split) <;> (try split) <;> (try split) <;> rfl

theorem fsDecide_newRestartTime (cfg : FailCfg) (rc : Int) (hr : String) (cs : Bool) (csr : String) (s : FailState) :
    (fsDecide cfg rc hr cs csr s).newRestartTime = s.newRestartTime := by
  unfold fsDecide
  simp only [apply_ite FailState.newRestartTime, ite_self]

theorem failStep_newRestartTime (cfg : FailCfg) (s : FailState) (pod : Pod)
    (h : (failStep cfg s pod).panicked = false) :
    (failStep cfg s pod).newRestartTime = obsStep s.newRestartTime pod := by
  rw [(failStep_nonpanic cfg s pod h).2, fsDecide_newRestartTime, fsCS_newRestartTime, fsRestart_newRestartTime]

theorem fold_newRestartTime (cfg : FailCfg) (pods : List Pod) (s : FailState)
    (h : (pods.foldl (failStep cfg) s).panicked = false) :
    (pods.foldl (failStep cfg) s).newRestartTime = pods.foldl obsStep s.newRestartTime := by
  induction pods generalizing s with
  | nil => rfl
  | cons p ps ih =>
    rw [List.foldl_cons] at h ⊢
    have hp := fold_panicked_mono cfg ps _ h
    rw [ih _ h, failStep_newRestartTime cfg s p hp, List.foldl_cons]

/-- **`newRestartTime` of a returning `manageCanaryPodFailures` is `observedRestart` of the evaluated pods.** -/
theorem mcpf_newRestartTime (pods : List Pod) (canary : Option Canary) (paramsStatus st st' : ERSStatus)
    (failed0 paused0 : Bool) (reason0 : String) (unpaused : Bool) (now : Time) (s : FailState)
    (h : manageCanaryPodFailures pods canary paramsStatus st failed0 paused0 reason0 unpaused now = some (s, st')) :
    s.newRestartTime = observedRestart pods := by
  cases hd : canaryDerefs canary with
  | none => unfold manageCanaryPodFailures at h; rw [hd] at h; exact absurd h (by simp)
  | some v =>
    obtain ⟨ape, apm, slow, afe, afm, mrd, cto⟩ := v
    obtain ⟨hs, hp, _⟩ := mcpf_some pods canary paramsStatus st st' failed0 paused0 reason0 unpaused now s
      ape apm slow afe afm mrd cto hd h
    rw [hs] at hp ⊢
    rw [fold_newRestartTime _ _ _ hp]
    rfl

/-! #### what `observedRestart` is -/

theorem obsStep_ge (acc : Time) (pod : Pod) : acc ≤ obsStep acc pod := by
  unfold obsStep; split <;> (try split) <;> omega

theorem foldl_obsStep_ge (pods : List Pod) (acc : Time) : acc ≤ pods.foldl obsStep acc := by
  induction pods generalizing acc with
  | nil => exact Int.le_refl _
  | cons p ps ih => rw [List.foldl_cons]; exact Int.le_trans (obsStep_ge acc p) (ih _)

/-- a pod "shows a restart": its highest container restart count is non-zero. -/
def podRestarted (pod : Pod) : Bool := (highestRestart pod.cstats).1 != 0

theorem foldl_obsStep_spec (pods : List Pod) (acc : Time) :
    (∀ p ∈ pods, podRestarted p = true → (mostRecentRestart p.cstats).1 ≤ pods.foldl obsStep acc) ∧
    (pods.foldl obsStep acc = acc ∨
      ∃ p ∈ pods, podRestarted p = true ∧ pods.foldl obsStep acc = (mostRecentRestart p.cstats).1) := by
  induction pods generalizing acc with
  | nil => exact ⟨fun p hp => (nomatch hp), Or.inl rfl⟩
  | cons q qs ih =>
    rw [List.foldl_cons]
    obtain ⟨ih1, ih2⟩ := ih (obsStep acc q)
    constructor
    · intro p hp hr
      rcases List.mem_cons.mp hp with rfl | hp
      · have h1 : (mostRecentRestart p.cstats).1 ≤ obsStep acc p := by
          unfold podRestarted at hr
          unfold obsStep; rw [if_pos hr]; split <;> omega
        exact Int.le_trans h1 (foldl_obsStep_ge qs _)
      · exact ih1 p hp hr
    · rcases ih2 with h | ⟨p, hp, hr, he⟩
      · rw [h]
        unfold obsStep
        split
        · rename_i hr
          split
          · exact Or.inr ⟨q, List.mem_cons_self, hr, rfl⟩
          · exact Or.inl rfl
        · exact Or.inl rfl
      · exact Or.inr ⟨p, List.mem_cons_of_mem _ hp, hr, he⟩

/-- **What a sync observes.**  `observedRestart pods` is an upper bound of the most recent restart of
every evaluated pod that shows a restart, it is never below Go's zero time, and it is either the zero
time (nothing observed) or the most recent restart of such a pod. -/
theorem observedRestart_spec (pods : List Pod) :
    zeroTime ≤ observedRestart pods ∧
    (∀ p ∈ pods, podRestarted p = true → (mostRecentRestart p.cstats).1 ≤ observedRestart pods) ∧
    (observedRestart pods = zeroTime ∨
      ∃ p ∈ pods, podRestarted p = true ∧ observedRestart pods = (mostRecentRestart p.cstats).1) :=
  ⟨foldl_obsStep_ge pods zeroTime, (foldl_obsStep_spec pods zeroTime).1, (foldl_obsStep_spec pods zeroTime).2⟩

/-- the step of `MostRecentRestart`. -/
def mrrStep (acc : Time × String) (s : ContainerStatus) : Time × String :=
  match s.lastTerm with
  | some t =>
    if s.restarts != 0 && t.finishedAt > acc.1 then
      (t.finishedAt, if t.reason != "" then t.reason else "Unknown")
    else acc
  | none => acc

theorem mostRecentRestart_eq (cs : List ContainerStatus) : mostRecentRestart cs = cs.foldl mrrStep (zeroTime, "") := rfl

theorem mrrStep_ge (acc : Time × String) (s : ContainerStatus) : acc.1 ≤ (mrrStep acc s).1 := by
  unfold mrrStep
  split
  · split
    · rename_i h; simp only [Bool.and_eq_true, decide_eq_true_eq] at h; simp only []; omega
    · omega
  · omega

theorem foldl_mrrStep_ge (cs : List ContainerStatus) (acc : Time × String) : acc.1 ≤ (cs.foldl mrrStep acc).1 := by
  induction cs generalizing acc with
  | nil => exact Int.le_refl _
  | cons c cs ih => rw [List.foldl_cons]; exact Int.le_trans (mrrStep_ge acc c) (ih _)

theorem foldl_mrrStep_spec (cs : List ContainerStatus) (acc : Time × String) :
    (∀ c ∈ cs, ∀ t, c.lastTerm = some t → c.restarts ≠ 0 → t.finishedAt ≤ (cs.foldl mrrStep acc).1) ∧
    ((cs.foldl mrrStep acc).1 = acc.1 ∨
      ∃ c ∈ cs, ∃ t, c.lastTerm = some t ∧ c.restarts ≠ 0 ∧ (cs.foldl mrrStep acc).1 = t.finishedAt) := by
  induction cs generalizing acc with
  | nil => exact ⟨fun c hc => (nomatch hc), Or.inl rfl⟩
  | cons q qs ih =>
    rw [List.foldl_cons]
    obtain ⟨ih1, ih2⟩ := ih (mrrStep acc q)
    constructor
    · intro c hc t ht hr
      rcases List.mem_cons.mp hc with rfl | hc
      · have h1 : t.finishedAt ≤ (mrrStep acc c).1 := by
          unfold mrrStep; rw [ht]; simp only []
          have hr' : (c.restarts != 0) = true := by simpa using hr
          by_cases hgt : t.finishedAt > acc.1
          · simp [hr', hgt]
          · simp [hr', hgt]; omega
        exact Int.le_trans h1 (foldl_mrrStep_ge qs _)
      · exact ih1 c hc t ht hr
    · rcases ih2 with h | ⟨c, hc, t, ht, hr, he⟩
      · rw [h]
        unfold mrrStep
        split
        · rename_i t ht
          split
          · rename_i hcond
            simp only [Bool.and_eq_true, bne_iff_ne, ne_eq, decide_eq_true_eq] at hcond
            exact Or.inr ⟨q, List.mem_cons_self, t, ht, hcond.1, rfl⟩
          · exact Or.inl rfl
        · exact Or.inl rfl
      · exact Or.inr ⟨c, List.mem_cons_of_mem _ hc, t, ht, hr, he⟩

/-- **`MostRecentRestart`** is the latest `finishedAt` of the last termination among the container
statuses with a non-zero restart count (zero time if none). -/
theorem mostRecentRestart_spec (cs : List ContainerStatus) :
    (∀ c ∈ cs, ∀ t, c.lastTerm = some t → c.restarts ≠ 0 → t.finishedAt ≤ (mostRecentRestart cs).1) ∧
    ((mostRecentRestart cs).1 = zeroTime ∨
      ∃ c ∈ cs, ∃ t, c.lastTerm = some t ∧ c.restarts ≠ 0 ∧ (mostRecentRestart cs).1 = t.finishedAt) :=
  foldl_mrrStep_spec cs (zeroTime, "")

/-! ### 2. The stored condition -/

/-- what the failure triggers and `IsCanaryDeploymentEnded` read of a PodRestarting condition. -/
abbrev RView := Option (String × Time × Time)

/-- (status, lastTransition, lastUpdate) of the first condition of type PodRestarting. -/
def restartView (conds : List Cond) : RView :=
  (findCond conds "PodRestarting").map (fun c => (c.status, c.lastTransition, c.lastUpdate))

/-- effect of recording the restart time `t` (condition update with status True, `supportLastUpdate`):
a missing condition is created with both stamps `t`; a condition that was not True transitions (both
stamps `t`); a True condition keeps its `lastTransition` and gets `lastUpdate = t`. -/
def recordView (t : Time) : RView → RView
  | none => some ("True", t, t)
  | some (status, tr, _) => if status != "True" then some ("True", t, t) else some (status, tr, t)

/-- `findCond` after `updateCond` of the same type. -/
theorem findCond_updateCond_same (cs : List Cond) (now : Time) (t status reason desc : String) (w sl : Bool) :
    findCond (updateCond cs now t status reason desc w sl) t =
      match findCond cs t with
      | some c => some
          (let c1 := if c.status != status then
                      { c with lastTransition := now, status := status, lastUpdate := now } else c
           let c2 := if sl then { c1 with lastUpdate := now } else c1
           if status == "True" then { c2 with message := desc, reason := reason } else c2)
      | none => if status == "True" || w then
          some { type := t, status := status, lastTransition := now, lastUpdate := now,
                 reason := reason, message := desc }
        else none := by
  unfold updateCond
  cases hfc : findCond cs t with
  | some c0 =>
    simp only []
    rw [findCond_updateFirst_same cs t _ (updateCond_fn_type now status reason desc sl), hfc]
    rfl
  | none =>
    simp only []
    split
    · exact findCond_append_single _ _ _ hfc rfl
    · exact hfc

theorem restartView_updateCond_other (cs : List Cond) (now : Time) (t' status reason desc : String)
    (w sl : Bool) (hne : t' ≠ "PodRestarting") :
    restartView (updateCond cs now t' status reason desc w sl) = restartView cs := by
  unfold restartView
  rw [findCond_updateCond_other cs now "PodRestarting" t' status reason desc w sl hne]

theorem restartView_record (cs : List Cond) (t : Time) (reason desc : String) :
    restartView (updateCond cs t "PodRestarting" "True" reason desc false true) = recordView t (restartView cs) := by
  unfold restartView
  rw [findCond_updateCond_same]
  cases hfc : findCond cs "PodRestarting" with
  | none => rfl
  | some c =>
    simp only [Option.map_some, recordView, beq_self_eq_true, if_true]
    by_cases hs : c.status = "True"
    · simp [hs]
    · simp [hs]

/-- `LastUpdateTime` of a view, or the zero time. -/
def viewLast : RView → Time
  | some (_, _, up) => up
  | none => zeroTime

/-- `lastRestartTime` as `manageCanaryPodFailures` computes it from `params.NewStatus`. -/
def storedLast (paramsStatus : ERSStatus) : Time :=
  match findCond paramsStatus.conds "PodRestarting" with | some rc => rc.lastUpdate | none => zeroTime

theorem storedLast_eq (paramsStatus : ERSStatus) :
    storedLast paramsStatus = viewLast (restartView paramsStatus.conds) := by
  unfold storedLast restartView viewLast
  cases findCond paramsStatus.conds "PodRestarting" <;> rfl

theorem finalConds_eq (paramsStatus st : ERSStatus) (now : Time) (s : FailState) :
    finalConds paramsStatus st now s =
      updateCond
        (if (!isZeroTime s.newRestartTime && decide (s.newRestartTime > storedLast paramsStatus)) = true then
          updateCond
            (updateCond (updateCond st.conds now "Canary-Failed" (boolCond s.isFailed) s.failedReason "" false true)
              now "Canary-Paused" (boolCond s.isPaused) s.pausedReason "" false true)
            s.newRestartTime "PodRestarting" "True" s.cannotStartPodReason s.restartingPodStatus false true
         else
          updateCond (updateCond st.conds now "Canary-Failed" (boolCond s.isFailed) s.failedReason "" false true)
            now "Canary-Paused" (boolCond s.isPaused) s.pausedReason "" false true)
        now "PodCannotStart" (boolCond s.cannotStart) s.cannotStartPodReason s.cannotStartPodStatus false true := rfl

/-- **The condition list `manageCanaryPodFailures` returns**: the PodRestarting condition is rewritten
iff the loop observed a restart (`newRestartTime` non-zero) strictly after the stored `lastUpdate`. -/
theorem finalConds_restartView (paramsStatus st : ERSStatus) (now : Time) (s : FailState) :
    restartView (finalConds paramsStatus st now s) =
      if s.newRestartTime ≠ zeroTime ∧ s.newRestartTime > viewLast (restartView paramsStatus.conds) then
        recordView s.newRestartTime (restartView st.conds)
      else restartView st.conds := by
  rw [finalConds_eq, storedLast_eq]
  rw [restartView_updateCond_other _ _ _ _ _ _ _ _ (by decide)]
  by_cases hc : s.newRestartTime ≠ zeroTime ∧ s.newRestartTime > viewLast (restartView paramsStatus.conds)
  · have hb : (!isZeroTime s.newRestartTime &&
        decide (s.newRestartTime > viewLast (restartView paramsStatus.conds))) = true := by
      simp [isZeroTime, hc.1, hc.2]
    rw [if_pos hb, if_pos hc, restartView_record,
      restartView_updateCond_other _ _ _ _ _ _ _ _ (by decide),
      restartView_updateCond_other _ _ _ _ _ _ _ _ (by decide)]
  · have hb : ¬ (!isZeroTime s.newRestartTime &&
        decide (s.newRestartTime > viewLast (restartView paramsStatus.conds))) = true := by
      intro hb
      simp only [isZeroTime, Bool.and_eq_true, Bool.not_eq_true', beq_eq_false_iff_ne, ne_eq,
        decide_eq_true_eq] at hb
      exact hc hb
    rw [if_neg hb, if_neg hc,
      restartView_updateCond_other _ _ _ _ _ _ _ _ (by decide),
      restartView_updateCond_other _ _ _ _ _ _ _ _ (by decide)]

/-! ### 3. The canary strategy and the whole sync -/

/-- the pods the canary role evaluates: the scan's `podsToCheckForRestarts` (pods kept on a canary
node that are not terminating and match the replica set's template). -/
def canaryChecked (p : StratParams) : List Pod :=
  (p.canaryNodes.foldl (canaryScanStep p.ers.templateGeneration p.byNode) {}).toCheck

/-- the call of `manageCanaryPodFailures` inside `manageCanaryStatus`. -/
def canaryFail (p : StratParams) (now : Time) : Option (FailState × ERSStatus) :=
  manageCanaryPodFailures (canaryChecked p) p.strategy.canary p.newStatus
    { p.newStatus with status := "canary" } (isCanaryFailed (some p.ers))
    (isCanaryPaused p.edsAnnotations (some p.ers)).1 (isCanaryPaused p.edsAnnotations (some p.ers)).2
    (isCanaryUnpaused p.edsAnnotations) now

/-- `manageCanaryStatus` returns iff `manageCanaryPodFailures` does; the returned status has the
conditions `manageCanaryPodFailures` wrote and the returned flag is its flag. -/
theorem manageCanaryStatus_some (p : StratParams) (now : Time) (r : StratResult)
    (h : manageCanaryStatus p now = some r) :
    ∃ fs st', canaryFail p now = some (fs, st') ∧ r.isFailed = fs.isFailed ∧
      ∃ st0, r.newStatus = some st0 ∧ st0.conds = st'.conds := by
  unfold manageCanaryStatus at h
  simp only [] at h
  split at h
  · exact absurd h (by simp)
  · rename_i fs st' hm
    injection h with h
    subst h
    exact ⟨fs, st', hm, rfl, _, rfl, rfl⟩

theorem manageCanaryStatus_none (p : StratParams) (now : Time) (h : manageCanaryStatus p now = none) :
    canaryFail p now = none := by
  unfold manageCanaryStatus at h
  simp only [] at h
  split at h
  · rename_i hm; exact hm
  · exact absurd h (by simp)

/-- the `FailState` the sync `s` of `rs` computes when it is a full run in the canary role whose
`manageCanaryPodFailures` returns; `none` otherwise (no owner, owner not defaulted, gated by
LastFullSync, node listing failed, another role, nil dereference). -/
def canaryFailOf (rs : ERS) (s : Sync) : Option FailState :=
  match ersOwner rs s.st with
  | none => none
  | some d =>
    if !isDefaulted d.strategy d.templateName then none
    else if ersGated d rs s.now then none
    else match ersNodeItems d rs s.st with
      | none => none
      | some items =>
        if ersRole d rs.name == "canary" then
          (canaryFail (ersParams s.released d rs items (ersPods d s.st) s.now) s.now).map (·.1)
        else none

/-- the pods that sync evaluates (when it evaluates any). -/
def canaryCheckedOf (rs : ERS) (s : Sync) : List Pod :=
  match ersOwner rs s.st with
  | none => []
  | some d =>
    match ersNodeItems d rs s.st with
    | none => []
    | some items => canaryChecked (ersParams s.released d rs items (ersPods d s.st) s.now)

/-- **The time a sync records**: `some t` iff the sync evaluates the canary pods, observes the restart
time `t ≠ zero time` and `t` is strictly after the stored `PodRestarting.lastUpdate`
(`lastRestartTime rs`, zero time without a stored condition). -/
def recorded (rs : ERS) (s : Sync) : Option Time :=
  match canaryFailOf rs s with
  | some fs =>
    if fs.newRestartTime ≠ zeroTime ∧ fs.newRestartTime > lastRestartTime rs then some fs.newRestartTime else none
  | none => none

theorem lastRestartTime_eq (rs : ERS) : lastRestartTime rs = viewLast (restartView rs.status.conds) := by
  unfold lastRestartTime restartView viewLast
  cases findCond rs.status.conds "PodRestarting" <;> rfl

/-- the recorded time is the observed restart time of the evaluated pods. -/
theorem canaryFailOf_newRestartTime (rs : ERS) (s : Sync) (fs : FailState) (h : canaryFailOf rs s = some fs) :
    fs.newRestartTime = observedRestart (canaryCheckedOf rs s) := by
  unfold canaryFailOf at h
  unfold canaryCheckedOf
  cases ho : ersOwner rs s.st with
  | none => rw [ho] at h; cases h
  | some d =>
    rw [ho] at h
    simp only [] at h ⊢
    cases hi : ersNodeItems d rs s.st with
    | none => rw [hi] at h; simp at h
    | some items =>
      rw [hi] at h
      simp only [] at h ⊢
      split at h
      · cases h
      · split at h
        · cases h
        · split at h
          · cases hm : canaryFail (ersParams s.released d rs items (ersPods d s.st) s.now) s.now with
            | none => rw [hm] at h; cases h
            | some v =>
              obtain ⟨fs', st'⟩ := v
              rw [hm] at h
              simp only [Option.map_some, Option.some.injEq] at h
              subst h
              exact mcpf_newRestartTime _ _ _ _ _ _ _ _ _ _ _ hm
          · cases h

theorem restartView_ersParams (released : String → Bool) (d : EDS) (rs : ERS) (items : List NodeItem)
    (pods : List Pod) (now : Time) :
    restartView (ersParams released d rs items pods now).newStatus.conds = restartView rs.status.conds := by
  unfold restartView
  congr 1
  exact preConds_findCond _ _ _ _ (by decide) (by decide) (by decide) (by decide)

/-- a full run leaves the PodRestarting condition as the strategy returned it. -/
theorem restartView_fullRun {d : EDS} {rs : ERS} {s : Sync} {items : List NodeItem} {r : StratResult}
    {adds removes : List String} {se : Bool} {st0 : ERSStatus}
    (F : FullRun d rs s.st s.released s.aff s.now (s.run rs) items r adds removes se st0) :
    restartView (stepErs rs s).status.conds = restartView st0.conds := by
  unfold restartView
  congr 1
  show findCond ((s.run rs).statusUpdate.getD rs.status).conds "PodRestarting" = _
  rw [F.eq]
  exact ersFinish_findCond _ _ _ _ _ _ _ _ _ _ _ _ (by decide) (by decide) (by decide) (by decide)
    (by decide) (by decide)

/-- the strategy dispatch and the PodRestarting condition, once the node list is known. -/
theorem ersRun_restartView (d : EDS) (rs : ERS) (pods : List Pod) (labelled : List String)
    (released : String → Bool) (aff : Bool) (now : Time) (items : List NodeItem) :
    restartView ((ersRun d rs pods labelled released aff now items).statusUpdate.getD rs.status).conds =
      if ersRole d rs.name = "canary" then
        match canaryFail (ersParams released d rs items pods now) now with
        | none => restartView rs.status.conds
        | some (fs, _) =>
          if fs.newRestartTime ≠ zeroTime ∧ fs.newRestartTime > lastRestartTime rs then
            recordView fs.newRestartTime (restartView rs.status.conds)
          else restartView rs.status.conds
      else restartView rs.status.conds := by
  have hfin : ∀ (r : StratResult) adds removes se st0,
      restartView ((ersFinish rs (ersRole d rs.name) (ersFreq d) (ersParams released d rs items pods now) r adds
        removes se st0 aff now).statusUpdate.getD rs.status).conds = restartView st0.conds := by
    intro r adds removes se st0
    unfold restartView
    congr 1
    exact ersFinish_findCond _ _ _ _ _ _ _ _ _ _ _ _ (by decide) (by decide) (by decide) (by decide)
      (by decide) (by decide)
  unfold ersRun
  rcases ersRole_cases d rs.name with hr | hr | hr
  · -- active
    have hnc : ¬ ersRole d rs.name = "canary" := by rw [hr]; decide
    rw [if_neg hnc]
    cases hstr : ersStrategy rs labelled (ersRole d rs.name) (ersParams released d rs items pods now) now with
    | none => rfl
    | some v =>
      obtain ⟨r, adds, removes, se⟩ := v
      simp only []
      cases hns : r.newStatus with
      | none => rfl
      | some st0 =>
        simp only []
        rw [hfin, ← restartView_ersParams released d rs items pods now]
        rw [hr] at hstr
        rcases ersStrategy_active hstr hns with ⟨hok, _⟩ | ⟨_, hre, _⟩
        · unfold restartView
          congr 1
          exact manageDeployment_findCond _ _ _ _ _ _ hok hns _ (by decide) (by decide) (by decide) (by decide)
        · rw [hre] at hns
          simp only [ersErrResult, Option.some.injEq] at hns
          rw [← hns]
          unfold restartView
          congr 1
          exact rollingConds_findCond _ _ _ (by decide) (by decide) (by decide)
  · -- canary
    rw [if_pos hr]
    cases hstr : ersStrategy rs labelled (ersRole d rs.name) (ersParams released d rs items pods now) now with
    | none =>
      have hm : manageCanaryStatus (ersParams released d rs items pods now) now = none := by
        rw [hr] at hstr
        unfold ersStrategy at hstr
        have h1 : (("canary" : String) == "active") = false := by decide
        simp only [h1, Bool.false_eq_true, if_false, beq_self_eq_true, if_true] at hstr
        split at hstr
        · cases hstr
        · assumption
      rw [manageCanaryStatus_none _ _ hm]
      rfl
    | some v =>
      obtain ⟨r, adds, removes, se⟩ := v
      simp only []
      rw [hr] at hstr
      obtain ⟨r0, hm, hr0, _⟩ := ersStrategy_canary hstr
      obtain ⟨fs, st', hcf, _, st0, hst0, hconds⟩ := manageCanaryStatus_some _ _ _ hm
      have hns : r.newStatus = some st0 := by rw [hr0]; exact hst0
      rw [hns, hcf]
      simp only []
      rw [hfin]
      have hv : restartView st0.conds = restartView st'.conds := by rw [hconds]
      rw [hv]
      -- the conditions written by manageCanaryPodFailures
      have hfc : st'.conds = finalConds (ersParams released d rs items pods now).newStatus
          { (ersParams released d rs items pods now).newStatus with status := "canary" } now fs := by
        unfold canaryFail at hcf
        cases hd : canaryDerefs (ersParams released d rs items pods now).strategy.canary with
        | none => unfold manageCanaryPodFailures at hcf; rw [hd] at hcf; exact absurd hcf (by simp)
        | some v =>
          obtain ⟨ape, apm, slow, afe, afm, mrd, cto⟩ := v
          exact (mcpf_some _ _ _ _ _ _ _ _ _ _ _ ape apm slow afe afm mrd cto hd hcf).2.2
      rw [hfc, finalConds_restartView]
      have e1 : restartView ({ (ersParams released d rs items pods now).newStatus with status := "canary" } : ERSStatus).conds
          = restartView rs.status.conds := restartView_ersParams released d rs items pods now
      rw [e1, lastRestartTime_eq]
  · -- unknown
    have hnc : ¬ ersRole d rs.name = "canary" := by rw [hr]; decide
    rw [if_neg hnc]
    cases hstr : ersStrategy rs labelled (ersRole d rs.name) (ersParams released d rs items pods now) now with
    | none => rfl
    | some v =>
      obtain ⟨r, adds, removes, se⟩ := v
      simp only []
      cases hns : r.newStatus with
      | none => rfl
      | some st0 =>
        simp only []
        rw [hfin, ← restartView_ersParams released d rs items pods now]
        rw [hr] at hstr
        obtain ⟨hre, _⟩ := ersStrategy_unknown (by decide) (by decide) hstr
        rw [hre] at hns
        rw [manageUnknown_conds _ _ _ hns]

/-- **One sync and the stored PodRestarting condition.**  Whatever the sync is (any role, gated or
not, failing or not): the condition is left exactly as it was unless the sync records a time `t`, in
which case it is updated with `t` as described by `recordView`. -/
theorem restartView_step (rs : ERS) (s : Sync) :
    restartView (stepErs rs s).status.conds =
      match recorded rs s with
      | none => restartView rs.status.conds
      | some t => recordView t (restartView rs.status.conds) := by
  cases ho : ersOwner rs s.st with
  | none =>
    have h1 : (stepErs rs s).status = rs.status := by
      show (s.run rs).statusUpdate.getD rs.status = rs.status
      unfold Sync.run
      rw [reconcileErs_no_owner _ _ _ _ _ ho]; rfl
    have h2 : recorded rs s = none := by unfold recorded canaryFailOf; rw [ho]
    rw [h1, h2]
  | some d =>
    have hst : (stepErs rs s).status = (ersBody d rs s.st s.released s.aff s.now).statusUpdate.getD rs.status := by
      show (s.run rs).statusUpdate.getD rs.status = _
      unfold Sync.run
      rw [reconcileErs_eq rs s.st s.released s.aff s.now d ho]
    rw [hst]
    unfold recorded canaryFailOf ersBody
    rw [ho]
    simp only []
    cases hd : isDefaulted d.strategy d.templateName with
    | false =>
      simp only [Bool.not_false, if_true]
      unfold restartView
      congr 1
      exact ersNotDefaulted_findCond rs s.now _ (by decide)
    | true =>
      simp only [Bool.not_true, Bool.false_eq_true, if_false]
      cases hg : ersGated d rs s.now with
      | true => simp only [if_true]; rfl
      | false =>
        simp only [Bool.false_eq_true, if_false]
        cases hi : ersNodeItems d rs s.st with
        | none => rfl
        | some items =>
          simp only []
          rw [ersRun_restartView]
          by_cases hr : ersRole d rs.name = "canary"
          · have hr' : (ersRole d rs.name == "canary") = true := by simpa using hr
            rw [if_pos hr, if_pos hr']
            cases hcf : canaryFail (ersParams s.released d rs items (ersPods d s.st) s.now) s.now with
            | none => rfl
            | some v =>
              obtain ⟨fs, st'⟩ := v
              simp only [Option.map_some]
              split <;> rfl
          · have hr' : ¬ (ersRole d rs.name == "canary") = true := by simpa using hr
            rw [if_neg hr, if_neg hr']

end Eds
