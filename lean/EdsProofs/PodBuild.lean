import EdsModel
import EdsSpec.C10
/-
  EdsProofs.PodBuild — helper lemmas for C10 (pod construction and the up-to-date comparison):
  association-list maps (`SMap`), the affinity rewriting (`pinTerm` / `pinAffinity`), the resource
  resolution (`applySettingContainers` / `applyOverrides`) and `overlayIsNoop`.
-/
namespace Eds

/-! ### `SMap` -/

theorem SMap.get?_nil (k : String) : SMap.get? [] k = none := rfl

theorem SMap.get?_cons (e : KV) (m : SMap) (k : String) :
    SMap.get? (e :: m) k = if e.k = k then some e.v else SMap.get? m k := by
  unfold SMap.get?
  by_cases h : e.k = k
  · simp [h]
  · have hb : (e.k == k) = false := by simp [h]
    simp only [List.find?_cons, hb, if_neg h]

theorem SMap.get?_map_upd (m : SMap) (k v k' : String) :
    SMap.get? (m.map (fun e => if e.k == k then { e with v := v } else e)) k' =
      if k' = k then (SMap.get? m k).map (fun _ => v) else SMap.get? m k' := by
  induction m with
  | nil => simp [SMap.get?_nil]
  | cons a m ih =>
    simp only [List.map_cons, SMap.get?_cons, ih]
    by_cases hk : k' = k
    · subst hk
      by_cases ha : a.k = k' <;> simp [ha]
    · by_cases ha : a.k = k
      · have : ¬ a.k = k' := fun h => hk (h ▸ ha)
        simp [ha, hk, Ne.symm hk]
      · simp [ha, hk]

theorem SMap.get?_append_single (m : SMap) (k v k' : String) :
    SMap.get? (m ++ [{ k := k, v := v }]) k' =
      (SMap.get? m k').or (if k = k' then some v else none) := by
  induction m with
  | nil => simp [SMap.get?_cons, SMap.get?_nil]
  | cons a m ih =>
    simp only [List.cons_append, SMap.get?_cons, ih]
    by_cases ha : a.k = k' <;> simp [ha]

/-- reading back the key just written -/
theorem SMap.get?_set_self (m : SMap) (k v : String) : SMap.get? (SMap.set m k v) k = some v := by
  unfold SMap.set SMap.contains
  split
  · next h =>
    rw [SMap.get?_map_upd]
    cases hg : SMap.get? m k with
    | none => simp [hg] at h
    | some x => simp
  · next h =>
    rw [SMap.get?_append_single]
    cases hg : SMap.get? m k with
    | none => simp
    | some x => simp [hg] at h

/-- writing a key leaves every other key alone -/
theorem SMap.get?_set_other (m : SMap) (k v k' : String) (h : k' ≠ k) :
    SMap.get? (SMap.set m k v) k' = SMap.get? m k' := by
  unfold SMap.set
  split
  · rw [SMap.get?_map_upd]; simp [h]
  · rw [SMap.get?_append_single]; simp [Ne.symm h]

/-- an entry of a map with distinct keys is what `get?` returns for its key -/
theorem SMap.get?_of_mem_nodup {m : SMap} (hm : (m.map (·.k)).Nodup) {e : KV} (he : e ∈ m) :
    SMap.get? m e.k = some e.v := by
  induction m with
  | nil => cases he
  | cons a m ih =>
    rw [List.map_cons, List.nodup_cons] at hm
    rw [SMap.get?_cons]
    rcases List.mem_cons.1 he with rfl | he'
    · simp
    · have : a.k ≠ e.k := fun h => hm.1 (h ▸ List.mem_map.2 ⟨e, he', rfl⟩)
      simp [this, ih hm.2 he']

/-- overlaying a map with distinct keys on itself changes nothing -/
theorem overlayIsNoop_self {m : SMap} (hm : (m.map (·.k)).Nodup) : overlayIsNoop m m = true := by
  unfold overlayIsNoop
  rw [List.all_eq_true]
  intro e he
  simp [SMap.get?_of_mem_nodup hm he]


/-! ### affinity pinning -/

/-- what `Spec.C10.pinned` asks of one required term: the node-name requirement is present and it is
the only `metadata.name` match field. -/
def termPinned (nm : String) (t : Term) : Bool :=
  t.fields.contains (nameReq nm) &&
    (t.fields.filter (fun f => f.key == "metadata.name")).all (· == nameReq nm)

theorem nameReq_key (nm : String) : (nameReq nm).key = "metadata.name" := rfl

theorem pinTerm_pinned (nm : String) (t : Term) : termPinned nm (pinTerm nm t) = true := by
  unfold pinTerm termPinned
  split
  · simp [nameReq_key]
  · split
    · next hany =>
      rw [List.any_eq_true] at hany
      obtain ⟨f, hf, hfk⟩ := hany
      rw [Bool.and_eq_true]
      refine ⟨?_, ?_⟩
      · rw [List.contains_iff_mem]
        exact List.mem_map.2 ⟨f, hf, by simp [hfk]⟩
      · rw [List.all_eq_true]
        intro g hg
        rw [List.mem_filter] at hg
        obtain ⟨hg, hgk⟩ := hg
        obtain ⟨f', _, rfl⟩ := List.mem_map.1 hg
        by_cases h : (f'.key == "metadata.name") = true
        · simp [h]
        · simp [h] at hgk
    · next hany =>
      rw [Bool.and_eq_true]
      refine ⟨by simp, ?_⟩
      rw [List.all_eq_true]
      intro g hg
      rw [List.mem_filter, List.mem_append] at hg
      obtain ⟨hg | hg, hgk⟩ := hg
      · exact absurd (List.any_eq_true.2 ⟨g, hg, hgk⟩) hany
      · simp at hg; simp [hg]

theorem pinTerm_exprs (nm : String) (t : Term) : (pinTerm nm t).exprs = t.exprs := by
  unfold pinTerm
  split
  · rfl
  · split <;> rfl

theorem filter_other_map_replace (nm : String) (l : List Req) :
    (l.map (fun f => if f.key == "metadata.name" then nameReq nm else f)).filter
        (fun f => f.key != "metadata.name") = l.filter (fun f => f.key != "metadata.name") := by
  induction l with
  | nil => rfl
  | cons a l ih =>
    rw [List.map_cons, List.filter_cons, List.filter_cons, ih]
    by_cases h : a.key = "metadata.name" <;> simp [h, nameReq_key]

/-- the match fields other than `metadata.name` are untouched -/
theorem pinTerm_other_fields (nm : String) (t : Term) :
    (pinTerm nm t).fields.filter (fun f => f.key != "metadata.name") =
      t.fields.filter (fun f => f.key != "metadata.name") := by
  unfold pinTerm
  split
  · next h => simp [List.isEmpty_iff.1 h, nameReq_key]
  · split
    · exact filter_other_map_replace nm t.fields
    · simp [List.filter_append, nameReq_key]

theorem nodeNameFromTerms_of_pinned {nm : String} {t : Term} (rest : List Term)
    (h : termPinned nm t = true) : nodeNameFromTerms (t :: rest) = nm := by
  unfold termPinned at h
  rw [Bool.and_eq_true, List.contains_iff_mem, List.all_eq_true] at h
  obtain ⟨hmem, hall⟩ := h
  unfold nodeNameFromTerms
  cases hf : t.fields.find? (fun f => f.key == "metadata.name" && !f.values.isEmpty) with
  | none =>
    rw [List.find?_eq_none] at hf
    exact absurd (hf _ hmem) (by simp [nameReq])
  | some f =>
    have hfm := List.mem_of_find?_eq_some hf
    have hfp := List.find?_some hf
    rw [Bool.and_eq_true] at hfp
    have := hall f (List.mem_filter.2 ⟨hfm, hfp.1⟩)
    have hfe : f = nameReq nm := by simpa using this
    subst hfe
    rfl

/-- a pod that satisfies the affinity-mode `pinned` predicate reads back as bound to that node -/
theorem nodeNameFromAffinity_of_pinned {p : Pod} {nm : String}
    (h : Spec.C10.pinned p nm true = true) : nodeNameFromAffinity p.affRequired = nm := by
  unfold Spec.C10.pinned at h
  simp only [if_true, Bool.and_eq_true] at h
  obtain ⟨_, h⟩ := h
  cases ha : p.affRequired with
  | none => simp [ha] at h
  | some terms =>
    rw [ha] at h
    cases terms with
    | nil => simp at h
    | cons t rest =>
      simp only [Bool.and_eq_true, List.all_cons] at h
      exact nodeNameFromTerms_of_pinned rest (by unfold termPinned; exact Bool.and_eq_true _ _ ▸ h.2.1)

theorem pinAffinity_ne_nil (req : Option (List Term)) (nm : String) (h : req ≠ some []) :
    pinAffinity req nm ≠ [] := by
  unfold pinAffinity
  cases req with
  | none => simp
  | some terms =>
    cases terms with
    | nil => exact absurd rfl h
    | cons t rest => simp

theorem pinAffinity_all_pinned (req : Option (List Term)) (nm : String) :
    (pinAffinity req nm).all (termPinned nm) = true := by
  unfold pinAffinity
  cases req with
  | none => simp [termPinned, nameReq_key]
  | some terms =>
    rw [List.all_map, List.all_eq_true]
    intro t _
    exact pinTerm_pinned nm t

/-! ### resource resolution -/

/-- resources a container gets from the setting: those of the LAST setting container of that name -/
def resolveSetting (extra : List Container) (c : Container) : Container :=
  match (extra.filter (fun x => x.name == c.name)).getLast? with
  | some x => { c with res := x.res }
  | none => c

/-- resources a container gets from the node's override annotations -/
def resolveOverride (ovs : List Override) (c : Container) : Container :=
  match ovs.find? (fun o => o.container == c.name) with
  | some o => if o.ok then { c with res := o.res } else c
  | none => c

theorem resolveSetting_name (extra : List Container) (c : Container) :
    (resolveSetting extra c).name = c.name := by
  unfold resolveSetting; split <;> rfl

theorem resolveOverride_name (ovs : List Override) (c : Container) :
    (resolveOverride ovs c).name = c.name := by
  unfold resolveOverride; split
  · split <;> rfl
  · rfl

theorem applyOverrides_eq_map (cs : List Container) (ovs : List Override) :
    applyOverrides cs ovs = cs.map (resolveOverride ovs) := rfl

theorem applySetting_go_nil (e : Container) : applySettingContainers.go e [] = [] := rfl

theorem applySetting_go_cons (e c : Container) (rest : List Container) :
    applySettingContainers.go e (c :: rest) =
      if c.name == e.name then { c with res := e.res } :: rest
      else c :: applySettingContainers.go e rest := rfl

theorem applySetting_go_names (e : Container) (cs : List Container) :
    (applySettingContainers.go e cs).map (·.name) = cs.map (·.name) := by
  induction cs with
  | nil => rfl
  | cons c rest ih =>
    rw [applySetting_go_cons]
    split
    · rfl
    · simp only [List.map_cons, ih]

/-- with distinct container names, one step of `overwriteResourcesFromEdsNode` is a pointwise map -/
theorem applySetting_go_eq_map (e : Container) (cs : List Container) (h : (cs.map (·.name)).Nodup) :
    applySettingContainers.go e cs =
      cs.map (fun c => if c.name == e.name then { c with res := e.res } else c) := by
  induction cs with
  | nil => rfl
  | cons c rest ih =>
    rw [List.map_cons, List.nodup_cons] at h
    rw [applySetting_go_cons, List.map_cons]
    by_cases hc : (c.name == e.name) = true
    · simp only [hc, if_true]
      congr 1
      have : ∀ x ∈ rest, (if x.name == e.name then { x with res := e.res } else x) = x := by
        intro x hx
        have hne : ¬ x.name = e.name := by
          intro hxe
          apply h.1
          have : c.name = x.name := by rw [hxe]; simpa using hc
          rw [this]
          exact List.mem_map.2 ⟨x, hx, rfl⟩
        simp [hne]
      rw [List.map_congr_left this, List.map_id']
    · simp only [hc, ih h.2]
      rfl

theorem applySetting_cons (cs : List Container) (e : Container) (rest : List Container) :
    applySettingContainers cs (e :: rest) =
      applySettingContainers (applySettingContainers.go e cs) rest := rfl

/-- **`overwriteResourcesFromEdsNode`, closed form**: with distinct template container names every
container gets the resources of the last setting container carrying its name (or keeps its own). -/
theorem applySettingContainers_eq_map (cs extra : List Container) (h : (cs.map (·.name)).Nodup) :
    applySettingContainers cs extra = cs.map (resolveSetting extra) := by
  induction extra generalizing cs with
  | nil =>
    show cs = _
    have : ∀ c ∈ cs, resolveSetting [] c = c := fun _ _ => rfl
    rw [List.map_congr_left this, List.map_id']
  | cons e rest ih =>
    rw [applySetting_cons, ih _ (by rw [applySetting_go_names]; exact h),
      applySetting_go_eq_map e cs h, List.map_map]
    apply List.map_congr_left
    intro c _
    simp only [Function.comp]
    unfold resolveSetting
    by_cases hc : c.name = e.name
    · have he : (e.name == c.name) = true := by simp [hc]
      simp only [hc, beq_self_eq_true, if_true, List.filter_cons, List.getLast?_cons]
      rw [← hc]
      cases (rest.filter (fun x => x.name == c.name)).getLast? <;> simp [hc]
    · have he : (e.name == c.name) = false := by simp [Ne.symm hc]
      have hc' : (c.name == e.name) = false := by simp [hc]
      simp [hc', he]

/-- names are never touched (no hypothesis needed) -/
theorem applySettingContainers_names (cs extra : List Container) :
    (applySettingContainers cs extra).map (·.name) = cs.map (·.name) := by
  induction extra generalizing cs with
  | nil => rfl
  | cons e rest ih => rw [applySetting_cons, ih, applySetting_go_names]

theorem filter_eq_singleton_of_find? {l : List Container} {nm : String} {x : Container}
    (h : (l.map (·.name)).Nodup) (hf : l.find? (fun c => c.name == nm) = some x) :
    l.filter (fun c => c.name == nm) = [x] := by
  induction l with
  | nil => cases hf
  | cons a l ih =>
    rw [List.map_cons, List.nodup_cons] at h
    rw [List.find?_cons] at hf
    rw [List.filter_cons]
    by_cases ha : (a.name == nm) = true
    · simp only [ha] at hf
      have hax : a = x := Option.some.inj hf
      rw [← hax]
      simp only [ha, if_true]
      congr 1
      rw [List.filter_eq_nil_iff]
      intro c hc hcn
      apply h.1
      have : a.name = c.name := by
        have h1 : a.name = nm := by simpa using ha
        have h2 : c.name = nm := by simpa using hcn
        rw [h1, h2]
      rw [this]; exact List.mem_map.2 ⟨c, hc, rfl⟩
    · have ha' : (a.name == nm) = false := by simpa using ha
      simp only [ha'] at hf
      simp only [ha']
      exact ih h.2 hf

/-- the setting part of the up-to-date check accepts the containers creation produces -/
theorem settingCheck_created (tcs : List Container) (s : Setting) (ovs : List Override)
    (ht : (tcs.map (·.name)).Nodup) (hs : (s.containers.map (·.name)).Nodup)
    (hk : ∀ x ∈ s.containers, (x.res.limits.map (·.k)).Nodup ∧ (x.res.requests.map (·.k)).Nodup) :
    (applyOverrides (applySettingContainers tcs s.containers) ovs).all (fun c =>
      if ovs.any (fun o => o.container == c.name && o.ok) then true else
      match s.containers.find? (fun c2 => c2.name == c.name) with
      | some c2 => overlayIsNoop c.res.limits c2.res.limits && overlayIsNoop c.res.requests c2.res.requests
      | none => true) = true := by
  rw [applySettingContainers_eq_map tcs _ ht, applyOverrides_eq_map, List.all_map, List.all_eq_true]
  intro c1 hc1
  obtain ⟨c, _, rfl⟩ := List.mem_map.1 hc1
  simp only [Function.comp, resolveOverride_name, resolveSetting_name]
  split
  · rfl
  · next hany =>
    have hro : resolveOverride ovs (resolveSetting s.containers c) = resolveSetting s.containers c := by
      unfold resolveOverride
      rw [resolveSetting_name]
      cases hfo : ovs.find? (fun o => o.container == c.name) with
      | none => rfl
      | some o =>
        have hom := List.mem_of_find?_eq_some hfo
        have hop := List.find?_some hfo
        have : o.ok = false := by
          cases hok : o.ok with
          | false => rfl
          | true => exact absurd (List.any_eq_true.2 ⟨o, hom, by simp [hop, hok]⟩) hany
        simp [this]
    rw [hro]
    cases hfs : s.containers.find? (fun c2 => c2.name == c.name) with
    | none => rfl
    | some x =>
      have hx := List.mem_of_find?_eq_some hfs
      have : (resolveSetting s.containers c).res = x.res := by
        unfold resolveSetting
        rw [filter_eq_singleton_of_find? hs hfs]
        rfl
      simp only [this, overlayIsNoop_self (hk x hx).1, overlayIsNoop_self (hk x hx).2, Bool.and_self]

/-- resolved resources of one container = the specification's `expectedRes` -/
theorem resolved_res_eq_expected (c : Container) (n : Node) (setting : Option Setting) :
    (resolveOverride n.overrides
        (match setting with
         | some s => resolveSetting s.containers c
         | none => c)).res = Spec.C10.expectedRes c n setting := by
  have hn : (match setting with
             | some s => resolveSetting s.containers c
             | none => c).name = c.name := by
    cases setting <;> simp [resolveSetting_name]
  have hs : (match setting with
             | some s => resolveSetting s.containers c
             | none => c).res =
            (match setting.bind (fun s => (s.containers.filter (fun x => x.name == c.name)).getLast?) with
             | some x => x.res
             | none => c.res) := by
    cases setting with
    | none => rfl
    | some s =>
      simp only [Option.bind_some, resolveSetting]
      split <;> rfl
  unfold resolveOverride Spec.C10.expectedRes
  rw [hn]
  cases n.overrides.find? (fun o => o.container == c.name) with
  | none => exact hs
  | some o =>
    by_cases hok : o.ok = true
    · simp only [hok, if_true]
    · simp only [hok]
      exact hs

theorem all_zip_map_self {α β : Type} (g : α → β) (q : β × α → Bool) (l : List α) :
    ((l.map g).zip l).all q = l.all (fun c => q (g c, c)) := by
  induction l with
  | nil => rfl
  | cons a l ih => simp only [List.map_cons, List.zip_cons_cons, List.all_cons, ih]

/-! ### key constants are pairwise distinct where it matters -/

theorem K.ers_ne_eds : K.ersNameLabel ≠ K.edsNameLabel := by decide
theorem K.ers_ne_settingName : K.ersNameLabel ≠ K.settingNameLabel := by decide
theorem K.ers_ne_settingNs : K.ersNameLabel ≠ K.settingNsLabel := by decide
theorem K.eds_ne_settingName : K.edsNameLabel ≠ K.settingNameLabel := by decide
theorem K.eds_ne_settingNs : K.edsNameLabel ≠ K.settingNsLabel := by decide
theorem K.hash_ne_autoscaler : K.templateHashAnnot ≠ K.autoscalerAnnot := by decide
theorem K.hash_ne_nodeHash : K.templateHashAnnot ≠ K.nodeHashAnnot := by decide
theorem K.nodeHash_ne_autoscaler : K.nodeHashAnnot ≠ K.autoscalerAnnot := by decide
theorem K.nodeHash_ne_hash : K.nodeHashAnnot ≠ K.templateHashAnnot := by decide

end Eds
