import EdsModel.Generated.DecDefaults
import EdsModel.Defaults
/-
  EdsProofs.BridgeDefaults — the hand-written model functions the property theorems are stated about are
  *equal* to the Lean definitions the translator (tools/extract/gotolean.go) regenerates from the Go
  source on every run (EdsModel/Generated/DecDefaults.lean).  A change to one of these Go functions
  changes the generated definition and breaks the corresponding `src_*` theorem.

  `none` on the generated side is a Go panic; every theorem therefore also says that the function
  does not panic on the stated arguments (non-nil where the callers pass non-nil).
-/
set_option linter.unusedSimpArgs false
namespace Eds.Bridge
open Eds

/-! ### defaulting recognisers -/

theorem src_isDefaultedRolling (r : RollingUpdate) :
    Generated.Decisions.isDefaultedRollingUpdate (some r) = some (isDefaultedRolling r) := by
  unfold Generated.Decisions.isDefaultedRollingUpdate isDefaultedRolling
  simp only [Option.bind_some]
  cases r.maxUnavailable <;> cases r.maxParallelPodCreation <;> cases r.maxPodSchedulerFailure <;>
    cases r.slowStartInterval <;> cases r.slowStartAdditiveIncrease <;> simp

theorem src_isDefaultedCanary (c : Canary) :
    Generated.Decisions.isDefaultedCanary (some c) = some (Eds.isDefaultedCanary c) := by
  unfold Generated.Decisions.isDefaultedCanary Eds.isDefaultedCanary isDefaultedAutoPause isDefaultedAutoFail
  simp only [Option.bind_some]
  cases c.replicas <;> cases c.duration <;> cases c.nodeSelector <;>
    rcases c.autoPause with _ | ⟨e1, m1, s1⟩ <;> rcases c.autoFail with _ | ⟨e2, m2, d2, t2⟩ <;>
    simp <;> (try cases e1) <;> (try cases m1) <;> (try cases e2) <;> (try cases m2) <;> simp <;> grind

theorem src_isDefaulted (s : Strategy) (tn : String) (ann : SMap) :
    Generated.Decisions.isDefaultedExtendedDaemonSet (some { spec := { strategy := s, template := { name := tn } }, annotations := ann }) =
      some (isDefaulted s tn) := by
  unfold Generated.Decisions.isDefaultedExtendedDaemonSet isDefaulted
  simp only [Option.bind_some, src_isDefaultedRolling]
  cases isDefaultedRolling s.rollingUpdate <;> simp
  cases hc : s.canary with
  | none => cases s.reconcileFrequency <;> simp <;> split <;> simp_all
  | some c =>
    simp only [Option.isSome_some, if_true, src_isDefaultedCanary, Option.bind_some]
    cases Eds.isDefaultedCanary c <;> cases s.reconcileFrequency <;> simp <;> split <;> simp_all

/-! ### defaulting -/

theorem src_defaultAutoPause (a : AutoPause) :
    Generated.Decisions.defaultAutoPause (some a) = some (some (Eds.defaultAutoPause (some a))) := by
  unfold Generated.Decisions.defaultAutoPause Eds.defaultAutoPause
  rcases a with ⟨e, m, s⟩
  cases e <;> cases m <;> simp [Dflt.autoPauseEnabled, Dflt.autoPauseMaxRestarts]

theorem src_defaultAutoFail (a : AutoFail) :
    Generated.Decisions.defaultAutoFail (some a) = some (some (Eds.defaultAutoFail (some a))) := by
  unfold Generated.Decisions.defaultAutoFail Eds.defaultAutoFail
  rcases a with ⟨e, m, d, t⟩
  cases e <;> cases m <;> simp [Dflt.autoFailEnabled, Dflt.autoFailMaxRestarts]

theorem src_defaultRolling (r : RollingUpdate) :
    Generated.Decisions.defaultRollingUpdate (some r) = some (some (Eds.defaultRolling r)) := by
  unfold Generated.Decisions.defaultRollingUpdate Eds.defaultRolling
  rcases r with ⟨a, b, c, d, e⟩
  cases c <;> cases d <;>
    simp [Dflt.maxUnavailable, Dflt.maxParallelPodCreation, Dflt.maxPodSchedulerFailure, Dflt.slowStartInterval,
      Dflt.slowStartAdditiveIncrease]

theorem defaultAutoPause_none :
    Eds.defaultAutoPause none = Eds.defaultAutoPause (some { enabled := none, maxRestarts := none, maxSlowStartDuration := none }) := rfl

theorem defaultAutoFail_none :
    Eds.defaultAutoFail none = Eds.defaultAutoFail (some { enabled := none, maxRestarts := none, maxRestartsDuration := none, canaryTimeout := none }) := rfl

theorem canary_ext {a b : Canary} (h1 : a.replicas = b.replicas) (h2 : a.duration = b.duration)
    (h3 : a.nodeSelector = b.nodeSelector) (h4 : a.antiAffinityKeys = b.antiAffinityKeys)
    (h5 : a.autoPause = b.autoPause) (h6 : a.autoFail = b.autoFail)
    (h7 : a.noRestartsDuration = b.noRestartsDuration) (h8 : a.validationMode = b.validationMode) : a = b := by
  cases a; cases b; simp_all

theorem src_defaultCanary (c : Canary) (mode : String) :
    Generated.Decisions.defaultCanary (some c) mode = some (some (Eds.defaultCanary c mode)) := by
  unfold Generated.Decisions.defaultCanary Eds.defaultCanary
  rcases c with ⟨rep, dur, sel, keys, ap, af, nr, vm⟩
  cases ap <;> cases af <;>
    simp only [Option.bind_some, Option.isNone_some, Option.isNone_none, if_true, if_false, Bool.false_eq_true,
      apply_ite Canary.autoPause, apply_ite Canary.autoFail, ite_self, reduceIte,
      src_defaultAutoPause, src_defaultAutoFail, defaultAutoPause_none, defaultAutoFail_none] <;>
    refine congrArg some (congrArg some ?_) <;>
    apply canary_ext <;>
    simp only [apply_ite Canary.replicas, apply_ite Canary.duration, apply_ite Canary.nodeSelector,
      apply_ite Canary.antiAffinityKeys, apply_ite Canary.autoPause, apply_ite Canary.autoFail,
      apply_ite Canary.noRestartsDuration, apply_ite Canary.validationMode, ite_self] <;>
    (first | rfl | (cases rep <;> cases dur <;> cases sel <;> cases nr <;> simp [Dflt.canaryDuration, Dflt.canaryReplica, Dflt.canaryNoRestartsDuration] <;> grind))

theorem src_defaultSpec (st : Strategy) (tn : String) (mode : String) :
    Generated.Decisions.defaultSpec (some { strategy := st, template := { name := tn } }) mode =
      some (some { strategy := (Eds.defaultSpec st mode).1, template := { name := (Eds.defaultSpec st mode).2 } }) := by
  unfold Generated.Decisions.defaultSpec Eds.defaultSpec
  rcases st with ⟨ru, ca, rf⟩
  cases ca <;> cases rf <;>
    simp [src_defaultRolling, src_defaultCanary, Dflt.reconcileFrequency]

theorem src_defaultEds (st : Strategy) (tn : String) (ann : SMap) (mode : String) :
    Generated.Decisions.defaultExtendedDaemonSet (some { spec := { strategy := st, template := { name := tn } }, annotations := ann }) mode =
      some (some { spec := { strategy := (Eds.defaultSpec st mode).1, template := { name := (Eds.defaultSpec st mode).2 } },
                   annotations := ann }) := by
  unfold Generated.Decisions.defaultExtendedDaemonSet
  simp [src_defaultSpec]

/-! ### validation -/

/-- how the model's `ValidateResult` reads on the Go side: `none` = panic, `some none` = nil error. -/
def validateOut : ValidateResult → Option (Option String)
  | .ok => some none
  | .errAutoFailRestarts => some (some "ErrInvalidAutoFailRestarts")
  | .errCanaryTimeout => some (some "ErrInvalidCanaryTimeout")
  | .errDurationManual => some (some "ErrDurationWithManualValidationMode")
  | .errNoRestartsManual => some (some "ErrNoRestartsDurationWithManualValidationMode")
  | .panic => none

theorem src_validateSpec (st : Strategy) (t : GTemplate) :
    Generated.Decisions.validateSpec (some { strategy := st, template := t }) = validateOut (Eds.validateSpec st) := by
  unfold Generated.Decisions.validateSpec Eds.validateSpec validateClause1
  rcases st with ⟨ru, ca, rf⟩
  cases ca with
  | none => simp [validateOut]
  | some c =>
    rcases c with ⟨rep, dur, sel, keys, ap, af, nr, vm⟩
    rcases af with _ | ⟨afe, afm, afd, aft⟩
    · simp [validateOut, bind, Option.bind]
    · rcases afe with _ | afe
      · simp [validateOut, bind, Option.bind]
      · have tail : ∀ (d n : Option Dur),
            (if (vm == "manual") = true then
                if d.isSome = true then some (some "ErrDurationWithManualValidationMode")
                else if n.isSome = true then some (some "ErrNoRestartsDurationWithManualValidationMode")
                else (some none : Option (Option String))
              else some none) =
            validateOut (if (vm == "manual") = true then
                if d.isSome = true then .errDurationManual
                else if n.isSome = true then .errNoRestartsManual else .ok
              else .ok) := by
          intro d n
          by_cases hv : (vm == "manual") = true <;> cases d <;> cases n <;> simp [hv, validateOut]
        cases afe
        · -- autoFail disabled: neither comparison is evaluated
          simp only [Option.bind_some, Option.isSome_some, if_true, Bool.false_eq_true, if_false,
            Bool.false_and, bind, Option.pure_def, Bool.not_false, pure, Option.getD_some]
          simpa using tail dur nr
        · -- autoFail enabled
          rcases ap with _ | ⟨ape, apm, aps⟩
          · simp [validateOut, bind, Option.bind]
          · rcases ape with _ | ape
            · simp [validateOut, bind, Option.bind]
            · cases ape
              · -- autoPause disabled: first comparison not evaluated
                simp only [Option.bind_some, Option.isSome_some, if_true, Bool.false_eq_true, if_false,
                  bind, Option.pure_def, pure, Option.getD_some, Bool.true_and, Bool.not_true, Bool.not_false]
                cases aft <;> cases dur <;>
                  simp only [Option.isSome_some, Option.isSome_none, Option.bind_some, Bool.and_true, Bool.and_false,
                    Bool.false_eq_true, if_true, if_false, Bool.true_and]
                · simpa using tail none nr
                · next dv => simpa using tail (some dv) nr
                · simpa using tail none nr
                · next tv dv =>
                  by_cases hle : tv ≤ dv
                  · simp [hle, validateOut]
                  · simpa [hle] using tail (some dv) nr
              · -- both enabled
                cases afm <;> cases apm <;>
                  simp only [Option.bind_some, Option.bind_none, Option.isSome_some, if_true, Bool.false_eq_true, if_false,
                    bind, Option.pure_def, pure, Option.getD_some, Bool.true_and, Bool.not_true, Bool.not_false]
                · simp [validateOut]
                · simp [validateOut]
                · simp [validateOut]
                next a b =>
                by_cases hab : a < b
                · simp [hab, validateOut]
                · simp only [hab, decide_false, Bool.false_eq_true, if_false]
                  cases aft <;> cases dur <;>
                    simp only [Option.isSome_some, Option.isSome_none, Option.bind_some, Bool.and_true, Bool.and_false,
                      Bool.false_eq_true, if_true, if_false, Bool.true_and]
                  · simpa using tail none nr
                  · next dv => simpa using tail (some dv) nr
                  · simpa using tail none nr
                  · next tv dv =>
                    by_cases hle : tv ≤ dv
                    · simp [hle, validateOut]
                    · simpa [hle] using tail (some dv) nr


end Eds.Bridge
