import EdsModel
import EdsSpec.C16
/-
  Helper lemmas about `EdsModel.Defaults` (defaulting / validation), one per sub-structure
  (rolling update, auto-pause, auto-fail, canary); composed in `EdsProps/C16.lean`.
-/
namespace Eds
open Spec.C16

/-! ### rolling update -/

theorem defaultRolling_idem (r : RollingUpdate) : defaultRolling (defaultRolling r) = defaultRolling r := by
  simp [defaultRolling]

theorem defaultRolling_defaulted (r : RollingUpdate) : isDefaultedRolling (defaultRolling r) = true := by
  simp [defaultRolling, isDefaultedRolling]

theorem defaultRolling_preserves (r : RollingUpdate) : preservesRolling r (defaultRolling r) = true := by
  rcases r with ⟨a, b, c, d, e⟩
  cases a <;> cases b <;> cases c <;> cases d <;> cases e <;> simp [defaultRolling, preservesRolling]

theorem defaultRolling_noop (r : RollingUpdate) (h : isDefaultedRolling r = true) : defaultRolling r = r := by
  rcases r with ⟨a, b, c, d, e⟩
  cases a <;> cases b <;> cases c <;> cases d <;> cases e <;> simp_all [defaultRolling, isDefaultedRolling]

/-! ### auto-pause -/

theorem defaultAutoPause_idem (a : Option AutoPause) :
    defaultAutoPause (some (defaultAutoPause a)) = defaultAutoPause a := by
  simp [defaultAutoPause]

theorem defaultAutoPause_defaulted (a : Option AutoPause) :
    isDefaultedAutoPause (some (defaultAutoPause a)) = true := by
  simp [defaultAutoPause, isDefaultedAutoPause]

theorem defaultAutoPause_preserves (a : Option AutoPause) :
    preservesAutoPause a (some (defaultAutoPause a)) = true := by
  cases a with
  | none => simp [preservesAutoPause]
  | some x =>
    rcases x with ⟨e, m, d⟩
    cases e <;> cases m <;> simp [defaultAutoPause, preservesAutoPause]

theorem defaultAutoPause_noop (a : Option AutoPause) (h : isDefaultedAutoPause a = true) :
    some (defaultAutoPause a) = a := by
  cases a with
  | none => simp [isDefaultedAutoPause] at h
  | some x =>
    rcases x with ⟨e, m, d⟩
    cases e <;> cases m <;> simp_all [defaultAutoPause, isDefaultedAutoPause]

/-! ### auto-fail -/

theorem defaultAutoFail_idem (a : Option AutoFail) :
    defaultAutoFail (some (defaultAutoFail a)) = defaultAutoFail a := by
  simp [defaultAutoFail]

theorem defaultAutoFail_defaulted (a : Option AutoFail) :
    isDefaultedAutoFail (some (defaultAutoFail a)) = true := by
  simp [defaultAutoFail, isDefaultedAutoFail]

theorem defaultAutoFail_preserves (a : Option AutoFail) :
    preservesAutoFail a (some (defaultAutoFail a)) = true := by
  cases a with
  | none => simp [preservesAutoFail]
  | some x =>
    rcases x with ⟨e, m, d, t⟩
    cases e <;> cases m <;> simp [defaultAutoFail, preservesAutoFail]

theorem defaultAutoFail_noop (a : Option AutoFail) (h : isDefaultedAutoFail a = true) :
    some (defaultAutoFail a) = a := by
  cases a with
  | none => simp [isDefaultedAutoFail] at h
  | some x =>
    rcases x with ⟨e, m, d, t⟩
    cases e <;> cases m <;> simp_all [defaultAutoFail, isDefaultedAutoFail]

/-! ### canary -/

/-- the validation mode chosen by `defaultCanary`. -/
def defaultedMode (c : Canary) (m : String) : String :=
  if c.validationMode == "" then m else c.validationMode

theorem defaultCanary_mode (c : Canary) (m : String) :
    (defaultCanary c m).validationMode = defaultedMode c m := rfl

theorem defaultedMode_idem (c : Canary) (m : String) :
    defaultedMode (defaultCanary c m) m = defaultedMode c m := by
  simp only [defaultedMode, defaultCanary_mode]
  by_cases h : c.validationMode = "" <;> by_cases h' : m = "" <;> simp [h, h']

/-- the mode of a defaulted canary is empty only if both the user's mode and the default mode are. -/
theorem defaultedMode_ne_empty (c : Canary) (m : String) (h : c.validationMode ≠ "" ∨ m ≠ "") :
    defaultedMode c m ≠ "" := by
  unfold defaultedMode
  by_cases h1 : c.validationMode = ""
  · rcases h with h | h
    · exact absurd h1 h
    · simpa [h1] using h
  · simp [h1]

theorem defaultCanary_idem (c : Canary) (m : String) :
    defaultCanary (defaultCanary c m) m = defaultCanary c m := by
  have hm := defaultedMode_idem c m
  rcases c with ⟨rep, dur, ns, aak, ap, af, nrd, vm⟩
  simp only [defaultedMode, defaultCanary] at hm ⊢
  simp only [hm, defaultAutoPause_idem, defaultAutoFail_idem, Option.getD_some]
  generalize (if (vm == "") = true then m else vm) = mode
  congr 1
  · cases dur <;> by_cases h : mode = "auto" <;> simp [h]
  · cases nrd <;> by_cases h : mode = "auto" <;> simp [h]

/-- everything `isDefaultedCanary` asks for except the non-empty mode. -/
theorem defaultCanary_defaulted (c : Canary) (m : String) (h : c.validationMode ≠ "" ∨ m ≠ "") :
    isDefaultedCanary (defaultCanary c m) = true := by
  have hne := defaultedMode_ne_empty c m h
  rcases c with ⟨rep, dur, ns, aak, ap, af, nrd, vm⟩
  simp only [defaultedMode] at hne
  simp only [isDefaultedCanary, defaultCanary, defaultAutoPause_defaulted, defaultAutoFail_defaulted,
    Option.isSome_some, Bool.and_true, Bool.true_and, Bool.and_eq_true, bne_iff_ne, ne_eq]
  refine ⟨hne, ?_⟩
  generalize (if (vm == "") = true then m else vm) = mode
  cases dur <;> by_cases h' : mode = "auto" <;> simp [h']

theorem defaultCanary_preserves (c : Canary) (m : String) :
    preservesCanary (some c) (some (defaultCanary c m)) = true := by
  rcases c with ⟨rep, dur, ns, aak, ap, af, nrd, vm⟩
  simp only [preservesCanary, defaultCanary, defaultAutoPause_preserves, defaultAutoFail_preserves]
  cases rep <;> cases dur <;> cases ns <;> cases nrd <;> by_cases h : vm = "" <;> simp [h]

/-- the canary part of `Spec.C16.fills`. -/
theorem defaultCanary_fills (c : Canary) (m : String) :
    ((defaultCanary c m).replicas.isSome && (defaultCanary c m).nodeSelector.isSome &&
      isDefaultedAutoPause (defaultCanary c m).autoPause &&
      isDefaultedAutoFail (defaultCanary c m).autoFail &&
      ((defaultCanary c m).validationMode != "auto" || (defaultCanary c m).duration.isSome)) = true := by
  rcases c with ⟨rep, dur, ns, aak, ap, af, nrd, vm⟩
  simp only [defaultCanary, defaultAutoPause_defaulted, defaultAutoFail_defaulted,
    Option.isSome_some, Bool.and_true, Bool.true_and]
  generalize (if (vm == "") = true then m else vm) = mode
  cases dur <;> by_cases h' : mode = "auto" <;> simp [h']

/-- defaulting an already-defaulted canary changes nothing, provided an "auto" canary already has
its `noRestartsDuration` (which `isDefaultedCanary` does not check). -/
theorem defaultCanary_noop (c : Canary) (m : String) (h : isDefaultedCanary c = true)
    (hn : c.validationMode = "auto" → c.noRestartsDuration.isSome = true) :
    defaultCanary c m = c := by
  rcases c with ⟨rep, dur, ns, aak, ap, af, nrd, vm⟩
  simp only [isDefaultedCanary, Bool.and_eq_true, bne_iff_ne, ne_eq, Bool.not_eq_true',
    Bool.and_eq_false_iff] at h
  obtain ⟨⟨⟨⟨⟨hrep, hvm⟩, hdur⟩, hns⟩, hap⟩, haf⟩ := h
  simp only at hn
  simp only [defaultCanary, defaultAutoPause_noop ap hap, defaultAutoFail_noop af haf]
  have hvm' : (vm == "") = false := by simpa using hvm
  simp only [hvm', Bool.false_eq_true, if_false]
  cases rep <;> cases ns <;> simp at hrep hns
  by_cases ha : vm = "auto"
  · have := hn ha
    cases nrd <;> cases dur <;> simp_all
  · simp [ha]

/-! ### validation -/

/-- with every pointer of the first clause set, the clause evaluates without a nil dereference. -/
theorem validateClause1_eq (c : Canary) (af : AutoFail) (ap : AutoPause) (afe ape : Bool) (a b : Int)
    (haf : c.autoFail = some af) (hap : c.autoPause = some ap)
    (hafe : af.enabled = some afe) (hape : ap.enabled = some ape)
    (ha : af.maxRestarts = some a) (hb : ap.maxRestarts = some b) :
    validateClause1 c = some (afe && ape && decide (a < b)) := by
  unfold validateClause1
  simp only [haf, hap, hafe, hape, ha, hb, Option.bind_eq_bind, Option.bind_some, Option.pure_def]
  cases afe <;> cases ape <;> simp

end Eds
