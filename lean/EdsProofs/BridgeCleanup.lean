import EdsModel.Generated.DecCleanup
import EdsModel.EdsCtl
/-
  EdsProofs.BridgeCleanup — the hand-written model functions the property theorems are stated about are
  *equal* to the Lean definitions the translator (tools/extract/gotolean.go) regenerates from the Go
  source on every run (EdsModel/Generated/DecCleanup.lean).  A change to one of these Go functions
  changes the generated definition and breaks the corresponding `src_*` theorem.

  `none` on the generated side is a Go panic; every theorem therefore also says that the function
  does not panic on the stated arguments (non-nil where the callers pass non-nil).
-/
set_option linter.unusedSimpArgs false
namespace Eds.Bridge
open Eds

theorem isCondTrue_findCond' {cs : List Cond} {t : String} (h : isCondTrue cs t = true) :
    ∃ c, findCond cs t = some c ∧ c.status = "True" := by
  unfold isCondTrue at h
  split at h
  · next c hc => exact ⟨c, hc, by simpa using h⟩
  · simp at h

/-! ### shouldDeleteERS -/

theorem index_condIndex (cs : List Cond) (t : String) (c : Cond) (h : findCond cs t = some c) :
    Go.index cs (Go.condIndex cs t) = some c := by
  induction cs with
  | nil => simp [findCond] at h
  | cons x xs ih =>
    unfold findCond at h ih
    unfold Go.condIndex Go.index
    by_cases hx : (x.type == t) = true
    · simp [List.find?, hx] at h
      have hx' : x.type = t := by simpa using hx
      subst h
      simp [List.findIdx?_cons, hx']
    · simp only [List.find?, hx] at h
      have := ih h
      unfold Go.condIndex Go.index at this
      simp only [List.findIdx?_cons, hx]
      cases hi : List.findIdx? (fun c => c.type == t) xs with
      | none => simp [hi] at this
      | some i =>
        simp only [hi] at this
        simp only [Bool.false_eq_true, if_false, Option.map_some]
        have h0 : ¬ ((((i + 1 : Nat) : Int)) < 0) := by omega
        have h1 : ¬ (((i : Nat) : Int) < 0) := by omega
        simp only [h1, if_false] at this
        simp only [h0, if_false]
        simpa using this

theorem src_shouldDeleteERS (now : Time) (e : ERS) :
    Generated.Decisions.shouldDeleteERS now (some e) = some (Eds.shouldDeleteERS now e (2 * minute)) := by
  unfold Generated.Decisions.shouldDeleteERS Eds.shouldDeleteERS
  simp only [Option.isNone_some, Bool.false_eq_true, if_false, Option.bind_some]
  by_cases h : isCondTrue e.status.conds "Canary-Failed" = true
  · obtain ⟨c, hc, hs⟩ := isCondTrue_findCond' h
    simp only [h, if_true, index_condIndex _ _ _ hc, Option.bind_some, hc, hs]
    by_cases hb : now < c.lastTransition + minute * 2
    · have hb' : now < c.lastTransition + 2 * minute := by omega
      simp [hb, hb']
    · have hb' : ¬ now < c.lastTransition + 2 * minute := by omega
      simp [hb, hb']
  · simp only [h, Bool.false_eq_true, if_false]
    unfold isCondTrue at h
    cases hf : findCond e.status.conds "Canary-Failed" with
    | none => simp
    | some c =>
      simp only [hf] at h
      simp [h]


end Eds.Bridge
