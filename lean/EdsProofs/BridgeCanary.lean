import EdsModel.Generated.DecCanary
import EdsModel.EdsCtl
/-
  EdsProofs.BridgeCanary — the hand-written model functions the property theorems are stated about are
  *equal* to the Lean definitions the translator (tools/extract/gotolean.go) regenerates from the Go
  source on every run (EdsModel/Generated/DecCanary.lean).  A change to one of these Go functions
  changes the generated definition and breaks the corresponding `src_*` theorem.

  `none` on the generated side is a Go panic; every theorem therefore also says that the function
  does not panic on the stated arguments (non-nil where the callers pass non-nil).
-/
set_option linter.unusedSimpArgs false
namespace Eds.Bridge
open Eds

theorem src_isRollingUpdatePaused (ann : SMap) :
    Generated.Decisions.isRollingUpdatePaused ann = some (SMap.getD ann K.rollingUpdatePausedAnnot == "true") := rfl

theorem src_isRolloutFrozen (ann : SMap) :
    Generated.Decisions.isRolloutFrozen ann = some (SMap.getD ann K.rolloutFrozenAnnot == "true") := rfl

theorem src_nonCanaryState (ann : SMap) : Generated.Decisions.nonCanaryState ann = some (Eds.nonCanaryState ann) := by
  unfold Generated.Decisions.nonCanaryState Eds.nonCanaryState
  simp only [Generated.Decisions.isRolloutFrozen, Generated.Decisions.isRollingUpdatePaused, Option.bind,
    K.rolloutFrozenAnnot, K.rollingUpdatePausedAnnot]
  split
  · simp_all
  · split <;> simp_all

theorem optEqLemma (x : Option String) (s : String) :
    (if x.isSome = true then some (x.getD "" == s) else some false) = some (x == some s) := by
  cases x <;> simp

theorem src_isCanaryUnpaused (ann : SMap) :
    Generated.Decisions.isCanaryDeploymentUnpaused ann = some (isCanaryUnpaused ann) := by
  unfold Generated.Decisions.isCanaryDeploymentUnpaused isCanaryUnpaused
  simp only [SMap.contains, SMap.getD, K.canaryUnpausedAnnot]
  exact optEqLemma _ _

theorem src_isCanaryValid (ann : SMap) (n : String) :
    Generated.Decisions.isCanaryDeploymentValid ann n = some (isCanaryValid ann n) := by
  unfold Generated.Decisions.isCanaryDeploymentValid isCanaryValid
  simp only [SMap.contains, SMap.getD, K.canaryValidAnnot]
  exact optEqLemma _ _

theorem src_isCanaryFailed (ers : Option ERS) :
    Generated.Decisions.isCanaryDeploymentFailed ers = some (isCanaryFailed ers) := by
  unfold Generated.Decisions.isCanaryDeploymentFailed isCanaryFailed
  cases ers with
  | none => simp [Option.bind]
  | some e => cases h : isCondTrue e.status.conds "Canary-Failed" <;> simp [Option.bind, h]

theorem isCondTrue_findCond {cs : List Cond} {t : String} (h : isCondTrue cs t = true) :
    ∃ c, findCond cs t = some c ∧ c.status = "True" := by
  unfold isCondTrue at h
  split at h
  · next c hc => exact ⟨c, hc, by simpa using h⟩
  · simp at h

theorem pausedAnnLemma (x y : Option String) :
    (if (x.isSome && x.getD "" == "true") = true then
        (if y.isSome = true then some (true, y.getD "") else some (true, "Unknown"))
      else some (false, "")) =
    some (if (x == some "true") = true then (true, match y with | some r => r | none => "Unknown")
          else (false, "")) := by
  cases x <;> cases y <;> simp <;> split <;> simp_all

theorem src_isCanaryPaused (ann : SMap) (ers : Option ERS) :
    Generated.Decisions.isCanaryDeploymentPaused ann ers = some (isCanaryPaused ann ers) := by
  unfold Generated.Decisions.isCanaryDeploymentPaused isCanaryPaused
  simp only [SMap.contains, SMap.getD, K.canaryPausedAnnot, K.canaryPausedReasonAnnot]
  cases ers with
  | none =>
    simp only [Option.isSome_none, Option.bind]
    exact pausedAnnLemma _ _
  | some e =>
    simp only [Option.isSome_some, Option.bind]
    by_cases h : isCondTrue e.status.conds "Canary-Paused" = true
    · obtain ⟨c, hc, _⟩ := isCondTrue_findCond h
      simp [h, hc]
    · simp only [h]
      exact pausedAnnLemma _ _

theorem endedCore (fc : Option Cond) (nr : Option Int) (d creation now : Int) :
    ((if fc.isSome = true then fc.bind fun rc => some rc.lastUpdate else some zeroTime).bind fun lastRestartTime =>
      (if (nr.isSome && !isZeroTime lastRestartTime) = true then
          nr.bind fun p5 => some (lastRestartTime + p5 - now)
        else some (-d)).bind fun pnr =>
        if decide ((if decide (pnr > creation + d - now) = true then pnr else creation + d - now) ≥ 0) = true then
          some (false, if decide (pnr > creation + d - now) = true then pnr else creation + d - now)
        else some (true, if decide (pnr > creation + d - now) = true then pnr else creation + d - now)) =
    some (
      let lrt := match fc with | some rc => rc.lastUpdate | none => zeroTime
      let pnr := match nr with
        | some nr => if !isZeroTime lrt then lrt + nr - now else -d
        | none => -d
      let pending : Int := creation + d - now
      let pending := if pnr > pending then pnr else pending
      if pending >= 0 then (false, pending) else (true, pending)) := by
  cases fc <;> cases nr <;> simp only [Option.isSome_some, Option.isSome_none, Option.bind_some,
    Option.bind_none, Bool.false_and, Bool.true_and, if_true, if_false, decide_eq_true_eq, Bool.false_eq_true]
  all_goals grind

theorem src_isCanaryEnded (c : Option Canary) (rs : ERS) (now : Time) :
    Generated.Decisions.isCanaryDeploymentEnded c (some rs) now = some (isCanaryEnded c rs now) := by
  unfold Generated.Decisions.isCanaryDeploymentEnded isCanaryEnded
  cases c with
  | none => simp
  | some c =>
    simp only [Option.isNone_some, Option.bind_some]
    cases hd : c.duration with
    | none => simp
    | some d =>
      simp only [Option.isNone_some, pendingNoRestart, lastRestartTime, Option.bind_some]
      exact endedCore _ _ _ _ _

/-- the replica set `selectCurrentReplicaSet` returns, in terms of the model's `Pick`. -/
def pickErs (p : Pick) (active : Option ERS) (u : ERS) : Option ERS :=
  match p with
  | .active => active
  | .upToDate => some u

theorem src_selectCurrent (d : GEds) (active : Option ERS) (u : ERS) (now : Time) (same : Bool) :
    Generated.Decisions.selectCurrentReplicaSet (some d) active (some u) now same =
      some (pickErs (selectCurrent d.spec.strategy.canary d.annotations active u same now).1 active u,
            (selectCurrent d.spec.strategy.canary d.annotations active u same now).2) := by
  unfold Generated.Decisions.selectCurrentReplicaSet selectCurrent
  cases same with
  | true => simp [pickErs]
  | false =>
    cases active with
    | none => simp [pickErs]
    | some a =>
      cases hc : d.spec.strategy.canary with
      | none => simp [pickErs, hc]
      | some c =>
        simp only [Bool.false_eq_true, if_false, Option.isNone_some, Option.bind_some, hc,
          src_isCanaryEnded, src_isCanaryPaused, src_isCanaryValid, src_isCanaryFailed]
        split <;> simp_all [pickErs]


end Eds.Bridge
