import EdsModel.ClusterCli
import EdsProps.L3Live
import EdsProps.C19
/-
  EdsProofs.L3Cli — helper lemmas for EdsProps/L3Cli.lean (the kubectl-eds commands inside the cluster machine).

    1  the shape of a `cli` step: `stepC_cli_eq` (annotations `cliAnn`, replica sets mapped by `cliErsMap`)
    2  `updateCond` on Canary-Failed keeps every other condition
    3  `CanaryWorld.transfer`: a canary in progress survives any change of replica-set STATUSES and of the
       daemonset's annotations (what a command, or a replica-set sync, does)
    4  the daemonset reconcile while the canary CONTINUES (`updateInstance_running`, `currentOf_of_active`,
       `canary_continues`)
-/
namespace Eds
open Cluster

/-! ## 1. the shape of a `cli` step -/

/-- the annotations of the daemonset after the command. -/
def cliAnn (w : World) (cmd : CliCmd) : SMap :=
  match cliOut w cmd with
  | .patchAnnotations ann => ann
  | _ => w.eds.annotations

/-- what the command does to a replica set. -/
def cliErsMap (w : World) (cmd : CliCmd) (e : ERS) : ERS :=
  match cliOut w cmd with
  | .failErs name => if e.ns == w.eds.ns && e.name == name then failErsObj w.now e else e
  | _ => e

theorem stepC_op (w : World) (o : Op) : stepC w (.op o) = step w o := rfl

theorem stepC_cli_eq (w : World) (cmd : CliCmd) :
    stepC w (.cli cmd) =
      { w with eds := { w.eds with annotations := cliAnn w cmd }, erss := w.erss.map (cliErsMap w cmd) } := by
  show applyCli w (cliOut w cmd) = _
  unfold cliAnn cliErsMap
  cases cliOut w cmd with
  | patchAnnotations ann => simp [applyCli]
  | failErs name => simp [applyCli]
  | refused why => simp [applyCli]

theorem cliErsMap_eq (w : World) (cmd : CliCmd) (e : ERS) :
    cliErsMap w cmd e = { e with status := (cliErsMap w cmd e).status } := by
  unfold cliErsMap
  split
  · split <;> rfl
  · rfl

theorem cliErsMap_frame (w : World) (cmd : CliCmd) (e : ERS) :
    (cliErsMap w cmd e).ns = e.ns ∧ (cliErsMap w cmd e).labels = e.labels ∧
    (cliErsMap w cmd e).annotations = e.annotations := by
  rw [cliErsMap_eq]; exact ⟨rfl, rfl, rfl⟩

theorem cliErsMap_name (w : World) (cmd : CliCmd) (e : ERS) : (cliErsMap w cmd e).name = e.name := by
  rw [cliErsMap_eq]

/-- only `canary fail` touches a replica set. -/
theorem cliErsMap_of_ne_fail (w : World) (cmd : CliCmd) (h : cmd ≠ .canaryFail) (e : ERS) :
    cliErsMap w cmd e = e := by
  unfold cliErsMap
  split
  · rename_i name hn
    exact absurd (C19_only_fail_touches_ers cmd _ _ _ name hn) h
  · rfl

/-- `canary fail` never patches the daemonset. -/
theorem cliAnn_fail (w : World) : cliAnn w .canaryFail = w.eds.annotations := by
  unfold cliAnn
  split
  · rename_i ann hn
    exact absurd hn (C19_fail_never_patches _ _ _ ann)
  · rfl

theorem stepC_cli_own (w : World) (cmd : CliCmd) :
    (stepC w (.cli cmd)).own = w.own.map (cliErsMap w cmd) := by
  rw [stepC_cli_eq]
  unfold World.own
  show ownErs { w.eds with annotations := cliAnn w cmd } (w.erss.map (cliErsMap w cmd)) = _
  rw [ownErs_congr { w.eds with annotations := cliAnn w cmd } w.eds _ rfl rfl]
  exact ownErs_map _ _ _ (cliErsMap_frame w cmd)

theorem find?_map_congr {α} (p : α → Bool) (g : α → α) (hg : ∀ x, p (g x) = p x) (l : List α) :
    (l.map g).find? p = (l.find? p).map g := by
  rw [List.find?_map]
  have : p ∘ g = p := funext hg
  rw [this]

theorem findErs_stepC_cli (w : World) (cmd : CliCmd) (name : String) :
    findErs (stepC w (.cli cmd)) name = (findErs w name).map (cliErsMap w cmd) := by
  rw [stepC_cli_eq]
  unfold findErs
  show (w.erss.map (cliErsMap w cmd)).find? (fun e => e.ns == w.eds.ns && e.name == name) = _
  apply find?_map_congr
  intro e
  rw [(cliErsMap_frame w cmd e).1, cliErsMap_name]

/-! ## 2. `updateCond` keeps the conditions of every other type -/

theorem updateFirst_filter_other (cs : List Cond) (t : String) (f : Cond → Cond) (hf : ∀ c, (f c).type = c.type) :
    (updateFirst cs t f).filter (fun c => c.type != t) = cs.filter (fun c => c.type != t) := by
  induction cs with
  | nil => rfl
  | cons c cs ih =>
    unfold updateFirst
    by_cases hc : (c.type == t) = true
    · have ht : c.type = t := by simpa using hc
      simp [ht, hf]
    · have hc' : (c.type == t) = false := by simpa using hc
      simp only [hc', Bool.false_eq_true, if_false, List.filter_cons]
      rw [ih]

theorem cliFailConds_other (cs : List Cond) (now : Time) :
    (cliFailConds cs now).filter (fun c => c.type != "Canary-Failed") =
      cs.filter (fun c => c.type != "Canary-Failed") := by
  unfold cliFailConds updateCond
  split
  · apply updateFirst_filter_other
    intro c
    by_cases h1 : (c.status != "True") = true <;> simp [h1]
  · simp [List.filter_append]

theorem cliFailConds_true (cs : List Cond) (now : Time) :
    isCondTrue (cliFailConds cs now) "Canary-Failed" = true :=
  C19_fail_via_updateCond cs now "Manually failed" "" false true

theorem failErsObj_failed (now : Time) (e : ERS) : isCanaryFailed (some (failErsObj now e)) = true :=
  cliFailConds_true e.status.conds now

/-! ## 3. a canary in progress survives status / annotation changes -/

theorem CanaryWorld.transfer {w w' : World} {a u : ERS} {c : Canary} (H : CanaryWorld w a u c) (g : ERS → ERS)
    (hg : ∀ e, g e = { e with status := (g e).status })
    (hown : w'.own = w.own.map g)
    (hstrat : w'.eds.strategy = w.eds.strategy) (htn : w'.eds.templateName = w.eds.templateName)
    (hhash : w'.eds.templateHash = w.eds.templateHash)
    (hact : w'.eds.status.activeReplicaSet = w.eds.status.activeReplicaSet) :
    CanaryWorld w' (g a) (g u) c := by
  have hname : ∀ e, (g e).name = e.name := fun e => by rw [hg e]
  have hann : ∀ e, (g e).annotations = e.annotations := fun e => by rw [hg e]
  have hgen : ∀ e, (g e).templateGeneration = e.templateGeneration := fun e => by rw [hg e]
  have hhashes : (w'.own.map (fun e => SMap.get? e.annotations K.templateHashAnnot)).Nodup := by
    rw [hown, map_status_frame g hg _ (fun _ _ => rfl)]
    exact (HashesNodup_iff w).mp H.hashes
  have hmemu : g u ∈ w'.own := by rw [hown]; exact List.mem_map_of_mem H.uOwn
  exact
    { defaulted := by rw [hstrat, htn]; exact H.defaulted
      valid := by rw [hstrat]; exact H.valid
      canary := by rw [hstrat]; exact H.canary
      names := by
        show (w'.own.map (·.name)).Nodup
        rw [hown, map_status_frame g hg _ (fun _ _ => rfl)]
        exact H.names
      hashes := (HashesNodup_iff w').mpr hhashes
      annotGen := by
        intro e he
        rw [hown] at he
        obtain ⟨e0, he0, rfl⟩ := List.mem_map.1 he
        rw [hann, hgen]
        exact H.annotGen e0 he0
      aOwn := by rw [hown]; exact List.mem_map_of_mem H.aOwn
      upToDate := by
        apply C07_after_rollback_uptodate _ _ (g u) hmemu
        · rw [hann, hhash]; exact H.uHash
        · intro e he hh
          exact eq_of_nodup_map (fun e : ERS => SMap.get? e.annotations K.templateHashAnnot) hhashes he hmemu
            (by rw [hh, hann, hhash, H.uHash])
      active := by rw [hact, hname]; exact H.active
      ne := by rw [hname, hname]; exact H.ne }

/-! ## 4. the daemonset reconcile while the canary continues -/

/-- **the canary is running and its node selection is settled**: the status carries the canary block `cs`, the
block names the up-to-date replica set `u`, the number of canary nodes the strategy asks for (resolved against
`status.desired`, as `updateInstanceWithCurrentRS` does) is the number of nodes already selected, and `u` has not
failed. -/
structure CanaryRunning (w : World) (u : ERS) (c : Canary) (cs : CanaryStatus) : Prop where
  block : w.eds.status.canary = some cs
  named : cs.replicaSet = u.name
  settled : resolveIntOrPercent c.replicas w.eds.status.desired = some (cs.nodes.length : Int)
  notFailed : isCanaryFailed (some u) = false

/-- `updateInstance` while the canary continues: no node selection, no template restore, annotations kept. -/
theorem updateInstance_running (d : EDS) (a u : ERS) (cur rdy avail : Int) (now : Time)
    (pods : List Pod) (nodes : List Node) (c : Canary) (cs : CanaryStatus) (hc : d.strategy.canary = some c)
    (hne : a.name ≠ u.name) (hf : isCanaryFailed (some u) = false) (hcs : d.status.canary = some cs)
    (hset : resolveIntOrPercent c.replicas d.status.desired = some (cs.nodes.length : Int)) :
    updateInstance d a u cur rdy avail now pods nodes =
      { status := manageStatus
          { baseStatus d a cur rdy avail with
            conds := manageCanaryStatusConditions d.status.conds now false
              (isCanaryPaused d.annotations (some u)).1 (isCanaryPaused d.annotations (some u)).2 u.name }
          u true false (isCanaryPaused d.annotations (some u)).1 (isCanaryPaused d.annotations (some u)).2 d.annotations,
        restoreFrom := none, annotations := d.annotations, selectErr := false } := by
  unfold updateInstance
  simp only [hc, hf]
  have ha : isCanaryActive (some c) a.name u.name false = true := by simp [isCanaryActive, hne]
  simp only [ha, manageStatus_active, hset, baseStatus, hcs]
  simp

theorem currentOf_of_active (d : EDS) (list : List ERS) (u a : ERS) (now : Time) (c : Canary)
    (hc : d.strategy.canary = some c)
    (hact : lastWhere (fun e => e.name == d.status.activeReplicaSet) list = some a)
    (hsel : (selectCurrent (some c) d.annotations (some a) u false now).1 = .active) :
    (currentOf d list u now).1 = a := by
  unfold currentOf
  simp only [hact, hc]
  cases hsc : selectCurrent (some c) d.annotations (some a) u false now with
  | mk p rq =>
    rw [hsc] at hsel
    simp only [] at hsel
    subst hsel
    rfl

end Eds
