import EdsModel.Cluster
import EdsProps.C13
import EdsProps.C15
import EdsProps.C05
import EdsProps.C12b
import EdsProps.C01b
import EdsProps.C16
/-
  EdsProofs.Cluster — helper lemmas for the L3 cluster machine (EdsModel/Cluster.lean), used by
  EdsProps/L3.lean:
    0  `stepF {} = step`, `run = runF` without faults
    1  `EdsSub` (a subset of the planned daemonset writes), identity frame of the daemonset object
    2  the own replica sets after a step (`OwnShape`, `own_stepF`), shape of a step (`stepF_shape`)
    3  the current replica set of a daemonset reconcile (`currentOf_cases`, `edsMain_active_after`)
    4  projections of the world after the writes; relation to `applyEdsWrites` of EdsProps/C13.lean
    5  the canary node list after `updateInstance` (`updateInstance_nodes_cases`)
    6  promotion (`reconcileEds_status_some`, `currentOf_promote`), `edsMain_specHash_cases`
-/
namespace Eds
open Cluster

/-! ## 0. `stepF {} = step`, runs -/

theorem maskEds_ok (w : EdsWrites) : maskEds {} w = w := by
  cases w; simp [maskEds]

theorem maskErs_ok (w : ErsWrites) : maskErs {} w = w := by
  cases w; simp [maskErs]

theorem stepF_ok (w : World) (op : Op) : stepF {} w op = step w op := by
  cases op <;> simp only [stepF, step, maskEds_ok, maskErs_ok]

theorem run_eq_runF (w : World) (ops : List Op) : run w ops = runF w (ops.map (fun op => (({} : Faults), op))) := by
  unfold run runF
  induction ops generalizing w with
  | nil => rfl
  | cons op ops ih => simp only [List.map_cons, List.foldl_cons, stepF_ok]; exact ih _

/-! ## 1. sub-writes, frames -/

/-- `wr` is a subset of the planned writes `full`. -/
structure EdsSub (wr full : EdsWrites) : Prop where
  defaulted : wr.defaulted = none ∨ wr.defaulted = full.defaulted
  created : wr.created = none ∨ wr.created = full.created
  deleted : ∀ x ∈ wr.deletedErs, x ∈ full.deletedErs
  status : wr.statusUpdate = none ∨ wr.statusUpdate = full.statusUpdate
  spec : wr.specUpdate = none ∨ wr.specUpdate = full.specUpdate

theorem EdsSub.refl (w : EdsWrites) : EdsSub w w :=
  ⟨Or.inr rfl, Or.inr rfl, fun _ h => h, Or.inr rfl, Or.inr rfl⟩

theorem EdsSub.mask (f : Faults) (w : EdsWrites) : EdsSub (maskEds f w) w := by
  refine ⟨?_, ?_, ?_, ?_, ?_⟩
  · unfold maskEds; cases f.edsDefaulted <;> simp
  · unfold maskEds; cases f.ersCreate <;> simp
  · intro x hx; exact (List.mem_filter.1 hx).1
  · unfold maskEds; cases f.edsStatus <;> simp
  · unfold maskEds; cases f.edsSpec <;> simp

/-- the daemonset's identity (name, namespace, labels) is never written. -/
theorem applyEdsObj_ident (d : EDS) (wr : EdsWrites) (t : Template) :
    (applyEdsObj d wr t).name = d.name ∧ (applyEdsObj d wr t).ns = d.ns ∧ (applyEdsObj d wr t).labels = d.labels := by
  unfold applyEdsObj
  cases wr.defaulted <;> cases wr.statusUpdate <;> cases wr.specUpdate <;> exact ⟨rfl, rfl, rfl⟩

theorem stepF_ident (f : Faults) (w : World) (op : Op) :
    (stepF f w op).eds.name = w.eds.name ∧ (stepF f w op).eds.ns = w.eds.ns ∧
    (stepF f w op).eds.labels = w.eds.labels := by
  cases op with
  | reconcileEds nn m => exact applyEdsObj_ident _ _ _
  | reconcileErs name rel aff =>
    simp only [stepF]
    cases findErs w name <;> exact ⟨rfl, rfl, rfl⟩
  | setNodes _ => exact ⟨rfl, rfl, rfl⟩
  | kubelet _ => exact ⟨rfl, rfl, rfl⟩
  | userSpec _ _ _ _ => exact ⟨rfl, rfl, rfl⟩
  | tick _ => exact ⟨rfl, rfl, rfl⟩


/-! ## 2. the own replica sets after a step -/

def World.own (w : World) : List ERS := ownErs w.eds w.erss

theorem ersOfNewAt_own (d : EDS) (nn : String) (now : Time) :
    ownErs d [ersOfNewAt d (newReplicaSetFromInstance d) nn now] = [ersOfNewAt d (newReplicaSetFromInstance d) nn now] := by
  have : SMap.get? (SMap.set d.labels K.edsNameLabel d.name) K.edsNameLabel = some d.name :=
    SMap.get?_set_self _ _ _
  simp [ownErs, ersOfNewAt, this, newReplicaSetFromInstance]

theorem ersOfNewAt_hash (d : EDS) (nn : String) (now : Time) :
    SMap.get? (ersOfNewAt d (newReplicaSetFromInstance d) nn now).annotations K.templateHashAnnot = some d.templateHash :=
  SMap.get?_set_self _ _ _

/-- a sub-write creates only what the reconcile planned: the replica set of the spec's template, and
only when no own replica set carries its hash. -/
theorem EdsSub.created_some {d : EDS} {all : List ERS} {pods : List Pod} {nodes : List Node} {now : Time}
    {m : String} {wr : EdsWrites} (hs : EdsSub wr (reconcileEds d all pods nodes now m)) {n : NewErs}
    (hc : wr.created = some n) :
    n = newReplicaSetFromInstance d ∧
    ∀ e ∈ ownErs d all, SMap.get? e.annotations K.templateHashAnnot ≠ some d.templateHash := by
  rcases hs.created with h | h
  · rw [h] at hc; cases hc
  · rw [h] at hc
    exact ⟨(reconcileEds_created_iff d all pods nodes now m n hc).2.1,
      (C13_create_only_if_none d all pods nodes now m n hc).2⟩

/-- the own replica sets after the writes: the surviving own ones, then the created one. -/
theorem ownErs_applyErsList (d : EDS) (all : List ERS) (wr : EdsWrites) (nn : String) (now : Time)
    (hc : ∀ n, wr.created = some n → n = newReplicaSetFromInstance d) :
    ownErs d (applyErsList d all wr nn now) =
      (ownErs d all).filter (fun e => !(e.ns == d.ns && wr.deletedErs.contains e.name)) ++
      (match wr.created with
       | some _ => [ersOfNewAt d (newReplicaSetFromInstance d) nn now]
       | none => []) := by
  unfold applyErsList
  rw [ownErs_append, ownErs_filter]
  congr 1
  cases hcr : wr.created with
  | none => rfl
  | some n =>
    have := hc n hcr
    subst this
    exact ersOfNewAt_own d nn now

/-- the status write of a replica-set reconcile keeps namespace, labels, annotations, name, template. -/
def setStatusOf (rs : ERS) (wr : ErsWrites) (e : ERS) : ERS :=
  if e.ns == rs.ns && e.name == rs.name then
    (match wr.statusUpdate with
     | some st => { e with status := st }
     | none => e)
  else e

theorem setStatusOf_eq (rs : ERS) (wr : ErsWrites) (e : ERS) :
    setStatusOf rs wr e = { e with status := (setStatusOf rs wr e).status } := by
  unfold setStatusOf
  split
  · cases wr.statusUpdate <;> rfl
  · rfl

theorem applyErs_erss (w : World) (rs : ERS) (wr : ErsWrites) :
    (applyErs w rs wr).erss = w.erss.map (setStatusOf rs wr) := rfl

theorem setStatusOf_frame (rs : ERS) (wr : ErsWrites) (e : ERS) :
    (setStatusOf rs wr e).ns = e.ns ∧ (setStatusOf rs wr e).labels = e.labels ∧
    (setStatusOf rs wr e).annotations = e.annotations := by
  rw [setStatusOf_eq]; exact ⟨rfl, rfl, rfl⟩

theorem setStatusOf_name (rs : ERS) (wr : ErsWrites) (e : ERS) : (setStatusOf rs wr e).name = e.name := by
  rw [setStatusOf_eq]

theorem setStatusOf_gen (rs : ERS) (wr : ErsWrites) (e : ERS) :
    (setStatusOf rs wr e).templateGeneration = e.templateGeneration := by
  rw [setStatusOf_eq]

theorem own_applyErs (w : World) (rs : ERS) (wr : ErsWrites) :
    ownErs w.eds (applyErs w rs wr).erss = (ownErs w.eds w.erss).map (setStatusOf rs wr) := by
  rw [applyErs_erss]
  exact ownErs_map _ _ _ (setStatusOf_frame rs wr)

/-- what a step does to the replica-set list. -/
inductive ErsStepShape (f : Faults) (w : World) (op : Op) : Prop where
  | eds (nn m : String) (wr : EdsWrites) : op = .reconcileEds nn m → EdsSub wr (edsWrites w m) →
      stepF f w op = applyEds w wr nn → ErsStepShape f w op
  | ers (rs : ERS) (wr : ErsWrites) : (stepF f w op).erss = w.erss.map (setStatusOf rs wr) →
      (stepF f w op).eds = w.eds → ErsStepShape f w op
  | env : (stepF f w op).erss = w.erss → (stepF f w op).eds.status = w.eds.status → ErsStepShape f w op

theorem stepF_shape (f : Faults) (w : World) (op : Op) : ErsStepShape f w op := by
  cases op with
  | reconcileEds nn m => exact .eds nn m _ rfl (EdsSub.mask f _) rfl
  | reconcileErs name rel aff =>
    cases h : findErs w name with
    | none => exact .env (by simp only [stepF, h]) (by simp only [stepF, h])
    | some rs => exact .ers rs (maskErs f (ersWrites w rs rel aff)) (by simp only [stepF, h]; rfl) (by simp only [stepF, h]; rfl)
  | setNodes _ => exact .env rfl rfl
  | kubelet _ => exact .env rfl rfl
  | userSpec _ _ _ _ => exact .env rfl rfl
  | tick _ => exact .env rfl rfl


theorem own_congr_step (f : Faults) (w : World) (op : Op) (l : List ERS) :
    ownErs (stepF f w op).eds l = ownErs w.eds l :=
  ownErs_congr _ _ _ (stepF_ident f w op).1 (stepF_ident f w op).2.1

/-- what a step does to the daemonset's own replica sets: a daemonset reconcile removes some and
appends the created one; every other step changes at most the status of some. -/
inductive OwnShape (f : Faults) (w : World) (op : Op) : Prop where
  | eds (nn m : String) (wr : EdsWrites) : op = .reconcileEds nn m → EdsSub wr (edsWrites w m) →
      (stepF f w op).own =
        w.own.filter (fun e => !(e.ns == w.eds.ns && wr.deletedErs.contains e.name)) ++
        (match wr.created with
         | some _ => [ersOfNewAt w.eds (newReplicaSetFromInstance w.eds) nn w.now]
         | none => []) → OwnShape f w op
  | map (g : ERS → ERS) : (∀ e, g e = { e with status := (g e).status }) →
      (stepF f w op).own = w.own.map g → OwnShape f w op

theorem own_stepF (f : Faults) (w : World) (op : Op) : OwnShape f w op := by
  rcases stepF_shape f w op with ⟨nn, m, wr, hop, hsub, heq⟩ | ⟨rs, wr, herss, heds⟩ | ⟨herss, _⟩
  · refine .eds nn m wr hop hsub ?_
    unfold World.own
    rw [own_congr_step, heq]
    exact ownErs_applyErsList w.eds w.erss wr nn w.now (fun n hn => (hsub.created_some hn).1)
  · refine .map (setStatusOf rs wr) (setStatusOf_eq rs wr) ?_
    unfold World.own
    rw [own_congr_step, herss]
    exact ownErs_map _ _ _ (setStatusOf_frame rs wr)
  · refine .map id (fun _ => rfl) ?_
    unfold World.own
    rw [own_congr_step, herss, List.map_id]


/-! ## 3. the current replica set of a daemonset reconcile -/

theorem currentOf_cases (d : EDS) (list : List ERS) (u : ERS) (now : Time) :
    (currentOf d list u now).1 = u ∨
    ∃ a, lastWhere (fun e => e.name == d.status.activeReplicaSet) list = some a ∧
      (currentOf d list u now).1 = a ∧
      (selectCurrent d.strategy.canary d.annotations (some a) u false now).1 = .active := by
  unfold currentOf
  cases ha : lastWhere (fun e => e.name == d.status.activeReplicaSet) list with
  | none =>
    left
    simp only []
    cases (selectCurrent d.strategy.canary d.annotations none u false now).1 <;> rfl
  | some a =>
    simp only []
    generalize hsc : selectCurrent d.strategy.canary d.annotations (some a) u false now = sc
    obtain ⟨pick, rq⟩ := sc
    cases pick
    · right; exact ⟨a, rfl, rfl, by rw [hsc]⟩
    · left; rfl

/-- the current replica set is a listed one when the up-to-date one is. -/
theorem currentOf_mem (d : EDS) (list : List ERS) (u : ERS) (now : Time) (hu : u ∈ list) :
    (currentOf d list u now).1 ∈ list := by
  rcases currentOf_cases d list u now with h | ⟨a, ha, h, _⟩
  · rw [h]; exact hu
  · rw [h]; exact (lastWhere_mem ha).1

/-- a selection error is reported only while a canary is active. -/
theorem updateInstance_selectErr_active (d : EDS) (current u : ERS) (cu rdy avail : Int) (now : Time)
    (pods : List Pod) (nodes : List Node)
    (h : (updateInstance d current u cu rdy avail now pods nodes).selectErr = true) :
    ∃ c, d.strategy.canary = some c ∧
      isCanaryActive (some c) current.name u.name (isCanaryFailed (some u)) = true := by
  cases hc : d.strategy.canary with
  | none => rw [updateInstance_no_canary _ _ _ _ _ _ _ _ _ hc] at h; cases h
  | some c =>
    refine ⟨c, rfl, ?_⟩
    cases hact : isCanaryActive (some c) current.name u.name (isCanaryFailed (some u)) with
    | true => rfl
    | false =>
      unfold updateInstance at h
      simp only [hc, hact] at h
      cases h

theorem isCanaryActive_ne {c : Option Canary} {a u : String} {failed : Bool}
    (h : isCanaryActive c a u failed = true) : a ≠ u ∧ failed = false ∧ c.isSome = true := by
  unfold isCanaryActive at h
  simp only [Bool.and_eq_true, Bool.not_eq_true', Bool.or_eq_false_iff, beq_eq_false_iff_ne] at h
  exact ⟨h.2.2, h.2.1, h.1⟩

/-- when `edsMain` writes no status, either the selection failed or the status is already the
computed one. -/
theorem edsMain_statusUpdate_none (d : EDS) (list : List ERS) (u : ERS) (pods : List Pod) (nodes : List Node)
    (now : Time) (h : (edsMain d list u pods nodes now).statusUpdate = none) :
    (edsUpd d list (currentOf d list u now).1 u pods nodes now).selectErr = true ∨
    (edsUpd d list (currentOf d list u now).1 u pods nodes now).status = d.status := by
  unfold edsMain at h
  unfold edsUpd
  simp only [] at h
  generalize updateInstance _ _ _ _ _ _ _ _ _ = upd at h ⊢
  cases hse : upd.selectErr with
  | true => left; rfl
  | false =>
    right
    simp only [hse, Bool.false_eq_true, if_false] at h
    cases hch : (upd.status != d.status) with
    | true => simp [hch] at h
    | false => simpa using hch

/-- **the status after the daemonset reconcile names the current replica set of that reconcile as
active**, whether or not a status was written (when every write succeeds). -/
theorem edsMain_active_after (d : EDS) (list : List ERS) (u : ERS) (pods : List Pod) (nodes : List Node)
    (now : Time) :
    (match (edsMain d list u pods nodes now).statusUpdate with
     | some st => st
     | none => d.status).activeReplicaSet = (currentOf d list u now).1.name := by
  cases hst : (edsMain d list u pods nodes now).statusUpdate with
  | some st =>
    simp only []
    rw [edsMain_statusUpdate _ _ _ _ _ _ st hst]
    unfold edsUpd; rw [updateInstance_activeReplicaSet]
  | none =>
    simp only []
    rcases edsMain_statusUpdate_none d list u pods nodes now hst with hse | heq
    · obtain ⟨c, _, hact⟩ := updateInstance_selectErr_active _ _ _ _ _ _ _ _ _ hse
      have hne := (isCanaryActive_ne hact).1
      rcases currentOf_cases d list u now with h | ⟨a, ha, h, _⟩
      · rw [h] at hne; exact absurd rfl hne
      · rw [h]
        have := (lastWhere_mem ha).2
        simp only [beq_iff_eq] at this
        exact this.symm
    · rw [← heq]
      unfold edsUpd; rw [updateInstance_activeReplicaSet]


/-! ## 4. projections of the daemonset object after the writes -/

theorem applyEdsObj_status (d : EDS) (wr : EdsWrites) (t : Template) :
    (applyEdsObj d wr t).status = (match wr.statusUpdate with | some st => st | none => d.status) := by
  unfold applyEdsObj
  cases wr.defaulted <;> cases wr.statusUpdate <;> cases wr.specUpdate <;> rfl

theorem applyEdsObj_templateHash (d : EDS) (wr : EdsWrites) (t : Template) :
    (applyEdsObj d wr t).templateHash = (match wr.specUpdate with | some x => x.1 | none => d.templateHash) := by
  unfold applyEdsObj
  cases wr.defaulted <;> cases wr.statusUpdate <;> cases wr.specUpdate <;> rfl

theorem applyEdsObj_annotations (d : EDS) (wr : EdsWrites) (t : Template) :
    (applyEdsObj d wr t).annotations = (match wr.specUpdate with | some x => x.2 | none => d.annotations) := by
  unfold applyEdsObj
  cases wr.defaulted <;> cases wr.statusUpdate <;> cases wr.specUpdate <;> rfl

theorem applyEdsObj_strategy (d : EDS) (wr : EdsWrites) (t : Template) :
    (applyEdsObj d wr t).strategy = (match wr.defaulted with | some x => x.1 | none => d.strategy) := by
  unfold applyEdsObj
  cases wr.defaulted <;> cases wr.statusUpdate <;> cases wr.specUpdate <;> rfl

theorem step_reconcileEds (w : World) (nn m : String) :
    step w (.reconcileEds nn m) = applyEds w (edsWrites w m) nn := rfl

theorem applyEds_status (w : World) (wr : EdsWrites) (nn : String) :
    (applyEds w wr nn).eds.status = (match wr.statusUpdate with | some st => st | none => w.eds.status) :=
  applyEdsObj_status _ _ _

theorem applyEds_erss (w : World) (wr : EdsWrites) (nn : String) :
    (applyEds w wr nn).erss = applyErsList w.eds w.erss wr nn w.now := rfl

theorem applyEds_frame (w : World) (wr : EdsWrites) (nn : String) :
    (applyEds w wr nn).pods = w.pods ∧ (applyEds w wr nn).nodes = w.nodes ∧ (applyEds w wr nn).now = w.now ∧
    (applyEds w wr nn).settings = w.settings ∧ (applyEds w wr nn).daemonsets = w.daemonsets :=
  ⟨rfl, rfl, rfl, rfl, rfl⟩

/-- an old replica set whose name is not deleted is still there, unchanged. -/
theorem mem_applyErsList_of_not_deleted (d : EDS) (all : List ERS) (wr : EdsWrites) (nn : String) (now : Time)
    (e : ERS) (he : e ∈ all) (hk : e.ns ≠ d.ns ∨ e.name ∉ wr.deletedErs) :
    e ∈ applyErsList d all wr nn now := by
  unfold applyErsList
  apply List.mem_append_left
  rw [List.mem_filter]
  refine ⟨he, ?_⟩
  rcases hk with hk | hk <;> simp [hk]

/-- a replica set of the new list is an old one that was not deleted, or the created one. -/
theorem mem_applyErsList (d : EDS) (all : List ERS) (wr : EdsWrites) (nn : String) (now : Time) (e : ERS)
    (h : e ∈ applyErsList d all wr nn now) :
    (e ∈ all ∧ (e.ns ≠ d.ns ∨ e.name ∉ wr.deletedErs)) ∨ ∃ n, wr.created = some n ∧ e = ersOfNewAt d n nn now := by
  unfold applyErsList at h
  rcases List.mem_append.1 h with h | h
  · left
    rw [List.mem_filter] at h
    refine ⟨h.1, ?_⟩
    have h2 := h.2
    simp only [Bool.not_eq_true', Bool.and_eq_false_iff, beq_eq_false_iff_ne, ne_eq] at h2
    rcases h2 with h2 | h2
    · exact Or.inl h2
    · right; simpa using h2
  · cases hc : wr.created with
    | none => simp [hc] at h
    | some n =>
      simp only [hc, List.mem_singleton] at h
      exact Or.inr ⟨n, rfl, h⟩

/-- the relation to the store transition of `EdsProps/C13.lean`: the same object, created at `now`. -/
theorem ersOfNewAt_eq_C13 (d : EDS) (n : NewErs) (nn : String) (now : Time) :
    ersOfNewAt d n nn now = { ersOfNew d n nn with creation := now } := rfl

theorem applyErsList_eq_C13 (d : EDS) (all : List ERS) (wr : EdsWrites) (nn : String) :
    applyErsList d all wr nn 0 = applyEdsWrites d all wr nn := by
  unfold applyErsList applyEdsWrites
  cases wr.created <;> rfl

/-- the template restore, when there is one, takes the template of the current replica set. -/
theorem updateInstance_restoreFrom (d : EDS) (current u : ERS) (cu rdy avail : Int) (now : Time)
    (pods : List Pod) (nodes : List Node) :
    (updateInstance d current u cu rdy avail now pods nodes).restoreFrom = none ∨
    (updateInstance d current u cu rdy avail now pods nodes).restoreFrom = some current := by
  unfold updateInstance
  cases hcan : d.strategy.canary with
  | none => left; rfl
  | some cn =>
    simp only []
    cases isCanaryFailed (some u) <;> (repeat' split) <;> simp

theorem match_ite_fst (b : Bool) (v : String × SMap) (dflt : String) :
    (match (if b = true then some v else none : Option (String × SMap)) with
     | some x => x.1 | none => dflt) = (if b = true then v.1 else dflt) := by
  cases b <;> rfl

/-- the template hash a spec update of `edsMain` writes is the one in spec or the generation of the
current replica set (the restore after a failed canary). -/
theorem edsMain_specHash_cases (d : EDS) (list : List ERS) (u : ERS) (pods : List Pod) (nodes : List Node)
    (now : Time) :
    (match (edsMain d list u pods nodes now).specUpdate with
     | some x => x.1 | none => d.templateHash) = d.templateHash ∨
    (match (edsMain d list u pods nodes now).specUpdate with
     | some x => x.1 | none => d.templateHash) = (currentOf d list u now).1.templateGeneration := by
  have hrf := updateInstance_restoreFrom d (currentOf d list u now).1 u
    (list.foldl (fun a e => a + e.status.current) 0) (list.foldl (fun a e => a + e.status.ready) 0)
    (list.foldl (fun a e => a + e.status.available) 0) now (ownPods d pods) nodes
  unfold edsMain
  simp only []
  generalize updateInstance _ _ _ _ _ _ _ _ _ = upd at hrf ⊢
  cases hse : upd.selectErr with
  | true => left; rfl
  | false =>
    simp only [Bool.false_eq_true, if_false]
    rw [match_ite_fst]
    rcases hrf with hr | hr
    · left; rw [hr]; simp only []
      generalize (_ && _ : Bool) = b
      cases b <;> rfl
    · rw [hr]; simp only []
      generalize (_ && _ : Bool) = b
      cases b
      · left; rfl
      · right; rfl


/-! ## 5. the canary node list after `updateInstance` -/

/-- `status.canary.nodes` (empty without a canary block). -/
def canaryNodesOf (st : EDSStatus) : List String :=
  match st.canary with | some cs => cs.nodes | none => []

theorem ersCanaryNodes_eq (d : EDS) : ersCanaryNodes d = canaryNodesOf d.status := rfl

/-- the canary node list of the status `updateInstance` computes is empty, the previous one, or the
result of `selectNodes` run on the previous one with the request resolved against the targeted nodes. -/
theorem updateInstance_nodes_cases (d : EDS) (current u : ERS) (cu rdy avail : Int) (now : Time)
    (pods : List Pod) (nodes : List Node) :
    canaryNodesOf (updateInstance d current u cu rdy avail now pods nodes).status = [] ∨
    canaryNodesOf (updateInstance d current u cu rdy avail now pods nodes).status = canaryNodesOf d.status ∨
    ∃ c sel short, d.strategy.canary = some c ∧
      selectNodes u.template c (targetedCount u.template nodes) (canaryNodesOf d.status) pods nodes = .ok (sel, short) ∧
      canaryNodesOf (updateInstance d current u cu rdy avail now pods nodes).status = sel := by
  have hcur : (d.status.canary.getD { replicaSet := "", nodes := [] }).nodes = canaryNodesOf d.status := by
    unfold canaryNodesOf; cases d.status.canary <;> rfl
  cases hc : d.strategy.canary with
  | none => right; left; rw [updateInstance_no_canary _ _ _ _ _ _ _ _ _ hc]; rfl
  | some c =>
    cases hf : isCanaryFailed (some u) with
    | true => left; rw [updateInstance_failed _ _ _ _ _ _ _ _ _ c hc hf]; rfl
    | false =>
      cases hact : isCanaryActive (some c) current.name u.name false with
      | false =>
        left
        unfold updateInstance
        simp only [hc, hf, hact, manageStatus_inactive]
        rfl
      | true =>
        unfold updateInstance
        simp only [hc, hf, hact, manageStatus_active, if_true]
        split
        · right; left; exact hcur
        · split
          · split
            · next sel short hsel =>
              right; right
              refine ⟨c, sel, short, rfl, ?_, rfl⟩
              rw [← hcur]; exact hsel
            · right; left; exact hcur
          · right; left; exact hcur


/-! ## 6. promotion -/

/-- a status write happens only past defaulting and validation, in `edsMain`. -/
theorem reconcileEds_status_some (d : EDS) (all : List ERS) (pods : List Pod) (nodes : List Node) (now : Time)
    (m : String) (st : EDSStatus) (h : (reconcileEds d all pods nodes now m).statusUpdate = some st) :
    isDefaulted d.strategy d.templateName = true ∧ validateSpec d.strategy = .ok ∧
    ∃ u, upToDateOf d (ownErs d all) = some u ∧
      reconcileEds d all pods nodes now m = edsMain d (ownErs d all) u pods nodes now := by
  unfold reconcileEds at h ⊢
  by_cases hd : isDefaulted d.strategy d.templateName = true
  · by_cases hv : validateSpec d.strategy = .ok
    · refine ⟨hd, hv, ?_⟩
      simp only [hd, hv, Bool.not_true, Bool.false_eq_true, if_false] at h ⊢
      cases hu : upToDateOf d (ownErs d all) with
      | none => rw [hu] at h; simp at h
      | some u => exact ⟨u, rfl, rfl⟩
    · simp [hd, hv] at h
  · simp [hd] at h

theorem edsMain_defaulted (d : EDS) (list : List ERS) (u : ERS) (pods : List Pod) (nodes : List Node) (now : Time) :
    (edsMain d list u pods nodes now).defaulted = none := by
  unfold edsMain
  simp only []
  split <;> rfl

theorem reconcileEds_defaulted (d : EDS) (all : List ERS) (pods : List Pod) (nodes : List Node) (now : Time)
    (m : String) :
    (reconcileEds d all pods nodes now m).defaulted = none ∨
    (reconcileEds d all pods nodes now m).defaulted = some (defaultSpec d.strategy m) := by
  rcases reconcileEds_cases d all pods nodes now m with hr | hr | ⟨_, hr⟩ | ⟨u, _, hr⟩
  · right; rw [hr]
  · left; rw [hr]
  · left; rw [hr]
  · left; rw [hr, edsMain_defaulted]

/-- when an active replica set exists and the current one is not it, the selection promoted the
up-to-date one. -/
theorem currentOf_promote (d : EDS) (list : List ERS) (u a : ERS) (now : Time)
    (ha : lastWhere (fun e => e.name == d.status.activeReplicaSet) list = some a)
    (hne : (currentOf d list u now).1.name ≠ a.name) :
    (currentOf d list u now).1 = u ∧
    ∃ rq, selectCurrent d.strategy.canary d.annotations (some a) u false now = (.upToDate, rq) := by
  unfold currentOf at hne ⊢
  rw [ha] at hne ⊢
  simp only [] at hne ⊢
  generalize selectCurrent d.strategy.canary d.annotations (some a) u false now = sc at hne ⊢
  obtain ⟨pick, rq⟩ := sc
  cases pick
  · exact absurd rfl hne
  · exact ⟨rfl, rq, rfl⟩

/-- a defaulted canary has a non-empty validation mode. -/
theorem isDefaulted_mode_ne (s : Strategy) (tn : String) (c : Canary) (h : isDefaulted s tn = true)
    (hc : s.canary = some c) : c.validationMode ≠ "" := by
  unfold isDefaulted at h
  simp only [hc, Bool.and_eq_true] at h
  have := h.1.1.2
  unfold isDefaultedCanary at this
  simp only [Bool.and_eq_true, bne_iff_ne, ne_eq] at this
  exact this.1.1.1.1.2

/-! ## 7. relation to the pod-store transition of `EdsProps/C01b.lean` -/

/-- without label patches, on pods of the replica set's namespace, the pod transition of the cluster
machine is `applyPodWrites` of C01b (which addresses pods by name only and applies no label patch). -/
theorem applyPodWritesNs_eq_C01b (ns : String) (w : ErsWrites) (pods : List Pod) (now : Time)
    (hns : ∀ p ∈ pods, p.ns = ns) (ha : w.labelAdds = []) (hr : w.labelRemoves = []) :
    applyPodWritesNs ns w pods now = applyPodWrites w pods now := by
  unfold applyPodWritesNs applyPodWrites
  congr 1
  apply List.map_congr_left
  intro p hp
  simp [patchLabels, ha, hr, markDeletedNs, markDeleted, hns p hp]

end Eds
