import EdsModel.Generated.DecUnknown
import EdsProofs.BridgeDropCanary
/-
  EdsProofs.BridgeUnknown — `ManageUnknown` (strategy/unknown.go), translated as a whole on every run
  (EdsModel/Generated/DecUnknown.lean), is *equal* to the model's `manageUnknown` (EdsModel/Rolling.lean).

  The function deletes the canary nodes from the Go map `PodByNodeName` (`delete` inside the loop over
  `params.CanaryNodes`: BridgeDropCanary), iterates the map (any order: the theorem holds for every association list),
  and writes the status and the requeue request.  It assigns through `params`: the translation returns, next to the Go
  results `(*Result, error)`, what the caller sees through `params` afterwards.  Its API client parameter is unused (and
  dropped by the translator).

  Clock: `time.Now()` once (`wallNow1`, only passed on to `IsPodAvailable(pod, 0, ·)`, which does not read it when
  `minReadySeconds = 0`) and twice per iteration in `HasPodSchedulerIssue` (functions of the iteration index); the model
  evaluates the loop at one instant `wall`.
-/
set_option linter.unusedSimpArgs false
set_option linter.unusedVariables false
namespace Eds.Bridge
open Eds

/-- one step of the counting fold of the model's `manageUnknown` (there a local `let`): (current, available, ready,
ignored). -/
def unkStep (tg : String) (wall : Time) (acc : Int × Int × Int × Int) (e : NodeItem × Option Pod) : Int × Int × Int × Int :=
  match e.2 with
  | none => acc
  | some pod =>
    if comparePod tg pod e.1 then
      if pod.schedulerIssue wall then (acc.1, acc.2.1, acc.2.2.1, acc.2.2.2 + 1)
      else (acc.1 + 1, acc.2.1 + (if pod.available then 1 else 0),
            acc.2.2.1 + (if pod.ready then 1 else 0), acc.2.2.2)
    else acc

/-- the model's `manageUnknown`, its local step function named. -/
theorem manageUnknown_fold (p : StratParams) (wall : Time) :
    Eds.manageUnknown p wall =
      { newStatus := some { p.newStatus with
          status := "unknown", desired := 0,
          ready := ((targeted p).foldl (unkStep p.ers.templateGeneration wall) (0, 0, 0, 0)).2.2.1,
          current := ((targeted p).foldl (unkStep p.ers.templateGeneration wall) (0, 0, 0, 0)).1,
          available := ((targeted p).foldl (unkStep p.ers.templateGeneration wall) (0, 0, 0, 0)).2.1,
          ignored := ((targeted p).foldl (unkStep p.ers.templateGeneration wall) (0, 0, 0, 0)).2.2.2 },
        requeue := (0 : Int) != ((targeted p).foldl (unkStep p.ers.templateGeneration wall) (0, 0, 0, 0)).2.2.1,
        requeueAfter := sec } := rfl

/-- the loop over `params.CanaryNodes`: the deletions, in order (`dropCanaryPB`). -/
theorem unknown_dropLoop (k : GParams → Option (Option GResult × Option String × Option GParams)) (names : List String)
    (i : Int) (P : GParams) :
    Generated.Decisions.manageUnknown.loop1 k names i P =
      k { P with podByNodeName := dropCanaryPB P.nodeByName names P.podByNodeName } := by
  induction names generalizing i P with
  | nil => rfl
  | cons n ns ih =>
    simp only [Generated.Decisions.manageUnknown.loop1]
    rw [ih]
    rfl

/-- one iteration of the translated loop over the map is the model's step; no iteration panics. -/
theorem unknown_cons (metaNow : Int) (P : GParams) (rs : ERS) (hrs : P.replicaset = some rs) (nilSlice : Bool)
    (w2 w3 : Int → Int) (wall : Time) (hw2 : ∀ i, w2 i = wall) (hw3 : ∀ i, w3 i = wall)
    (k : Int → Int → Int → Int → Int → Option (Option GResult × Option String × Option GParams))
    (ni : NodeItem) (go : Option GPod) (mo : Option Pod) (hv : OptPodRel go mo)
    (rest : List (Option NodeItem × Option GPod)) (i : Int) (a : Int × Int × Int × Int) (desired : Int) :
    Generated.Decisions.manageUnknown.loop2 metaNow P nilSlice w2 w3 k ((some ni, go) :: rest) i
        a.2.1 a.1 desired a.2.2.2 a.2.2.1 =
      Generated.Decisions.manageUnknown.loop2 metaNow P nilSlice w2 w3 k rest (i + 1)
        (unkStep rs.templateGeneration wall a (ni, mo)).2.1 (unkStep rs.templateGeneration wall a (ni, mo)).1 (desired + 1)
        (unkStep rs.templateGeneration wall a (ni, mo)).2.2.2 (unkStep rs.templateGeneration wall a (ni, mo)).2.2.1 := by
  simp only [Generated.Decisions.manageUnknown.loop2]
  cases hv with
  | none => simp [unkStep]
  | @some g m hr =>
    simp only [Option.isSome_some, if_true, hw2, hw3,
      src_hasPodSchedulerIssue g m wall hr.rel.nodeName hr.rel.creation hr.deletion hr.gracePeriod, Option.bind_some,
      src_compareCurrentPodWithNewPod P rs hrs g m ni hr, src_isPodAvailable g m hr.rel.conds,
      src_isPodReady g m hr.rel.conds]
    cases hsi : m.schedulerIssue wall <;> cases hcmp : comparePod rs.templateGeneration m ni <;>
      cases hav : m.available <;> cases hrd : m.ready <;>
      simp [unkStep, hsi, hcmp, hav, hrd]

theorem unknownLoop (metaNow : Int) (P : GParams) (rs : ERS) (hrs : P.replicaset = some rs) (nilSlice : Bool)
    (w2 w3 : Int → Int) (wall : Time) (hw2 : ∀ i, w2 i = wall) (hw3 : ∀ i, w3 i = wall)
    (k : Int → Int → Int → Int → Int → Option (Option GResult × Option String × Option GParams))
    (PB : List (Option NodeItem × Option GPod)) (es : List (NodeItem × Option Pod)) (hrel : EntriesRel PB es)
    (i : Int) (a : Int × Int × Int × Int) (desired : Int) :
    Generated.Decisions.manageUnknown.loop2 metaNow P nilSlice w2 w3 k PB i a.2.1 a.1 desired a.2.2.2 a.2.2.1 =
      k (es.foldl (unkStep rs.templateGeneration wall) a).2.1 (es.foldl (unkStep rs.templateGeneration wall) a).1
        (desired + es.length) (es.foldl (unkStep rs.templateGeneration wall) a).2.2.2
        (es.foldl (unkStep rs.templateGeneration wall) a).2.2.1 := by
  induction hrel generalizing i a desired with
  | nil => simp [Generated.Decisions.manageUnknown.loop2]
  | @cons ni go mo PB es hv _ ih =>
    rw [unknown_cons metaNow P rs hrs nilSlice w2 w3 wall hw2 hw3 k ni go mo hv PB i a desired, ih]
    simp only [List.foldl_cons, List.length_cons]
    have : desired + 1 + (es.length : Int) = desired + ((es.length + 1 : Nat) : Int) := by omega
    rw [this]

/-- what `ManageUnknown` leaves in `params`: the canary nodes are deleted from `PodByNodeName`. -/
def paramsAfterDrop (P : GParams) : GParams :=
  { P with podByNodeName := dropCanaryPB P.nodeByName P.canaryNodes P.podByNodeName }

/-- **`ManageUnknown`** (the role of a replica set that is neither active nor canary).  For `params = &P` with non-nil
`NewStatus` and `Replicaset`, the canary node names and the two maps of the model (`MapsRel`: any content, any order):
the translated function never panics, returns no error, returns the model's `manageUnknown` as `*Result`, and leaves the
canary nodes deleted from `params.PodByNodeName`. -/
theorem src_manageUnknown (P : GParams) (p : StratParams) (hN : P.newStatus = some p.newStatus)
    (hR : P.replicaset = some p.ers) (hC : P.canaryNodes = p.canaryNodes)
    (hm : MapsRel P.nodeByName P.podByNodeName p.byNode)
    (nilSlice : Bool) (w1 : Int) (w2 w3 : Int → Int) (wall : Time) (hw2 : ∀ i, w2 i = wall) (hw3 : ∀ i, w3 i = wall) :
    Generated.Decisions.manageUnknown (some P) nilSlice w1 w2 w3 =
      some (some (stratResultOf (Eds.manageUnknown p wall)), none, some (paramsAfterDrop P)) := by
  unfold Generated.Decisions.manageUnknown
  simp only [Option.bind_some]
  rw [unknown_dropLoop]
  simp only []
  have hrel := dropCanary_of_maps hm P.canaryNodes
  rw [hC] at hrel
  have hl := unknownLoop w1 (paramsAfterDrop P) p.ers hR nilSlice w2 w3 wall hw2 hw3
  unfold paramsAfterDrop at hl
  rw [hC] at hl ⊢
  rw [hl _ _ _ hrel 0 (0, 0, 0, 0) 0]
  simp only [hN, Option.bind_some, manageUnknown_fold, stratResultOf, targeted, paramsAfterDrop, hC]
  cases hb : ((0 : Int) != (List.foldl (unkStep p.ers.templateGeneration wall) (0, 0, 0, 0)
      (dropCanaryNodes p.byNode p.canaryNodes)).2.2.1) <;> simp [hb]

/-- a nil `params` is dereferenced by the first range expression. -/
theorem src_manageUnknown_nil (nilSlice : Bool) (w1 : Int) (w2 w3 : Int → Int) :
    Generated.Decisions.manageUnknown none nilSlice w1 w2 w3 = none := rfl

end Eds.Bridge
