import EdsProofs.Filter
/-
  Helper lemmas for EdsProps/C02c.lean: `filterAndMap` on a *settled* pod list — every pod bound to a
  candidate node (`spec.nodeName` set), in phase Running, at most one per node.  Then the per-node map
  is "candidate ↦ the pod on it" (`podOn`) and nothing is handed to the clean-up.
-/
namespace Eds

/-- the (first) pod of `E` bound to node `n`. -/
def podOn (E : List Pod) (n : String) : Option Pod := E.find? (fun p => p.nodeName == n)

/-- at most one pod of `E` per node. -/
def OnePerNode (E : List Pod) : Prop := ∀ n, (E.filter (fun p => p.nodeName == n)).length ≤ 1

theorem filter_le_one_unique {α} (q : α → Bool) (l : List α) (h : (l.filter q).length ≤ 1) {a b : α}
    (ha : a ∈ l) (hqa : q a = true) (hb : b ∈ l) (hqb : q b = true) : a = b := by
  have h1 : a ∈ l.filter q := List.mem_filter.mpr ⟨ha, hqa⟩
  have h2 : b ∈ l.filter q := List.mem_filter.mpr ⟨hb, hqb⟩
  match hl : l.filter q, h1, h2, h with
  | [], h1, _, _ => cases h1
  | [x], h1, h2, _ => rw [List.mem_singleton.mp h1, List.mem_singleton.mp h2]
  | _ :: _ :: _, _, _, h => simp only [List.length_cons] at h; omega

theorem OnePerNode.unique {E : List Pod} (h : OnePerNode E) {p q : Pod} (hp : p ∈ E) (hq : q ∈ E)
    (hn : p.nodeName = q.nodeName) : p = q :=
  filter_le_one_unique (fun x => x.nodeName == q.nodeName) E (h q.nodeName) hp (by simp [hn]) hq (by simp)

theorem podOn_some {E : List Pod} {n : String} {p : Pod} (h : podOn E n = some p) : p ∈ E ∧ p.nodeName = n := by
  unfold podOn at h
  exact ⟨List.mem_of_find?_eq_some h, by simpa using List.find?_some h⟩

theorem podOn_none_iff {E : List Pod} {n : String} : podOn E n = none ↔ ∀ p ∈ E, p.nodeName ≠ n := by
  unfold podOn
  rw [List.find?_eq_none]
  simp

theorem podOn_eq_some {E : List Pod} (hone : OnePerNode E) {n : String} {p : Pod} (hp : p ∈ E)
    (hn : p.nodeName = n) : podOn E n = some p := by
  cases h : podOn E n with
  | none => exact absurd hn (podOn_none_iff.mp h p hp)
  | some q =>
    obtain ⟨hq, hqn⟩ := podOn_some h
    rw [hone.unique hq hp (by rw [hqn, hn])]

theorem nodeOf_of_bound {p : Pod} (h : p.nodeName ≠ "") : p.nodeOf = some p.nodeName := by
  unfold Pod.nodeOf
  simp [h]

theorem sortPods_length (l : List Pod) : (sortPods l).length = l.length := (sortPods_perm l).length_eq

/-- **The filter on a settled pod list.** -/
theorem filterAndMap_settled (released : String → Bool) (t : Template) (items : List NodeItem) (E : List Pod)
    (hs : ∀ p ∈ E, p.nodeName ≠ "" ∧ p.phase = "Running" ∧ p.nodeName ∈ candNames t items [])
    (hone : OnePerNode E) :
    (filterAndMap released t items E []).byNode =
      (candidates t items []).map (fun ni => (ni, podOn E ni.node.name)) ∧
    (filterAndMap released t items E []).toDelete = [] := by
  have inv := scanFinal_inv released t items E []
  -- every attached list holds at most one pod
  have hatt : ∀ e ∈ (scanFinal released t items E []).attached, e.2.length ≤ 1 := by
    intro e he
    have hall : e.2.filter (fun p => p.nodeName == e.1) = e.2 := by
      rw [List.filter_eq_self]
      intro p hp
      obtain ⟨hpE, hpn, _⟩ := inv.attSound e he p hp
      rw [nodeOf_of_bound (hs p hpE).1] at hpn
      simpa using Option.some.inj hpn
    have := ((inv.attSub e he).filter (fun p => p.nodeName == e.1)).length_le
    rw [hall] at this
    exact Nat.le_trans this (hone e.1)
  constructor
  · rw [filterAndMap_byNode]
    apply List.map_congr_left
    intro ni hni
    have hfst := keptOf_fst (scanFinal released t items E []).attached ni
    cases hk : (keptOf (scanFinal released t items E []).attached ni).2 with
    | some k =>
      obtain ⟨e, he, tl, hen, hsort⟩ := keptOf_some hk
      have hke : k ∈ e.2 := by
        rw [← mem_sortPods, hsort]; exact List.mem_cons_self
      obtain ⟨hkE, hkn, _⟩ := inv.attSound e he k hke
      rw [nodeOf_of_bound (hs k hkE).1, hen] at hkn
      rw [podOn_eq_some hone hkE (Option.some.inj hkn)]
      exact Prod.ext hfst hk
    | none =>
      have hkey : ni.node.name ∈ (scanFinal released t items E []).attached.map (·.1) := by
        rw [inv.keys]; exact List.mem_map.mpr ⟨ni, hni, rfl⟩
      obtain ⟨e, he, hen, hemp⟩ := keptOf_none hkey hk
      have : podOn E ni.node.name = none := by
        rw [podOn_none_iff]
        intro p hp hpn
        have h1 : p.nodeOf = some e.1 := by rw [nodeOf_of_bound (hs p hp).1, hpn, hen]
        have h2 : p.phase ≠ "Unknown" := by rw [(hs p hp).2.1]; decide
        rcases inv.attComplete e he p hp h1 h2 with h | ⟨h, _⟩
        · rw [hemp] at h; cases h
        · rw [(hs p hp).2.1] at h; exact absurd h (by decide)
      rw [this]
      exact Prod.ext hfst hk
  · rw [List.eq_nil_iff_forall_not_mem]
    intro p hp
    rcases mem_filter_toDelete.mp hp with h | ⟨e, he, h⟩
    · obtain ⟨hpE, _, n, hn, hc⟩ := inv.delSound p h
      rw [nodeOf_of_bound (hs p hpE).1] at hn
      have hn : p.nodeName = n := Option.some.inj hn
      rcases hc with ⟨_, hf, _⟩ | ⟨hnk, _⟩
      · rw [(hs p hpE).2.1] at hf; exact absurd hf (by decide)
      · exact hnk (hn ▸ (hs p hpE).2.2)
    · have h1 := hatt e he
      have h2 : ((sortPods e.2).drop 1).length = 0 := by
        rw [List.length_drop, sortPods_length]; omega
      rw [List.eq_nil_of_length_eq_zero h2] at h
      cases h

end Eds
