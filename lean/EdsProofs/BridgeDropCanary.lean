import EdsProofs.BridgePodCompare
import EdsModel.Rolling
/-
  EdsProofs.BridgeDropCanary — what `ManageDeployment` and `ManageUnknown` do to the Go map `PodByNodeName` before they
  iterate it,

      for _, nodeName := range params.CanaryNodes { delete(params.PodByNodeName, params.NodeByName[nodeName]) }

  on association lists (`Go.mapErase`, `Go.mapGetD`: EdsModel/GoPrelude.lean), is the model's `dropCanaryNodes`
  (EdsModel/Rolling.lean) under `MapsRel` — and the lookups of the remaining keys (`params.PodByNodeName[node]`, the
  comparator of the stable sort of `ManageDeployment`) when the keys of the map are distinct (a Go map has one entry per
  key; an association list need not, hence the hypothesis `KeysNodup`).  Shared by BridgeUnknown and BridgeDeployment.
-/
set_option linter.unusedSimpArgs false
set_option linter.unusedVariables false
namespace Eds.Bridge
open Eds

/-- how a strategy result of the model reads as the Go `*Result`: the flags and reasons, the status, the node items to
create pods on and to delete the pods of (non-nil pointers, in the model's order), the unscheduled nodes, the requeue
request. -/
def stratResultOf (r : StratResult) : GResult :=
  { isFrozen := r.isFrozen, isPaused := r.isPaused, pausedReason := r.pausedReason, isUnpaused := r.isUnpaused,
    isFailed := r.isFailed, failedReason := r.failedReason, newStatus := r.newStatus,
    podsToCreate := r.createE.map some, podsToDelete := r.deleteE.map (fun e => some e.1),
    result := { requeue := r.requeue, requeueAfter := r.requeueAfter }, unscheduledNodes := r.unscheduledNodes }

/-- the Go side of `dropCanaryNodes`: the deletions of the loop over `params.CanaryNodes`, in order. -/
def dropCanaryPB (NB : List (String × Option NodeItem)) (names : List String)
    (PB : List (Option NodeItem × Option GPod)) : List (Option NodeItem × Option GPod) :=
  names.foldl (fun pb n => Go.mapErase Go.nodeItemKey pb (Go.mapGetD Go.strKey NB n none)) PB

/-- a Go map has one entry per key: the node names of the model's list are distinct. -/
def KeysNodup (es : List (NodeItem × Option Pod)) : Prop := (es.map (·.1.node.name)).Nodup

theorem nik_some (x y : NodeItem) : Go.nodeItemKey (some x) (some y) = (x.node.name == y.node.name) := rfl

theorem nik_some_nil (x : NodeItem) : Go.nodeItemKey (some x) none = false := rfl

theorem erase_nil_key {PB : List (Option NodeItem × Option GPod)} {es : List (NodeItem × Option Pod)}
    (h : EntriesRel PB es) : Go.mapErase Go.nodeItemKey PB none = PB := by
  induction h with
  | nil => rfl
  | cons _ _ ih =>
    unfold Go.mapErase at ih ⊢
    simp only [List.filter_cons, nik_some_nil, Bool.not_false, if_true, ih]

theorem erase_some_key {PB : List (Option NodeItem × Option GPod)} {es : List (NodeItem × Option Pod)}
    (h : EntriesRel PB es) (ni : NodeItem) :
    EntriesRel (Go.mapErase Go.nodeItemKey PB (some ni)) (es.filter (fun e => !(e.1.node.name == ni.node.name))) := by
  induction h with
  | nil => exact .nil
  | @cons x go mo PB es hv _ ih =>
    unfold Go.mapErase at ih ⊢
    simp only [List.filter_cons, nik_some]
    by_cases hx : x.node.name = ni.node.name
    · simpa [hx] using ih
    · simpa [hx] using EntriesRel.cons hv ih

/-- one deletion: `delete(PodByNodeName, NodeByName[n])` drops the entries of the node named `n`. -/
theorem erase_step {NB : List (String × Option NodeItem)} {PB : List (Option NodeItem × Option GPod)}
    {es : List (NodeItem × Option Pod)}
    (hfiled : ∀ n ni, Go.mapGetD Go.strKey NB n none = some ni → ni.node.name = n)
    (hkeys : ∀ e ∈ es, Go.mapGetD Go.strKey NB e.1.node.name none = some e.1)
    (h : EntriesRel PB es) (n : String) :
    EntriesRel (Go.mapErase Go.nodeItemKey PB (Go.mapGetD Go.strKey NB n none))
      (es.filter (fun e => !(e.1.node.name == n))) := by
  cases hn : Go.mapGetD Go.strKey NB n none with
  | none =>
    rw [erase_nil_key h]
    have : es.filter (fun e => !(e.1.node.name == n)) = es := by
      apply List.filter_eq_self.mpr
      intro e he
      cases hb : (e.1.node.name == n) with
      | false => rfl
      | true =>
        have : e.1.node.name = n := by simpa using hb
        have hk := hkeys e he
        rw [this, hn] at hk
        cases hk
    rw [this]
    exact h
  | some ni =>
    have := erase_some_key h ni
    rw [hfiled n ni hn] at this
    exact this

theorem dropCanaryNodes_fold (names : List String) (es : List (NodeItem × Option Pod)) :
    dropCanaryNodes es names = names.foldl (fun es n => es.filter (fun e => !(e.1.node.name == n))) es := by
  induction names generalizing es with
  | nil => simp [dropCanaryNodes]
  | cons n ns ih =>
    simp only [List.foldl_cons]
    rw [← ih]
    unfold dropCanaryNodes
    rw [List.filter_filter]
    congr 1
    funext e
    simp only [List.contains_cons, Bool.not_or, Bool.and_comm]

/-- **the loop over the canary nodes**: under `MapsRel` (every `NodeByName` entry filed under the name of its node, every
key of `PodByNodeName` the `NodeByName` entry of its name) the deletions leave the model's `dropCanaryNodes`. -/
theorem dropCanary_rel {NB : List (String × Option NodeItem)} (names : List String)
    (hfiled : ∀ n ni, Go.mapGetD Go.strKey NB n none = some ni → ni.node.name = n) :
    ∀ {PB : List (Option NodeItem × Option GPod)} {es : List (NodeItem × Option Pod)},
    (∀ e ∈ es, Go.mapGetD Go.strKey NB e.1.node.name none = some e.1) → EntriesRel PB es →
    EntriesRel (dropCanaryPB NB names PB) (dropCanaryNodes es names) := by
  intro PB es hkeys h
  rw [dropCanaryNodes_fold]
  unfold dropCanaryPB
  induction names generalizing PB es with
  | nil => exact h
  | cons n ns ih =>
    simp only [List.foldl_cons]
    apply ih
    · intro e he
      exact hkeys e (List.mem_filter.mp he).1
    · exact erase_step hfiled hkeys h n

theorem dropCanary_of_maps {NB : List (String × Option NodeItem)} {PB : List (Option NodeItem × Option GPod)}
    {es : List (NodeItem × Option Pod)} (hm : MapsRel NB PB es) (names : List String) :
    EntriesRel (dropCanaryPB NB names PB) (dropCanaryNodes es names) :=
  dropCanary_rel names hm.filed hm.keys hm.entries

theorem dropCanary_nodup {es : List (NodeItem × Option Pod)} (h : KeysNodup es) (names : List String) :
    KeysNodup (dropCanaryNodes es names) := by
  unfold KeysNodup dropCanaryNodes at *
  exact List.Pairwise.sublist (List.Sublist.map _ List.filter_sublist) h

/-- the lookup of a key of the map: with distinct keys, the entry of a node item is the one `PodByNodeName[node]` finds
(by `Go.nodeItemKey`), a Go pod whose canonical form is the model's. -/
theorem lookup_entry {PB : List (Option NodeItem × Option GPod)} {es : List (NodeItem × Option Pod)}
    (h : EntriesRel PB es) (hnd : KeysNodup es) (ni : NodeItem) (m : Pod) (hmem : (ni, some m) ∈ es) :
    ∃ g, Go.mapGetD Go.nodeItemKey PB (some ni) none = some g ∧ PodRelC g m := by
  unfold Go.mapGetD Go.mapFind
  induction h with
  | nil => cases hmem
  | @cons x go mo PB es hv _ ih =>
    unfold KeysNodup at hnd
    simp only [List.map_cons, List.nodup_cons] at hnd
    simp only [List.find?_cons, nik_some]
    rcases List.mem_cons.mp hmem with heq | hmem'
    · simp only [Prod.mk.injEq] at heq
      obtain ⟨rfl, rfl⟩ := heq
      cases hv with
      | some hr => exact ⟨_, by simp, hr⟩
    · have hne : (x.node.name == ni.node.name) = false := by
        cases hb : (x.node.name == ni.node.name) with
        | false => rfl
        | true =>
          exfalso
          apply hnd.1
          have : x.node.name = ni.node.name := by simpa using hb
          rw [this]
          exact List.mem_map.mpr ⟨(ni, some m), hmem', rfl⟩
      simp only [hne]
      exact ih hnd.2 hmem'

end Eds.Bridge
