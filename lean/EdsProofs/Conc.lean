import EdsModel.Conc
/-
  Helper lemmas about the interleaving model `EdsModel.Conc` (C17).

  * `step_cases`   — the five possible shapes of one step;
  * `Done`         — goroutine `x` exists and has reported (`pc = 3`); monotone along every run;
  * `SafeInv`      — safety invariant valid for EVERY discipline (also the racy one): the shared
                     list is duplicate free and only holds failing goroutines that are done, and
                     the same holds for every snapshot a racy goroutine is about to write back;
  * `SyncInv`      — completeness invariant of the synchronised disciplines: nobody is between the
                     read and the write (`pc ≠ 2`) and every done failing goroutine is in the list;
  * `Le3` / `run_roundRobin_done` — progress of the round-robin schedule.
-/
namespace Eds.Conc

/-! ### shape of a step -/

theorem step_none {d : Discipline} {fails : Nat → Bool} {s : St} {i : Nat}
    (h : s.gs[i]? = none) : step d fails s i = s := by
  simp [step, h]

/-- a step of an existing goroutine either leaves the state alone (`pc ≥ 3`) or replaces the
goroutine and the shared list in one of four ways. -/
theorem step_cases (d : Discipline) (fails : Nat → Bool) {s : St} {i : Nat} {g : G}
    (h : s.gs[i]? = some g) :
    (g.pc = 0 ∧ step d fails s i =
        { gs := s.gs.set i { g with pc := if fails i then 1 else 3 }, shared := s.shared }) ∨
    (g.pc = 1 ∧ d ≠ .racy ∧ step d fails s i =
        { gs := s.gs.set i { g with pc := 3 }, shared := s.shared ++ [i] }) ∨
    (g.pc = 1 ∧ d = .racy ∧ step d fails s i =
        { gs := s.gs.set i { g with pc := 2, snap := s.shared }, shared := s.shared }) ∨
    (g.pc = 2 ∧ step d fails s i =
        { gs := s.gs.set i { g with pc := 3 }, shared := g.snap ++ [i] }) ∨
    (3 ≤ g.pc ∧ step d fails s i = s) := by
  by_cases h0 : g.pc = 0
  · left; simp [step, h, h0, setG]
  · by_cases h1 : g.pc = 1
    · cases d
      · right; left; simp [step, h, h1, setG]
      · right; left; simp [step, h, h1, setG]
      · right; right; left; simp [step, h, h1, setG]
    · by_cases h2 : g.pc = 2
      · right; right; right; left; simp [step, h, h2, setG]
      · right; right; right; right
        refine ⟨by omega, ?_⟩
        simp [step, h, h0, h1, h2]

theorem get_set {gs : List G} {k j : Nat} {g g' x : G} (hk : gs[k]? = some g)
    (h : (gs.set k g')[j]? = some x) : (j = k ∧ x = g') ∨ (j ≠ k ∧ gs[j]? = some x) := by
  by_cases hjk : j = k
  · subst hjk
    have hlt : j < gs.length := (List.getElem?_eq_some_iff.mp hk).1
    rw [List.getElem?_set_self hlt] at h
    left; exact ⟨rfl, (Option.some.inj h).symm⟩
  · right
    rw [List.getElem?_set_ne (fun e => hjk e.symm)] at h
    exact ⟨hjk, h⟩

theorem step_length (d : Discipline) (fails : Nat → Bool) (s : St) (i : Nat) :
    (step d fails s i).gs.length = s.gs.length := by
  cases h : s.gs[i]? with
  | none => rw [step_none h]
  | some g =>
    rcases step_cases d fails h with ⟨_, e⟩ | ⟨_, _, e⟩ | ⟨_, _, e⟩ | ⟨_, e⟩ | ⟨_, e⟩ <;>
      rw [e] <;> simp

theorem run_length (d : Discipline) (fails : Nat → Bool) (sched : List Nat) (s : St) :
    (run d fails sched s).gs.length = s.gs.length := by
  induction sched generalizing s with
  | nil => rfl
  | cons a t ih =>
    show (run d fails t (step d fails s a)).gs.length = _
    rw [ih, step_length]

theorem run_cons (d : Discipline) (fails : Nat → Bool) (a : Nat) (t : List Nat) (s : St) :
    run d fails (a :: t) s = run d fails t (step d fails s a) := rfl

theorem run_append (d : Discipline) (fails : Nat → Bool) (l₁ l₂ : List Nat) (s : St) :
    run d fails (l₁ ++ l₂) s = run d fails l₂ (run d fails l₁ s) := by
  simp [run, List.foldl_append]

/-- a property that holds initially and is preserved by every step holds after every run. -/
theorem run_induction (d : Discipline) (fails : Nat → Bool) (P : St → Prop)
    (hstep : ∀ s i, P s → P (step d fails s i)) (sched : List Nat) (s : St) (h : P s) :
    P (run d fails sched s) := by
  induction sched generalizing s with
  | nil => exact h
  | cons a t ih => exact ih _ (hstep s a h)

theorem init_get {n i : Nat} {g : G} (h : (init n).gs[i]? = some g) : i < n ∧ g = {} := by
  simp only [init, List.getElem?_replicate] at h
  by_cases hi : i < n
  · simp [hi] at h; exact ⟨hi, h.symm⟩
  · simp [hi] at h

/-! ### `Done` -/

/-- goroutine `x` exists and has finished (reported its error, if any). -/
def Done (s : St) (x : Nat) : Prop := ∃ g, s.gs[x]? = some g ∧ g.pc = 3

theorem Done.lt {s : St} {x : Nat} (h : Done s x) : x < s.gs.length := by
  rcases h with ⟨g, hg, _⟩
  exact (List.getElem?_eq_some_iff.mp hg).1

theorem Done.update {s : St} {k x : Nat} {g g' : G} {sh : List Nat}
    (hk : s.gs[k]? = some g) (hpc : g.pc ≠ 3) (h : Done s x) :
    Done { gs := s.gs.set k g', shared := sh } x := by
  rcases h with ⟨gx, hx, hx3⟩
  have hne : k ≠ x := by
    intro e; subst e
    rw [hk] at hx
    exact hpc ((Option.some.inj hx) ▸ hx3)
  exact ⟨gx, by simp only [List.getElem?_set_ne hne]; exact hx, hx3⟩

theorem Done.self {s : St} {k : Nat} {g g' : G} {sh : List Nat}
    (hk : s.gs[k]? = some g) (h3 : g'.pc = 3) :
    Done { gs := s.gs.set k g', shared := sh } k :=
  ⟨g', List.getElem?_set_self (List.getElem?_eq_some_iff.mp hk).1, h3⟩

theorem Done.step {d : Discipline} {fails : Nat → Bool} {s : St} {x : Nat} (k : Nat)
    (h : Done s x) : Done (step d fails s k) x := by
  cases hk : s.gs[k]? with
  | none => rw [step_none hk]; exact h
  | some g =>
    rcases step_cases d fails hk with ⟨p, e⟩ | ⟨p, _, e⟩ | ⟨p, _, e⟩ | ⟨p, e⟩ | ⟨_, e⟩ <;> rw [e]
    · exact h.update hk (by omega)
    · exact h.update hk (by omega)
    · exact h.update hk (by omega)
    · exact h.update hk (by omega)
    · exact h

theorem Done.run {d : Discipline} {fails : Nat → Bool} {s : St} {x : Nat} (sched : List Nat)
    (h : Done s x) : Done (run d fails sched s) x :=
  run_induction d fails (fun s => Done s x) (fun _ i hs => hs.step i) sched s h

/-! ### safety invariant, every discipline -/

structure SafeInv (fails : Nat → Bool) (s : St) : Prop where
  nodup : s.shared.Nodup
  valid : ∀ x ∈ s.shared, Done s x ∧ fails x = true
  fl : ∀ (i : Nat) (g : G), s.gs[i]? = some g → g.pc = 1 ∨ g.pc = 2 → fails i = true
  snap : ∀ (i : Nat) (g : G), s.gs[i]? = some g → g.pc = 2 →
    g.snap.Nodup ∧ ∀ x ∈ g.snap, Done s x ∧ fails x = true

theorem SafeInv.init (fails : Nat → Bool) (n : Nat) : SafeInv fails (init n) where
  nodup := List.nodup_nil
  valid := by intro x hx; cases hx
  fl := by
    intro i g hg hpc
    have := (init_get hg).2; subst this
    rcases hpc with h | h <;> cases h
  snap := by
    intro i g hg hpc
    have := (init_get hg).2; subst this
    cases hpc

/-- generic preservation: replace a not-yet-done goroutine `k` by `g'` and the list by `sh`. -/
theorem SafeInv.update {fails : Nat → Bool} {s : St} {k : Nat} {g g' : G} {sh : List Nat}
    (inv : SafeInv fails s) (hk : s.gs[k]? = some g) (hpc : g.pc ≠ 3)
    (hnd : sh.Nodup)
    (hval : ∀ x ∈ sh, (Done s x ∨ (x = k ∧ g'.pc = 3)) ∧ fails x = true)
    (hfl : g'.pc = 1 ∨ g'.pc = 2 → fails k = true)
    (hsnap : g'.pc = 2 → g'.snap.Nodup ∧ ∀ x ∈ g'.snap, Done s x ∧ fails x = true) :
    SafeInv fails { gs := s.gs.set k g', shared := sh } where
  nodup := hnd
  valid := by
    intro x hx
    rcases hval x hx with ⟨h | ⟨rfl, h3⟩, hf⟩
    · exact ⟨h.update hk hpc, hf⟩
    · exact ⟨Done.self hk h3, hf⟩
  fl := by
    intro i gi hi hp
    rcases get_set hk hi with ⟨rfl, rfl⟩ | ⟨_, hi'⟩
    · exact hfl hp
    · exact inv.fl i gi hi' hp
  snap := by
    intro i gi hi hp
    rcases get_set hk hi with ⟨rfl, rfl⟩ | ⟨_, hi'⟩
    · refine ⟨(hsnap hp).1, fun x hx => ?_⟩
      have := (hsnap hp).2 x hx
      exact ⟨this.1.update hk hpc, this.2⟩
    · refine ⟨(inv.snap i gi hi' hp).1, fun x hx => ?_⟩
      have := (inv.snap i gi hi' hp).2 x hx
      exact ⟨this.1.update hk hpc, this.2⟩

theorem not_done_of_pc {s : St} {k : Nat} {g : G} (hk : s.gs[k]? = some g) (hpc : g.pc ≠ 3) :
    ¬ Done s k := by
  rintro ⟨g', hg', h3⟩
  rw [hk] at hg'
  exact hpc ((Option.some.inj hg') ▸ h3)

theorem SafeInv.step {fails : Nat → Bool} {s : St} (d : Discipline) (k : Nat)
    (inv : SafeInv fails s) : SafeInv fails (step d fails s k) := by
  cases hk : s.gs[k]? with
  | none => rw [step_none hk]; exact inv
  | some g =>
    rcases step_cases d fails hk with ⟨p, e⟩ | ⟨p, _, e⟩ | ⟨p, _, e⟩ | ⟨p, e⟩ | ⟨_, e⟩ <;> rw [e]
    · -- pc 0 → 1 / 3
      refine inv.update hk (by omega) inv.nodup (fun x hx => ?_) ?_ ?_
      · exact ⟨Or.inl (inv.valid x hx).1, (inv.valid x hx).2⟩
      · by_cases hf : fails k = true
        · intro _; exact hf
        · simp [hf]
      · by_cases hf : fails k = true <;> simp [hf]
    · -- pc 1 → 3, synchronised append
      have hfk : fails k = true := inv.fl k g hk (Or.inl p)
      have hnot : k ∉ s.shared := fun hm => not_done_of_pc hk (by omega) (inv.valid k hm).1
      refine inv.update hk (by omega) ?_ (fun x hx => ?_) ?_ ?_
      · refine List.nodup_append.mpr ⟨inv.nodup, by simp, ?_⟩
        intro a ha b hb
        have : b = k := by simpa using hb
        subst this
        intro e; subst e; exact hnot ha
      · rcases List.mem_append.mp hx with hx | hx
        · exact ⟨Or.inl (inv.valid x hx).1, (inv.valid x hx).2⟩
        · have : x = k := by simpa using hx
          subst this
          exact ⟨Or.inr ⟨rfl, rfl⟩, hfk⟩
      · simp
      · simp
    · -- pc 1 → 2, racy read
      have hfk : fails k = true := inv.fl k g hk (Or.inl p)
      refine inv.update hk (by omega) inv.nodup (fun x hx => ?_) (fun _ => hfk) ?_
      · exact ⟨Or.inl (inv.valid x hx).1, (inv.valid x hx).2⟩
      · intro _
        exact ⟨inv.nodup, inv.valid⟩
    · -- pc 2 → 3, write back of the snapshot
      have hfk : fails k = true := inv.fl k g hk (Or.inr p)
      have hs := inv.snap k g hk p
      have hnot : k ∉ g.snap := fun hm => not_done_of_pc hk (by omega) (hs.2 k hm).1
      refine inv.update hk (by omega) ?_ (fun x hx => ?_) ?_ ?_
      · refine List.nodup_append.mpr ⟨hs.1, by simp, ?_⟩
        intro a ha b hb
        have : b = k := by simpa using hb
        subst this
        intro e; subst e; exact hnot ha
      · rcases List.mem_append.mp hx with hx | hx
        · exact ⟨Or.inl (hs.2 x hx).1, (hs.2 x hx).2⟩
        · have : x = k := by simpa using hx
          subst this
          exact ⟨Or.inr ⟨rfl, rfl⟩, hfk⟩
      · simp
      · simp
    · exact inv

theorem SafeInv.run {fails : Nat → Bool} (d : Discipline) (sched : List Nat) (n : Nat) :
    SafeInv fails (run d fails sched (Conc.init n)) :=
  run_induction d fails (SafeInv fails) (fun _ i hs => hs.step d i) sched _ (SafeInv.init fails n)

/-- consequence used by the properties: duplicate free, only failing ids below `n`. -/
theorem safe_run (d : Discipline) (fails : Nat → Bool) (sched : List Nat) (n : Nat) :
    (run d fails sched (init n)).shared.Nodup ∧
    ∀ i ∈ (run d fails sched (init n)).shared, i < n ∧ fails i = true := by
  have inv := SafeInv.run (fails := fails) d sched n
  refine ⟨inv.nodup, fun i hi => ⟨?_, (inv.valid i hi).2⟩⟩
  have := (inv.valid i hi).1.lt
  rw [run_length] at this
  simpa [init] using this

theorem shared_subset_failing (d : Discipline) (fails : Nat → Bool) (sched : List Nat) (n : Nat) :
    (run d fails sched (init n)).shared ⊆ (List.range n).filter fails := by
  intro x hx
  have := (safe_run d fails sched n).2 x hx
  exact List.mem_filter.mpr ⟨List.mem_range.mpr this.1, this.2⟩

theorem shared_length_le (d : Discipline) (fails : Nat → Bool) (sched : List Nat) (n : Nat) :
    (run d fails sched (init n)).shared.length ≤ nFails fails n :=
  (safe_run d fails sched n).1.length_le_of_subset (shared_subset_failing d fails sched n)

/-! ### completeness invariant, synchronised disciplines -/

structure SyncInv (fails : Nat → Bool) (s : St) : Prop where
  no2 : ∀ (i : Nat) (g : G), s.gs[i]? = some g → g.pc ≠ 2
  comp : ∀ (i : Nat) (g : G), s.gs[i]? = some g → g.pc = 3 → fails i = true → i ∈ s.shared

theorem SyncInv.init (fails : Nat → Bool) (n : Nat) : SyncInv fails (init n) where
  no2 := by
    intro i g hg
    have := (init_get hg).2; subst this
    decide
  comp := by
    intro i g hg hpc
    have := (init_get hg).2; subst this
    cases hpc

theorem SyncInv.step {fails : Nat → Bool} {s : St} {d : Discipline} (hd : d ≠ .racy) (k : Nat)
    (inv : SyncInv fails s) : SyncInv fails (step d fails s k) := by
  cases hk : s.gs[k]? with
  | none => rw [step_none hk]; exact inv
  | some g =>
    rcases step_cases d fails hk with ⟨p, e⟩ | ⟨p, _, e⟩ | ⟨p, hr, e⟩ | ⟨p, e⟩ | ⟨_, e⟩
    · rw [e]
      constructor
      · intro i gi hi
        rcases get_set hk hi with ⟨rfl, rfl⟩ | ⟨_, hi'⟩
        · by_cases hf : fails i = true <;> simp [hf]
        · exact inv.no2 i gi hi'
      · intro i gi hi h3 hf
        rcases get_set hk hi with ⟨rfl, rfl⟩ | ⟨_, hi'⟩
        · simp [hf] at h3
        · exact inv.comp i gi hi' h3 hf
    · rw [e]
      constructor
      · intro i gi hi
        rcases get_set hk hi with ⟨rfl, rfl⟩ | ⟨_, hi'⟩
        · simp
        · exact inv.no2 i gi hi'
      · intro i gi hi h3 hf
        rcases get_set hk hi with ⟨rfl, rfl⟩ | ⟨_, hi'⟩
        · simp
        · exact List.mem_append.mpr (Or.inl (inv.comp i gi hi' h3 hf))
    · exact absurd hr hd
    · exact absurd p (inv.no2 k g hk)
    · rw [e]; exact inv

theorem SyncInv.run {fails : Nat → Bool} {d : Discipline} (hd : d ≠ .racy) (sched : List Nat)
    (n : Nat) : SyncInv fails (run d fails sched (Conc.init n)) :=
  run_induction d fails (SyncInv fails) (fun _ i hs => hs.step hd i) sched _ (SyncInv.init fails n)

theorem finished_get {s : St} (h : finished s = true) {i : Nat} (hi : i < s.gs.length) :
    ∃ g, s.gs[i]? = some g ∧ g.pc = 3 := by
  refine ⟨s.gs[i], List.getElem?_eq_getElem hi, ?_⟩
  have := List.all_eq_true.mp h s.gs[i] (List.getElem_mem hi)
  simpa using this

/-- fan-in completeness of a synchronised discipline. -/
theorem sync_complete {d : Discipline} (hd : d ≠ .racy) (fails : Nat → Bool) (sched : List Nat)
    (n : Nat) (hfin : finished (run d fails sched (init n)) = true) :
    (run d fails sched (init n)).shared.Perm ((List.range n).filter fails) := by
  have hnd : ((List.range n).filter fails).Nodup :=
    List.Nodup.sublist List.filter_sublist List.nodup_range
  refine (List.perm_ext_iff_of_nodup (safe_run d fails sched n).1 hnd).mpr (fun x => ⟨?_, ?_⟩)
  · exact fun hx => shared_subset_failing d fails sched n hx
  · intro hx
    rcases List.mem_filter.mp hx with ⟨hr, hf⟩
    have hlt : x < (run d fails sched (init n)).gs.length := by
      rw [run_length]; simpa [init] using List.mem_range.mp hr
    rcases finished_get hfin hlt with ⟨g, hg, h3⟩
    exact (SyncInv.run (fails := fails) hd sched n).comp x g hg h3 hf

/-! ### progress of the round-robin schedule -/

/-- every goroutine has a legal program counter. -/
def Le3 (s : St) : Prop := ∀ (i : Nat) (g : G), s.gs[i]? = some g → g.pc ≤ 3

theorem Le3.init (n : Nat) : Le3 (init n) := by
  unfold Le3
  intro i g hg
  have := (init_get hg).2; subst this
  decide

theorem Le3.step {s : St} (d : Discipline) (fails : Nat → Bool) (k : Nat) (h : Le3 s) :
    Le3 (step d fails s k) := by
  cases hk : s.gs[k]? with
  | none => rw [step_none hk]; exact h
  | some g =>
    rcases step_cases d fails hk with ⟨p, e⟩ | ⟨p, _, e⟩ | ⟨p, _, e⟩ | ⟨p, e⟩ | ⟨_, e⟩ <;> rw [e] <;>
      unfold Le3
    · intro i gi hi
      rcases get_set hk hi with ⟨rfl, rfl⟩ | ⟨_, hi'⟩
      · by_cases hf : fails i = true <;> simp [hf]
      · exact h i gi hi'
    · intro i gi hi
      rcases get_set hk hi with ⟨rfl, rfl⟩ | ⟨_, hi'⟩
      · simp
      · exact h i gi hi'
    · intro i gi hi
      rcases get_set hk hi with ⟨rfl, rfl⟩ | ⟨_, hi'⟩
      · simp
      · exact h i gi hi'
    · intro i gi hi
      rcases get_set hk hi with ⟨rfl, rfl⟩ | ⟨_, hi'⟩
      · simp
      · exact h i gi hi'
    · exact h

/-- one step of goroutine `k` strictly advances its program counter until it reaches 3. -/
theorem step_advance (d : Discipline) (fails : Nat → Bool) {s : St} {k : Nat} {g : G}
    (hk : s.gs[k]? = some g) (hle : g.pc ≤ 3) :
    ∃ g', (step d fails s k).gs[k]? = some g' ∧ g'.pc ≤ 3 ∧ min 3 (g.pc + 1) ≤ g'.pc := by
  have hlt : k < s.gs.length := (List.getElem?_eq_some_iff.mp hk).1
  rcases step_cases d fails hk with ⟨p, e⟩ | ⟨p, _, e⟩ | ⟨p, _, e⟩ | ⟨p, e⟩ | ⟨p, e⟩ <;> rw [e]
  · refine ⟨_, List.getElem?_set_self hlt, ?_⟩
    by_cases hf : fails k = true <;> simp [hf, p]
  · refine ⟨_, List.getElem?_set_self hlt, ?_⟩
    simp [p]
  · refine ⟨_, List.getElem?_set_self hlt, ?_⟩
    simp [p]
  · refine ⟨_, List.getElem?_set_self hlt, ?_⟩
    simp [p]
  · exact ⟨g, hk, hle, by omega⟩

theorem three_steps_done (d : Discipline) (fails : Nat → Bool) {s : St} {k : Nat}
    (hle : Le3 s) (hk : k < s.gs.length) : Done (run d fails [k, k, k] s) k := by
  have h0 := List.getElem?_eq_getElem hk
  rcases step_advance d fails h0 (hle _ _ h0) with ⟨g1, h1, l1, a1⟩
  rcases step_advance d fails h1 l1 with ⟨g2, h2, l2, a2⟩
  rcases step_advance d fails h2 l2 with ⟨g3, h3, l3, a3⟩
  exact ⟨g3, h3, by omega⟩

theorem Le3.run {s : St} (d : Discipline) (fails : Nat → Bool) (sched : List Nat) (h : Le3 s) :
    Le3 (run d fails sched s) :=
  run_induction d fails Le3 (fun _ i hs => hs.step d fails i) sched s h

theorem run_roundRobin_done (d : Discipline) (fails : Nat → Bool) (l : List Nat) (s : St)
    (hle : Le3 s) :
    ∀ i ∈ l, i < s.gs.length → Done (run d fails (l.flatMap (fun i => [i, i, i])) s) i := by
  induction l generalizing s with
  | nil => intro i hi; cases hi
  | cons a t ih =>
    intro i hi hlt
    rw [List.flatMap_cons, run_append]
    rcases List.mem_cons.mp hi with rfl | hi
    · exact (three_steps_done d fails hle hlt).run _
    · exact ih _ (hle.run d fails _) i hi (by rw [run_length]; exact hlt)

theorem roundRobin_finished (d : Discipline) (fails : Nat → Bool) (n : Nat) :
    finished (run d fails ((List.range n).flatMap (fun i => [i, i, i])) (init n)) = true := by
  apply List.all_eq_true.mpr
  intro g hg
  rcases List.mem_iff_getElem?.mp hg with ⟨i, hi⟩
  have hlt : i < (init n).gs.length := by
    have := (List.getElem?_eq_some_iff.mp hi).1
    rwa [run_length] at this
  have hmem : i ∈ List.range n := by
    apply List.mem_range.mpr; simpa [init] using hlt
  rcases run_roundRobin_done d fails (List.range n) (init n) (Le3.init n) i hmem hlt with
    ⟨g', hg', h3⟩
  rw [hi] at hg'
  have : g = g' := Option.some.inj hg'
  subst this
  simp [h3]

end Eds.Conc
