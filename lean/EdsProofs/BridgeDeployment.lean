import EdsModel.Generated.DecDeployment
import EdsProofs.BridgeDropCanary
import EdsProofs.BridgeRolling
import EdsProofs.BridgeSlowStart
import EdsProofs.BridgeCanary
import EdsProofs.LimitsBridge
import EdsProofs.GoSort
/-
  EdsProofs.BridgeDeployment — `ManageDeployment` (strategy/rollingupdate.go), translated AS A WHOLE on every run
  (EdsModel/Generated/DecDeployment.lean), is *equal* to the model's `manageDeployment` (EdsModel/Rolling.lean), the function
  the theorems C03 / C08 / C09 / C02 are stated about: `src_manageDeployment`.

  What the translation covers: the three condition updates through `params.NewStatus`, the deletion of the canary nodes
  from the Go map `PodByNodeName`, the three percentage resolutions, the classification loop (iteration over the map), the
  slow-start ramp (`getRollingUpdateStartTime`, `calculateMaxCreation`: group SlowStart), the limits kernel
  (`Generated/Limits.lean`), the `min` with the candidate counts, the stable sort of the deletion candidates
  (`sort.SliceStable`, mapped to `Go.stableSortBy` = `List.mergeSort`, its comparator translated), the two slicings
  `xs[:n]` (`Go.sliceTo`: `none` = out of range), the paused / frozen gates, the status counters,
  `manageUnscheduledPodNodes`, `cleanupPods` (translated too: the `PodsCleanupDone` condition), the requeue flag and the
  five-minute window of the canary-label clean-up.  Logging and the metric update have no effect on the translated state
  (their arguments are still evaluated for their dereferences).

  What is NOT translated — the API steps, each an opaque, effect-free step whose result is a parameter of the translated
  function (universally quantified here):
    * `deletePodSlice(client, logger, pods)` inside `cleanupPods` (goroutines, `client.Delete`): `errs : List (Option String)`,
      the errors it returns.  Assumed: it returns normally and assigns nothing through its arguments;
    * the statement `if err = client.List(…); err != nil { … } else { for … { deletePodLabel(…) … } }` of the canary-label
      clean-up: `apiErr : Option String` = the value of `err` after it, `apiRq : Bool` = the value of
      `result.Result.Requeue` after it — the only two paths of the translated state the statement assigns.  Assumed: it
      returns normally and changes nothing else (the translator refuses a step that declares locals, returns, assigns
      through an undereferenced pointer, or passes translated state by reference to a call).
  The model's `manageDeployment` takes `cleanupFailed` = some `client.Delete` of the clean-up failed = `!errs.isEmpty`, and
  leaves the label clean-up to `reconcileErs`; `deployOut` says how the two API parameters enter the result.

  Clock: two reads per iteration of the classification loop (`HasPodSchedulerIssue`, functions of the iteration index,
  assumed constant = `wall`), `time.Now()` of `cleanupPods` (= the model's `wall`), `time.Since(start)` of the label window
  (`w4`, free).

  Association lists: `MapsRel` (what `FilterAndMapPodsByNode` builds) and `KeysNodup` — a Go map has one entry per key; the
  association list must say so for `len(params.PodByNodeName)` and for the comparator's lookups
  `params.PodByNodeName[allPodToDelete[i]]` to find the entry the candidate came from.

  No difference between the hand model and the code was found.
-/
set_option linter.unusedSimpArgs false
set_option linter.unusedVariables false
namespace Eds.Bridge
open Eds

/-! ### `cleanupPods` -/

theorem src_cleanupPods (st : ERSStatus) (pods : List (Option GPod)) (wall : Time) (errs : List (Option String)) :
    Generated.Decisions.cleanupPods (some st) pods wall errs =
      some (Go.newAggregate errs,
            some (if pods.isEmpty then st else
              { st with conds := updateCond st.conds wall "PodsCleanupDone" (boolCond errs.isEmpty) "" "" true false })) := by
  unfold Generated.Decisions.cleanupPods
  cases pods with
  | nil => simp
  | cons g gs =>
    have h0 : ¬ ((gs.length : Int) + 1 = 0) := by omega
    cases errs with
    | nil => simp [h0, src_updateERSCondition, boolCond]
    | cons e es =>
      have h2 : (0 : Int) < (es.length : Int) + 1 := by omega
      simp [h0, h2, src_updateERSCondition, boolCond]

/-! ### the two loops of `ManageDeployment` -/

/-- the result type of the translated `ManageDeployment`: `(*Result, error)` and `params` as the caller sees it
afterwards. -/
abbrev DeployOut := Option (Option GResult × Option String × Option GParams)

/-- the loop over `params.CanaryNodes`: the deletions, in order (`dropCanaryPB`). -/
theorem deploy_dropLoop (k : GParams → DeployOut) (names : List String) (i : Int) (P : GParams) :
    Generated.Decisions.manageDeployment.loop1 k names i P =
      k { P with podByNodeName := dropCanaryPB P.nodeByName names P.podByNodeName } := by
  induction names generalizing i P with
  | nil => rfl
  | cons n ns ih =>
    simp only [Generated.Decisions.manageDeployment.loop1]
    rw [ih]
    rfl

abbrev ClassifyK := List (Option NodeItem) → List (Option NodeItem) → Int → Int → Int → Int → Int → Int → Int → Int → Int →
  DeployOut

/-- one iteration of the classification loop inside the whole function is the model's `countStep` / `delStep` (the same
statement as `classify_cons` for the fragment; the loop body is the same source text, its continuation differs). -/
theorem deploy_classify_cons (metaNow : Int) (P : GParams) (rs : ERS) (hrs : P.replicaset = some rs) (nilSlice : Bool)
    (w1 w2 : Int → Int) (wall : Time) (hw1 : ∀ i, w1 i = wall) (hw2 : ∀ i, w2 i = wall) (k : ClassifyK)
    (ni : NodeItem) (go : Option GPod) (mo : Option Pod) (hv : OptPodRel go mo)
    (rest : List (Option NodeItem × Option GPod)) (i : Int) (c : Counts) (d : List (NodeItem × Pod)) :
    Generated.Decisions.manageDeployment.loop2 metaNow P nilSlice w1 w2 k ((some ni, go) :: rest) i
        (c.toCreate.map some) (d.map fun e => some e.1) c.allPods c.available c.created c.desired c.stuck c.oldAvailable
        c.oldUnavailable c.terminating c.ready =
      Generated.Decisions.manageDeployment.loop2 metaNow P nilSlice w1 w2 k rest (i + 1)
        ((countStep rs.templateGeneration wall c (ni, mo)).toCreate.map some)
        ((delStep rs.templateGeneration wall d (ni, mo)).map fun e => some e.1)
        (countStep rs.templateGeneration wall c (ni, mo)).allPods (countStep rs.templateGeneration wall c (ni, mo)).available
        (countStep rs.templateGeneration wall c (ni, mo)).created (countStep rs.templateGeneration wall c (ni, mo)).desired
        (countStep rs.templateGeneration wall c (ni, mo)).stuck (countStep rs.templateGeneration wall c (ni, mo)).oldAvailable
        (countStep rs.templateGeneration wall c (ni, mo)).oldUnavailable
        (countStep rs.templateGeneration wall c (ni, mo)).terminating (countStep rs.templateGeneration wall c (ni, mo)).ready := by
  simp only [Generated.Decisions.manageDeployment.loop2]
  cases hv with
  | none => simp [countStep, delStep]
  | @some g m hr =>
    simp only [Option.isNone_some, Bool.false_eq_true, if_false, hw1, hw2,
      src_hasPodSchedulerIssue g m wall hr.rel.nodeName hr.rel.creation hr.deletion hr.gracePeriod, Option.bind_some,
      src_compareCurrentPodWithNewPod P rs hrs g m ni hr, src_isPodAvailable g m hr.rel.conds,
      src_isPodReady g m hr.rel.conds, hr.deletion.symm]
    cases hsi : m.schedulerIssue wall <;> cases hcmp : comparePod rs.templateGeneration m ni <;>
      cases hdel : m.deletion <;> cases hav : m.available <;> cases hrd : m.ready <;>
      simp [countStep, delStep, classify, hsi, hcmp, hdel, hav, hrd]

theorem deploy_classifyLoop (metaNow : Int) (P : GParams) (rs : ERS) (hrs : P.replicaset = some rs) (nilSlice : Bool)
    (w1 w2 : Int → Int) (wall : Time) (hw1 : ∀ i, w1 i = wall) (hw2 : ∀ i, w2 i = wall) (k : ClassifyK)
    (PB : List (Option NodeItem × Option GPod)) (es : List (NodeItem × Option Pod)) (hrel : EntriesRel PB es)
    (i : Int) (c : Counts) (d : List (NodeItem × Pod)) :
    Generated.Decisions.manageDeployment.loop2 metaNow P nilSlice w1 w2 k PB i
        (c.toCreate.map some) (d.map fun e => some e.1) c.allPods c.available c.created c.desired c.stuck c.oldAvailable
        c.oldUnavailable c.terminating c.ready =
      k ((es.foldl (countStep rs.templateGeneration wall) c).toCreate.map some)
        ((es.foldl (delStep rs.templateGeneration wall) d).map fun e => some e.1)
        (es.foldl (countStep rs.templateGeneration wall) c).allPods (es.foldl (countStep rs.templateGeneration wall) c).available
        (es.foldl (countStep rs.templateGeneration wall) c).created (es.foldl (countStep rs.templateGeneration wall) c).desired
        (es.foldl (countStep rs.templateGeneration wall) c).stuck (es.foldl (countStep rs.templateGeneration wall) c).oldAvailable
        (es.foldl (countStep rs.templateGeneration wall) c).oldUnavailable
        (es.foldl (countStep rs.templateGeneration wall) c).terminating (es.foldl (countStep rs.templateGeneration wall) c).ready := by
  induction hrel generalizing i c d with
  | nil => simp [Generated.Decisions.manageDeployment.loop2]
  | @cons ni go mo PB es hv _ ih =>
    rw [deploy_classify_cons metaNow P rs hrs nilSlice w1 w2 wall hw1 hw2 k ni go mo hv PB i c d, ih]
    simp

/-! ### the stable sort of the deletion candidates -/

theorem delStep_mem (tg : String) (wall : Time) (es : List (NodeItem × Option Pod)) :
    ∀ (d : List (NodeItem × Pod)) (all : List (NodeItem × Option Pod)),
      (∀ x ∈ d, (x.1, some x.2) ∈ all) → (∀ e ∈ es, e ∈ all) →
      ∀ x ∈ es.foldl (delStep tg wall) d, (x.1, some x.2) ∈ all := by
  induction es with
  | nil => intro d all hd _ x hx; exact hd x hx
  | cons e es ih =>
    intro d all hd hes
    simp only [List.foldl_cons]
    apply ih
    · intro x hx
      rcases e with ⟨ni, mo⟩
      cases mo with
      | none => exact hd x (by simpa [delStep] using hx)
      | some m =>
        unfold delStep at hx
        simp only [] at hx
        split at hx
        · rcases List.mem_append.mp hx with h | h
          · exact hd x h
          · simp only [List.mem_singleton] at h
            subst h
            exact hes _ List.mem_cons_self
        · exact hd x hx
    · intro e' he'
      exact hes e' (List.mem_cons_of_mem _ he')

/-- every deletion candidate is an entry of the map with its pod. -/
theorem delOrder_mem (tg : String) (wall : Time) (es : List (NodeItem × Option Pod)) :
    ∀ x ∈ delOrder tg wall es, (x.1, some x.2) ∈ es :=
  delStep_mem tg wall es [] es (by intro x hx; cases hx) (fun e he => he)

/-- **`sort.SliceStable(allPodToDelete, less)`** with the comparator of `ManageDeployment`,
`!IsPodAvailable(PodByNodeName[xs[i]]) && IsPodAvailable(PodByNodeName[xs[j]])`, on the deletion candidates in iteration
order: the comparator never panics on them (every candidate has a pod in the map), it is the two-class comparator of
availability, and the sorted slice is the model's `toDeleteUnavail ++ toDeleteAvail`.  Needs the keys of the map
distinct (`KeysNodup`: the lookup `PodByNodeName[node]` must find the entry the candidate came from). -/
theorem src_sortDeleteCandidates (PB : List (Option NodeItem × Option GPod)) (es : List (NodeItem × Option Pod))
    (hrel : EntriesRel PB es) (hnd : KeysNodup es) (tg : String) (wall now : Time) (nilSlice : Bool) :
    Go.stableSortBy (fun a b =>
        Option.bind (Generated.Decisions.isPodAvailable (Go.mapGetD Go.nodeItemKey PB a none) 0 now nilSlice) fun r38 =>
        Option.bind (if (!r38) then (Option.bind (Generated.Decisions.isPodAvailable (Go.mapGetD Go.nodeItemKey PB b none) 0 now nilSlice) fun r39 =>
          some r39) else some false) fun c40 =>
        some c40)
      ((delOrder tg wall es).map fun e => some e.1) =
    some (((countAll tg wall es).toDeleteUnavail ++ (countAll tg wall es).toDeleteAvail).map fun e => some e.1) := by
  let key : Option NodeItem → Bool := fun a =>
    (Generated.Decisions.isPodAvailable (Go.mapGetD Go.nodeItemKey PB a none) 0 now nilSlice).getD false
  have hkey : ∀ e ∈ delOrder tg wall es,
      Generated.Decisions.isPodAvailable (Go.mapGetD Go.nodeItemKey PB (some e.1) none) 0 now nilSlice = some e.2.available := by
    intro e he
    obtain ⟨g, hg, hr⟩ := lookup_entry hrel hnd e.1 e.2 (delOrder_mem tg wall es e he)
    rw [hg, src_isPodAvailable g e.2 hr.rel.conds]
  rw [Go.stableSortBy_twoClass _ key]
  · obtain ⟨h1, h2⟩ := src_delOrder_partition tg wall es
    rw [← h1, ← h2, List.map_append, List.filter_map, List.filter_map]
    congr 2
    · congr 1
      apply List.filter_congr
      intro e he
      simp only [Function.comp, key, hkey e he, Option.getD_some]
    · congr 1
      apply List.filter_congr
      intro e he
      simp only [Function.comp, key, hkey e he, Option.getD_some]
  · intro a ha b hb
    obtain ⟨ea, hea, rfl⟩ := List.mem_map.mp ha
    obtain ⟨eb, heb, rfl⟩ := List.mem_map.mp hb
    simp only [key, hkey ea hea, hkey eb heb, Option.bind_some, Option.getD_some]
    cases ea.2.available <;> simp

/-- the loop started from the values `ManageDeployment` initialises. -/
theorem deploy_classifyLoop0 {metaNow : Int} {P : GParams} {rs : ERS} {nilSlice : Bool} {w1 w2 : Int → Int} {wall : Time}
    (hw1 : ∀ i, w1 i = wall) (hw2 : ∀ i, w2 i = wall) {k : ClassifyK}
    {PB : List (Option NodeItem × Option GPod)} {es : List (NodeItem × Option Pod)} (hrel : EntriesRel PB es)
    (hrs : P.replicaset = some rs) :
    Generated.Decisions.manageDeployment.loop2 metaNow P nilSlice w1 w2 k PB 0 [] [] 0 0 0 0 0 0 0 0 0 =
      k ((countAll rs.templateGeneration wall es).toCreate.map some)
        ((delOrder rs.templateGeneration wall es).map fun e => some e.1)
        (countAll rs.templateGeneration wall es).allPods (countAll rs.templateGeneration wall es).available
        (countAll rs.templateGeneration wall es).created (countAll rs.templateGeneration wall es).desired
        (countAll rs.templateGeneration wall es).stuck (countAll rs.templateGeneration wall es).oldAvailable
        (countAll rs.templateGeneration wall es).oldUnavailable (countAll rs.templateGeneration wall es).terminating
        (countAll rs.templateGeneration wall es).ready := by
  have := deploy_classifyLoop metaNow P rs hrs nilSlice w1 w2 wall hw1 hw2 k PB es hrel 0 {} []
  simp only [List.map_nil] at this
  exact this

theorem entries_length {PB : List (Option NodeItem × Option GPod)} {es : List (NodeItem × Option Pod)}
    (h : EntriesRel PB es) : PB.length = es.length := by
  induction h with
  | nil => rfl
  | cons _ _ ih => simp [ih]

/-- `xs[:min(n, len(xs))]` for a non-negative `n` never panics. -/
theorem sliceTo_min {α : Type} (xs : List α) (n : Int) (h : 0 ≤ n) :
    Go.sliceTo xs (min n (xs.length : Int)) = some (xs.take (min n (xs.length : Int)).toNat) := by
  unfold Go.sliceTo
  have : 0 ≤ min n (xs.length : Int) ∧ min n (xs.length : Int) ≤ (xs.length : Int) := by omega
  simp [this]

theorem sliceTo_min_map {α β : Type} (f : α → β) (l : List α) (n : Int) (h : 0 ≤ n) :
    Go.sliceTo (l.map f) (min n (l.length : Int)) = some ((l.take (min n (l.length : Int)).toNat).map f) := by
  have := sliceTo_min (l.map f) n h
  rw [List.length_map] at this
  rw [this, List.map_take]

/-- the parameters `ManageDeployment` passes to `limits.CalculatePodToCreateAndDelete`. -/
abbrev limOf (nbNodes : Int) (c : Counts) (maxCreation maxUnavailable maxSched : Int) : LimitParams :=
  { nbNodes := nbNodes, nbPods := c.allPods, nbAvailablesPod := c.available, nbOldAvailablesPod := c.oldAvailable,
    nbCreatedPod := c.created, nbUnresponsiveNodes := c.stuck, nbOldUnavailablePods := c.oldUnavailable,
    maxPodCreation := maxCreation, maxUnavailablePod := maxUnavailable, maxUnschedulablePod := maxSched }

theorem calcLimits_nonneg (q : LimitParams) : 0 ≤ (calcLimits q).1 ∧ 0 ≤ (calcLimits q).2 := by
  unfold calcLimits
  simp only []
  omega

theorem delOrder_length (tg : String) (wall : Time) (es : List (NodeItem × Option Pod)) :
    (delOrder tg wall es).length =
      ((countAll tg wall es).toDeleteUnavail ++ (countAll tg wall es).toDeleteAvail).length := by
  obtain ⟨h1, h2⟩ := src_delOrder_partition tg wall es
  rw [← h1, ← h2, List.length_append]
  generalize delOrder tg wall es = l
  induction l with
  | nil => rfl
  | cons x l ih =>
    simp only [List.filter_cons, List.length_cons]
    cases x.2.available <;> simp <;> omega

/-! ### `ManageDeployment` -/

/-- what `ManageDeployment` leaves in `params`: the three conditions updated in `params.NewStatus` (in place, before
anything can fail), the canary nodes deleted from `params.PodByNodeName`. -/
def paramsAfterDeploy (P : GParams) (p : StratParams) (now : Time) : GParams :=
  { P with newStatus := some { p.newStatus with conds := rollingConds p now },
           podByNodeName := dropCanaryPB P.nodeByName P.canaryNodes P.podByNodeName }

/-- the canary-label clean-up runs during the first five minutes of the rolling update (`time.Since(start) <
cleanCanaryLabelsThreshold`, `w4` = that read of the clock). -/
def labelWindow (p : StratParams) (now w4 : Time) : Bool :=
  decide (w4 - rollingUpdateStartTime p.ers.status now < 5 * minute)

/-- how the model's outcome reads on the Go side.  `.err`: the early `return result, err` (a rolling-update parameter that
does not parse) — the flags only, no status.  `.ok r`: the model's result; inside the label window the API step of the
clean-up leaves `apiErr` in `err` and `apiRq` in `result.Result.Requeue`, outside it `err` is what `cleanupPods`
returned. -/
def deployOut (P : GParams) (p : StratParams) (now w4 : Time) (errs : List (Option String)) (apiErr : Option String)
    (apiRq : Bool) : Outcome StratResult → DeployOut
  | .panic => none
  | .err _ =>
    some (some (stratResultOf { isPaused := isRollingUpdatePaused p.edsAnnotations,
                                isFrozen := isRolloutFrozen p.edsAnnotations }),
          some "invalid value for IntOrString", some (paramsAfterDeploy P p now))
  | .ok r =>
    some (some { stratResultOf r with
                 result := { requeue := if labelWindow p now w4 then apiRq else r.requeue, requeueAfter := 0 } },
          if labelWindow p now w4 then apiErr else Go.newAggregate errs,
          some (paramsAfterDeploy P p now))

theorem src_manageDeployment (D : GEds) (P : GParams) (p : StratParams)
    (hA : D.annotations = p.edsAnnotations) (hS : P.strategy = some p.strategy) (hN : P.newStatus = some p.newStatus)
    (hR : P.replicaset = some p.ers) (hC : P.canaryNodes = p.canaryNodes)
    (hm : MapsRel P.nodeByName P.podByNodeName p.byNode) (hnd : KeysNodup p.byNode)
    (gsU : List GPod) (hU : P.unscheduledPods = gsU.map some) (hUrel : PodsRel gsU p.unscheduled)
    (hCl : P.podToCleanUp.isEmpty = p.toCleanUp.isEmpty)
    (now : Time) (nilSlice : Bool) (w1 w2 : Int → Int) (wall : Time) (hw1 : ∀ i, w1 i = wall) (hw2 : ∀ i, w2 i = wall)
    (w4 : Time) (errs : List (Option String)) (apiErr : Option String) (apiRq : Bool) :
    Generated.Decisions.manageDeployment (some D) (some P) now nilSlice w1 w2 wall w4 errs apiErr apiRq =
      deployOut P p now w4 errs apiErr apiRq (Eds.manageDeployment p now wall (!errs.isEmpty)) := by
  rcases P with ⟨strat, ns, edsName, rsO, cn, NB, PB, clean, unsched, role⟩
  simp only at hS hN hR hC hm hU hCl
  subst hS hN hR hC hU
  have hrel := dropCanary_of_maps hm p.canaryNodes
  have hnd' := dropCanary_nodup hnd p.canaryNodes
  unfold Generated.Decisions.manageDeployment
  simp only [Option.bind_some, src_isRollingUpdatePaused, src_isRolloutFrozen, src_boolToCondition,
    src_updateERSCondition]
  rw [deploy_dropLoop]
  unfold Eds.manageDeployment deployOut paramsAfterDeploy rollingConds isRollingUpdatePaused isRolloutFrozen
  simp only [hA]
  generalize hPB : dropCanaryPB NB p.canaryNodes PB = PB' at hrel ⊢
  generalize hes : dropCanaryNodes p.byNode p.canaryNodes = es at hrel hnd' ⊢
  generalize hconds : updateCond (updateCond (updateCond p.newStatus.conds now "RollingUpdatePaused"
      (boolCond (SMap.getD p.edsAnnotations K.rollingUpdatePausedAnnot == "true")) "" "" false false) now "RolloutFrozen"
      (boolCond (SMap.getD p.edsAnnotations K.rolloutFrozenAnnot == "true")) "" "" false false) now "Active"
      (boolCond (!(SMap.getD p.edsAnnotations K.rollingUpdatePausedAnnot == "true") &&
        !(SMap.getD p.edsAnnotations K.rolloutFrozenAnnot == "true"))) "" "" false false = conds
  generalize hpa : (SMap.getD p.edsAnnotations K.rollingUpdatePausedAnnot == "true") = paused
  generalize hfr : (SMap.getD p.edsAnnotations K.rolloutFrozenAnnot == "true") = frozen
  have hlen : (Int.ofNat PB'.length) = (es.length : Int) := by rw [entries_length hrel]; rfl
  simp only [Option.bind_some, hlen, Go.valueFromIntOrPercent]
  cases hmsf : resolveIntOrPercent p.strategy.rollingUpdate.maxPodSchedulerFailure (es.length : Int) with
  | none => simp [stratResultOf]
  | some maxSched =>
    simp only [Option.isSome_none, Bool.false_eq_true, if_false]
    rw [deploy_classifyLoop0 (rs := p.ers) (wall := wall) hw1 hw2 hrel rfl]
    cases hmu : resolveIntOrPercent p.strategy.rollingUpdate.maxUnavailable (es.length : Int) with
    | none => simp [stratResultOf]
    | some maxUnavailable =>
      simp only [Option.isSome_none, Bool.false_eq_true, if_false, src_rollingUpdateStartTime, Option.bind_some,
        src_calculateMaxCreation]
      cases hmc : Eds.calculateMaxCreation p.strategy.rollingUpdate.slowStartAdditiveIncrease
          p.strategy.rollingUpdate.slowStartInterval p.strategy.rollingUpdate.maxParallelPodCreation (es.length : Int)
          (rollingUpdateStartTime p.ers.status now) now with
      | panic => simp [maxCreationOut]
      | err m => simp [maxCreationOut, stratResultOf]
      | ok maxCreation =>
        simp only [maxCreationOut, Option.bind_some, Option.isSome_none, Bool.false_eq_true, if_false]
        rw [src_sortDeleteCandidates PB' es hrel hnd' p.ers.templateGeneration wall now nilSlice]
        simp only [Option.bind_some, List.length_map, delOrder_length, Int.ofNat_eq_natCast, rollingPlan]
        generalize hc : countAll p.ers.templateGeneration wall es = c
        have hlim := limits_bridge (limOf (es.length : Int) c maxCreation maxUnavailable maxSched)
        simp only [toGen, limOf] at hlim
        rw [hlim]
        obtain ⟨hn1, hn2⟩ := calcLimits_nonneg (limOf (es.length : Int) c maxCreation maxUnavailable maxSched)
        generalize hL : calcLimits (limOf (es.length : Int) c maxCreation maxUnavailable maxSched) = lim at hn1 hn2 ⊢
        rw [sliceTo_min_map _ _ _ hn2, sliceTo_min_map _ _ _ hn1,
          src_manageUnscheduledPodNodes gsU p.unscheduled hUrel nilSlice]
        simp only [Option.bind_some, src_cleanupPods]
        rw [hCl]
        cases paused <;> cases frozen <;> cases hce : p.toCleanUp.isEmpty <;>
          cases hwin : decide (w4 - rollingUpdateStartTime p.ers.status now < 5 * minute) <;>
          cases hdr : (c.desired != c.ready) <;>
          simp [stratResultOf, labelWindow, hce, hwin, hdr]

/-- the hypotheses of `src_manageDeployment`, bundled: what the model's `StratParams` stand for on the Go side.
`params = &P` with non-nil `Strategy`, `NewStatus`, `Replicaset`; the annotations of the daemonset; the canary node names;
the two maps (`MapsRel`: any content, any order) with distinct keys (a Go map has one entry per key); non-nil unscheduled
pods whose canonical forms are the model's; of `PodToCleanUp` only the emptiness is read by the translated code (its pods
are read by `deletePodSlice`, an API step). -/
structure DeployRel (D : GEds) (P : GParams) (p : StratParams) : Prop where
  ann : D.annotations = p.edsAnnotations
  strategy : P.strategy = some p.strategy
  newStatus : P.newStatus = some p.newStatus
  replicaset : P.replicaset = some p.ers
  canaryNodes : P.canaryNodes = p.canaryNodes
  maps : MapsRel P.nodeByName P.podByNodeName p.byNode
  nodup : KeysNodup p.byNode
  unscheduled : ∃ gsU, P.unscheduledPods = gsU.map some ∧ PodsRel gsU p.unscheduled
  cleanup : P.podToCleanUp.isEmpty = p.toCleanUp.isEmpty

theorem src_manageDeployment_rel {D : GEds} {P : GParams} {p : StratParams} (h : DeployRel D P p)
    (now : Time) (nilSlice : Bool) {w1 w2 : Int → Int} {wall : Time} (hw1 : ∀ i, w1 i = wall) (hw2 : ∀ i, w2 i = wall)
    (w4 : Time) (errs : List (Option String)) (apiErr : Option String) (apiRq : Bool) :
    Generated.Decisions.manageDeployment (some D) (some P) now nilSlice w1 w2 wall w4 errs apiErr apiRq =
      deployOut P p now w4 errs apiErr apiRq (Eds.manageDeployment p now wall (!errs.isEmpty)) := by
  obtain ⟨gsU, hU, hUrel⟩ := h.unscheduled
  exact src_manageDeployment D P p h.ann h.strategy h.newStatus h.replicaset h.canaryNodes h.maps h.nodup gsU hU hUrel
    h.cleanup now nilSlice w1 w2 wall hw1 hw2 w4 errs apiErr apiRq

/-- under these hypotheses the translated function panics exactly when the model does: a nil `SlowStartIntervalDuration`
or `MaxParallelPodCreation` (`calculateMaxCreation`) — never in the sort, the two slicings, the status writes. -/
theorem src_manageDeployment_panics_iff {D : GEds} {P : GParams} {p : StratParams} (h : DeployRel D P p)
    (now : Time) (nilSlice : Bool) {w1 w2 : Int → Int} {wall : Time} (hw1 : ∀ i, w1 i = wall) (hw2 : ∀ i, w2 i = wall)
    (w4 : Time) (errs : List (Option String)) (apiErr : Option String) (apiRq : Bool) :
    Generated.Decisions.manageDeployment (some D) (some P) now nilSlice w1 w2 wall w4 errs apiErr apiRq = none ↔
      Eds.manageDeployment p now wall (!errs.isEmpty) = .panic := by
  rw [src_manageDeployment_rel h now nilSlice hw1 hw2 w4 errs apiErr apiRq]
  cases Eds.manageDeployment p now wall (!errs.isEmpty) <;> simp [deployOut]

/-- nil dereferences: the daemonset (its annotations are read first), `params`. -/
theorem src_manageDeployment_nil_daemonset (P : Option GParams) (now : Time) (nilSlice : Bool) (w1 w2 : Int → Int)
    (w3 w4 : Time) (errs : List (Option String)) (apiErr : Option String) (apiRq : Bool) :
    Generated.Decisions.manageDeployment none P now nilSlice w1 w2 w3 w4 errs apiErr apiRq = none := rfl

theorem src_manageDeployment_nil_params (D : GEds) (now : Time) (nilSlice : Bool) (w1 w2 : Int → Int)
    (w3 w4 : Time) (errs : List (Option String)) (apiErr : Option String) (apiRq : Bool) :
    Generated.Decisions.manageDeployment (some D) none now nilSlice w1 w2 w3 w4 errs apiErr apiRq = none := by
  unfold Generated.Decisions.manageDeployment
  simp [src_isRollingUpdatePaused, src_isRolloutFrozen]

/-- a successful run of the translated function (it returned a status) is a successful run of the model, whose result it
returns: the node lists as non-nil pointers in the model's order, the flags, the status, the unscheduled nodes. -/
theorem src_manageDeployment_ok {D : GEds} {P : GParams} {p : StratParams} (h : DeployRel D P p)
    (now : Time) (nilSlice : Bool) {w1 w2 : Int → Int} {wall : Time} (hw1 : ∀ i, w1 i = wall) (hw2 : ∀ i, w2 i = wall)
    (w4 : Time) (errs : List (Option String)) (apiErr : Option String) (apiRq : Bool)
    (R : GResult) (e : Option String) (P' : Option GParams)
    (hrun : Generated.Decisions.manageDeployment (some D) (some P) now nilSlice w1 w2 wall w4 errs apiErr apiRq =
      some (some R, e, P')) (hst : R.newStatus.isSome = true) :
    ∃ r, Eds.manageDeployment p now wall (!errs.isEmpty) = .ok r ∧
      R.podsToCreate = r.createE.map some ∧ R.podsToDelete = r.deleteE.map (fun x => some x.1) ∧
      R.isPaused = r.isPaused ∧ R.isFrozen = r.isFrozen ∧ R.newStatus = r.newStatus ∧
      R.unscheduledNodes = r.unscheduledNodes ∧ P' = some (paramsAfterDeploy P p now) := by
  rw [src_manageDeployment_rel h now nilSlice hw1 hw2 w4 errs apiErr apiRq] at hrun
  cases hm : Eds.manageDeployment p now wall (!errs.isEmpty) with
  | panic => simp [hm, deployOut] at hrun
  | err m =>
    simp only [hm, deployOut, Option.some.injEq, Prod.mk.injEq] at hrun
    obtain ⟨hR, _, _⟩ := hrun
    subst hR
    simp [stratResultOf] at hst
  | ok r =>
    simp only [hm, deployOut, Option.some.injEq, Prod.mk.injEq] at hrun
    obtain ⟨hR, _, hP⟩ := hrun
    subst hR
    exact ⟨r, rfl, rfl, rfl, rfl, rfl, rfl, rfl, hP.symm⟩

/-! ### Non-vacuity: a concrete instance of the hypotheses

Three nodes: `n1` runs an outdated, available pod, `n2` has no pod, `n3` is a canary node (dropped).  `maxUnavailable = 2`,
slow start 5 per minute: the model creates the pod of `n2` and deletes the pod of `n1`; desired 2, ready 0, so it asks for
a requeue.  The translated function is evaluated through the bridge (its sort is `List.mergeSort`, defined by
well-founded recursion, which the kernel does not unfold — the model's side is evaluated by `decide`). -/

def dStrategy : Strategy :=
  { rollingUpdate := { maxUnavailable := some (intVal 2), maxPodSchedulerFailure := some (intVal 0),
                       maxParallelPodCreation := some 250, slowStartInterval := some minute,
                       slowStartAdditiveIncrease := some (intVal 5) },
    canary := none, reconcileFrequency := none }

def dStatus : ERSStatus := { status := "", desired := 0, current := 0, ready := 0, available := 0, ignored := 0, conds := [] }

def dGoParams : GParams :=
  { strategy := some dStrategy, newStatus := some dStatus, edsName := "eds", replicaset := some rErs,
    canaryNodes := ["n3"],
    nodeByName := [("n1", some (rNode "n1")), ("n2", some (rNode "n2")), ("n3", some (rNode "n3"))],
    podByNodeName := [(some (rNode "n3"), none), (some (rNode "n1"), some rGoPod), (some (rNode "n2"), none)] }

def dModelParams : StratParams :=
  { edsName := "eds", edsAnnotations := [], strategy := dStrategy, ers := rErs, newStatus := dStatus,
    canaryNodes := ["n3"], byNode := [(rNode "n3", none), (rNode "n1", some rModelPod), (rNode "n2", none)],
    toCleanUp := [], unscheduled := [] }

def dEds : GEds := { (default : GEds) with annotations := [] }

theorem dDeployRel : DeployRel dEds dGoParams dModelParams where
  ann := rfl
  strategy := rfl
  newStatus := rfl
  replicaset := rfl
  canaryNodes := rfl
  maps :=
    { filed := by
        intro n ni h
        simp only [dGoParams, Go.mapGetD, Go.mapFind, Go.strKey, List.find?_cons, List.find?_nil] at h
        by_cases h1 : "n1" = n
        · subst h1; exact (Option.some.inj h) ▸ rfl
        · by_cases h2 : "n2" = n
          · subst h2; exact (Option.some.inj h) ▸ rfl
          · by_cases h3 : "n3" = n
            · subst h3; exact (Option.some.inj h) ▸ rfl
            · have e1 : ("n1" == n) = false := by simpa using h1
              have e2 : ("n2" == n) = false := by simpa using h2
              have e3 : ("n3" == n) = false := by simpa using h3
              rw [e1, e2, e3] at h
              cases h
      keys := by
        intro e he
        simp only [dModelParams, List.mem_cons, List.mem_nil_iff, or_false] at he
        rcases he with rfl | rfl | rfl <;> decide
      entries := .cons .none (.cons (.some rPodRel) (.cons .none .nil)) }
  nodup := by unfold KeysNodup; decide
  unscheduled := ⟨[], rfl, .nil⟩
  cleanup := rfl

/-- the pod lists (the node names of the non-nil node items), the requeue flag and the error of an outcome on the Go
side; the status, the counters `desired` and `ready`. -/
def goSummary (o : DeployOut) : Option (List (Option String) × List (Option String) × Bool × Option String) :=
  o.bind fun o => o.1.map fun r => (r.podsToCreate.map (·.map (·.node.name)), r.podsToDelete.map (·.map (·.node.name)),
    r.result.requeue, o.2.1)

def goStatus (o : DeployOut) : Option (String × Int × Int) :=
  o.bind fun o => o.1.bind fun r => r.newStatus.map fun s => (s.status, s.desired, s.ready)

/-- the bridge applied to the instance (no clean-up error, outside the label window: `w4` far after the start). -/
theorem ex_manageDeployment_bridge :
    Generated.Decisions.manageDeployment (some dEds) (some dGoParams) 100 false (fun _ => 100) (fun _ => 100) 100 900000000000 []
        none false =
      deployOut dGoParams dModelParams 100 900000000000 [] none false (Eds.manageDeployment dModelParams 100 100 false) :=
  src_manageDeployment_rel dDeployRel 100 false (fun _ => rfl) (fun _ => rfl) 900000000000 [] none false


/-- hence the translated function on the instance: the node item of `n2` to create a pod on, that of `n1` to delete the
pod of, a requeue (desired 2, ready 0), no error. -/
theorem ex_manageDeployment_eval :
    goSummary (Generated.Decisions.manageDeployment (some dEds) (some dGoParams) 100 false (fun _ => 100) (fun _ => 100)
        100 900000000000 [] none false) =
      some ([some "n2"], [some "n1"], true, none) ∧
    goStatus (Generated.Decisions.manageDeployment (some dEds) (some dGoParams) 100 false (fun _ => 100) (fun _ => 100)
        100 900000000000 [] none false) = some ("active", 2, 0) := by
  rw [ex_manageDeployment_bridge]
  constructor <;> decide

/-- inside the label window the API step decides the error and the requeue flag. -/
theorem ex_manageDeployment_window :
    goSummary (Generated.Decisions.manageDeployment (some dEds) (some dGoParams) 100 false (fun _ => 100) (fun _ => 100)
        100 101 [] (some "list failed") false) =
      some ([some "n2"], [some "n1"], false, some "list failed") := by
  rw [src_manageDeployment_rel dDeployRel 100 false (fun _ => rfl) (fun _ => rfl) 101 [] (some "list failed") false]
  decide

/-! **`KeysNodup` is necessary** (a property of the representation, not a defect of the code: a Go map cannot hold a key
twice).  In an association list that repeats the key of `n1` — first with an available outdated pod, then with an unavailable
one — the comparator's lookup `PodByNodeName[n1]` finds the first entry for both candidates: the translated sort puts `n2`
(unavailable) first and both `n1` after it, while the model, which keeps each candidate with its own pod, takes the
unavailable `n1` and `n2` before the available `n1`. -/

def rGoPodUnavail : GPod := { rGoPod with status := { rGoPod.status with conditions := [] } }

def rModelPodUnavail : Pod := { rModelPod with conds := [] }

def dupPB : List (Option NodeItem × Option GPod) :=
  [(some (rNode "n1"), some rGoPod), (some (rNode "n1"), some rGoPodUnavail), (some (rNode "n2"), some rGoPodUnavail)]

def dupEs : List (NodeItem × Option Pod) :=
  [(rNode "n1", some rModelPod), (rNode "n1", some rModelPodUnavail), (rNode "n2", some rModelPodUnavail)]

theorem keysNodup_needed :
    (Go.stableSortBy (fun a b =>
        Option.bind (Generated.Decisions.isPodAvailable (Go.mapGetD Go.nodeItemKey dupPB a none) 0 100 false) fun r38 =>
        Option.bind (if (!r38) then (Option.bind (Generated.Decisions.isPodAvailable (Go.mapGetD Go.nodeItemKey dupPB b none) 0 100 false) fun r39 =>
          some r39) else some false) fun c40 =>
        some c40)
      ((delOrder "new" 100 dupEs).map fun e => some e.1)).map (fun l => l.map fun a => a.map (·.node.name)) =
      some [some "n2", some "n1", some "n1"] ∧
    (((countAll "new" 100 dupEs).toDeleteUnavail ++ (countAll "new" 100 dupEs).toDeleteAvail).map fun e => e.1.node.name) =
      ["n1", "n2", "n1"] ∧
    ¬ KeysNodup dupEs := by
  refine ⟨?_, by decide, by unfold KeysNodup; decide⟩
  have hx : ((delOrder "new" 100 dupEs).map fun e => some e.1) = [some (rNode "n1"), some (rNode "n1"), some (rNode "n2")] := by
    rfl
  rw [hx, Go.stableSortBy_twoClass _ (fun a =>
    (Generated.Decisions.isPodAvailable (Go.mapGetD Go.nodeItemKey dupPB a none) 0 100 false).getD false)]
  · rfl
  · intro a ha b hb
    simp only [List.mem_cons, List.mem_nil_iff, or_false] at ha hb
    rcases ha with rfl | rfl | rfl <;> rcases hb with rfl | rfl | rfl <;> rfl

end Eds.Bridge
