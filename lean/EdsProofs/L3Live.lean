import EdsProps.L3
import EdsProps.C02c
import EdsProps.C07
import EdsProps.C07b
/-
  EdsProofs.L3Live — helper lemmas for EdsProps/L3Live.lean (liveness through the canary phases at L3).

    1  `edsMain` when the node selection reports no error: the status / annotations / template hash the
       daemonset object carries AFTER the writes (`edsMain_after_status`, `_after_annotations`, `_after_hash`)
    2  the promotion branch of `selectCurrent` / `currentOf` / `updateInstance`
    3  projections of `applyEdsObj` not in EdsProofs/Cluster.lean (`template`, `templateName`), `restoreTemplate`
    4  the annotation clean-up keeps every non-canary key (`clearCanary_get?`)
    5  the hypotheses of C02c only read the daemonset's identity, strategy, annotations and status:
       transfer of `CoopStore`, `StratOk`, `GateFree` from a world to the world after a daemonset reconcile
    6  the replica sets the daemonset reconcile keeps (`kept_of_edsMain`)
-/
namespace Eds
open Cluster

/-! ## 1. `edsMain` without selection error: the object after the writes -/

section Main
variable (d : EDS) (list : List ERS) (u : ERS) (pods : List Pod) (nodes : List Node) (now : Time)

/-- whether or not a status write is planned, the status after it is the computed one. -/
theorem edsMain_after_status
    (hse : (edsUpd d list (currentOf d list u now).1 u pods nodes now).selectErr = false) :
    (match (edsMain d list u pods nodes now).statusUpdate with
     | some st => st
     | none => d.status) = (edsUpd d list (currentOf d list u now).1 u pods nodes now).status := by
  cases hst : (edsMain d list u pods nodes now).statusUpdate with
  | some st => exact edsMain_statusUpdate _ _ _ _ _ _ st hst
  | none =>
    rcases edsMain_statusUpdate_none d list u pods nodes now hst with h | h
    · rw [hse] at h; cases h
    · exact h.symm

/-- whether or not a spec write is planned, the annotations after it are the computed ones. -/
theorem edsMain_after_annotations
    (hse : (edsUpd d list (currentOf d list u now).1 u pods nodes now).selectErr = false) :
    (match (edsMain d list u pods nodes now).specUpdate with
     | some x => x.2
     | none => d.annotations) = (edsUpd d list (currentOf d list u now).1 u pods nodes now).annotations := by
  unfold edsMain
  unfold edsUpd at hse ⊢
  simp only []
  generalize updateInstance _ _ _ _ _ _ _ _ _ = upd at hse ⊢
  simp only [hse, Bool.false_eq_true, if_false]
  cases ha : (upd.annotations != d.annotations) with
  | true => simp
  | false =>
    have : upd.annotations = d.annotations := by simpa using ha
    rw [this]
    generalize (_ && _ : Bool) = b
    cases b <;> rfl

/-- whether or not a spec write is planned, the template hash after it is the generation of the
replica set the template is restored from, or the one in spec when nothing is restored. -/
theorem edsMain_after_hash
    (hse : (edsUpd d list (currentOf d list u now).1 u pods nodes now).selectErr = false) :
    (match (edsMain d list u pods nodes now).specUpdate with
     | some x => x.1
     | none => d.templateHash) =
    (match (edsUpd d list (currentOf d list u now).1 u pods nodes now).restoreFrom with
     | some c => c.templateGeneration
     | none => d.templateHash) := by
  unfold edsMain
  unfold edsUpd at hse ⊢
  simp only []
  generalize updateInstance _ _ _ _ _ _ _ _ _ = upd at hse ⊢
  simp only [hse, Bool.false_eq_true, if_false]
  cases hr : upd.restoreFrom with
  | none =>
    simp only []
    generalize (_ && _ : Bool) = b
    cases b <;> rfl
  | some c =>
    simp only [Option.isSome_some, Bool.true_or, Bool.and_true]
    cases hc : (c.templateGeneration != d.templateHash) with
    | true => simp
    | false =>
      have : c.templateGeneration = d.templateHash := by simpa using hc
      rw [this]
      generalize (_ || _ : Bool) = b
      cases b <;> rfl

end Main

/-! ## 2. the promotion branch -/

/-- **The promotion rule at instant `now`** (property C05, in the code's vocabulary): the canary-valid
annotation names `u`, or the validation mode is auto, the canary has ended (`IsCanaryDeploymentEnded`:
duration elapsed and no restart during the last `noRestartsDuration`), it is not paused and it has
not failed.  (`selectCurrentReplicaSet` does not read the mode; the conjunct is kept to match C05.) -/
def PromotionDue (c : Canary) (ann : SMap) (u : ERS) (now : Time) : Prop :=
  isCanaryValid ann u.name = true ∨
  (c.validationMode = "auto" ∧ (isCanaryEnded (some c) u now).1 = true ∧
    (isCanaryPaused ann (some u)).1 = false ∧ isCanaryFailed (some u) = false)

instance (c : Canary) (ann : SMap) (u : ERS) (now : Time) : Decidable (PromotionDue c ann u now) :=
  inferInstanceAs (Decidable (_ ∨ _))

/-- the rule in the code's vocabulary implies the rule of the property text (EdsSpec/C05.lean). -/
theorem PromotionDue.allowed {c : Canary} {ann : SMap} {u : ERS} {now : Time} (h : PromotionDue c ann u now) :
    Spec.C05.promotionAllowed (some c) ann u now = true := by
  unfold Spec.C05.promotionAllowed
  rcases h with h | ⟨hm, he, hp, hf⟩
  · simp [h]
  · obtain ⟨h1, h2⟩ := C05_ended_implies c u now he
    simp [hm, h1, h2, hp, hf]

/-- under the rule `selectCurrentReplicaSet` picks the up-to-date replica set. -/
theorem selectCurrent_of_due {c : Canary} {ann : SMap} {u : ERS} {now : Time} (h : PromotionDue c ann u now)
    (a : ERS) : (selectCurrent (some c) ann (some a) u false now).1 = .upToDate := by
  rcases h with h | ⟨_, he, hp, hf⟩
  · exact C05_valid_promotes c ann a u now h
  · simp [selectCurrent, he, hp, hf]

/-- … hence the current replica set of the reconcile is the up-to-date one. -/
theorem currentOf_of_due (d : EDS) (list : List ERS) (u : ERS) (now : Time) (c : Canary)
    (hc : d.strategy.canary = some c) (h : PromotionDue c d.annotations u now) :
    (currentOf d list u now).1 = u := by
  rcases currentOf_cases d list u now with h' | ⟨a, _, _, hsel⟩
  · exact h'
  · rw [hc, selectCurrent_of_due h a] at hsel
    cases hsel

/-- `updateInstance` when the selected replica set IS the up-to-date one (canary strategy set): the
canary block is cleared, `u` is named active, no node selection takes place, the pause annotations
are cleared, and a template "restore" (when `u` carries a failure mark) restores `u`'s own template. -/
theorem updateInstance_self (d : EDS) (u : ERS) (cur rdy avail : Int) (now : Time)
    (pods : List Pod) (nodes : List Node) (c : Canary) (hc : d.strategy.canary = some c) :
    (updateInstance d u u cur rdy avail now pods nodes).status.canary = none ∧
    (updateInstance d u u cur rdy avail now pods nodes).status.activeReplicaSet = u.name ∧
    (updateInstance d u u cur rdy avail now pods nodes).selectErr = false ∧
    (updateInstance d u u cur rdy avail now pods nodes).annotations = (clearCanaryAnnotations d.annotations).1 ∧
    ((updateInstance d u u cur rdy avail now pods nodes).restoreFrom = none ∨
     (updateInstance d u u cur rdy avail now pods nodes).restoreFrom = some u) := by
  cases hf : isCanaryFailed (some u) with
  | true =>
    rw [updateInstance_failed d u u cur rdy avail now pods nodes c hc hf]
    exact ⟨rfl, rfl, rfl, rfl, Or.inr rfl⟩
  | false =>
    rw [updateInstance_idle d u u cur rdy avail now pods nodes c hc hf rfl]
    exact ⟨rfl, rfl, rfl, rfl, Or.inl rfl⟩

/-! ## 3. the daemonset object after the writes -/

theorem applyEdsObj_template (d : EDS) (wr : EdsWrites) (t : Template) :
    (applyEdsObj d wr t).template = (match wr.specUpdate with | some _ => t | none => d.template) := by
  unfold applyEdsObj
  cases wr.defaulted <;> cases wr.statusUpdate <;> cases wr.specUpdate <;> rfl

theorem applyEdsObj_templateName (d : EDS) (wr : EdsWrites) (t : Template) :
    (applyEdsObj d wr t).templateName = (match wr.defaulted with | some x => x.2 | none => d.templateName) := by
  unfold applyEdsObj
  cases wr.defaulted <;> cases wr.statusUpdate <;> cases wr.specUpdate <;> rfl

/-- a spec update that keeps the hash keeps the template. -/
theorem restoreTemplate_same (d : EDS) (all : List ERS) (now : Time) :
    restoreTemplate d all now d.templateHash = d.template := by
  unfold restoreTemplate
  simp

/-- a spec update with the generation of the current replica set of the reconcile restores that
replica set's template. -/
theorem restoreTemplate_current (d : EDS) (all : List ERS) (now : Time) (u a : ERS)
    (hu : upToDateOf d (ownErs d all) = some u) (hcur : (currentOf d (ownErs d all) u now).1 = a)
    (hne : a.templateGeneration ≠ d.templateHash) :
    restoreTemplate d all now a.templateGeneration = a.template := by
  unfold restoreTemplate
  have : (a.templateGeneration == d.templateHash) = false := by simpa using hne
  simp only [this, Bool.false_eq_true, if_false, hu, hcur, beq_self_eq_true, if_true]

/-- the reconcile of a defaulted, valid daemonset with an up-to-date replica set is `edsMain`. -/
theorem reconcileEds_eq_main (d : EDS) (all : List ERS) (pods : List Pod) (nodes : List Node) (now : Time)
    (m : String) (u : ERS) (hd : isDefaulted d.strategy d.templateName = true)
    (hv : validateSpec d.strategy = .ok) (hu : upToDateOf d (ownErs d all) = some u) :
    reconcileEds d all pods nodes now m = edsMain d (ownErs d all) u pods nodes now := by
  unfold reconcileEds
  simp only [hd, hv, hu, Bool.not_true, Bool.false_eq_true, if_false]
  simp

/-! ## 4. the annotation clean-up keeps every other key -/

theorem SMap.get?_filter_key (m : SMap) (q : String → Bool) (k : String) (hk : q k = true) :
    SMap.get? (m.filter (fun e => q e.k)) k = SMap.get? m k := by
  unfold SMap.get?
  induction m with
  | nil => rfl
  | cons e m ih =>
    rw [List.filter_cons]
    by_cases hek : e.k = k
    · have : q e.k = true := by rw [hek]; exact hk
      simp [hek]
      simp [← hek, this]
    · have hb : (e.k == k) = false := by simpa using hek
      cases hq : q e.k
      · simp only [Bool.false_eq_true, if_false, List.find?_cons, hb]
        exact ih
      · simp only [if_true, List.find?_cons, hb]
        exact ih

/-- `clearCanaryAnnotations` only removes the three canary pause keys. -/
theorem clearCanary_get? (ann : SMap) (k : String) (h1 : k ≠ K.canaryPausedAnnot)
    (h2 : k ≠ K.canaryPausedReasonAnnot) (h3 : k ≠ K.canaryUnpausedAnnot) :
    SMap.get? (clearCanaryAnnotations ann).1 k = SMap.get? ann k := by
  unfold clearCanaryAnnotations
  exact SMap.get?_filter_key ann
    (fun s => !([K.canaryPausedAnnot, K.canaryPausedReasonAnnot, K.canaryUnpausedAnnot].contains s)) k
    (by simp [h1, h2, h3])

theorem clearCanary_paused (ann : SMap) :
    isRollingUpdatePaused (clearCanaryAnnotations ann).1 = isRollingUpdatePaused ann := by
  unfold isRollingUpdatePaused SMap.getD
  rw [clearCanary_get? ann _ (by decide) (by decide) (by decide)]

theorem clearCanary_frozen (ann : SMap) :
    isRolloutFrozen (clearCanaryAnnotations ann).1 = isRolloutFrozen ann := by
  unfold isRolloutFrozen SMap.getD
  rw [clearCanary_get? ann _ (by decide) (by decide) (by decide)]

theorem clearCanary_oldDs (ann : SMap) :
    SMap.get? (clearCanaryAnnotations ann).1 K.oldDaemonsetAnnot = SMap.get? ann K.oldDaemonsetAnnot :=
  clearCanary_get? ann _ (by decide) (by decide) (by decide)

theorem clearCanary_valid (ann : SMap) (n : String) :
    isCanaryValid (clearCanaryAnnotations ann).1 n = isCanaryValid ann n := by
  unfold isCanaryValid
  rw [clearCanary_get? ann _ (by decide) (by decide) (by decide)]

/-! ## 5. the hypotheses of C02c across a change of the daemonset object -/

theorem edsPodsOf_congr {d d' : EDS} {st st' : ErsStore} (hn : d'.name = d.name) (hns : d'.ns = d.ns)
    (hp : st'.pods = st.pods) : edsPodsOf d' st' = edsPodsOf d st := by
  unfold edsPodsOf isEdsPod
  rw [hp, hn, hns]

theorem ersOwner_congr {d d' : EDS} {rs : ERS} {st st' : ErsStore} (hn : d'.name = d.name) (hns : d'.ns = d.ns)
    (he : st.edss = [d]) (he' : st'.edss = [d']) (h : ersOwner rs st = some d) : ersOwner rs st' = some d' := by
  unfold ersOwner at h ⊢
  cases ho : rs.ownerEds with
  | none => rw [ho] at h; cases h
  | some o =>
    rw [ho] at h
    simp only [he, he', List.find?_cons, List.find?_nil] at h ⊢
    rw [hn, hns]
    split at h
    · rfl
    · cases h

theorem ersNodeItems_congr {d d' : EDS} {rs : ERS} {st st' : ErsStore} (hn : d'.name = d.name) (hns : d'.ns = d.ns)
    (hnodes : st'.nodes = st.nodes) (hset : st'.settings = st.settings) :
    ersNodeItems d' rs st' = ersNodeItems d rs st := by
  unfold ersNodeItems
  rw [hnodes, hset, hn, hns]

/-- `CoopStore` reads the daemonset's name and namespace, the nodes, pods and settings only. -/
theorem CoopStore.transfer {d d' : EDS} {rs : ERS} {gen : String → String} {items : List NodeItem}
    {st st' : ErsStore} (S : CoopStore d rs gen items st) (hn : d'.name = d.name) (hns : d'.ns = d.ns)
    (he : st.edss = [d]) (he' : st'.edss = [d']) (hnodes : st'.nodes = st.nodes) (hpods : st'.pods = st.pods)
    (hset : st'.settings = st.settings) : CoopStore d' rs gen items st' := by
  have hE := edsPodsOf_congr (d := d) (d' := d') (st := st) (st' := st') hn hns hpods
  exact
    { owner := ersOwner_congr hn hns he he' S.owner
      hitems := by rw [ersNodeItems_congr hn hns hnodes hset]; exact S.hitems
      noSetting := S.noSetting
      nodesNodup := by rw [hnodes]; exact S.nodesNodup
      nodeNamed := S.nodeNamed
      hashOk := S.hashOk
      settled := by rw [hE]; exact S.settled
      onePer := by rw [hE]; exact S.onePer
      nameNode := by rw [hE]; exact S.nameNode
      genFresh := by rw [hE]; exact S.genFresh }

theorem StratOk.transfer {d d' : EDS} {N : Nat} (h : StratOk d N) (hs : d'.strategy = d.strategy) : StratOk d' N :=
  { mu := by unfold muOf; rw [hs]; exact h.mu
    inc := by rw [hs]; exact h.inc
    mp := by rw [hs]; exact h.mp
    ms := by rw [hs]; exact h.ms }

theorem ersFreq_congr {d d' : EDS} (hs : d'.strategy = d.strategy) : ersFreq d' = ersFreq d := by
  unfold ersFreq; rw [hs]

theorem GateFree.transfer {d d' : EDS} {rs : ERS} {now : Time} (h : GateFree d rs now)
    (hs : d'.strategy = d.strategy) : GateFree d' rs now := by
  unfold GateFree
  rw [ersFreq_congr hs]
  exact h

/-! ## 6. the replica sets a daemonset reconcile keeps -/

/-- a replica set named as the current or as the up-to-date one of the reconcile is not cleaned up
(by any subset of the planned deletions). -/
theorem kept_of_edsMain (d : EDS) (all : List ERS) (u : ERS) (pods : List Pod) (nodes : List Node) (now : Time)
    (wr : EdsWrites) (nn : String)
    (hdel : ∀ x ∈ wr.deletedErs, x ∈ (edsMain d (ownErs d all) u pods nodes now).deletedErs)
    (e : ERS) (he : e ∈ all)
    (hname : e.name = (currentOf d (ownErs d all) u now).1.name ∨ e.name = u.name) :
    e ∈ applyErsList d all wr nn now := by
  apply mem_applyErsList_of_not_deleted _ _ _ _ _ _ he
  right
  intro hx
  have := hdel _ hx
  rw [edsMain_deleted] at this
  unfold cleanupTargetsERS at this
  simp only [List.mem_map, List.mem_filter, Bool.and_eq_true, bne_iff_ne, ne_eq] at this
  obtain ⟨e', ⟨_, ⟨⟨h1, h2⟩, _⟩, _⟩, hn⟩ := this
  rcases hname with h | h
  · exact h1 (hn.trans h)
  · exact h2 (hn.trans h)

end Eds

