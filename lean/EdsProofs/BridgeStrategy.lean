import EdsModel.Generated.DecStrategy
import EdsProofs.BridgeCanaryStatus
import EdsProofs.BridgeDeployment
import EdsProofs.BridgeUnknown
import EdsModel.ReconcileErs
/-
  EdsProofs.BridgeStrategy — the role switch of the replica-set reconciler, `applyStrategy` (controllers/
  extendeddaemonsetreplicaset/controller.go, a method of the reconciler), and the canary role as a whole,
  `ManageCanaryDeployment` (strategy/canary.go), translated on every run (EdsModel/Generated/DecStrategy.lean), against the
  model: `preConds` and the three strategies as `reconcileErs` (EdsModel/ReconcileErs.lean) composes them.

  API steps (opaque, their results parameters): `ensureCanaryPodLabels` (an API loop: `labelsErr`), `deletePodSlice` inside
  `cleanupPods` (`errs`), and those of `ManageDeployment` (BridgeDeployment).  `reconcileErs` is stated for API calls that
  all succeed: there `labelsErr = none`, `errs = []`.
-/
set_option linter.unusedSimpArgs false
set_option linter.unusedVariables false
namespace Eds.Bridge
open Eds

/-! ### `ManageCanaryDeployment` -/

theorem manageCanaryStatus_newStatus {p : StratParams} {now : Time} {r : StratResult}
    (h : Eds.manageCanaryStatus p now = some r) : ∃ st, r.newStatus = some st := by
  unfold Eds.manageCanaryStatus at h
  simp only [] at h
  split at h
  · cases h
  · simp only [Option.some.injEq] at h
    subst h
    exact ⟨_, rfl⟩

/-- the `*Result` of the canary role: `manageCanaryStatus`'s, then the unscheduled nodes, the `PodsCleanupDone` condition
(when there is something to clean; it follows `len(errs) == 0`) and a prompt requeue when a label or clean-up call
failed. -/
def canaryDeployResult (p : StratParams) (r : StratResult) (wall2 : Time) (labelsErr : Option String)
    (errs : List (Option String)) : GResult :=
  { canaryResultOf r with
    unscheduledNodes := unscheduledNodes p.unscheduled,
    newStatus := r.newStatus.map fun st =>
      if p.toCleanUp.isEmpty then st else
        { st with conds := updateCond st.conds wall2 "PodsCleanupDone" (boolCond errs.isEmpty) "" "" true false },
    result := if labelsErr.isSome || (Go.newAggregate errs).isSome then { requeue := true, requeueAfter := sec }
              else { requeue := r.requeue, requeueAfter := r.requeueAfter } }

/-- **`ManageCanaryDeployment`**: under the hypotheses of `src_manageCanaryStatus`, non-nil unscheduled pods and
`PodToCleanUp` empty exactly when the model's is: the translated function panics exactly when the model's
`manageCanaryStatus` does, returns no error, and returns `canaryDeployResult`. -/
theorem src_manageCanaryDeployment (D : GEds) (P : GParams) (p : StratParams) (nilSlice : Bool)
    (hA : D.annotations = p.edsAnnotations)
    (hstrat : P.strategy = some p.strategy) (hns : P.newStatus = some p.newStatus) (hrs : P.replicaset = some p.ers)
    (hcn : P.canaryNodes = p.canaryNodes)
    (hm : MapsRel P.nodeByName P.podByNodeName p.byNode) (hwfm : MapPodsWF P.podByNodeName)
    (gsU : List GPod) (hU : P.unscheduledPods = gsU.map some) (hUrel : PodsRel gsU p.unscheduled)
    (hCl : P.podToCleanUp.isEmpty = p.toCleanUp.isEmpty)
    (w1 w2 : Time) (labelsErr : Option String) (errs : List (Option String)) :
    Generated.Decisions.manageCanaryDeployment (some D) (some P) nilSlice w1 w2 labelsErr errs =
      match Eds.manageCanaryStatus p w1 with
      | none => none
      | some r => some (some (canaryDeployResult p r w2 labelsErr errs), none) := by
  unfold Generated.Decisions.manageCanaryDeployment
  simp only [Option.bind_some]
  rw [src_manageCanaryStatus D.annotations P p w1 nilSlice hstrat hns hrs hcn hA.symm hm hwfm]
  cases hmc : Eds.manageCanaryStatus p w1 with
  | none => simp
  | some r =>
    obtain ⟨st, hst⟩ := manageCanaryStatus_newStatus hmc
    simp only [Option.bind_some, src_requeuePromptly, hU, src_manageUnscheduledPodNodes gsU p.unscheduled hUrel nilSlice,
      canaryResultOf, hst, src_cleanupPods, hCl, canaryDeployResult, Option.map_some]
    cases labelsErr <;> cases hag : Go.newAggregate errs <;> cases hce : p.toCleanUp.isEmpty <;>
      simp [hag, src_cleanupPods, hCl, hce]

/-! ### `applyStrategy` -/

/-- the model's parameters after the condition updates of the role switch (what `reconcileErs` passes to the strategy). -/
def withPreConds (role : String) (p : StratParams) (now : Time) : StratParams :=
  { p with newStatus := { p.newStatus with conds := preConds role p.newStatus.conds now } }

def goWithPreConds (role : String) (P : GParams) (p : StratParams) (now : Time) : GParams :=
  { P with newStatus := some (withPreConds role p now).newStatus }

theorem bind_triple {α β γ : Type} (x : Option (α × β × γ)) :
    (Option.bind (Option.bind x fun r => some (r.2.1, r.2.2, r.1)) fun y => some (y.2.2, y.1, y.2.1)) = x := by
  cases x with
  | none => rfl
  | some v => rfl

/-- **the active role**: `applyStrategy` sets `Canary`, `Canary-Paused`, `Canary-Failed` to false in `params.NewStatus`
and runs `ManageDeployment` — the model's `manageDeployment` on the parameters with `preConds "active"`. -/
theorem src_applyStrategy_active {D : GEds} {P : GParams} {p : StratParams} (h : DeployRel D P p)
    (hrole : P.replicaSetStatus = "active")
    (now : Time) (nilSlice : Bool) {w1 w2 : Int → Int} {wall : Time} (hw1 : ∀ i, w1 i = wall) (hw2 : ∀ i, w2 i = wall)
    (w4 w5 w6 w7 : Time) (w8 w9 : Int → Int) (errs : List (Option String)) (apiErr : Option String) (apiRq : Bool)
    (a4 : Option String) (a5 : List (Option String)) :
    Generated.Decisions.applyStrategy (some D) now (some P) nilSlice w1 w2 wall w4 w5 w6 w7 w8 w9 errs apiErr apiRq a4 a5 =
      deployOut (goWithPreConds "active" P p now) (withPreConds "active" p now) now w4 errs apiErr apiRq
        (Eds.manageDeployment (withPreConds "active" p now) now wall (!errs.isEmpty)) := by
  have h1 : DeployRel D (goWithPreConds "active" P p now) (withPreConds "active" p now) :=
    { ann := h.ann, strategy := h.strategy, newStatus := rfl, replicaset := h.replicaset, canaryNodes := h.canaryNodes,
      maps := h.maps, nodup := h.nodup, unscheduled := h.unscheduled, cleanup := h.cleanup }
  have hb := src_manageDeployment_rel h1 now nilSlice hw1 hw2 w4 errs apiErr apiRq
  unfold Generated.Decisions.applyStrategy
  simp only [Option.bind_some, hrole, h.newStatus, src_updateERSCondition, beq_self_eq_true, if_true]
  unfold goWithPreConds withPreConds preConds at hb
  simp only [beq_self_eq_true, if_true, hrole] at hb
  rw [hb]
  unfold goWithPreConds withPreConds preConds
  simp only [beq_self_eq_true, if_true, hrole]
  generalize deployOut _ _ now w4 errs apiErr apiRq _ = x
  cases x with
  | none => rfl
  | some v => rfl

/-- **the unknown role**: `Canary` and `Active` set to false, then `ManageUnknown`. -/
theorem src_applyStrategy_unknown (D : GEds) (P : GParams) (p : StratParams) (hN : P.newStatus = some p.newStatus)
    (hR : P.replicaset = some p.ers) (hC : P.canaryNodes = p.canaryNodes)
    (hm : MapsRel P.nodeByName P.podByNodeName p.byNode) (hrole : P.replicaSetStatus = "unknown")
    (now : Time) (nilSlice : Bool) (w1 w2 : Int → Int) (w3 w4 w5 w6 w7 : Time) {w8 w9 : Int → Int} {wall : Time}
    (hw8 : ∀ i, w8 i = wall) (hw9 : ∀ i, w9 i = wall)
    (errs : List (Option String)) (apiErr : Option String) (apiRq : Bool) (a4 : Option String) (a5 : List (Option String)) :
    Generated.Decisions.applyStrategy (some D) now (some P) nilSlice w1 w2 w3 w4 w5 w6 w7 w8 w9 errs apiErr apiRq a4 a5 =
      some (some (stratResultOf (Eds.manageUnknown (withPreConds "unknown" p now) wall)), none,
            some (paramsAfterDrop (goWithPreConds "unknown" P p now))) := by
  have hb := src_manageUnknown (goWithPreConds "unknown" P p now) (withPreConds "unknown" p now) rfl hR hC hm nilSlice w7 w8 w9
    wall hw8 hw9
  unfold Generated.Decisions.applyStrategy
  simp only [Option.bind_some, hrole, hN, src_updateERSCondition]
  have e1 : ("unknown" == "active") = false := by decide
  have e2 : ("unknown" == "canary") = false := by decide
  simp only [e1, e2, Bool.false_eq_true, if_false, beq_self_eq_true, if_true]
  unfold goWithPreConds withPreConds preConds at hb
  simp only [e1, e2, Bool.false_eq_true, if_false, hrole] at hb
  rw [hb]
  unfold goWithPreConds withPreConds preConds
  simp only [e1, e2, Bool.false_eq_true, if_false, Option.bind_some, hrole]

/-- **the canary role**: `Canary` set to true and `Active` to false, then `ManageCanaryDeployment`; `params` is left with
these two conditions updated. -/
theorem src_applyStrategy_canary (D : GEds) (P : GParams) (p : StratParams)
    (hA : D.annotations = p.edsAnnotations)
    (hstrat : P.strategy = some p.strategy) (hns : P.newStatus = some p.newStatus) (hrs : P.replicaset = some p.ers)
    (hcn : P.canaryNodes = p.canaryNodes)
    (hm : MapsRel P.nodeByName P.podByNodeName p.byNode) (hwfm : MapPodsWF P.podByNodeName)
    (gsU : List GPod) (hU : P.unscheduledPods = gsU.map some) (hUrel : PodsRel gsU p.unscheduled)
    (hCl : P.podToCleanUp.isEmpty = p.toCleanUp.isEmpty) (hrole : P.replicaSetStatus = "canary")
    (now : Time) (nilSlice : Bool) (w1 w2 : Int → Int) (w3 w4 w5 w6 w7 : Time) (w8 w9 : Int → Int)
    (errs : List (Option String)) (apiErr : Option String) (apiRq : Bool) (a4 : Option String) (a5 : List (Option String)) :
    Generated.Decisions.applyStrategy (some D) now (some P) nilSlice w1 w2 w3 w4 w5 w6 w7 w8 w9 errs apiErr apiRq a4 a5 =
      match Eds.manageCanaryStatus (withPreConds "canary" p now) w5 with
      | none => none
      | some r => some (some (canaryDeployResult p r w6 a4 a5), none, some (goWithPreConds "canary" P p now)) := by
  have hb := src_manageCanaryDeployment D (goWithPreConds "canary" P p now) (withPreConds "canary" p now) nilSlice hA hstrat
    rfl hrs hcn hm hwfm gsU hU hUrel hCl w5 w6 a4 a5
  unfold Generated.Decisions.applyStrategy
  simp only [Option.bind_some, hrole, hns, src_updateERSCondition]
  have e1 : ("canary" == "active") = false := by decide
  simp only [e1, Bool.false_eq_true, if_false, beq_self_eq_true, if_true]
  unfold goWithPreConds withPreConds preConds at hb
  simp only [e1, Bool.false_eq_true, if_false, beq_self_eq_true, if_true, hrole] at hb
  rw [hb]
  unfold goWithPreConds withPreConds preConds
  simp only [e1, Bool.false_eq_true, if_false, beq_self_eq_true, if_true, hrole]
  cases Eds.manageCanaryStatus _ w5 with
  | none => rfl
  | some r => rfl

/-- **any other role string**: nothing is done, the result is nil (`Reconcile` would dereference it — the role comes from
`retrieveReplicaSetStatus`, which only returns the three above: `src_retrieveReplicaSetStatus`). -/
theorem src_applyStrategy_other (D : GEds) (P : GParams) (h1 : P.replicaSetStatus ≠ "active")
    (h2 : P.replicaSetStatus ≠ "canary") (h3 : P.replicaSetStatus ≠ "unknown")
    (now : Time) (nilSlice : Bool) (w1 w2 : Int → Int) (w3 w4 w5 w6 w7 : Time) (w8 w9 : Int → Int)
    (errs : List (Option String)) (apiErr : Option String) (apiRq : Bool) (a4 : Option String) (a5 : List (Option String)) :
    Generated.Decisions.applyStrategy (some D) now (some P) nilSlice w1 w2 w3 w4 w5 w6 w7 w8 w9 errs apiErr apiRq a4 a5 =
      some (none, none, some P) := by
  unfold Generated.Decisions.applyStrategy
  simp [h1, h2, h3]

/-! ### Non-vacuity: the instance of BridgeDeployment (`dGoParams`: three nodes, `n3` a canary node) through the role switch -/

def dGoParamsRole (role : String) : GParams := { dGoParams with replicaSetStatus := role }

theorem dDeployRelRole (role : String) : DeployRel dEds (dGoParamsRole role) dModelParams :=
  { ann := dDeployRel.ann, strategy := dDeployRel.strategy, newStatus := dDeployRel.newStatus,
    replicaset := dDeployRel.replicaset, canaryNodes := dDeployRel.canaryNodes, maps := dDeployRel.maps,
    nodup := dDeployRel.nodup, unscheduled := dDeployRel.unscheduled, cleanup := dDeployRel.cleanup }

/-- the active role on the instance: the pod of `n2` to create, that of `n1` to delete, a requeue, no error; of the six
conditions the switch and `ManageDeployment` update only `Active = True` is written (a false condition that does not exist yet
is not created). -/
theorem ex_applyStrategy_active :
    goSummary (Generated.Decisions.applyStrategy (some dEds) 100 (some (dGoParamsRole "active")) false (fun _ => 100)
        (fun _ => 100) 100 900000000000 0 0 0 (fun _ => 0) (fun _ => 0) [] none false none []) =
      some ([some "n2"], [some "n1"], true, none) ∧
    ((Generated.Decisions.applyStrategy (some dEds) 100 (some (dGoParamsRole "active")) false (fun _ => 100)
        (fun _ => 100) 100 900000000000 0 0 0 (fun _ => 0) (fun _ => 0) [] none false none []).bind fun o =>
      o.1.bind fun r => r.newStatus.map fun s => s.conds.map fun c => (c.type, c.status)) =
      some [("Active", "True")] := by
  rw [src_applyStrategy_active (dDeployRelRole "active") rfl 100 false (fun _ => rfl) (fun _ => rfl)]
  constructor <;> decide

/-- the unknown role on the instance: no pod is up to date, nothing to do, `Desired = 0`. -/
theorem ex_applyStrategy_unknown :
    (Generated.Decisions.applyStrategy (some dEds) 100 (some (dGoParamsRole "unknown")) false (fun _ => 100)
        (fun _ => 100) 100 0 0 0 0 (fun _ => 100) (fun _ => 100) [] none false none []).map (fun o =>
      (o.1.bind fun r => r.newStatus.map fun s => (s.status, s.desired, s.current), o.2.1)) =
      some (some ("unknown", 0, 0), none) := by
  rw [src_applyStrategy_unknown dEds (dGoParamsRole "unknown") dModelParams rfl rfl rfl dDeployRel.maps rfl 100 false _ _
    100 0 0 0 0 (fun _ => rfl) (fun _ => rfl)]
  decide

end Eds.Bridge
