import EdsModel.Generated.DecSlowStart
import EdsModel.Rolling
/-
  EdsProofs.BridgeSlowStart — the hand-written model functions the property theorems are stated about are
  *equal* to the Lean definitions the translator (tools/extract/gotolean.go) regenerates from the Go
  source on every run (EdsModel/Generated/DecSlowStart.lean).  A change to one of these Go functions
  changes the generated definition and breaks the corresponding `src_*` theorem.

  `none` on the generated side is a Go panic; every theorem therefore also says that the function
  does not panic on the stated arguments (non-nil where the callers pass non-nil).
-/
set_option linter.unusedSimpArgs false
namespace Eds.Bridge
open Eds

/-! ### slow start -/

theorem src_rollingUpdateStartTime (st : ERSStatus) (now : Time) :
    Generated.Decisions.getRollingUpdateStartTime (some st) now = some (rollingUpdateStartTime st now) := by
  unfold Generated.Decisions.getRollingUpdateStartTime rollingUpdateStartTime
  cases h : findCond st.conds "Active" with
  | none => simp [h]
  | some c => by_cases hs : c.status = "True" <;> simp [hs, h]

/-- how the model's `Outcome Int` of `calculateMaxCreation` reads on the Go side. -/
def maxCreationOut : Outcome Int → Option (Int × Option String)
  | .ok v => some (v, none)
  | .err _ => some (0, some "invalid value for IntOrString")
  | .panic => none

theorem src_calculateMaxCreation (r : RollingUpdate) (nbNodes : Int) (start now : Time) :
    Generated.Decisions.calculateMaxCreation (some r) nbNodes start now =
      maxCreationOut (Eds.calculateMaxCreation r.slowStartAdditiveIncrease r.slowStartInterval
        r.maxParallelPodCreation nbNodes start now) := by
  unfold Generated.Decisions.calculateMaxCreation Eds.calculateMaxCreation Go.valueFromIntOrPercent
  rcases r with ⟨mu, ms, mp, iv, inc⟩
  simp only [Option.bind_some]
  cases hres : resolveIntOrPercent inc nbNodes with
  | none => simp [maxCreationOut]
  | some sv =>
    cases iv with
    | none => simp [maxCreationOut]
    | some i =>
      cases mp with
      | none => by_cases hi : i ≤ 0 <;> simp [maxCreationOut, hi, goDiv] <;> split <;> simp_all
      | some m =>
        by_cases hi : i ≤ 0
        · simp [maxCreationOut, hi]
        · have hne : (i == 0) = false := by
            have : i ≠ 0 := by omega
            simpa using this
          simp only [Option.isSome_none, Bool.false_eq_true, if_false, Option.bind_some, hi, decide_false, goDiv, hne]
          by_cases hgt : (1 + (now - start).tdiv i) * sv > m <;> simp [hgt, maxCreationOut]


end Eds.Bridge
