import EdsModel.ClusterRV
import EdsProps.L3
/-
  EdsProofs.L3RV — helper lemmas for the cluster machine with resourceVersions
  (EdsModel/ClusterRV.lean), used by EdsProps/L3RV.lean:
    1  `execEds` with a FRESH read: the world of `applyEds`, one recorded value per applied write
    2  `execEds` with an OUTDATED version: only the replica-set writes are applied
    3  a stale reconcile = the step of `stepF` that drops every ExtendedDaemonSet write, taken in the
       world seen through the stale object, with the stored object put back (`stale_world_eq`)
    4  `seenWith`: the own replica sets depend on the daemonset's name and namespace only
    5  `HistIdent` (recorded values keep the object's identity) is an invariant
    6  the own replica sets after a stale reconcile (`stale_own_eq`, `stale_own_lift`)
    7  `reconcileEds_ok_cases`, `step_reconcile_has_uptodate` (recovery)
-/
namespace Eds
open Cluster ClusterRV

/-! ## 1. a reconcile that read the stored object with its version -/

/-- the values the stored object goes through while the writes `wr` are applied to `d`, most recent
first, without the final one. -/
def edsStages (d : EDS) (wr : EdsWrites) : List EDS :=
  let d1 := match wr.defaulted with | some x => wDefaulted x d | none => d
  let d2 := match wr.statusUpdate with | some st => wStatus st d1 | none => d1
  (match wr.specUpdate with | some _ => [d2] | none => []) ++
  (match wr.statusUpdate with | some _ => [d1] | none => []) ++
  (match wr.defaulted with | some _ => [d] | none => [])

theorem execEds_fresh (w : WorldRV) (wr : EdsWrites) (nn : String) :
    (execEds w w.world.eds w.rv wr nn).world = applyEds w.world wr nn ∧
    (execEds w w.world.eds w.rv wr nn).hist = edsStages w.world.eds wr ++ w.hist ∧
    (execEds w w.world.eds w.rv wr nn).rv = w.rv + (edsStages w.world.eds wr).length := by
  obtain ⟨dflt, cr, del, st, sp, rq, rqa, err⟩ := wr
  cases dflt <;> cases st <;> cases sp <;>
    simp [execEds, WorldRV.putGuarded, WorldRV.put, WorldRV.setErss, edsStages, applyEds, applyEdsObj,
      wDefaulted, wStatus, wSpec]

/-! ## 2. a reconcile carrying an outdated version -/

/-- with an outdated version every write to the ExtendedDaemonSet is refused: a refused defaulting
update ends the reconcile; otherwise the replica-set writes are applied and the reconcile ends at the
status (or spec) update. -/
theorem execEds_outdated (w : WorldRV) (d : EDS) (ver : Nat) (wr : EdsWrites) (nn : String) (h : ver ≠ w.rv) :
    execEds w d ver wr nn =
      (match wr.defaulted with
       | some _ => w
       | none => WorldRV.setErss w (applyErsList d w.world.erss wr nn w.world.now)) := by
  obtain ⟨dflt, cr, del, st, sp, rq, rqa, err⟩ := wr
  cases dflt <;> cases st <;> cases sp <;>
    simp [execEds, WorldRV.putGuarded, WorldRV.setErss, h]

/-! ## 3. a stale reconcile as a faulty step in the world seen through the stale object -/

/-- the fault pattern that drops every write to the ExtendedDaemonSet and lets every replica-set write
through. -/
def ersOnly : Faults := { edsDefaulted := false, edsStatus := false, edsSpec := false }

theorem applyErsList_nowrites (d : EDS) (all : List ERS) (wr : EdsWrites) (nn : String) (now : Time)
    (hc : wr.created = none) (hd : wr.deletedErs = []) : applyErsList d all wr nn now = all := by
  unfold applyErsList
  simp [hc, hd]

theorem applyErsList_mask_ersOnly (d : EDS) (all : List ERS) (wr : EdsWrites) (nn : String) (now : Time) :
    applyErsList d all (maskEds ersOnly wr) nn now = applyErsList d all wr nn now := by
  unfold applyErsList maskEds ersOnly
  simp

theorem stepF_ersOnly_eds (w : World) (nn m : String) :
    (stepF ersOnly w (.reconcileEds nn m)).eds = w.eds := by
  simp [stepF, applyEds, applyEdsObj, maskEds, ersOnly]

theorem stepF_ersOnly_erss (w : World) (nn m : String) :
    (stepF ersOnly w (.reconcileEds nn m)).erss = applyErsList w.eds w.erss (edsWrites w m) nn w.now := by
  show applyErsList _ _ (maskEds ersOnly _) _ _ = _
  exact applyErsList_mask_ersOnly _ _ _ _ _

/-- the version a recorded value was stored under is not the current one. -/
theorem stale_ver_ne (w : WorldRV) (k : Nat) (d : EDS) (h : w.hist[k]? = some d) : w.rv - (k + 1) ≠ w.rv := by
  have hk : k < w.hist.length := by
    rcases Nat.lt_or_ge k w.hist.length with hk | hk
    · exact hk
    · rw [List.getElem?_eq_none hk] at h; cases h
  have := w.hist_le
  omega

theorem stepRV_stale_def (w : WorldRV) (k : Nat) (nn m : String) :
    stepRV w (.reconcileEdsStale k nn m) =
      (match w.hist[k]? with
       | none => w
       | some d => execEds w d (w.rv - (k + 1)) (edsWrites (seenWith w.world d) m) nn) := rfl

/-- **a stale reconcile** changes at most the replica-set list, and changes it as the reconcile of the
world seen through the stale object does when all its ExtendedDaemonSet writes are dropped. -/
theorem stepRV_stale_eq (w : WorldRV) (k : Nat) (nn m : String) :
    stepRV w (.reconcileEdsStale k nn m) =
      (match w.hist[k]? with
       | none => w
       | some d => WorldRV.setErss w (stepF ersOnly (seenWith w.world d) (.reconcileEds nn m)).erss) := by
  rw [stepRV_stale_def]
  cases hk : w.hist[k]? with
  | none => rfl
  | some d =>
    simp only []
    rw [execEds_outdated _ _ _ _ _ (stale_ver_ne w k d hk), stepF_ersOnly_erss]
    cases hd : (edsWrites (seenWith w.world d) m).defaulted with
    | none => rfl
    | some x =>
      simp only []
      have hcases := reconcileEds_cases d w.world.erss w.world.pods w.world.nodes w.world.now m
      have hw : edsWrites (seenWith w.world d) m = reconcileEds d w.world.erss w.world.pods w.world.nodes w.world.now m := rfl
      rw [hw] at hd ⊢
      rcases hcases with hr | hr | ⟨_, hr⟩ | ⟨u, _, hr⟩
      · rw [hr, applyErsList_nowrites _ _ _ _ _ rfl rfl]
        rfl
      · rw [hr] at hd; cases hd
      · rw [hr] at hd; cases hd
      · rw [hr, edsMain_defaulted] at hd; cases hd

/-! ## 4. fresh ops; the shape of the history after a step -/

theorem stepRV_fresh_reconcileEds (w : WorldRV) (nn m : String) :
    stepRV w (.fresh (.reconcileEds nn m)) = execEds w w.world.eds w.rv (edsWrites w.world m) nn := rfl

theorem stepRV_fresh_world (w : WorldRV) (op : Op) : (stepRV w (.fresh op)).world = step w.world op := by
  cases op with
  | reconcileEds nn m => exact (execEds_fresh w _ nn).1
  | reconcileErs _ _ _ => rfl
  | setNodes _ => rfl
  | kubelet _ => rfl
  | userSpec _ _ _ _ => rfl
  | tick _ => rfl

theorem wDefaulted_ident (x : Strategy × String) (d : EDS) :
    (wDefaulted x d).name = d.name ∧ (wDefaulted x d).ns = d.ns ∧ (wDefaulted x d).labels = d.labels :=
  applyEdsObj_ident _ _ _
theorem wStatus_ident (st : EDSStatus) (d : EDS) :
    (wStatus st d).name = d.name ∧ (wStatus st d).ns = d.ns ∧ (wStatus st d).labels = d.labels :=
  applyEdsObj_ident _ _ _

theorem edsStages_ident (d : EDS) (wr : EdsWrites) :
    ∀ x ∈ edsStages d wr, x.name = d.name ∧ x.ns = d.ns ∧ x.labels = d.labels := by
  obtain ⟨dflt, cr, del, st, sp, rq, rqa, err⟩ := wr
  intro x hx
  cases dflt <;> cases st <;> cases sp <;> simp [edsStages] at hx
  all_goals
    rcases hx with rfl | rfl | rfl <;> simp [wDefaulted, wStatus, applyEdsObj]

theorem edsStages_nil (d : EDS) (wr : EdsWrites) (t : Template) (h : edsStages d wr = []) :
    applyEdsObj d wr t = d := by
  obtain ⟨dflt, cr, del, st, sp, rq, rqa, err⟩ := wr
  cases dflt <;> cases st <;> cases sp <;> simp [edsStages] at h
  rfl

theorem edsStages_last (d : EDS) (wr : EdsWrites) (h : edsStages d wr ≠ []) :
    (edsStages d wr).getLast? = some d := by
  obtain ⟨dflt, cr, del, st, sp, rq, rqa, err⟩ := wr
  cases dflt <;> cases st <;> cases sp <;> simp [edsStages] at h ⊢

/-- **the history after a step**: the values recorded by the step (`l`, most recent first) are put in
front of the old history; the version grows by their number; they are earlier values of the same
object; nothing recorded = object unchanged; otherwise the oldest recorded value is the object the step
started from. -/
theorem stepRV_hist_shape (w : WorldRV) (op : OpRV) :
    ∃ l, (stepRV w op).hist = l ++ w.hist ∧ (stepRV w op).rv = w.rv + l.length ∧
      (∀ x ∈ l, x.name = w.world.eds.name ∧ x.ns = w.world.eds.ns ∧ x.labels = w.world.eds.labels) ∧
      (l = [] → (stepRV w op).world.eds = w.world.eds) ∧
      (l ≠ [] → l.getLast? = some w.world.eds) := by
  cases op with
  | fresh op =>
    cases op with
    | reconcileEds nn m =>
      obtain ⟨h1, h2, h3⟩ := execEds_fresh w (edsWrites w.world m) nn
      refine ⟨edsStages w.world.eds (edsWrites w.world m), h2, h3, edsStages_ident _ _, ?_, edsStages_last _ _⟩
      intro hnil
      rw [stepRV_fresh_reconcileEds, h1]
      exact edsStages_nil _ _ _ hnil
    | userSpec _ _ _ _ =>
      exact ⟨[w.world.eds], rfl, rfl, by simp, by simp, by simp⟩
    | reconcileErs name rel aff =>
      refine ⟨[], rfl, rfl, by simp, fun _ => ?_, by simp⟩
      rw [stepRV_fresh_world, ← stepF_ok]
      exact L3_eds_object_frame {} _ _ (fun _ _ h => by cases h) (fun _ _ _ _ h => by cases h)
    | setNodes _ => exact ⟨[], rfl, rfl, by simp, fun _ => rfl, by simp⟩
    | kubelet _ => exact ⟨[], rfl, rfl, by simp, fun _ => rfl, by simp⟩
    | tick _ => exact ⟨[], rfl, rfl, by simp, fun _ => rfl, by simp⟩
  | reconcileEdsStale k nn m =>
    refine ⟨[], ?_, ?_, by simp, fun _ => ?_, by simp⟩ <;>
      (rw [stepRV_stale_eq]; cases w.hist[k]? <;> rfl)

/-! ## 5. recorded values keep the identity of the object -/

/-- every recorded value is a value of the same object: same name, same namespace. -/
def HistIdent (w : WorldRV) : Prop := ∀ h ∈ w.hist, h.name = w.world.eds.name ∧ h.ns = w.world.eds.ns

instance (w : WorldRV) : Decidable (HistIdent w) :=
  inferInstanceAs (Decidable (∀ h ∈ w.hist, h.name = w.world.eds.name ∧ h.ns = w.world.eds.ns))

theorem histIdent_init (w : World) (v : Nat) : HistIdent (WorldRV.init w v) := by
  intro h hh; cases hh

/-- the identity of the stored object never changes. -/
theorem stepRV_ident (w : WorldRV) (op : OpRV) :
    (stepRV w op).world.eds.name = w.world.eds.name ∧ (stepRV w op).world.eds.ns = w.world.eds.ns ∧
    (stepRV w op).world.eds.labels = w.world.eds.labels := by
  cases op with
  | fresh op =>
    rw [stepRV_fresh_world, ← stepF_ok]
    exact stepF_ident {} _ _
  | reconcileEdsStale k nn m =>
    rw [stepRV_stale_eq]; cases w.hist[k]? <;> exact ⟨rfl, rfl, rfl⟩

theorem histIdent_stepRV (w : WorldRV) (op : OpRV) (h : HistIdent w) : HistIdent (stepRV w op) := by
  obtain ⟨l, hl, _, hid, _, _⟩ := stepRV_hist_shape w op
  obtain ⟨hn, hns, _⟩ := stepRV_ident w op
  intro x hx
  rw [hl] at hx
  rw [hn, hns]
  rcases List.mem_append.1 hx with hx | hx
  · exact ⟨(hid x hx).1, (hid x hx).2.1⟩
  · exact h x hx

/-! ## 6. the own replica sets after a stale reconcile -/

theorem own_seenWith (w : World) (d : EDS) (hn : d.name = w.eds.name) (hns : d.ns = w.eds.ns) :
    (seenWith w d).own = w.own :=
  ownErs_congr _ _ _ hn hns

/-- the own replica sets after a stale reconcile that read `d` are those of the faulty L3 step taken in
the world seen through `d`. -/
theorem stale_own_eq (w : WorldRV) (k : Nat) (nn m : String) (d : EDS) (hk : w.hist[k]? = some d)
    (hn : d.name = w.world.eds.name) (hns : d.ns = w.world.eds.ns) :
    (stepRV w (.reconcileEdsStale k nn m)).world.own =
      (stepF ersOnly (seenWith w.world d) (.reconcileEds nn m)).own := by
  rw [stepRV_stale_eq, hk]
  show ownErs w.world.eds _ = ownErs (stepF ersOnly (seenWith w.world d) (.reconcileEds nn m)).eds _
  rw [stepF_ersOnly_eds]
  exact (ownErs_congr _ _ _ hn hns).symm

theorem histIdent_get {w : WorldRV} (h : HistIdent w) {k : Nat} {d : EDS} (hk : w.hist[k]? = some d) :
    d.name = w.world.eds.name ∧ d.ns = w.world.eds.ns :=
  h d (List.mem_of_getElem? hk)

theorem stale_erss_eq (w : WorldRV) (k : Nat) (nn m : String) (d : EDS) (hk : w.hist[k]? = some d) :
    (stepRV w (.reconcileEdsStale k nn m)).world.erss =
      applyErsList d w.world.erss (edsWrites (seenWith w.world d) m) nn w.world.now := by
  rw [stepRV_stale_eq, hk]
  exact stepF_ersOnly_erss (seenWith w.world d) nn m

/-- a reconcile that read an object of ANOTHER identity (not reachable: `HistIdent`) creates nothing
the daemonset owns: its own replica sets can only become fewer. -/
theorem stale_own_foreign (w : WorldRV) (k : Nat) (nn m : String) (d : EDS) (hk : w.hist[k]? = some d)
    (hne : ¬ (d.name = w.world.eds.name ∧ d.ns = w.world.eds.ns)) :
    ((stepRV w (.reconcileEdsStale k nn m)).world.own).Sublist w.world.own := by
  have he : (stepRV w (.reconcileEdsStale k nn m)).world.eds = w.world.eds := by
    rw [stepRV_stale_eq, hk]; rfl
  unfold World.own
  rw [stale_erss_eq w k nn m d hk, he]
  unfold applyErsList
  rw [ownErs_append, ownErs_filter]
  cases hc : (edsWrites (seenWith w.world d) m).created with
  | none =>
    simp only []
    have : ownErs w.world.eds [] = [] := rfl
    rw [this, List.append_nil]
    exact List.filter_sublist
  | some n =>
    simp only []
    have hn : n = newReplicaSetFromInstance d := (reconcileEds_created_iff _ _ _ _ _ _ n hc).2.1
    subst hn
    have hl : SMap.get? (SMap.set d.labels K.edsNameLabel d.name) K.edsNameLabel = some d.name :=
      SMap.get?_set_self _ _ _
    have hcr : ownErs w.world.eds [ersOfNewAt d (newReplicaSetFromInstance d) nn w.world.now] = [] := by
      simp only [ownErs, ersOfNewAt, newReplicaSetFromInstance, hl, List.filter_cons, List.filter_nil]
      split
      · next hcond =>
        simp only [Bool.and_eq_true, beq_iff_eq, Option.some.injEq] at hcond
        exact absurd ⟨hcond.2, hcond.1⟩ hne
      · rfl
    rw [hcr, List.append_nil]
    exact List.filter_sublist

/-- a sublist-closed property `Q` of the own replica sets that every faulty L3 daemonset-reconcile step
keeps is kept by every stale reconcile (whatever the history holds). -/
theorem stale_own_lift (Q : List ERS → Prop) (w : WorldRV) (k : Nat) (nn m : String)
    (hsub : ∀ l l' : List ERS, l'.Sublist l → Q l → Q l')
    (hstep : ∀ w' : World, w'.own = w.world.own → Q w'.own → Q (stepF ersOnly w' (.reconcileEds nn m)).own)
    (h : Q w.world.own) : Q (stepRV w (.reconcileEdsStale k nn m)).world.own := by
  cases hk : w.hist[k]? with
  | none => rw [stepRV_stale_eq, hk]; exact h
  | some d =>
    by_cases hid : d.name = w.world.eds.name ∧ d.ns = w.world.eds.ns
    · obtain ⟨hn, hns⟩ := hid
      rw [stale_own_eq w k nn m d hk hn hns]
      have ho := own_seenWith w.world d hn hns
      exact hstep _ ho (by rw [ho]; exact h)
    · exact hsub _ _ (stale_own_foreign w k nn m d hk hid) h

/-! ## 7. a fresh reconcile of a defaulted, valid daemonset leaves a replica set for spec.template -/

theorem reconcileEds_ok_cases (d : EDS) (all : List ERS) (pods : List Pod) (nodes : List Node) (now : Time)
    (m : String) (hd : isDefaulted d.strategy d.templateName = true) (hv : validateSpec d.strategy = .ok) :
    (upToDateOf d (ownErs d all) = none ∧
      reconcileEds d all pods nodes now m = { created := some (newReplicaSetFromInstance d), requeue := true }) ∨
    (∃ u, upToDateOf d (ownErs d all) = some u ∧
      reconcileEds d all pods nodes now m = edsMain d (ownErs d all) u pods nodes now) := by
  unfold reconcileEds
  simp only [hd, hv, Bool.not_true, Bool.false_eq_true, if_false]
  cases hu : upToDateOf d (ownErs d all) with
  | none => left; exact ⟨rfl, by simp⟩
  | some u => right; exact ⟨u, rfl, by simp⟩

theorem step_reconcileEds_own (w : World) (nn m : String) :
    (step w (.reconcileEds nn m)).own =
      w.own.filter (fun e => !(e.ns == w.eds.ns && (edsWrites w m).deletedErs.contains e.name)) ++
      (match (edsWrites w m).created with
       | some _ => [ersOfNewAt w.eds (newReplicaSetFromInstance w.eds) nn w.now]
       | none => []) := by
  have h := own_congr_step {} w (.reconcileEds nn m) (step w (.reconcileEds nn m)).erss
  rw [stepF_ok] at h
  unfold World.own
  rw [h, step_reconcileEds, applyEds_erss]
  exact ownErs_applyErsList w.eds w.erss _ nn w.now
    (fun n hn => (reconcileEds_created_iff _ _ _ _ _ _ n hn).2.1)

/-- after a fresh reconcile of a defaulted daemonset with a valid spec, some own replica set carries
the hash of the template now in spec (the created one, the one found up to date, or after a rollback
the current one). -/
theorem step_reconcile_has_uptodate (w : World) (nn m : String)
    (hd : isDefaulted w.eds.strategy w.eds.templateName = true) (hv : validateSpec w.eds.strategy = .ok)
    (hg : ∀ e ∈ w.own, SMap.get? e.annotations K.templateHashAnnot = some e.templateGeneration) :
    ∃ e ∈ (step w (.reconcileEds nn m)).own,
      SMap.get? e.annotations K.templateHashAnnot = some (step w (.reconcileEds nn m)).eds.templateHash := by
  have hth : (step w (.reconcileEds nn m)).eds.templateHash =
      (match (edsWrites w m).specUpdate with | some x => x.1 | none => w.eds.templateHash) :=
    applyEdsObj_templateHash _ _ _
  rw [step_reconcileEds_own, hth]
  unfold edsWrites
  rcases reconcileEds_ok_cases w.eds w.erss w.pods w.nodes w.now m hd hv with ⟨_, hr⟩ | ⟨u, hu, hr⟩
  · rw [hr]
    refine ⟨ersOfNewAt w.eds (newReplicaSetFromInstance w.eds) nn w.now, ?_, ersOfNewAt_hash _ _ _⟩
    simp
  · have hum := C13_reuse_selects w.eds w.erss u hu
    have hcm : (currentOf w.eds (ownErs w.eds w.erss) u w.now).1 ∈ ownErs w.eds w.erss :=
      currentOf_mem _ _ _ _ hum.1
    have hund := C13_uptodate_never_deleted w.eds w.erss w.pods w.nodes w.now m u hu
    have hcnd := C13_current_never_deleted w.eds w.erss w.pods w.nodes w.now m u hu
    rw [hr] at hund hcnd ⊢
    rw [edsMain_created]
    simp only [List.append_nil]
    have hcase : (match (edsMain w.eds (ownErs w.eds w.erss) u w.pods w.nodes w.now).specUpdate with
        | some x => x.1 | none => w.eds.templateHash) = w.eds.templateHash ∨
        (match (edsMain w.eds (ownErs w.eds w.erss) u w.pods w.nodes w.now).specUpdate with
        | some x => x.1 | none => w.eds.templateHash) =
          (currentOf w.eds (ownErs w.eds w.erss) u w.now).1.templateGeneration :=
      edsMain_specHash_cases _ _ _ _ _ _
    rcases hcase with hc | hc
    · rw [hc]
      refine ⟨u, ?_, hum.2⟩
      rw [List.mem_filter]
      refine ⟨hum.1, ?_⟩
      simp [hund]
    · rw [hc]
      refine ⟨_, ?_, hg _ hcm⟩
      rw [List.mem_filter]
      refine ⟨hcm, ?_⟩
      simp [hcnd]

end Eds
