import EdsModel.SettingCtl
/-
  Helper lemmas about the ExtendedDaemonsetSetting controller model (`EdsModel.SettingCtl`):

  * `settingLess` is (the strict part of) a total preorder whose only ties are settings with the same
    creation time *and* the same name; `sortSettings` is an insertion sort, hence a permutation of
    its input that is sorted, hence a function of the *multiset* of settings when names are unique;
  * what `conflictScanNode` returns on a list, given what the list contains;
  * `searchConflict` / `settingReconcile` unfolded into statements about the per-node scans;
  * a characterisation of `chooseSetting`.
-/
namespace Eds

/-! ### `settingLess` -/

theorem settingLess_iff (a b : Setting) :
    settingLess a b = true ↔
      (a.creation = b.creation ∧ b.name < a.name) ∨ (a.creation ≠ b.creation ∧ b.creation < a.creation) := by
  unfold settingLess
  by_cases h : a.creation = b.creation
  · simp [h]
  · simp [h]

/-- "`a` may stand before `b`": `b` is not strictly less than `a`. -/
def settingLE (a b : Setting) : Prop := settingLess b a = false

theorem settingLE_iff (a b : Setting) :
    settingLE a b ↔ b.creation ≤ a.creation ∧ (b.creation = a.creation → b.name ≤ a.name) := by
  unfold settingLE
  rw [← Bool.not_eq_true, settingLess_iff]
  constructor
  · intro h
    refine ⟨?_, ?_⟩
    · apply Decidable.byContradiction
      intro hlt
      exact h (Or.inr ⟨by omega, by omega⟩)
    · intro heq
      exact String.not_lt.mp (fun hlt => h (Or.inl ⟨heq, hlt⟩))
  · rintro ⟨h1, h2⟩ (⟨heq, hlt⟩ | ⟨_, hlt⟩)
    · exact String.not_lt.mpr (h2 heq) hlt
    · omega

theorem settingLess_asymm {a b : Setting} (h : settingLess a b = true) : settingLE a b := by
  rw [settingLE_iff]
  rw [settingLess_iff] at h
  rcases h with ⟨heq, hlt⟩ | ⟨hne, hlt⟩
  · refine ⟨by omega, fun _ => ?_⟩
    exact String.not_lt.mp (String.lt_asymm hlt)
  · exact ⟨by omega, fun heq => absurd heq.symm hne⟩

theorem settingLE_trans {a b c : Setting} (h1 : settingLE a b) (h2 : settingLE b c) :
    settingLE a c := by
  rw [settingLE_iff] at *
  refine ⟨by omega, fun heq => ?_⟩
  have hcb : c.creation = b.creation := by omega
  have hba : b.creation = a.creation := by omega
  exact String.le_trans (h2.2 hcb) (h1.2 hba)

/-- the only ties of the order: same creation time and same name. -/
theorem settingLE_antisymm {a b : Setting} (h1 : settingLE a b) (h2 : settingLE b a) :
    a.creation = b.creation ∧ a.name = b.name := by
  rw [settingLE_iff] at *
  have heq : a.creation = b.creation := by omega
  exact ⟨heq, String.le_antisymm (h2.2 heq) (h1.2 heq.symm)⟩

/-! ### unique names -/

theorem eq_of_name_eq_of_nodup {l : List Setting} (h : (l.map (·.name)).Nodup) {a b : Setting}
    (ha : a ∈ l) (hb : b ∈ l) (hn : a.name = b.name) : a = b := by
  induction l with
  | nil => cases ha
  | cons q rest ih =>
    simp only [List.map_cons, List.nodup_cons, List.mem_map, not_exists, not_and] at h
    simp only [List.mem_cons] at ha hb
    rcases ha with rfl | ha <;> rcases hb with rfl | hb
    · rfl
    · exact absurd hn.symm (h.1 b hb)
    · exact absurd hn (h.1 a ha)
    · exact ih h.2 ha hb

/-! ### `insertSetting` / `sortSettings` -/

theorem insertSetting_perm (s : Setting) (l : List Setting) : (insertSetting s l).Perm (s :: l) := by
  induction l with
  | nil => exact List.Perm.refl _
  | cons q rest ih =>
    unfold insertSetting
    split
    · exact List.Perm.refl _
    · exact ((List.perm_cons q).mpr ih).trans (List.Perm.swap s q rest)

theorem sortSettings_perm (l : List Setting) : (sortSettings l).Perm l := by
  induction l with
  | nil => exact List.Perm.refl _
  | cons q rest ih =>
    show (insertSetting q (sortSettings rest)).Perm (q :: rest)
    exact (insertSetting_perm q _).trans ((List.perm_cons q).mpr ih)

theorem mem_sortSettings {s : Setting} {l : List Setting} : s ∈ sortSettings l ↔ s ∈ l :=
  (sortSettings_perm l).mem_iff

theorem insertSetting_sorted (s : Setting) {l : List Setting} (h : l.Pairwise settingLE) :
    (insertSetting s l).Pairwise settingLE := by
  induction l with
  | nil => simp [insertSetting]
  | cons q rest ih =>
    rw [List.pairwise_cons] at h
    unfold insertSetting
    split
    · rename_i hlt
      have hsq := settingLess_asymm hlt
      rw [List.pairwise_cons]
      refine ⟨?_, List.pairwise_cons.mpr h⟩
      intro x hx
      rcases List.mem_cons.mp hx with rfl | hx
      · exact hsq
      · exact settingLE_trans hsq (h.1 x hx)
    · rename_i hnlt
      rw [List.pairwise_cons]
      refine ⟨?_, ih h.2⟩
      intro x hx
      rcases List.mem_cons.mp ((insertSetting_perm s rest).mem_iff.mp hx) with rfl | hx
      · unfold settingLE; simpa using hnlt
      · exact h.1 x hx

theorem sortSettings_sorted (l : List Setting) : (sortSettings l).Pairwise settingLE := by
  induction l with
  | nil => exact List.Pairwise.nil
  | cons q rest ih => exact insertSetting_sorted q ih

/-- **The sort only depends on the multiset of settings** when equal names mean equal settings. -/
theorem sortSettings_eq_of_perm {l₁ l₂ : List Setting} (hp : l₁.Perm l₂)
    (hinj : ∀ a ∈ l₁, ∀ b ∈ l₁, a.name = b.name → a = b) :
    sortSettings l₁ = sortSettings l₂ := by
  apply List.Perm.eq_of_pairwise (le := settingLE)
  · intro a b ha hb hab hba
    have ha' : a ∈ l₁ := mem_sortSettings.mp ha
    have hb' : b ∈ l₁ := hp.mem_iff.mpr (mem_sortSettings.mp hb)
    exact hinj a ha' b hb' (settingLE_antisymm hab hba).2
  · exact sortSettings_sorted l₁
  · exact sortSettings_sorted l₂
  · exact (sortSettings_perm l₁).trans (hp.trans (sortSettings_perm l₂).symm)

/-! ### `settingMatches` -/

theorem settingMatches_eq_none_iff (s : Setting) (ls : SMap) :
    settingMatches s ls = none ↔ s.badSelector = true := by
  unfold settingMatches
  split <;> simp_all

theorem badSelector_false_of_matches {s : Setting} {ls : SMap} {b : Bool}
    (h : settingMatches s ls = some b) : s.badSelector = false := by
  cases hb : s.badSelector
  · rfl
  · rw [(settingMatches_eq_none_iff s ls).mpr hb] at h; cases h

/-! ### `conflictScanNode` -/

/-- An element with an unusable selector anywhere in the list makes the scan fail (with a conflict
or with a selector error, whichever comes first). -/
theorem scan_ne_none_of_bad (inst : String) (ls : SMap) {l : List Setting} {x : Setting}
    (hx : x ∈ l) (hbad : settingMatches x ls = none) (prev : Option String) :
    conflictScanNode inst ls l prev ≠ .none := by
  induction l generalizing prev with
  | nil => cases hx
  | cons q rest ih =>
    have hrest : q ≠ x → x ∈ rest := fun hne => by
      rcases List.mem_cons.mp hx with rfl | h
      · exact absurd rfl hne
      · exact h
    unfold conflictScanNode
    split
    · simp
    · rename_i hq
      exact ih (hrest (fun h => by subst h; rw [hbad] at hq; cases hq)) prev
    · rename_i hq
      have hx' := hrest (fun h => by subst h; rw [hbad] at hq; cases hq)
      split
      · split
        · simp
        · exact ih hx' _
      · exact ih hx' _

/-- Once some setting already selected the node (`prev = some _`), meeting the instance with a
matching selector can only end in a conflict (or a selector error before that). -/
theorem scan_ne_none_of_prev (ls : SMap) {l : List Setting} {x : Setting}
    (hx : x ∈ l) (hm : settingMatches x ls = some true) (p : String) :
    conflictScanNode x.name ls l (some p) ≠ .none := by
  induction l generalizing p with
  | nil => cases hx
  | cons q rest ih =>
    have hrest : q ≠ x → x ∈ rest := fun hne => by
      rcases List.mem_cons.mp hx with rfl | h
      · exact absurd rfl hne
      · exact h
    unfold conflictScanNode
    split
    · simp
    · rename_i hq
      exact ih (hrest (fun h => by subst h; rw [hm] at hq; cases hq)) p
    · split
      · simp
      · rename_i hne
        exact ih (hrest (fun h => by subst h; simp at hne)) _

/-- **Two differently named settings matching the same node cannot both pass the scan** of one
and the same list: the later one sees the earlier one. -/
theorem scan_not_both_none (ls : SMap) {l : List Setting} {s t : Setting}
    (hs : s ∈ l) (ht : t ∈ l) (hne : s.name ≠ t.name)
    (hms : settingMatches s ls = some true) (hmt : settingMatches t ls = some true)
    (prev : Option String) :
    ¬ (conflictScanNode s.name ls l prev = .none ∧ conflictScanNode t.name ls l prev = .none) := by
  induction l generalizing prev with
  | nil => cases hs
  | cons q rest ih =>
    have hrest : ∀ x : Setting, x ∈ q :: rest → q ≠ x → x ∈ rest := fun x hx hne => by
      rcases List.mem_cons.mp hx with rfl | h
      · exact absurd rfl hne
      · exact h
    rintro ⟨h1, h2⟩
    unfold conflictScanNode at h1 h2
    cases hq : settingMatches q ls with
    | none => simp [hq] at h1
    | some b =>
      cases b with
      | false =>
        simp only [hq] at h1 h2
        have hqs : q ≠ s := fun h => by subst h; rw [hms] at hq; cases hq
        have hqt : q ≠ t := fun h => by subst h; rw [hmt] at hq; cases hq
        exact ih (hrest s hs hqs) (hrest t ht hqt) prev ⟨h1, h2⟩
      | true =>
        simp only [hq] at h1 h2
        by_cases hqs : q.name = s.name
        · -- the head is (named like) `s`: `t` is further down and will see it
          have hqt : q.name ≠ t.name := fun h => hne (hqs.symm.trans h)
          have hqt' : q ≠ t := fun h => hqt (by rw [h])
          simp only [beq_iff_eq, hqt, if_false] at h2
          exact scan_ne_none_of_prev ls (hrest t ht hqt') hmt _ h2
        · have hqs' : q ≠ s := fun h => hqs (by rw [h])
          simp only [beq_iff_eq, hqs, if_false] at h1
          exact scan_ne_none_of_prev ls (hrest s hs hqs') hms _ h1

/-- A list in which nothing is unusable and nothing named `inst` matches the node passes the scan. -/
theorem scan_none_of_no_inst_match (inst : String) (ls : SMap) {l : List Setting}
    (hgood : ∀ x ∈ l, settingMatches x ls ≠ none)
    (hno : ∀ x ∈ l, x.name = inst → settingMatches x ls ≠ some true) (prev : Option String) :
    conflictScanNode inst ls l prev = .none := by
  induction l generalizing prev with
  | nil => rfl
  | cons q rest ih =>
    have ih' := ih (fun x hx => hgood x (List.mem_cons_of_mem q hx))
      (fun x hx => hno x (List.mem_cons_of_mem q hx))
    unfold conflictScanNode
    split
    · rename_i hq
      exact absurd hq (hgood q List.mem_cons_self)
    · exact ih' prev
    · rename_i hq
      split
      · rename_i hn
        exact absurd hq (hno q List.mem_cons_self (by simpa using hn))
      · exact ih' _

/-- A list with unique names in which nothing is unusable and nothing *else* matches the node
passes the scan. -/
theorem scan_none_of_others_false (inst : String) (ls : SMap) {l : List Setting}
    (hnd : (l.map (·.name)).Nodup)
    (hgood : ∀ x ∈ l, settingMatches x ls ≠ none)
    (hothers : ∀ x ∈ l, x.name ≠ inst → settingMatches x ls = some false) :
    conflictScanNode inst ls l none = .none := by
  induction l with
  | nil => rfl
  | cons q rest ih =>
    simp only [List.map_cons, List.nodup_cons, List.mem_map, not_exists, not_and] at hnd
    have hgood' : ∀ x ∈ rest, settingMatches x ls ≠ none :=
      fun x hx => hgood x (List.mem_cons_of_mem q hx)
    have ih' := ih hnd.2 hgood' (fun x hx => hothers x (List.mem_cons_of_mem q hx))
    unfold conflictScanNode
    split
    · rename_i hq
      exact absurd hq (hgood q List.mem_cons_self)
    · exact ih'
    · rename_i hq
      split
      · rename_i hn
        have hn' : q.name = inst := by simpa using hn
        -- nothing after the head is named `inst`, so nothing after the head matches
        apply scan_none_of_no_inst_match inst ls hgood'
        intro x hx hxn
        exact absurd (hxn.trans hn'.symm) (hnd.1 x hx)
      · rename_i hn
        have hn' : q.name ≠ inst := by simpa using hn
        rw [hothers q List.mem_cons_self hn'] at hq
        cases hq

/-! ### `searchConflict` / `settingReconcile` -/

/-- the settings that take part in the scan run for `inst`. -/
def usableFor (inst : Setting) (all : List Setting) : List Setting :=
  all.filter (fun s => !(s.badSelector && s.name != inst.name))

theorem searchConflict_eq (inst : Setting) (nodes : List Node) (all : List Setting) :
    searchConflict inst nodes all = searchConflict.go inst (sortSettings (usableFor inst all)) nodes :=
  rfl

theorem mem_usableFor {inst x : Setting} {all : List Setting} :
    x ∈ usableFor inst all ↔ x ∈ all ∧ (x.badSelector = true → x.name = inst.name) := by
  unfold usableFor
  simp only [List.mem_filter, Bool.not_eq_true', Bool.and_eq_false_imp, bne_eq_false_iff_eq]

theorem searchConflict_go_none_iff (inst : Setting) (sorted : List Setting) (nodes : List Node) :
    searchConflict.go inst sorted nodes = .none ↔
      ∀ n ∈ nodes, conflictScanNode inst.name n.labels sorted none = .none := by
  induction nodes with
  | nil => simp [searchConflict.go]
  | cons n rest ih =>
    unfold searchConflict.go
    split
    · rename_i h
      simp [ih, h]
    · rename_i r hne
      constructor
      · intro h
        exact (hne h).elim
      · intro h
        exact (hne (h n List.mem_cons_self)).elim

/-- the first node of a non-empty node list decides when its scan fails. -/
theorem searchConflict_go_ne_none {inst : Setting} {sorted : List Setting} {nodes : List Node}
    (hn : nodes ≠ [])
    (h : ∀ n ∈ nodes, conflictScanNode inst.name n.labels sorted none ≠ .none) :
    searchConflict.go inst sorted nodes ≠ .none := by
  intro hgo
  cases nodes with
  | nil => exact hn rfl
  | cons n rest =>
    exact h n List.mem_cons_self ((searchConflict_go_none_iff inst sorted _).mp hgo n List.mem_cons_self)

/-- The status is `valid` exactly when there is a reference and no node shows a conflict. -/
theorem settingReconcile_valid_iff (inst : Setting) (nodes : List Node) (all : List Setting) :
    (settingReconcile inst nodes all).1 = "valid" ↔
      (∃ r, inst.reference = some r ∧ r ≠ "") ∧ searchConflict inst nodes all = .none := by
  unfold settingReconcile
  split
  · rename_i h; simp [h]
  · rename_i h; simp [h]
  · rename_i r hne h
    have hr : r ≠ "" := hne
    split <;> rename_i hc <;> simp [h, hr, hc]

/-- There are only two statuses. -/
theorem settingReconcile_status (inst : Setting) (nodes : List Node) (all : List Setting) :
    (settingReconcile inst nodes all).1 = "valid" ∨ (settingReconcile inst nodes all).1 = "error" := by
  unfold settingReconcile
  split
  · simp
  · simp
  · split <;> simp

theorem settingReconcile_error_of_conflict {inst : Setting} {nodes : List Node} {all : List Setting}
    (h : searchConflict inst nodes all ≠ .none) :
    (settingReconcile inst nodes all).1 = "error" := by
  rcases settingReconcile_status inst nodes all with hv | he
  · exact absurd ((settingReconcile_valid_iff inst nodes all).mp hv).2 h
  · exact he

/-- With unique names, the run for a setting with a usable selector that is itself in the list scans
exactly the settings with a usable selector — the same list for every such setting. -/
theorem usableFor_eq_of_good {inst : Setting} {all : List Setting}
    (hnd : (all.map (·.name)).Nodup) (hi : inst ∈ all) (hg : inst.badSelector = false) :
    usableFor inst all = all.filter (fun s => !s.badSelector) := by
  unfold usableFor
  apply List.filter_congr
  intro x hx
  cases hb : x.badSelector
  · rfl
  · have hne : x.name ≠ inst.name := fun h => by
      have := eq_of_name_eq_of_nodup hnd hx hi h
      subst this
      rw [hg] at hb
      cases hb
    simp [hne]

/-- the scanned list has unique names when the namespace has. -/
theorem sorted_usable_nodup (inst : Setting) {all : List Setting} (hnd : (all.map (·.name)).Nodup) :
    ((sortSettings (usableFor inst all)).map (·.name)).Nodup := by
  have h1 : ((usableFor inst all).map (·.name)).Nodup :=
    List.Nodup.sublist (List.Sublist.map _ List.filter_sublist) hnd
  exact ((sortSettings_perm _).map _).nodup_iff.mpr h1

theorem length_le_one_of_all_eq {α} {l : List α} (hnd : l.Nodup) (h : ∀ a ∈ l, ∀ b ∈ l, a = b) :
    l.length ≤ 1 := by
  match l, hnd, h with
  | [], _, _ => simp
  | [_], _, _ => simp
  | a :: b :: rest, hnd, h =>
    have hab : a = b := h a List.mem_cons_self b (List.mem_cons_of_mem a List.mem_cons_self)
    subst hab
    simp at hnd


/-! ### `chooseSetting` -/

/-- If every valid setting has a usable selector and `s` is the only valid setting of the list
matching the node, the loop returns `s`. -/
theorem chooseSetting_go_eq_of_unique (n : Node) {l : List Setting} {s : Setting}
    (hs : s ∈ l) (hv : s.status = "valid") (hm : settingMatches s n.labels = some true)
    (hgood : ∀ x ∈ l, x.status = "valid" → settingMatches x n.labels ≠ none)
    (huniq : ∀ x ∈ l, x.status = "valid" → settingMatches x n.labels = some true → x = s) :
    chooseSetting.go n l = some (some s) := by
  induction l with
  | nil => cases hs
  | cons q rest ih =>
    have hrest : q ≠ s → s ∈ rest := fun hne => by
      rcases List.mem_cons.mp hs with rfl | h
      · exact absurd rfl hne
      · exact h
    have ih' := fun h => ih h (fun x hx => hgood x (List.mem_cons_of_mem q hx))
      (fun x hx => huniq x (List.mem_cons_of_mem q hx))
    unfold chooseSetting.go
    split
    · rename_i hst
      exact ih' (hrest (fun h => by subst h; simp [hv] at hst))
    · rename_i hst
      have hqv : q.status = "valid" := by simpa using hst
      split
      · rename_i hq
        exact absurd hq (hgood q List.mem_cons_self hqv)
      · rename_i hq
        rw [huniq q List.mem_cons_self hqv hq]
      · rename_i hq
        exact ih' (hrest (fun h => by subst h; rw [hm] at hq; cases hq))

/-- If every valid setting has a usable selector the loop does not fail. -/
theorem chooseSetting_go_ne_none (n : Node) {l : List Setting}
    (hgood : ∀ x ∈ l, x.status = "valid" → settingMatches x n.labels ≠ none) :
    chooseSetting.go n l ≠ none := by
  induction l with
  | nil => simp [chooseSetting.go]
  | cons q rest ih =>
    have ih' := ih (fun x hx => hgood x (List.mem_cons_of_mem q hx))
    unfold chooseSetting.go
    split
    · exact ih'
    · rename_i hst
      have hqv : q.status = "valid" := by simpa using hst
      split
      · rename_i hq
        exact absurd hq (hgood q List.mem_cons_self hqv)
      · simp
      · exact ih'

/-- What the loop returns is in the list, valid and matching. -/
theorem chooseSetting_go_some (n : Node) {l : List Setting} {s : Setting}
    (h : chooseSetting.go n l = some (some s)) :
    s ∈ l ∧ s.status = "valid" ∧ settingMatches s n.labels = some true := by
  induction l with
  | nil => simp [chooseSetting.go] at h
  | cons q rest ih =>
    unfold chooseSetting.go at h
    split at h
    · have := ih h
      exact ⟨List.mem_cons_of_mem q this.1, this.2⟩
    · rename_i hst
      have hqv : q.status = "valid" := by simpa using hst
      split at h
      · cases h
      · rename_i hq
        simp only [Option.some.injEq] at h
        subst h
        exact ⟨List.mem_cons_self, hqv, hq⟩
      · have := ih h
        exact ⟨List.mem_cons_of_mem q this.1, this.2⟩

end Eds
