import EdsProofs.ReconcileErs
/-
  Helper lemmas for EdsProps/C02c.lean (store-level convergence) that speak about the model only:

  * `CondsLe now cs`            — every condition of `cs` was last updated / last switched at or before `now`;
    `updateCond_condsLe`        — `updateCond … now …` keeps it;
  * `calculateMaxCreation_ok`   — with a parsed additive increase ≥ 1, a cap ≥ 1 and a start time that is
                                  not in the future the slow-start ramp yields a cap `1 ≤ mc ≤ maxParallel`,
                                  for EVERY clock value; `calculateMaxCreation_mono`: the ramp only grows;
  * `manageDeployment_ok`       — the successful run of `ManageDeployment`, spelled out;
  * `ersFinish_ungated`         — when neither the PodDeletion nor the PodCreation gate fires the sync
                                  issues exactly the strategy's creations and deletions;
  * `ersFinish_status_condsLe`  — the status the sync stores is stamped at or before `now`.
-/
namespace Eds

/-! ### condition timestamps -/

/-- every condition was last updated and last switched at or before `t`. -/
def CondsLe (t : Time) (cs : List Cond) : Prop := ∀ c ∈ cs, c.lastUpdate ≤ t ∧ c.lastTransition ≤ t

theorem CondsLe.mono {t t' : Time} {cs : List Cond} (h : CondsLe t cs) (ht : t ≤ t') : CondsLe t' cs :=
  fun c hc => ⟨Int.le_trans (h c hc).1 ht, Int.le_trans (h c hc).2 ht⟩

theorem updateFirst_condsLe (now : Time) (cs : List Cond) (t : String) (f : Cond → Cond)
    (hf : ∀ c, c.lastUpdate ≤ now ∧ c.lastTransition ≤ now → (f c).lastUpdate ≤ now ∧ (f c).lastTransition ≤ now)
    (h : CondsLe now cs) : CondsLe now (updateFirst cs t f) := by
  induction cs with
  | nil => intro c hc; cases hc
  | cons a rest ih =>
    have hr : CondsLe now rest := fun c hc => h c (List.mem_cons_of_mem _ hc)
    cases ha : (a.type == t) with
    | true =>
      rw [updateFirst_cons_pos a rest t f ha]
      intro c hc
      rcases List.mem_cons.mp hc with hc | hc
      · rw [hc]; exact hf a (h a List.mem_cons_self)
      · exact hr c hc
    | false =>
      rw [updateFirst_cons_neg a rest t f ha]
      intro c hc
      rcases List.mem_cons.mp hc with hc | hc
      · rw [hc]; exact h a List.mem_cons_self
      · exact ih hr c hc

/-- `updateCond` stamps with `now` or keeps the stamps. -/
theorem updateCond_condsLe (cs : List Cond) (now : Time) (t status reason desc : String) (w sl : Bool)
    (h : CondsLe now cs) : CondsLe now (updateCond cs now t status reason desc w sl) := by
  unfold updateCond
  split
  · apply updateFirst_condsLe now cs t _ _ h
    intro c hc
    simp only []
    split <;> split <;> split <;> first | exact hc | exact ⟨Int.le_refl _, Int.le_refl _⟩ | exact ⟨Int.le_refl _, hc.2⟩
  · split
    · intro c hc
      rcases List.mem_append.mp hc with hc | hc
      · exact h c hc
      · simp only [List.mem_singleton] at hc
        rw [hc]; exact ⟨Int.le_refl _, Int.le_refl _⟩
    · exact h

theorem condsLe_ite (now : Time) (b : Bool) (cs ds : List Cond) (h1 : CondsLe now cs) (h2 : CondsLe now ds) :
    CondsLe now (if b then cs else ds) := by
  cases b <;> simpa

/-! ### the slow-start ramp -/

/-- **The creation cap is positive at every instant.**  With an additive increase that resolves to
`inc ≥ 1`, an interval, a parallel-creation cap `mp ≥ 1` and a rolling-update start that is not in the
future, `calculateMaxCreation` returns a cap `mc` with `1 ≤ mc ≤ mp`. -/
theorem calculateMaxCreation_ok (x : Option IntOrStr) (iv mp N start now inc : Int)
    (hx : resolveIntOrPercent x N = some inc) (hinc : 1 ≤ inc) (hmp : 1 ≤ mp) (hs : start ≤ now) :
    ∃ mc, calculateMaxCreation x (some iv) (some mp) N start now = .ok mc ∧ 1 ≤ mc ∧ mc ≤ mp := by
  unfold calculateMaxCreation
  rw [hx]
  simp only []
  by_cases hiv : iv ≤ 0
  · rw [if_pos hiv]; exact ⟨mp, rfl, hmp, Int.le_refl _⟩
  · rw [if_neg hiv]
    have hne : (iv == 0) = false := by
      have : iv ≠ 0 := by omega
      simpa using this
    simp only [goDiv, hne, Bool.false_eq_true, if_false]
    have hslots : 0 ≤ Int.tdiv (now - start) iv := Int.tdiv_nonneg (by omega) (by omega)
    have hpos : 0 < (1 + Int.tdiv (now - start) iv) * inc := Int.mul_pos (by omega) (by omega)
    refine ⟨_, rfl, ?_, ?_⟩
    · split <;> omega
    · split <;> omega

/-- **The ramp only grows** with the clock (for a start time that is not in the future). -/
theorem calculateMaxCreation_mono (x : Option IntOrStr) (iv mp N start now now' inc mc mc' : Int)
    (hx : resolveIntOrPercent x N = some inc) (hinc : 0 ≤ inc) (hs : start ≤ now) (hn : now ≤ now')
    (h : calculateMaxCreation x (some iv) (some mp) N start now = .ok mc)
    (h' : calculateMaxCreation x (some iv) (some mp) N start now' = .ok mc') : mc ≤ mc' := by
  unfold calculateMaxCreation at h h'
  rw [hx] at h h'
  simp only [] at h h'
  by_cases hiv : iv ≤ 0
  · rw [if_pos hiv] at h h'
    injection h with h; injection h' with h'; omega
  · rw [if_neg hiv] at h h'
    have hne : (iv == 0) = false := by
      have : iv ≠ 0 := by omega
      simpa using this
    simp only [goDiv, hne, Bool.false_eq_true, if_false] at h h'
    injection h with h; injection h' with h'
    have h1 : 0 ≤ now - start := by omega
    have h2 : 0 ≤ now' - start := by omega
    have hle : Int.tdiv (now - start) iv ≤ Int.tdiv (now' - start) iv := by
      rw [Int.tdiv_eq_ediv_of_nonneg h1, Int.tdiv_eq_ediv_of_nonneg h2]
      exact Int.ediv_le_ediv (by omega) (by omega)
    have hm : (1 + Int.tdiv (now - start) iv) * inc ≤ (1 + Int.tdiv (now' - start) iv) * inc :=
      Int.mul_le_mul_of_nonneg_right (by omega) hinc
    rw [← h, ← h']
    split <;> split <;> omega

/-- the start of the rolling update is not in the future when the conditions are not. -/
theorem rollingUpdateStartTime_le (st : ERSStatus) (now : Time) (h : CondsLe now st.conds) :
    rollingUpdateStartTime st now ≤ now := by
  unfold rollingUpdateStartTime
  split
  · rename_i c hc
    split
    · exact (h c (List.mem_of_find?_eq_some hc)).2
    · exact Int.le_refl _
  · exact Int.le_refl _

/-! ### `ManageDeployment`, successful run -/

/-- the status conditions `ManageDeployment` returns. -/
def deploymentConds (p : StratParams) (now wall : Time) (cf : Bool) : List Cond :=
  if p.toCleanUp.isEmpty then rollingConds p now
  else updateCond (rollingConds p now) wall "PodsCleanupDone" (boolCond (!cf)) "" "" true false

/-- when the three strategy values resolve, `ManageDeployment` succeeds with the plan of
`rollingPlan`, the clean-up of `cleanupTargets` and a status whose conditions are `deploymentConds`. -/
theorem manageDeployment_ok (p : StratParams) (now wall : Time) (cf : Bool) (ms mu mc : Int)
    (hms : resolveIntOrPercent p.strategy.rollingUpdate.maxPodSchedulerFailure (targeted p).length = some ms)
    (hmu : resolveIntOrPercent p.strategy.rollingUpdate.maxUnavailable (targeted p).length = some mu)
    (hmc : calculateMaxCreation p.strategy.rollingUpdate.slowStartAdditiveIncrease
        p.strategy.rollingUpdate.slowStartInterval p.strategy.rollingUpdate.maxParallelPodCreation
        (targeted p).length (rollingUpdateStartTime p.ers.status now) now = .ok mc) :
    ∃ r st0, manageDeployment p now wall cf = .ok r ∧ r.newStatus = some st0 ∧
      st0.conds = deploymentConds p now wall cf ∧
      r.createE = (rollingPlan (countAll p.ers.templateGeneration wall (targeted p)) (targeted p).length
                    ms mu mc (isRollingUpdatePaused p.edsAnnotations) (isRolloutFrozen p.edsAnnotations)).1 ∧
      r.deleteE = (rollingPlan (countAll p.ers.templateGeneration wall (targeted p)) (targeted p).length
                    ms mu mc (isRollingUpdatePaused p.edsAnnotations) (isRolloutFrozen p.edsAnnotations)).2 ∧
      r.cleanupDeletes = cleanupTargets p.toCleanUp := by
  unfold targeted at hms hmu hmc
  unfold manageDeployment
  simp only [hms, hmu, hmc]
  refine ⟨_, _, rfl, rfl, ?_, rfl, rfl, rfl⟩
  unfold deploymentConds rollingConds
  split <;> rfl

/-! ### `ersFinish` without gates -/

theorem findCond_ite (b : Bool) (cs ds : List Cond) (t : String) :
    findCond (if b then cs else ds) t = if b then findCond cs t else findCond ds t := by
  cases b <;> rfl

section Finish
variable (rs : ERS) (role : String) (freq : Dur) (sp : StratParams) (r : StratResult)
  (adds removes : List String) (se : Bool) (st0 : ERSStatus) (aff : Bool) (now : Time)

theorem findCond_finish1 (b : Bool) (cs : List Cond) (now : Time) (s desc t : String)
    (h1 : "PodsCleanupDone" ≠ t) (h2 : "Unschedule" ≠ t) :
    findCond (updateCond (if b = true then updateCond cs now "PodsCleanupDone" "True" "" "" false false else cs)
      now "Unschedule" s "" desc false false) t = findCond cs t := by
  rw [findCond_updateCond_other _ _ _ _ _ _ _ _ _ h2]
  cases b
  · rfl
  · exact findCond_updateCond_other _ _ _ _ _ _ _ _ _ h1

theorem findCond_finish2 (b : Bool) (cs : List Cond) (now : Time) :
    findCond (if b = true then updateCond cs now "PodDeletion" "True" "" "pods deleted" false true else cs)
      "PodCreation" = findCond cs "PodCreation" := by
  cases b
  · rfl
  · exact findCond_updateCond_other _ _ _ _ _ _ _ _ _ (by decide)

/-- **No gate fires**: when the PodDeletion and PodCreation conditions of the strategy's status (if
present) were last updated at least `freq` ago, the sync issues exactly the strategy's deletions and
creations. -/
theorem ersFinish_ungated
    (hd : ∀ c, findCond st0.conds "PodDeletion" = some c → c.lastUpdate + freq ≤ now)
    (hc : ∀ c, findCond st0.conds "PodCreation" = some c → c.lastUpdate + freq ≤ now) :
    (ersFinish rs role freq sp r adds removes se st0 aff now).deletes = r.deleteE.map (·.2.name) ∧
    (ersFinish rs role freq sp r adds removes se st0 aff now).creates =
      r.createE.map (fun ni => (ni.node.name, (createPod rs (some ni.node) ni.setting aff).pod)) := by
  constructor
  · unfold ersFinish
    simp only []
    rw [findCond_finish1 _ _ _ _ _ _ (by decide) (by decide)]
    cases hf : findCond st0.conds "PodDeletion" with
    | none => rfl
    | some c =>
      have := hd c hf
      have hg : decide (now - c.lastUpdate < freq) = false := by
        simp only [decide_eq_false_iff_not]; omega
      simp only [hg, Bool.false_eq_true, if_false]
  · unfold ersFinish
    simp only []
    rw [findCond_finish2, findCond_finish1 _ _ _ _ _ _ (by decide) (by decide)]
    cases hf : findCond st0.conds "PodCreation" with
    | none => rfl
    | some c =>
      have := hc c hf
      have hg : decide (now - c.lastUpdate < freq) = false := by
        simp only [decide_eq_false_iff_not]; omega
      simp only [hg, Bool.false_eq_true, if_false]

/-- the status the sync stores (the one it writes, or the unchanged current one). -/
theorem ersFinish_status_condsLe (h : CondsLe now st0.conds) :
    CondsLe now (((ersFinish rs role freq sp r adds removes se st0 aff now).statusUpdate).getD rs.status).conds := by
  have hget : ∀ (s : ERSStatus), ((if s != rs.status then some s else none : Option ERSStatus).getD rs.status) = s := by
    intro s
    by_cases hs : s = rs.status
    · simp [hs]
    · simp [hs]
  unfold ersFinish
  simp only []
  rw [hget]
  simp only []
  apply updateCond_condsLe
  apply updateCond_condsLe
  apply condsLe_ite
  · apply updateCond_condsLe
    apply condsLe_ite
    · apply updateCond_condsLe
      apply updateCond_condsLe
      apply condsLe_ite
      · exact updateCond_condsLe _ _ _ _ _ _ _ _ h
      · exact h
    · apply updateCond_condsLe
      apply condsLe_ite
      · exact updateCond_condsLe _ _ _ _ _ _ _ _ h
      · exact h
  · apply condsLe_ite
    · apply updateCond_condsLe
      apply updateCond_condsLe
      apply condsLe_ite
      · exact updateCond_condsLe _ _ _ _ _ _ _ _ h
      · exact h
    · apply updateCond_condsLe
      apply condsLe_ite
      · exact updateCond_condsLe _ _ _ _ _ _ _ _ h
      · exact h

end Finish

/-! ### conditions through `preConds` and `ManageDeployment` -/

theorem preConds_condsLe (role : String) (cs : List Cond) (now : Time) (h : CondsLe now cs) :
    CondsLe now (preConds role cs now) := by
  unfold preConds
  split
  · exact updateCond_condsLe _ _ _ _ _ _ _ _ (updateCond_condsLe _ _ _ _ _ _ _ _ (updateCond_condsLe _ _ _ _ _ _ _ _ h))
  · split
    · exact updateCond_condsLe _ _ _ _ _ _ _ _ (updateCond_condsLe _ _ _ _ _ _ _ _ h)
    · exact updateCond_condsLe _ _ _ _ _ _ _ _ (updateCond_condsLe _ _ _ _ _ _ _ _ h)

theorem findCond_preConds (role : String) (cs : List Cond) (now : Time) (t : String)
    (h1 : "Canary" ≠ t) (h2 : "Canary-Paused" ≠ t) (h3 : "Canary-Failed" ≠ t) (h4 : "Active" ≠ t) :
    findCond (preConds role cs now) t = findCond cs t := by
  unfold preConds
  split
  · rw [findCond_updateCond_other _ _ _ _ _ _ _ _ _ h3, findCond_updateCond_other _ _ _ _ _ _ _ _ _ h2,
      findCond_updateCond_other _ _ _ _ _ _ _ _ _ h1]
  · split
    · rw [findCond_updateCond_other _ _ _ _ _ _ _ _ _ h4, findCond_updateCond_other _ _ _ _ _ _ _ _ _ h1]
    · rw [findCond_updateCond_other _ _ _ _ _ _ _ _ _ h4, findCond_updateCond_other _ _ _ _ _ _ _ _ _ h1]

theorem deploymentConds_condsLe (p : StratParams) (now : Time) (cf : Bool) (h : CondsLe now p.newStatus.conds) :
    CondsLe now (deploymentConds p now now cf) := by
  have h3 : CondsLe now (rollingConds p now) := by
    unfold rollingConds
    exact updateCond_condsLe _ _ _ _ _ _ _ _ (updateCond_condsLe _ _ _ _ _ _ _ _ (updateCond_condsLe _ _ _ _ _ _ _ _ h))
  unfold deploymentConds
  split
  · exact h3
  · exact updateCond_condsLe _ _ _ _ _ _ _ _ h3

theorem findCond_deploymentConds (p : StratParams) (now wall : Time) (cf : Bool) (t : String)
    (h1 : "RollingUpdatePaused" ≠ t) (h2 : "RolloutFrozen" ≠ t) (h3 : "Active" ≠ t) (h4 : "PodsCleanupDone" ≠ t) :
    findCond (deploymentConds p now wall cf) t = findCond p.newStatus.conds t := by
  have hr : findCond (rollingConds p now) t = findCond p.newStatus.conds t := by
    unfold rollingConds
    simp only []
    rw [findCond_updateCond_other _ _ _ _ _ _ _ _ _ h3, findCond_updateCond_other _ _ _ _ _ _ _ _ _ h2,
      findCond_updateCond_other _ _ _ _ _ _ _ _ _ h1]
  unfold deploymentConds
  split
  · exact hr
  · rw [findCond_updateCond_other _ _ _ _ _ _ _ _ _ h4, hr]

end Eds
