import EdsModel.Generated.DecRolling
import EdsProofs.BridgePodCompare
import EdsModel.Rolling
/-
  EdsProofs.BridgeRolling — the classification loop of `ManageDeployment` (strategy/rollingupdate.go),

      for node, pod := range params.PodByNodeName { … }

  as the translator regenerates it on every run (EdsModel/Generated/DecRolling.lean: the statement is cut out of the
  function — the rest of `ManageDeployment` talks to the API server — and translated as a function of the locals it
  reads, returning the locals it assigns), is the fold of the model's `countStep` (EdsModel/Rolling.lean, `countAll`).

  Iteration over the Go map is iteration over the association list in the order given: the theorems hold for every
  list, i.e. for every iteration order Go may choose.  Every iteration reads the wall clock twice
  (`HasPodSchedulerIssue`): the translated loop takes the two readings as functions of the iteration index; the model
  evaluates the whole loop at one instant `wall`, which is the hypothesis `hw1` / `hw2` of the bridge (the clock does not
  advance during the loop).
-/
set_option linter.unusedSimpArgs false
set_option linter.unusedVariables false
namespace Eds.Bridge
open Eds

/-- the deletion candidates in iteration order: what the Go loop appends to its single list `allPodToDelete` (the model
keeps the unavailable and the available ones apart, `toDeleteUnavail` / `toDeleteAvail`; see `delOrder_partition`). -/
def delStep (tg : String) (wall : Time) (d : List (NodeItem × Pod)) (e : NodeItem × Option Pod) : List (NodeItem × Pod) :=
  match e.2 with
  | none => d
  | some pod =>
    match classify tg wall e with
    | .outdated _ => d ++ [(e.1, pod)]
    | _ => d

def delOrder (tg : String) (wall : Time) (es : List (NodeItem × Option Pod)) : List (NodeItem × Pod) :=
  es.foldl (delStep tg wall) []

/-- one iteration of the translated loop is the model's `countStep` (and `delStep` for the single deletion list); no
iteration panics. -/
theorem classify_cons (metaNow : Int) (P : GParams) (rs : ERS) (hrs : P.replicaset = some rs) (nilSlice : Bool)
    (w1 w2 : Int → Int) (wall : Time) (hw1 : ∀ i, w1 i = wall) (hw2 : ∀ i, w2 i = wall)
    (k : List (Option NodeItem) → List (Option NodeItem) → Int → Int → Int → Int → Int → Int → Int → Int → Int →
      Option (List (Option NodeItem) × List (Option NodeItem) × Int × Int × Int × Int × Int × Int × Int × Int × Int))
    (ni : NodeItem) (go : Option GPod) (mo : Option Pod) (hv : OptPodRel go mo)
    (rest : List (Option NodeItem × Option GPod)) (i : Int) (c : Counts) (d : List (NodeItem × Pod)) :
    Generated.Decisions.manageDeploymentClassify.loop1 metaNow P nilSlice w1 w2 k ((some ni, go) :: rest) i
        (c.toCreate.map some) (d.map fun e => some e.1) c.allPods c.available c.created c.desired c.stuck c.oldAvailable
        c.oldUnavailable c.terminating c.ready =
      Generated.Decisions.manageDeploymentClassify.loop1 metaNow P nilSlice w1 w2 k rest (i + 1)
        ((countStep rs.templateGeneration wall c (ni, mo)).toCreate.map some)
        ((delStep rs.templateGeneration wall d (ni, mo)).map fun e => some e.1)
        (countStep rs.templateGeneration wall c (ni, mo)).allPods (countStep rs.templateGeneration wall c (ni, mo)).available
        (countStep rs.templateGeneration wall c (ni, mo)).created (countStep rs.templateGeneration wall c (ni, mo)).desired
        (countStep rs.templateGeneration wall c (ni, mo)).stuck (countStep rs.templateGeneration wall c (ni, mo)).oldAvailable
        (countStep rs.templateGeneration wall c (ni, mo)).oldUnavailable
        (countStep rs.templateGeneration wall c (ni, mo)).terminating (countStep rs.templateGeneration wall c (ni, mo)).ready := by
  simp only [Generated.Decisions.manageDeploymentClassify.loop1]
  cases hv with
  | none => simp [countStep, delStep]
  | @some g m hr =>
    simp only [Option.isNone_some, Bool.false_eq_true, if_false, hw1, hw2,
      src_hasPodSchedulerIssue g m wall hr.rel.nodeName hr.rel.creation hr.deletion hr.gracePeriod, Option.bind_some,
      src_compareCurrentPodWithNewPod P rs hrs g m ni hr, src_isPodAvailable g m hr.rel.conds,
      src_isPodReady g m hr.rel.conds, hr.deletion.symm]
    cases hsi : m.schedulerIssue wall <;> cases hcmp : comparePod rs.templateGeneration m ni <;>
      cases hdel : m.deletion <;> cases hav : m.available <;> cases hrd : m.ready <;>
      simp [countStep, delStep, classify, hsi, hcmp, hdel, hav, hrd]

/-- the translated loop over `params.PodByNodeName` is the fold of `countStep` / `delStep` over the model's list. -/
theorem classifyLoop (metaNow : Int) (P : GParams) (rs : ERS) (hrs : P.replicaset = some rs) (nilSlice : Bool)
    (w1 w2 : Int → Int) (wall : Time) (hw1 : ∀ i, w1 i = wall) (hw2 : ∀ i, w2 i = wall)
    (k : List (Option NodeItem) → List (Option NodeItem) → Int → Int → Int → Int → Int → Int → Int → Int → Int →
      Option (List (Option NodeItem) × List (Option NodeItem) × Int × Int × Int × Int × Int × Int × Int × Int × Int))
    (PB : List (Option NodeItem × Option GPod)) (es : List (NodeItem × Option Pod)) (hrel : EntriesRel PB es)
    (i : Int) (c : Counts) (d : List (NodeItem × Pod)) :
    Generated.Decisions.manageDeploymentClassify.loop1 metaNow P nilSlice w1 w2 k PB i
        (c.toCreate.map some) (d.map fun e => some e.1) c.allPods c.available c.created c.desired c.stuck c.oldAvailable
        c.oldUnavailable c.terminating c.ready =
      k ((es.foldl (countStep rs.templateGeneration wall) c).toCreate.map some)
        ((es.foldl (delStep rs.templateGeneration wall) d).map fun e => some e.1)
        (es.foldl (countStep rs.templateGeneration wall) c).allPods (es.foldl (countStep rs.templateGeneration wall) c).available
        (es.foldl (countStep rs.templateGeneration wall) c).created (es.foldl (countStep rs.templateGeneration wall) c).desired
        (es.foldl (countStep rs.templateGeneration wall) c).stuck (es.foldl (countStep rs.templateGeneration wall) c).oldAvailable
        (es.foldl (countStep rs.templateGeneration wall) c).oldUnavailable
        (es.foldl (countStep rs.templateGeneration wall) c).terminating (es.foldl (countStep rs.templateGeneration wall) c).ready := by
  induction hrel generalizing i c d with
  | nil => simp [Generated.Decisions.manageDeploymentClassify.loop1]
  | @cons ni go mo PB es hv _ ih =>
    rw [classify_cons metaNow P rs hrs nilSlice w1 w2 wall hw1 hw2 k ni go mo hv PB i c d, ih]
    simp

/-- **the classification loop of `ManageDeployment`** (C03, C09, C14: the counters `calcLimits` and the status are
computed from).  Started from the values `ManageDeployment` initialises (zero counters, empty lists), on a non-nil
`params` with a non-nil `Replicaset`, for every association list `PodByNodeName` related entry by entry to the model's
list (any content, any order), with the clock constant during the loop: the translated statement never panics and
leaves exactly the model's `countAll` in the locals — `allPodToDelete` being the deletion candidates in iteration
order, `delOrder`. -/
theorem src_manageDeploymentClassify (P : GParams) (rs : ERS) (hrs : P.replicaset = some rs) (metaNow : Int)
    (nilSlice : Bool) (w1 w2 : Int → Int) (wall : Time) (hw1 : ∀ i, w1 i = wall) (hw2 : ∀ i, w2 i = wall)
    (es : List (NodeItem × Option Pod)) (hrel : EntriesRel P.podByNodeName es) :
    Generated.Decisions.manageDeploymentClassify (some P) metaNow 0 0 0 0 0 0 0 0 0 [] [] nilSlice w1 w2 =
      some ((countAll rs.templateGeneration wall es).toCreate.map some,
            (delOrder rs.templateGeneration wall es).map (fun e => some e.1),
            (countAll rs.templateGeneration wall es).allPods, (countAll rs.templateGeneration wall es).available,
            (countAll rs.templateGeneration wall es).created, (countAll rs.templateGeneration wall es).desired,
            (countAll rs.templateGeneration wall es).stuck, (countAll rs.templateGeneration wall es).oldAvailable,
            (countAll rs.templateGeneration wall es).oldUnavailable, (countAll rs.templateGeneration wall es).terminating,
            (countAll rs.templateGeneration wall es).ready) := by
  unfold Generated.Decisions.manageDeploymentClassify
  simp only [Option.bind_some]
  have := classifyLoop metaNow P rs hrs nilSlice w1 w2 wall hw1 hw2
    (fun a b c d e f g h i j k => some (a, b, c, d, e, f, g, h, i, j, k)) P.podByNodeName es hrel 0 {} []
  simp only [List.map_nil] at this
  rw [this]
  rfl

/-! `ManageDeployment` then sorts `allPodToDelete` stably with `less(i, j) = !available(i) && available(j)`
(`sort.SliceStable`, library code): the unavailable candidates first, each class in iteration order.  That is the
model's `toDeleteUnavail ++ toDeleteAvail` (`rollingPlan`): -/

theorem del_partition_step (tg : String) (wall : Time) (c : Counts) (d : List (NodeItem × Pod)) (e : NodeItem × Option Pod)
    (h1 : d.filter (fun x => !x.2.available) = c.toDeleteUnavail)
    (h2 : d.filter (fun x => x.2.available) = c.toDeleteAvail) :
    (delStep tg wall d e).filter (fun x => !x.2.available) = (countStep tg wall c e).toDeleteUnavail ∧
    (delStep tg wall d e).filter (fun x => x.2.available) = (countStep tg wall c e).toDeleteAvail := by
  rcases e with ⟨ni, mo⟩
  cases mo with
  | none => simpa [delStep, countStep] using ⟨h1, h2⟩
  | some m =>
    unfold delStep countStep classify
    simp only []
    cases hsi : m.schedulerIssue wall <;> cases hcmp : comparePod tg m ni <;>
      cases hdel : m.deletion <;> cases hav : m.available <;>
      simp [hsi, hcmp, hdel, hav, h1, h2, List.filter_append]

/-- the stable partition of the Go loop's `allPodToDelete` by availability is the model's pair of lists. -/
theorem src_delOrder_partition (tg : String) (wall : Time) (es : List (NodeItem × Option Pod)) :
    (delOrder tg wall es).filter (fun x => !x.2.available) = (countAll tg wall es).toDeleteUnavail ∧
    (delOrder tg wall es).filter (fun x => x.2.available) = (countAll tg wall es).toDeleteAvail := by
  unfold delOrder countAll
  suffices h : ∀ (c : Counts) (d : List (NodeItem × Pod)),
      d.filter (fun x => !x.2.available) = c.toDeleteUnavail → d.filter (fun x => x.2.available) = c.toDeleteAvail →
      (es.foldl (delStep tg wall) d).filter (fun x => !x.2.available) = (es.foldl (countStep tg wall) c).toDeleteUnavail ∧
      (es.foldl (delStep tg wall) d).filter (fun x => x.2.available) = (es.foldl (countStep tg wall) c).toDeleteAvail from
    h {} [] rfl rfl
  induction es with
  | nil => intro c d h1 h2; exact ⟨h1, h2⟩
  | cons e es ih =>
    intro c d h1 h2
    obtain ⟨g1, g2⟩ := del_partition_step tg wall c d e h1 h2
    exact ih _ _ g1 g2

/-- a nil `params` is dereferenced by the range expression. -/
theorem src_manageDeploymentClassify_nil (metaNow : Int) (nilSlice : Bool) (w1 w2 : Int → Int)
    (a b c d e f g h i : Int) (l1 l2 : List (Option NodeItem)) :
    Generated.Decisions.manageDeploymentClassify none metaNow a b c d e f g h i l1 l2 nilSlice w1 w2 = none := rfl

/-! ### Non-vacuity: a concrete map, evaluated on both sides, in both orders.

`n1` runs an outdated (wrong template hash), ready pod; `n2` has no pod.  The counters do not depend on the order of the
association list; the lists are in iteration order. -/

def rNode (n : String) : NodeItem := { node := { (default : Node) with name := n }, setting := none }

def rGoPod : GPod :=
  { (default : GPod) with
    name := "p1", spec := { nodeName := "n1", affinity := none },
    status := { phase := "Running", reason := "", startTime := none, initContainerStatuses := [],
                containerStatuses := [], ephemeralContainerStatuses := [],
                conditions := [{ type := "Ready", status := "True", lastProbeTime := 0, lastTransitionTime := 0,
                                 reason := "", message := "" }] },
    annotations := [⟨"extendeddaemonset.datadoghq.com/templatehash", "old"⟩] }

def rModelPod : Pod :=
  { (default : Pod) with
    name := "p1", nodeName := "n1", conds := Go.canonPodConds rGoPod,
    annotations := [⟨"extendeddaemonset.datadoghq.com/templatehash", "old"⟩] }

def rErs : ERS := { (default : ERS) with name := "rs", templateGeneration := "new" }

def rParams (pb : List (Option NodeItem × Option GPod)) : GParams :=
  { strategy := none, newStatus := none, replicaset := some rErs, podByNodeName := pb }

theorem rPodRel : PodRelC rGoPod rModelPod :=
  { rel := { name := rfl, nodeName := rfl, creation := rfl, startTime := rfl, conds := rfl, cstats := rfl,
             affRequired := rfl, annotations := rfl },
    deletion := rfl, gracePeriod := rfl, containers := rfl }

theorem ex_classify_eval :
    Generated.Decisions.manageDeploymentClassify
        (some (rParams [(some (rNode "n1"), some rGoPod), (some (rNode "n2"), none)])) 100 0 0 0 0 0 0 0 0 0 [] [] false
        (fun _ => 100) (fun _ => 100) =
      some ([some (rNode "n2")], [some (rNode "n1")], 1, 0, 0, 2, 0, 1, 0, 0, 0) ∧
    Generated.Decisions.manageDeploymentClassify
        (some (rParams [(some (rNode "n2"), none), (some (rNode "n1"), some rGoPod)])) 100 0 0 0 0 0 0 0 0 0 [] [] false
        (fun _ => 100) (fun _ => 100) =
      some ([some (rNode "n2")], [some (rNode "n1")], 1, 0, 0, 2, 0, 1, 0, 0, 0) ∧
    ((countAll "new" 100 [(rNode "n1", some rModelPod), (rNode "n2", none)]).desired,
     (countAll "new" 100 [(rNode "n1", some rModelPod), (rNode "n2", none)]).oldAvailable,
     (countAll "new" 100 [(rNode "n1", some rModelPod), (rNode "n2", none)]).allPods) = (2, 1, 1) := by
  refine ⟨?_, ?_, ?_⟩
  · rfl
  · rfl
  · decide

/-- the bridge applied to the instance. -/
theorem ex_classify_bridge :
    Generated.Decisions.manageDeploymentClassify
        (some (rParams [(some (rNode "n1"), some rGoPod), (some (rNode "n2"), none)])) 100 0 0 0 0 0 0 0 0 0 [] [] false
        (fun _ => 100) (fun _ => 100) =
      some (((countAll "new" 100 [(rNode "n1", some rModelPod), (rNode "n2", none)]).toCreate.map some),
            (delOrder "new" 100 [(rNode "n1", some rModelPod), (rNode "n2", none)]).map (fun e => some e.1),
            (countAll "new" 100 [(rNode "n1", some rModelPod), (rNode "n2", none)]).allPods,
            (countAll "new" 100 [(rNode "n1", some rModelPod), (rNode "n2", none)]).available,
            (countAll "new" 100 [(rNode "n1", some rModelPod), (rNode "n2", none)]).created,
            (countAll "new" 100 [(rNode "n1", some rModelPod), (rNode "n2", none)]).desired,
            (countAll "new" 100 [(rNode "n1", some rModelPod), (rNode "n2", none)]).stuck,
            (countAll "new" 100 [(rNode "n1", some rModelPod), (rNode "n2", none)]).oldAvailable,
            (countAll "new" 100 [(rNode "n1", some rModelPod), (rNode "n2", none)]).oldUnavailable,
            (countAll "new" 100 [(rNode "n1", some rModelPod), (rNode "n2", none)]).terminating,
            (countAll "new" 100 [(rNode "n1", some rModelPod), (rNode "n2", none)]).ready) :=
  src_manageDeploymentClassify _ rErs rfl 100 false _ _ 100 (fun _ => rfl) (fun _ => rfl) _
    (.cons (.some rPodRel) (.cons .none .nil))

end Eds.Bridge
