import EdsSpec.C03
import EdsSpec.C05
import EdsSpec.C09
