import EdsSpec.C01
import EdsSpec.C03
import EdsSpec.C05
import EdsSpec.C06
import EdsSpec.C09
import EdsSpec.C16
import EdsSpec.C18
import EdsSpec.C20
