import EdsSpec.C03
import EdsSpec.C09
