import EdsModel
/-
  EdsSpec.C10 — created pods are pinned, labelled and stable under the controller's comparison.
-/
namespace Eds.Spec.C10

/-- the pod is bound to exactly node `n`: by node name, or by a required node affinity on the
node's name present in every affinity term. -/
def pinned (p : Pod) (n : String) (affinityMode : Bool) : Bool :=
  if affinityMode then
    p.nodeName == "" &&
    (match p.affRequired with
     | some terms => !terms.isEmpty && terms.all (fun t => t.fields.contains (nameReq n) &&
                        (t.fields.filter (fun f => f.key == "metadata.name")).all (· == nameReq n))
     | none => false)
  else p.nodeName == n

/-- metadata the pod must carry. -/
def metaOk (p : Pod) (rs : ERS) : Bool :=
  p.owners.contains { kind := "ExtendedDaemonSetReplicaSet", name := rs.name } &&
  SMap.get? p.labels K.ersNameLabel == some rs.name &&
  SMap.get? p.labels K.edsNameLabel == some (SMap.getD rs.labels K.edsNameLabel) &&
  SMap.get? p.annotations K.templateHashAnnot == some rs.templateGeneration &&
  standardTolerations.all (fun t => p.tolerations.contains t) &&
  p.ns == rs.ns

/-- expected resources of container `c` of the template: well-formed node-annotation override, else
the setting selecting the node, else the template. -/
def expectedRes (c : Container) (n : Node) (setting : Option Setting) : Resources :=
  match n.overrides.find? (fun o => o.container == c.name) with
  | some o =>
    if o.ok then o.res
    else (match setting.bind (fun s => (s.containers.filter (fun x => x.name == c.name)).getLast?) with
          | some x => x.res | none => c.res)
  | none =>
    match setting.bind (fun s => (s.containers.filter (fun x => x.name == c.name)).getLast?) with
    | some x => x.res
    | none => c.res

/-- resources of every container as resolved (container names distinct in the template). -/
def resources (p : Pod) (t : Template) (n : Node) (setting : Option Setting) : Bool :=
  p.containers.map (·.name) == t.containers.map (·.name) &&
  (p.containers.zip t.containers).all (fun pc => pc.1.res == expectedRes pc.2 n setting)

end Eds.Spec.C10
