import EdsModel
/-
  EdsSpec.C14 — status tells the truth: the ExtendedDaemonSet status as the documented function of
  its replica sets' statuses, written declaratively (independently of `updateInstance`).
-/
namespace Eds.Spec.C14

def sumBy (f : ERS → Int) (l : List ERS) : Int := l.foldl (fun a e => a + f e) 0

/-- the counters and names of the status after a reconcile that reached the status computation:
`own` = the EDS's replica sets, `active`/`upToDate` = the selected ones. -/
def countersOk (own : List ERS) (active upToDate : ERS) (canaryActive : Bool) (st : EDSStatus) : Bool :=
  st.current == sumBy (·.status.current) own &&
  st.ready == sumBy (·.status.ready) own &&
  st.available == sumBy (·.status.available) own &&
  st.activeReplicaSet == active.name &&
  st.desired == active.status.desired + (if canaryActive then upToDate.status.desired else 0) &&
  st.upToDate == (if canaryActive then upToDate.status.current else active.status.current)

/-- state / reason / canary block agree with the canary facts and annotations. -/
def stateOk (hasCanarySpec canaryActive failed paused : Bool) (pausedReason : String) (ann : SMap)
    (upToDate : ERS) (st : EDSStatus) : Bool :=
  if !hasCanarySpec then st.state == nonCanaryState ann
  else if failed then st.state == "Canary Failed" && st.canary.isNone && st.reason == ""
  else if canaryActive then
    st.state == (if paused then "Canary Paused" else "Canary") &&
    st.reason == (if paused then pausedReason else "") &&
    (match st.canary with | some cs => cs.replicaSet == upToDate.name | none => false)
  else st.state == nonCanaryState ann && st.canary.isNone && st.reason == ""

/-- the two EDS conditions agree with the facts. -/
def condsOk (hasCanarySpec failed paused : Bool) (st : EDSStatus) : Bool :=
  !hasCanarySpec ||
  (isCondTrue st.conds "Canary-Failed" == failed && isCondTrue st.conds "Canary-Paused" == (paused && !failed))

end Eds.Spec.C14
