import EdsModel
/-
  EdsSpec.C06 — auto-fail / auto-pause triggers, stated from the property text over the vector of
  evaluated (up-to-date, non-terminating) canary pods.
-/
namespace Eds.Spec.C06

/-- per-pod observation used by the triggers -/
def podRestarts (p : Pod) : Int := (highestRestart p.cstats).1

/-- the pod is stuck in an image/config/hook start error, counting only after maxSlowStartDuration
when that is set. -/
def podCannotStart (slow : Option Dur) (now : Time) (p : Pod) : Bool :=
  (cannotStart p.cstats).1 &&
  (match slow, p.startTime with
   | some d, some st => now > st + d
   | some _, none => false
   | none, _ => true)

/-- the pod is still creating its containers after maxSlowStartDuration (only when set). -/
def podSlowCreate (slow : Option Dur) (now : Time) (p : Pod) : Bool :=
  !(cannotStart p.cstats).1 && pendingCreate p.cstats &&
  (match slow, p.startTime with
   | some d, some st => now > st + d
   | _, _ => false)

structure Cfg where
  autoPauseEnabled : Bool
  autoPauseMaxRestarts : Int
  maxSlowStart : Option Dur
  autoFailEnabled : Bool
  autoFailMaxRestarts : Int
  maxRestartsDuration : Option Dur
  canaryTimeout : Option Dur

/-- auto-fail trigger of one pod (the two time-based triggers do not depend on the pod, but are only
evaluated while at least one pod exists). -/
def failTrigger (cfg : Cfg) (restartSpan : Option Dur) (canaryAge : Option Dur) (p : Pod) : Bool :=
  cfg.autoFailEnabled &&
  (podRestarts p > cfg.autoFailMaxRestarts ||
   (match cfg.maxRestartsDuration, restartSpan with | some d, some s => s > d | _, _ => false) ||
   (match cfg.canaryTimeout, canaryAge with | some d, some a => a > d | _, _ => false))

def pauseTrigger (cfg : Cfg) (now : Time) (p : Pod) : Bool :=
  cfg.autoPauseEnabled &&
  (podRestarts p > cfg.autoPauseMaxRestarts || podCannotStart cfg.maxSlowStart now p || podSlowCreate cfg.maxSlowStart now p)

/-- expected `IsFailed` after the sync. -/
def expectFailed (cfg : Cfg) (failedBefore : Bool) (restartSpan canaryAge : Option Dur) (pods : List Pod) : Bool :=
  failedBefore || pods.any (failTrigger cfg restartSpan canaryAge)

/-- expected `IsPaused` after the sync when it is not failed and at least one pod is evaluated. -/
def expectPaused (cfg : Cfg) (pausedBefore unpaused : Bool) (now : Time) (pods : List Pod) : Bool :=
  !unpaused && (pausedBefore || pods.any (pauseTrigger cfg now))

end Eds.Spec.C06
