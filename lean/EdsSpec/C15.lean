import EdsModel
/-
  EdsSpec.C15 — canary nodes are valid, distinct, stable and as many as requested.
-/
namespace Eds.Spec.C15

/-- node `name` exists, matches the canary node selector and is eligible for the pod. -/
def validNode (t : Template) (canary : Canary) (nodes : List Node) (name : String) : Bool :=
  nodes.any (fun n => n.name == name && fit t n &&
    (match canary.nodeSelector with
     | some sel => (labelSelectorMatches sel n.labels).getD true
     | none => true))

def added (old new : List String) : List String := new.filter (fun x => !old.contains x)

/-- requested number: percentage resolved against the number of nodes the EDS targets, rounding up. -/
def requested (canary : Canary) (targeted : Int) : Option Int := resolveIntOrPercent canary.replicas targeted

def distinct (old new : List String) : Bool := !decide old.Nodup || decide new.Nodup

def newValid (t : Template) (canary : Canary) (nodes : List Node) (old new : List String) : Bool :=
  (added old new).all (validNode t canary nodes)

/-- nodes selected earlier that are still valid are kept, in order. -/
def keep (t : Template) (canary : Canary) (nodes : List Node) (old new : List String) : Bool :=
  let stillValid := old.filter (validNode t canary nodes)
  (new.filter (fun x => stillValid.contains x)) == stillValid || !decide old.Nodup

def count (canary : Canary) (targeted : Int) (old new : List String) (err : Bool) : Bool :=
  match requested canary targeted with
  | none => err
  | some k =>
    -- reaches the request on success; reports an error when short; never grows beyond the request
    (err == decide ((new.length : Int) < k)) &&
    decide ((new.length : Int) ≤ max k old.length)

def allValid (t : Template) (canary : Canary) (nodes : List Node) (new : List String) : Bool :=
  new.all (validNode t canary nodes)

end Eds.Spec.C15
