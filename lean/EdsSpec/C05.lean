import EdsModel
/-
  EdsSpec.C05 — the promotion rule, stated from the property text (not from the code).
-/
namespace Eds.Spec.C05

/-- canary duration elapsed since the new replica set was created. -/
def durationElapsed (c : Canary) (u : ERS) (now : Time) : Bool :=
  match c.duration with
  | some d => u.creation + d < now
  | none => false

/-- at least noRestartsDuration passed since the last recorded canary pod restart
(vacuous when no noRestartsDuration is set or no restart was recorded). -/
def noRecentRestart (c : Canary) (u : ERS) (now : Time) : Bool :=
  match c.noRestartsDuration, findCond u.status.conds "PodRestarting" with
  | some nr, some rc => isZeroTime rc.lastUpdate || rc.lastUpdate + nr < now
  | _, _ => true

/-- the rule of the property statement: when may `activeReplicaSet` switch from an existing,
different active replica set to the one matching spec.template. -/
def promotionAllowed (canary : Option Canary) (ann : SMap) (u : ERS) (now : Time) : Bool :=
  match canary with
  | none => true
  | some c =>
    isCanaryValid ann u.name ||
    (c.validationMode == "auto" && durationElapsed c u now && noRecentRestart c u now &&
      !(isCanaryPaused ann (some u)).1 && !isCanaryFailed (some u))

/-- `holds`: evaluated on the implementation's answer `pickedUpToDate` for an existing active
replica set that is a different object. -/
def holds (canary : Option Canary) (ann : SMap) (activePresent : Bool) (u : ERS) (now : Time)
    (pickedUpToDate : Bool) : Bool :=
  if !activePresent then pickedUpToDate        -- adopted directly
  else !pickedUpToDate || promotionAllowed canary ann u now

end Eds.Spec.C05
