import EdsModel
/-
  EdsSpec.C03 — decidable specification predicates for "Rolling update respects maxUnavailable".
  The same definitions are used in the theorems (EdsProps/C03.lean) and evaluated by the driver on
  the implementation's output.
-/
namespace Eds.Spec.C03

/-- the kernel never allows more update-deletions than maxUnavailable (and never a negative number). -/
def limitsCap (p : LimitParams) (nbDeletion : Int) : Bool :=
  0 ≤ nbDeletion && nbDeletion ≤ max 0 p.maxUnavailablePod

abbrev Entry := NodeItem × Option Pod

/-- the node runs an available daemon pod that the strategy counts (not stuck, not terminating-outdated). -/
def isAvailNode (tg : String) (wall : Time) (e : Entry) : Bool :=
  match classify tg wall e with
  | .upToDate true _ => true
  | .outdated true => true
  | _ => false

def isStuckNode (tg : String) (wall : Time) (e : Entry) : Bool :=
  match classify tg wall e with
  | .stuck => true
  | _ => false

def nAvail (tg : String) (wall : Time) (es : List Entry) : Int := (es.filter (isAvailNode tg wall)).length
def nStuck (tg : String) (wall : Time) (es : List Entry) : Int := (es.filter (isStuckNode tg wall)).length

/-- `U`: targeted nodes without an available daemon pod, stuck ones tolerated up to `maxSched`. -/
def unavailableNodes (tg : String) (wall : Time) (es : List Entry) (maxSched : Int) : Int :=
  es.length - min (nStuck tg wall es) maxSched - nAvail tg wall es

/-- number of *available* pods among the pods a strategy result deletes for updating. -/
def availDeleted (del : List (NodeItem × Pod)) : Int := (del.filter (fun e => e.2.available)).length

/-- outdated, non-terminating, non-stuck, unavailable pods: the ones that must go first. -/
def isOutdatedUnavail (tg : String) (wall : Time) (e : Entry) : Bool :=
  match classify tg wall e with
  | .outdated false => true
  | _ => false

def nOutdatedUnavail (tg : String) (wall : Time) (es : List Entry) : Int :=
  (es.filter (isOutdatedUnavail tg wall)).length

/-- the whole C03 contract on a deletion list `del` chosen for entries `es`:
budget, cap, and unavailable-first. -/
def holds (tg : String) (wall : Time) (es : List Entry) (mu maxSched : Int) (del : List (NodeItem × Pod)) : Bool :=
  let u := unavailableNodes tg wall es maxSched
  decide (availDeleted del ≤ max 0 (mu - u)) &&
  decide ((del.length : Int) ≤ max 0 mu) &&
  (availDeleted del == 0 || decide ((del.length : Int) - availDeleted del ≥ nOutdatedUnavail tg wall es))

end Eds.Spec.C03
