import EdsModel
/-
  EdsSpec.C19 — kubectl-eds commands change only what they document.
-/
namespace Eds.Spec.C19

/-- the annotation keys a command is documented to write. -/
def documentedKeys : CliCmd → List String
  | .canaryPause | .canaryUnpause => [K.canaryPausedAnnot, K.canaryUnpausedAnnot]
  | .canaryValidate => [K.canaryValidAnnot]
  | .canaryFail => []
  | .ruPause | .ruUnpause => [K.rollingUpdatePausedAnnot]
  | .freeze | .unfreeze => [K.rolloutFrozenAnnot]

/-- `after` differs from `before` only on `keys`. -/
def frameOk (before after : SMap) (keys : List String) : Bool :=
  (before.filter (fun e => !keys.contains e.k)).all (fun e => SMap.get? after e.k == some e.v) &&
  (after.filter (fun e => !keys.contains e.k)).all (fun e => SMap.get? before e.k == some e.v)

/-- documented precondition: an active canary (and a canary strategy where the command checks it)
for the canary commands, none for rolling-update pause and freeze. -/
def precondition (cmd : CliCmd) (hasCanarySpec : Bool) (statusCanary : Option CanaryStatus) : Bool :=
  match cmd with
  | .canaryPause | .canaryUnpause | .canaryFail => hasCanarySpec && statusCanary.isSome
  | .canaryValidate => statusCanary.isSome
  | .ruPause | .ruUnpause | .freeze | .unfreeze => statusCanary.isNone

/-- the documented value written on success. -/
def writtenOk (cmd : CliCmd) (statusCanary : Option CanaryStatus) (after : SMap) : Bool :=
  match cmd with
  | .canaryPause => SMap.get? after K.canaryPausedAnnot == some "true" && SMap.get? after K.canaryUnpausedAnnot == some "false"
  | .canaryUnpause => SMap.get? after K.canaryPausedAnnot == some "false" && SMap.get? after K.canaryUnpausedAnnot == some "true"
  | .canaryValidate => (match statusCanary with | some cs => SMap.get? after K.canaryValidAnnot == some cs.replicaSet | none => false)
  | .canaryFail => true
  | .ruPause => SMap.get? after K.rollingUpdatePausedAnnot == some "true"
  | .ruUnpause => SMap.get? after K.rollingUpdatePausedAnnot == some "false"
  | .freeze => SMap.get? after K.rolloutFrozenAnnot == some "true"
  | .unfreeze => SMap.get? after K.rolloutFrozenAnnot == some "false"

/-- the object already is in the state the command asks for (the only other documented refusal). -/
def alreadyInState (cmd : CliCmd) (statusCanary : Option CanaryStatus) (ann : SMap) : Bool :=
  match cmd with
  | .canaryPause => SMap.get? ann K.canaryPausedAnnot == some "true"
  | .canaryUnpause => SMap.get? ann K.canaryPausedAnnot == some "false"
  | .canaryValidate => (match statusCanary with | some cs => SMap.get? ann K.canaryValidAnnot == some cs.replicaSet | none => false)
  | .canaryFail => false
  | .ruPause => SMap.get? ann K.rollingUpdatePausedAnnot == some "true"
  | .ruUnpause => SMap.get? ann K.rollingUpdatePausedAnnot == some "false" || (SMap.get? ann K.rollingUpdatePausedAnnot).isNone
  | .freeze => SMap.get? ann K.rolloutFrozenAnnot == some "true"
  | .unfreeze => SMap.get? ann K.rolloutFrozenAnnot == some "false" || (SMap.get? ann K.rolloutFrozenAnnot).isNone

/-- a command whose precondition holds and that would change something is carried out, not refused —
in particular `canary unpause` on a canary the controller paused by itself (Canary-Paused condition on
the replica set, no canary-paused annotation on the ExtendedDaemonSet). -/
def mustAct (cmd : CliCmd) (hasCanarySpec : Bool) (statusCanary : Option CanaryStatus) (ann : SMap) : Bool :=
  precondition cmd hasCanarySpec statusCanary && !alreadyInState cmd statusCanary ann

end Eds.Spec.C19
