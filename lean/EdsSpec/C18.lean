import EdsModel
/-
  EdsSpec.C18 — at most one valid setting applies to a node.
-/
namespace Eds.Spec.C18

/-- statuses `st` (name ↦ status) computed for `settings`: for every node, at most one setting whose
selector matches the node is valid. -/
def mutualExclusion (settings : List Setting) (nodes : List Node) (valid : Setting → Bool) : Bool :=
  nodes.all (fun n =>
    ((settings.filter (fun s => valid s && (settingMatches s n.labels).getD false)).length ≤ 1))

end Eds.Spec.C18
