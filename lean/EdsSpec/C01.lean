import EdsModel
/-
  EdsSpec.C01 — at most one daemon pod per node, and only on eligible nodes: the contract of the
  per-node map and clean-up list, stated on (inputs, outputs) without reference to how the outputs
  were computed.
-/
namespace Eds.Spec.C01

abbrev Kept := List (String × Option String)   -- node name ↦ kept pod name

/-- pods of the ExtendedDaemonSet that count as "on node n": bound to it (spec.nodeName or the
node-name affinity) and not in Unknown phase. -/
def candidates (pods : List Pod) (n : String) : List Pod :=
  pods.filter (fun p => p.nodeOf == some n && p.phase != "Unknown")

/-- eligible = listed, not ignored, fit for the template. -/
def eligible (t : Template) (nodes : List NodeItem) (ignore : List String) (n : String) : Bool :=
  nodes.any (fun ni => ni.node.name == n && !ignore.contains n && fit t ni.node)

def findPod (pods : List Pod) (name : String) : Option Pod := pods.find? (fun p => p.name == name)

/-- keys of the map are exactly the eligible nodes. -/
def keysOk (t : Template) (nodes : List NodeItem) (ignore : List String) (kept : Kept) : Bool :=
  kept.all (fun e => eligible t nodes ignore e.1) &&
  nodes.all (fun ni => !eligible t nodes ignore ni.node.name || kept.any (fun e => e.1 == ni.node.name))

/-- duplicate resolution on every key node. -/
def dupOk (pods : List Pod) (kept : Kept) (toDelete : List String) : Bool :=
  kept.all (fun e =>
    let cands := candidates pods e.1
    match e.2 with
    | none =>
      -- no pod kept: every candidate is a Failed pod that is being deleted
      cands.all (fun q => q.phase == "Failed" && toDelete.contains q.name)
    | some k =>
      match findPod pods k with
      | none => false
      | some kp =>
        kp.nodeOf == some e.1 && kp.phase != "Unknown" && !toDelete.contains k &&
        -- all the others go
        cands.all (fun q => q.name == k || toDelete.contains q.name) &&
        -- the kept one is first under (scheduled, older, name) among the non-Failed ones
        cands.all (fun q => q.name == k || q.phase == "Failed" || podLess kp q))

/-- pods on nodes that are not keys. -/
def strayOk (t : Template) (nodes : List NodeItem) (ignore : List String) (pods : List Pod) (toDelete : List String) : Bool :=
  pods.all (fun p =>
    match p.nodeOf with
    | none => !toDelete.contains p.name
    | some n =>
      if eligible t nodes ignore n then true
      else if p.phase == "Unknown" then !toDelete.contains p.name
      else if ignore.contains n then !toDelete.contains p.name
      else toDelete.contains p.name == p.deletion.isNone)

/-- Unknown-phase pods are never touched. -/
def unknownUntouched (pods : List Pod) (kept : Kept) (toDelete : List String) : Bool :=
  pods.all (fun p => p.phase != "Unknown" ||
    (!toDelete.contains p.name && !kept.any (fun e => e.2 == some p.name)))

def holds (t : Template) (nodes : List NodeItem) (ignore : List String) (pods : List Pod)
    (kept : Kept) (toDelete : List String) : Bool :=
  keysOk t nodes ignore kept && dupOk pods kept toDelete && strayOk t nodes ignore pods toDelete &&
  unknownUntouched pods kept toDelete

end Eds.Spec.C01
