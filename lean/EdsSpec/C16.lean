import EdsModel
/-
  EdsSpec.C16 — defaulting is a fixed point; validation never crashes on a defaulted spec.
-/
namespace Eds.Spec.C16

/-- every field the user set is unchanged by defaulting. -/
def preservesRolling (a b : RollingUpdate) : Bool :=
  (a.maxUnavailable.isNone || a.maxUnavailable == b.maxUnavailable) &&
  (a.maxPodSchedulerFailure.isNone || a.maxPodSchedulerFailure == b.maxPodSchedulerFailure) &&
  (a.maxParallelPodCreation.isNone || a.maxParallelPodCreation == b.maxParallelPodCreation) &&
  (a.slowStartInterval.isNone || a.slowStartInterval == b.slowStartInterval) &&
  (a.slowStartAdditiveIncrease.isNone || a.slowStartAdditiveIncrease == b.slowStartAdditiveIncrease)

def preservesAutoPause (a b : Option AutoPause) : Bool :=
  match a, b with
  | none, _ => true
  | some x, some y =>
    (x.enabled.isNone || x.enabled == y.enabled) && (x.maxRestarts.isNone || x.maxRestarts == y.maxRestarts) &&
    x.maxSlowStartDuration == y.maxSlowStartDuration
  | some _, none => false

def preservesAutoFail (a b : Option AutoFail) : Bool :=
  match a, b with
  | none, _ => true
  | some x, some y =>
    (x.enabled.isNone || x.enabled == y.enabled) && (x.maxRestarts.isNone || x.maxRestarts == y.maxRestarts) &&
    x.maxRestartsDuration == y.maxRestartsDuration && x.canaryTimeout == y.canaryTimeout
  | some _, none => false

def preservesCanary (a b : Option Canary) : Bool :=
  match a, b with
  | none, none => true
  | some x, some y =>
    (x.replicas.isNone || x.replicas == y.replicas) && (x.duration.isNone || x.duration == y.duration) &&
    (x.nodeSelector.isNone || x.nodeSelector == y.nodeSelector) && x.antiAffinityKeys == y.antiAffinityKeys &&
    preservesAutoPause x.autoPause y.autoPause && preservesAutoFail x.autoFail y.autoFail &&
    (x.noRestartsDuration.isNone || x.noRestartsDuration == y.noRestartsDuration) &&
    (x.validationMode == "" || x.validationMode == y.validationMode)
  | _, _ => false

def preserves (a b : Strategy) : Bool :=
  preservesRolling a.rollingUpdate b.rollingUpdate && preservesCanary a.canary b.canary &&
  (a.reconcileFrequency.isNone || a.reconcileFrequency == b.reconcileFrequency)

/-- every pointer the reconcilers dereference is set. -/
def fills (s : Strategy) : Bool :=
  isDefaultedRolling s.rollingUpdate && s.reconcileFrequency.isSome &&
  (match s.canary with
   | none => true
   | some c => c.replicas.isSome && c.nodeSelector.isSome && isDefaultedAutoPause c.autoPause &&
               isDefaultedAutoFail c.autoFail && (c.validationMode != "auto" || c.duration.isSome))

end Eds.Spec.C16
