import EdsModel
/-
  EdsSpec.C02 — the quiescent state reconciliation must reach: every eligible node runs exactly one
  Ready pod built from the live template, no other daemon pod of the ExtendedDaemonSet remains, and
  the status counters say so.
-/
namespace Eds.Spec.C02

structure PodView where
  node : String
  hash : String
  ready : Bool
  phase : String
  terminating : Bool
  ns : String
  eds : String
  /-- the pod carries the canary label -/
  canaryLabel : Bool := false
  deriving DecidableEq, Repr

def ownPods (d : EDS) (pods : List PodView) : List PodView :=
  pods.filter (fun p => p.ns == d.ns && p.eds == d.name)

def eligibleNodes (d : EDS) (nodes : List Node) : List Node := nodes.filter (fit d.template)

/-- the live template is `spec.template` (after a failed canary the controller has restored it to the
active one; after promotion the new one is active). -/
def fixpoint (d : EDS) (nodes : List Node) (pods : List PodView) : Bool :=
  let own := ownPods d pods
  let el := eligibleNodes d nodes
  el.all (fun n => (own.filter (fun p => p.node == n.name)).length == 1) &&
  own.all (fun p => p.ready && p.hash == d.templateHash && !p.terminating && p.phase == "Running" &&
                    el.any (fun n => n.name == p.node))

/-- C14 at quiescence: desired = eligible nodes; current = ready = available = upToDate = pods. -/
def statusQuiescent (d : EDS) (nodes : List Node) (pods : List PodView) : Bool :=
  let n : Int := (eligibleNodes d nodes).length
  let k : Int := (ownPods d pods).length
  d.status.desired == n && d.status.current == k && d.status.ready == k && d.status.available == k &&
  d.status.upToDate == k && d.status.canary.isNone

/-- The cooperative situation of the "update" phase of a rollout, read off the counters of one sync:
every targeted node has a pod, every pod is available, nothing is stuck or terminating, and `o ≥ 1`
of them are outdated.  (C02: in this situation a sync that is neither paused nor frozen must make
progress, i.e. delete at least one outdated pod, as long as maxUnavailable resolves to ≥ 1.) -/
def coopUpdate (c : Counts) : Bool :=
  c.toCreate.isEmpty && c.toDeleteUnavail.isEmpty && c.stuck == 0 && c.terminating == 0 &&
  c.oldUnavailable == 0 && c.allPods == c.desired && c.available == c.created &&
  c.created + c.oldAvailable == c.allPods && c.oldAvailable == c.toDeleteAvail.length &&
  !c.toDeleteAvail.isEmpty

/-- `spec.strategy.rollingUpdate.maxUnavailable` asks for a positive budget (the API documents
"This cannot be 0": a positive number or a positive percentage). -/
def positiveBudget (x : Option IntOrStr) : Bool :=
  match x with
  | some v => (v.kind == "int" || v.kind == "pct") && decide (1 ≤ v.val)
  | none => false

end Eds.Spec.C02
