import EdsModel
/-
  EdsSpec.C02 — the quiescent state reconciliation must reach: every eligible node runs exactly one
  Ready pod built from the live template, no other daemon pod of the ExtendedDaemonSet remains, and
  the status counters say so.
-/
namespace Eds.Spec.C02

structure PodView where
  node : String
  hash : String
  ready : Bool
  phase : String
  terminating : Bool
  ns : String
  eds : String
  deriving DecidableEq, Repr

def ownPods (d : EDS) (pods : List PodView) : List PodView :=
  pods.filter (fun p => p.ns == d.ns && p.eds == d.name)

def eligibleNodes (d : EDS) (nodes : List Node) : List Node := nodes.filter (fit d.template)

/-- the live template is `spec.template` (after a failed canary the controller has restored it to the
active one; after promotion the new one is active). -/
def fixpoint (d : EDS) (nodes : List Node) (pods : List PodView) : Bool :=
  let own := ownPods d pods
  let el := eligibleNodes d nodes
  el.all (fun n => (own.filter (fun p => p.node == n.name)).length == 1) &&
  own.all (fun p => p.ready && p.hash == d.templateHash && !p.terminating && p.phase == "Running" &&
                    el.any (fun n => n.name == p.node))

/-- C14 at quiescence: desired = eligible nodes; current = ready = available = upToDate = pods. -/
def statusQuiescent (d : EDS) (nodes : List Node) (pods : List PodView) : Bool :=
  let n : Int := (eligibleNodes d nodes).length
  let k : Int := (ownPods d pods).length
  d.status.desired == n && d.status.current == k && d.status.ready == k && d.status.available == k &&
  d.status.upToDate == k && d.status.canary.isNone

end Eds.Spec.C02
