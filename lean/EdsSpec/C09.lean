import EdsModel
/-
  EdsSpec.C09 — specification predicates for the creation rate limit.
-/
namespace Eds.Spec.C09

def createCap (p : LimitParams) (nbCreation : Int) : Bool :=
  0 ≤ nbCreation && nbCreation ≤ max 0 p.maxPodCreation && nbCreation ≤ max 0 (p.nbNodes - p.nbPods)

/-- reference formula of the property statement:
min(maxParallelPodCreation, (1 + floor(t / interval)) * increase), for t ≥ 0 and interval > 0. -/
def rampRef (ru : RollingUpdate) (nbNodes : Int) (start now : Time) : Option Int :=
  match resolveIntOrPercent ru.slowStartAdditiveIncrease nbNodes, ru.slowStartInterval, ru.maxParallelPodCreation with
  | some inc, some iv, some mp =>
    if iv > 0 && now ≥ start then some (min mp ((1 + (now - start) / iv) * inc)) else none
  | _, _, _ => none

/-- the implementation's answer agrees with the reference formula wherever the latter is defined. -/
def rampOk (ru : RollingUpdate) (nbNodes : Int) (start now : Time) (impl : String) : Bool :=
  match rampRef ru nbNodes start now with
  | some v => impl == s!"ok:{v}"
  | none => true

end Eds.Spec.C09

namespace Eds.Spec.C09
/-- the per-sync creation bound of the property statement (defined when interval > 0, t ≥ 0). -/
def createBound (ru : RollingUpdate) (nbNodes : Int) (start now : Time) (created : Nat) : Bool :=
  match rampRef ru nbNodes start now with
  | some v => decide ((created : Int) ≤ max 0 v)
  | none => true
end Eds.Spec.C09
