import EdsModel
/-
  EdsSpec.C20 — label-info series: every Kubernetes label key, sanitised, is paired with the value of
  that same label.
-/
namespace Eds.Spec.C20

/-- `[a-zA-Z0-9_]` (Lean's `isLower`/`isUpper`/`isDigit` are the ASCII ranges). -/
def legal (c : Char) : Bool := c.isLower || c.isUpper || c.isDigit || c == '_'

/-- multiset inclusion of `a` in `b` (pairs may repeat when keys collide after sanitising). -/
def subMultiset (a b : List (String × String)) : Bool :=
  match a with
  | [] => true
  | x :: rest => b.contains x && subMultiset rest (b.erase x)

/-- the pairs produced for `labels` are, as a multiset, exactly {(sanitize k, v) | (k,v) ∈ labels},
every key is a legal Prometheus name, and keys are sorted. -/
def holds (labels : SMap) (keys values : List String) : Bool :=
  let expected := labels.map (fun e => (sanitizeLabelName e.k, e.v))
  let got := keys.zip values
  keys.length == values.length && keys.length == labels.length &&
  subMultiset got expected && subMultiset expected got &&
  keys.all (fun k => k.toList.all legal)

end Eds.Spec.C20
