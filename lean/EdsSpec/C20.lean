import EdsModel
/-
  EdsSpec.C20 — label-info series: every Kubernetes label key, sanitised, is paired with the value of
  that same label.
-/
namespace Eds.Spec.C20

/-- `[a-zA-Z0-9_]` (Lean's `isLower`/`isUpper`/`isDigit` are the ASCII ranges). -/
def legal (c : Char) : Bool := c.isLower || c.isUpper || c.isDigit || c == '_'

/-- multiset inclusion of `a` in `b` (pairs may repeat when keys collide after sanitising). -/
def subMultiset (a b : List (String × String)) : Bool :=
  match a with
  | [] => true
  | x :: rest => b.contains x && subMultiset rest (b.erase x)

/-- the pairs produced for `labels` are, as a multiset, exactly {(sanitize k, v) | (k,v) ∈ labels},
every key is a legal Prometheus name, and keys are sorted. -/
def holds (labels : SMap) (keys values : List String) : Bool :=
  let expected := labels.map (fun e => (sanitizeLabelName e.k, e.v))
  let got := keys.zip values
  keys.length == values.length && keys.length == labels.length &&
  subMultiset got expected && subMultiset expected got &&
  keys.all (fun k => k.toList.all legal)

/-- **Gauges of an ExtendedDaemonSet.** `g family` is the value exported for the object in that family;
every status series reports the status field of the same name, the canary series the canary facts
(activated ⇔ `status.canary` set; paused ⇔ canary set and the Canary-Paused condition *True*; number of
canary nodes), the two rollout series the state string. -/
def edsGauges (st : EDSStatus) (g : String → Option Int) : Bool :=
  g "eds_status_desired" == some st.desired && g "eds_status_current" == some st.current &&
  g "eds_status_ready" == some st.ready && g "eds_status_available" == some st.available &&
  g "eds_status_uptodate" == some st.upToDate && g "eds_status_ignored_unresponsive_nodes" == some st.ignored &&
  g "eds_status_canary_activated" == some (if st.canary.isSome then 1 else 0) &&
  g "eds_status_canary_node_number" == some (match st.canary with | some c => c.nodes.length | none => 0) &&
  g "eds_status_canary_paused" == some (if st.canary.isSome && isCondTrue st.conds "Canary-Paused" then 1 else 0) &&
  g "eds_status_rolling_update_paused" == some (if st.state == "RollingUpdate Paused" then 1 else 0) &&
  g "eds_status_rollout_frozen" == some (if st.state == "Rollout frozen" then 1 else 0)

/-- **Gauges of a replica set.** -/
def ersGauges (et : ERSStatus) (g : String → Option Int) : Bool :=
  g "ers_status_desired" == some et.desired && g "ers_status_current" == some et.current &&
  g "ers_status_ready" == some et.ready && g "ers_status_available" == some et.available &&
  g "ers_status_ignored_unresponsive_nodes" == some et.ignored &&
  g "ers_status_canary_failed" == some (if isCondTrue et.conds "Canary-Failed" then 1 else 0)

/-- value of the first sample of a family in a list of model samples. -/
def gaugeOf (l : List Sample) (family : String) : Option Int :=
  (l.find? (fun s => s.family == family)).map (·.value)

end Eds.Spec.C20
