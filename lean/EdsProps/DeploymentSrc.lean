import EdsProofs.BridgeDeployment
import EdsProofs.BridgeUnknown
import EdsProps.C02
import EdsProps.C03
import EdsProps.C08
import EdsProps.C09
/-
  EdsProps.DeploymentSrc — the theorems of C03 / C08 / C09 / C02 about one sync of the active role, stated directly about
  the Lean definition the translator regenerates from `ManageDeployment` (strategy/rollingupdate.go) on every run
  (EdsModel/Generated/DecDeployment.lean: the whole function, its API steps as parameters), obtained by transporting the
  model-level theorems along `Bridge.src_manageDeployment`.  They speak about the `*Result` the code returns: `R` below is
  the pointee of the first result of a run that computed a status (`R.NewStatus != nil`: not the early error return).
  Hypotheses: `Bridge.DeployRel` (what the model's parameters stand for on the Go side) and a clock that does not advance
  during the classification loop.
-/
namespace Eds
open Spec.C03

namespace Src
export Eds.Generated.Decisions (manageDeployment manageUnknown)
end Src

section
variable {D : GEds} {P : GParams} {p : StratParams} (h : Bridge.DeployRel D P p)
  (now : Time) (nilSlice : Bool) {w1 w2 : Int → Int} {wall : Time} (hw1 : ∀ i, w1 i = wall) (hw2 : ∀ i, w2 i = wall)
  (w4 : Time) (errs : List (Option String)) (apiErr : Option String) (apiRq : Bool)
  (R : GResult) (e : Option String) (P' : Option GParams)
  (hrun : Src.manageDeployment (some D) (some P) now nilSlice w1 w2 wall w4 errs apiErr apiRq = some (some R, e, P'))
  (hst : R.newStatus.isSome = true)
include h hw1 hw2 hrun hst

/-- **C03 (cap), on the code**: one sync deletes at most `maxUnavailable` pods for updating. -/
theorem C03_src_deploy_cap :
    ∃ mu, resolveIntOrPercent p.strategy.rollingUpdate.maxUnavailable (targeted p).length = some mu ∧
      (R.podsToDelete.length : Int) ≤ max 0 mu := by
  obtain ⟨r, hm, _, hd, _⟩ := Bridge.src_manageDeployment_ok h now nilSlice hw1 hw2 w4 errs apiErr apiRq R e P' hrun hst
  obtain ⟨mu, hmu, hle⟩ := C03_cap p now wall _ r hm
  exact ⟨mu, hmu, by rw [hd, List.length_map]; exact hle⟩

/-- **C03 (budget, unavailable first), on the code**: the node items in `PodsToDelete` are those of a deletion list
`(node, pod)` — pods of the map `PodByNodeName` — whose available pods fit the budget left by the nodes already
unavailable, and that takes an available pod only once every unavailable outdated pod is taken. -/
theorem C03_src_deploy_budget :
    ∃ (del : List (NodeItem × Pod)) (ms mu : Int), R.podsToDelete = del.map (fun x => some x.1) ∧
      resolveIntOrPercent p.strategy.rollingUpdate.maxPodSchedulerFailure (targeted p).length = some ms ∧
      resolveIntOrPercent p.strategy.rollingUpdate.maxUnavailable (targeted p).length = some mu ∧
      availDeleted del ≤ max 0 (mu - unavailableNodes p.ers.templateGeneration wall (targeted p) ms) ∧
      (0 < availDeleted del →
        (del.length : Int) - availDeleted del ≥ nOutdatedUnavail p.ers.templateGeneration wall (targeted p)) := by
  obtain ⟨r, hm, _, hd, _⟩ := Bridge.src_manageDeployment_ok h now nilSlice hw1 hw2 w4 errs apiErr apiRq R e P' hrun hst
  obtain ⟨ms, mu, hms, hmu, hb⟩ := C03_budget p now wall _ r hm
  exact ⟨r.deleteE, ms, mu, hd, hms, hmu, hb, C03_unavailable_first p now wall _ r hm⟩

/-- **C08 (paused / frozen), on the code**: the flags are those of the annotations, nothing is deleted for updating while
paused or frozen, nothing is created while frozen. -/
theorem C08_src_deploy_sync :
    R.isPaused = isRollingUpdatePaused D.annotations ∧ R.isFrozen = isRolloutFrozen D.annotations ∧
    (isRollingUpdatePaused D.annotations = true ∨ isRolloutFrozen D.annotations = true → R.podsToDelete = []) ∧
    (isRolloutFrozen D.annotations = true → R.podsToCreate = []) := by
  obtain ⟨r, hm, hc, hd, hp, hf, _⟩ :=
    Bridge.src_manageDeployment_ok h now nilSlice hw1 hw2 w4 errs apiErr apiRq R e P' hrun hst
  obtain ⟨h1, h2⟩ := C08_sync p now wall _ r hm
  obtain ⟨ms, mu, mc, _, _, _, _, _⟩ := manageDeployment_plan p now wall _ r hm
  have hpa : r.isPaused = isRollingUpdatePaused p.edsAnnotations := by
    unfold manageDeployment at hm
    simp only [] at hm
    split at hm <;> try cases hm
    split at hm <;> try cases hm
    split at hm <;> try cases hm
    rfl
  have hfr : r.isFrozen = isRolloutFrozen p.edsAnnotations := by
    unfold manageDeployment at hm
    simp only [] at hm
    split at hm <;> try cases hm
    split at hm <;> try cases hm
    split at hm <;> try cases hm
    rfl
  rw [h.ann]
  refine ⟨hp.trans hpa, hf.trans hfr, ?_, ?_⟩
  · intro hx; rw [hd, h1 hx]; rfl
  · intro hx; rw [hc, h2 hx]; rfl

/-- **C09 (slow start), on the code**: the number of pods one sync creates is bounded by the ramp. -/
theorem C09_src_deploy_create_bound :
    ∃ mc, calculateMaxCreation p.strategy.rollingUpdate.slowStartAdditiveIncrease
        p.strategy.rollingUpdate.slowStartInterval p.strategy.rollingUpdate.maxParallelPodCreation
        (targeted p).length (rollingUpdateStartTime p.ers.status now) now = .ok mc ∧
      (R.podsToCreate.length : Int) ≤ max 0 mc := by
  obtain ⟨r, hm, hc, _⟩ := Bridge.src_manageDeployment_ok h now nilSlice hw1 hw2 w4 errs apiErr apiRq R e P' hrun hst
  obtain ⟨mc, hmc, hle⟩ := C09_sync_create_bound p now wall _ r hm
  exact ⟨mc, hmc, by rw [hc, List.length_map]; exact hle⟩

/-- **C02 (fixpoint), on the code**: when every targeted node carries an up-to-date pod, the sync creates nothing and
deletes nothing for updating. -/
theorem C02_src_deploy_fixpoint
    (hall : ∀ x ∈ targeted p, ∃ a rd, classify p.ers.templateGeneration wall x = .upToDate a rd) :
    R.podsToCreate = [] ∧ R.podsToDelete = [] := by
  obtain ⟨r, hm, hc, hd, _⟩ := Bridge.src_manageDeployment_ok h now nilSlice hw1 hw2 w4 errs apiErr apiRq R e P' hrun hst
  obtain ⟨h1, h2⟩ := C02_fixpoint p now wall _ r hm hall
  rw [hc, hd, h1, h2]
  exact ⟨rfl, rfl⟩

end

/-- **no crash on a recognised strategy**: with the rolling-update parameters set (what defaulting guarantees) the
translated `ManageDeployment` does not panic — neither in `calculateMaxCreation`, nor in the sort of the deletion
candidates, nor in the two slicings `xs[:n]`. -/
theorem C03_src_deploy_total {D : GEds} {P : GParams} {p : StratParams} (h : Bridge.DeployRel D P p)
    (now : Time) (nilSlice : Bool) {w1 w2 : Int → Int} {wall : Time} (hw1 : ∀ i, w1 i = wall) (hw2 : ∀ i, w2 i = wall)
    (w4 : Time) (errs : List (Option String)) (apiErr : Option String) (apiRq : Bool)
    (hiv : p.strategy.rollingUpdate.slowStartInterval.isSome = true)
    (hmp : p.strategy.rollingUpdate.maxParallelPodCreation.isSome = true) :
    (Src.manageDeployment (some D) (some P) now nilSlice w1 w2 wall w4 errs apiErr apiRq).isSome = true := by
  cases hrun : Src.manageDeployment (some D) (some P) now nilSlice w1 w2 wall w4 errs apiErr apiRq with
  | some _ => rfl
  | none =>
    exfalso
    have hp := (Bridge.src_manageDeployment_panics_iff h now nilSlice hw1 hw2 w4 errs apiErr apiRq).mp hrun
    unfold manageDeployment at hp
    simp only [] at hp
    split at hp <;> try cases hp
    split at hp <;> try cases hp
    split at hp <;> try cases hp
    rename_i hmc
    unfold calculateMaxCreation at hmc
    obtain ⟨iv, hiv'⟩ := Option.isSome_iff_exists.mp hiv
    obtain ⟨mp, hmp'⟩ := Option.isSome_iff_exists.mp hmp
    simp only [hiv', hmp'] at hmc
    split at hmc <;> try cases hmc
    split at hmc <;> try cases hmc
    unfold goDiv at *
    split at hmc <;> try cases hmc
    rename_i hz _
    simp_all

end Eds
