import EdsProps.C04
/-
  C01b — C01 lifted to the whole sync and to the store: "at most one live daemon pod per node" is an
  invariant of the pod store under the writes of `reconcileErs`.

  Subject: `reconcileErs` (EdsModel/ReconcileErs.lean), through the inversion `reconcileErs_cases`
  (EdsProofs/ReconcileErs.lean) and the per-strategy statements of EdsProps/C01.lean, C04.lean.

  Quantification: every replica set, store, back-off oracle `released`, affinity mode and instant; every
  role (active, canary, unknown); every outcome of the sync (owner not defaulted, LastFullSync gate,
  listing error, early error of ManageDeployment, creation / deletion gates): the only assumption on
  the sync is `ersOwner rs st = some d` (without owner nothing is written at all).

    1  `C01_sync_creates_nodup`                 [hyp `hn`: stored node names Nodup; `hc`: canary list Nodup]
       `C01_sync_creates_nodup_role`            — `hn` asked of the active role only, `hc` of the canary role only
    2  `C01_sync_creates_only_on_empty_nodes`   — no hypothesis: the listed pods attached to a node that gets
                                                  a creation are `Unknown`, or `Failed` on a released node
                                                  and deleted by the same sync's clean-up
       `C01_sync_creates_at_most_one_failed`    — no hypothesis: at most one of them is not `Unknown`
                                                  (new scan invariant `ScanCountInv`)
    3  `livePodsOn`, `applyPodWrites` (graceful deletion), `applyPodWritesHard` (removal)
       `C01_sync_preserves_one_per_node` (+ `_role`, `_hard`)   [hyp `hn`, `hc`, `hne`: in node-name mode
                                                  stored nodes have a non-empty name] — all roles, full strength
       `C01_created_pod_live`, `C01_created_node_exactly_one`    — the bound is attained on created nodes
       `C01_syncs_preserve_one_per_node`        — any sequence of syncs, each reading the previous store
       `C01_concurrent_syncs_preserve_one_per_node` — two different replica sets syncing from one snapshot
       `onePerNode`, `onePerNode_iff`           — decidable form of the invariant
    4  non-vacuity (`exStore01b`) and one `decide`-checked counterexample per hypothesis (`hn`, `hc`, `hne`,
       and "different replica sets" for the concurrent version)

  No `_partial` theorem in this file.  What the model does not cover (and so this file does not prove):
  syncs working from a *stale* snapshot of their own earlier writes (informer lag) — the last example shows
  that two syncs of the same replica set from the same snapshot do create twice; pods created by anything
  other than this controller; changes of the node list or of the EDS object between the syncs of a run.
  `livePodsOn` counts the pods selected by namespace + EDS-name label (`getPodList`); pods of the
  DaemonSet being migrated (`getOldDaemonsetPodList`) are listed by the controller and so block creations
  (part 2 speaks about all of `ersPods`), but they are not counted by `livePodsOn`.
-/

namespace Eds

/-! ### 0. the node listing keeps the stored nodes, in order -/

theorem mapM_option_proj {α β} (f : α → Option β) (g : β → α) (hg : ∀ a b, f a = some b → g b = a) :
    ∀ (l : List α) (l' : List β), l.mapM f = some l' → l'.map g = l := by
  intro l
  induction l with
  | nil =>
    intro l' h
    simp only [List.mapM_nil] at h
    cases h; rfl
  | cons a rest ih =>
    intro l' h
    rw [List.mapM_cons] at h
    cases hfa : f a with
    | none => rw [hfa] at h; cases h
    | some b0 =>
      rw [hfa] at h
      cases hrest : rest.mapM f with
      | none => rw [hrest] at h; cases h
      | some bs =>
        rw [hrest] at h
        cases h
        rw [List.map_cons, hg a b0 hfa, ih bs hrest]

/-- the node names of the listing are a sublist of the stored node names. -/
theorem ersNodeItems_names_sublist (d : EDS) (rs : ERS) (st : ErsStore) (items : List NodeItem)
    (h : ersNodeItems d rs st = some items) :
    (items.map (·.node.name)).Sublist (st.nodes.map (·.name)) := by
  unfold ersNodeItems at h
  simp only [] at h
  split at h
  · cases h
  · rename_i ns hns
    have hproj : items.map (·.node) = ns := by
      refine mapM_option_proj _ (·.node) ?_ ns items h
      intro n b hf
      cases hc : chooseSetting d.name (st.settings.filter (fun s => s.ns == d.ns)) n with
      | none => rw [hc] at hf; cases hf
      | some s => rw [hc] at hf; simp only [Option.map_some, Option.some.injEq] at hf; rw [← hf]
    have hsub : ns.Sublist st.nodes := by
      split at hns
      · cases hns; exact List.Sublist.refl _
      · split at hns
        · cases hns
        · cases hns; exact List.filter_sublist
    have : items.map (·.node.name) = ns.map (·.name) := by
      rw [← hproj, List.map_map]; rfl
    rw [this]
    exact hsub.map _

/-! ### 0b. a counting invariant of the pod scan: a node without kept pod has at most one non-Unknown pod

Within one scan the back-off of a node is armed by the first released `Failed` pod; every later
non-`Unknown` pod of the node is attached.  Hence, for every key `e` of the scan state,
`#(non-Unknown pods of the prefix bound to e.1) = #attached + (1 if armed else 0)`. -/

/-- the listed pods bound to node `n` whose phase is not `Unknown`. -/
def nonUnknownOn (pods : List Pod) (n : String) : List Pod :=
  pods.filter (fun p => p.nodeOf == some n && p.phase != "Unknown")

theorem nonUnknownOn_snoc_hit (done : List Pod) (p : Pod) (n : String)
    (h1 : p.nodeOf = some n) (h2 : p.phase ≠ "Unknown") :
    (nonUnknownOn (done ++ [p]) n).length = (nonUnknownOn done n).length + 1 := by
  unfold nonUnknownOn
  have : (p.nodeOf == some n && p.phase != "Unknown") = true := by
    simp only [Bool.and_eq_true, beq_iff_eq, bne_iff_ne, ne_eq]
    exact ⟨h1, h2⟩
  simp only [List.filter_append, List.filter_cons, List.filter_nil, this, if_true, List.length_append,
    List.length_singleton]

theorem nonUnknownOn_snoc_miss (done : List Pod) (p : Pod) (n : String)
    (h : p.nodeOf ≠ some n ∨ p.phase = "Unknown") :
    nonUnknownOn (done ++ [p]) n = nonUnknownOn done n := by
  unfold nonUnknownOn
  have : (p.nodeOf == some n && p.phase != "Unknown") = false := by
    rcases h with h | h
    · have : (p.nodeOf == some n) = false := by simpa using h
      rw [this, Bool.false_and]
    · have : (p.phase != "Unknown") = false := by simpa using h
      rw [this, Bool.and_false]
  simp only [List.filter_append, List.filter_cons, List.filter_nil, this, Bool.false_eq_true, if_false,
    List.append_nil]

def ScanCountInv (done : List Pod) (st : ScanState) : Prop :=
  ∀ e ∈ st.attached,
    (nonUnknownOn done e.1).length = e.2.length + (if st.armed.contains e.1 then 1 else 0)

theorem scanCountInv_step (released : String → Bool) (ignore : List String) {done : List Pod} {st : ScanState}
    (h : ScanCountInv done st) (p : Pod) : ScanCountInv (done ++ [p]) (scanPod released ignore st p) := by
  -- the state is unchanged as far as `attached` / `armed` go and `p` does not count for any key
  have keep : ∀ st' : ScanState, st'.attached = st.attached → st'.armed = st.armed →
      (∀ e ∈ st.attached, p.nodeOf ≠ some e.1 ∨ p.phase = "Unknown") → ScanCountInv (done ++ [p]) st' := by
    intro st' ha hr hmiss e he
    rw [ha] at he
    rw [hr, nonUnknownOn_snoc_miss done p e.1 (hmiss e he)]
    exact h e he
  unfold scanPod
  split
  · rename_i hn
    exact keep st rfl rfl (fun e _ => Or.inl (by rw [hn]; exact fun hh => by cases hh))
  · rename_i n hn
    split
    · rename_i hu
      exact keep st rfl rfl (fun e _ => Or.inr (by simpa using hu))
    · rename_i hu
      have hu : p.phase ≠ "Unknown" := by simpa using hu
      split
      · split
        · -- a released Failed pod: deleted, the node is armed
          rename_i hf
          simp only [Bool.and_eq_true, beq_iff_eq, Bool.not_eq_true'] at hf
          intro e he
          simp only [] at he ⊢
          by_cases hen : e.1 = n
          · rw [nonUnknownOn_snoc_hit done p e.1 (by rw [hen]; exact hn) hu, h e he]
            have h1 : st.armed.contains e.1 = false := by rw [hen]; exact hf.2
            have h2 : (n :: st.armed).contains e.1 = true := by
              rw [hen]; simp
            rw [h1, h2]
            simp
          · rw [nonUnknownOn_snoc_miss done p e.1 (Or.inl (by
              rw [hn]; intro hh; exact hen (Option.some.inj hh).symm)), h e he]
            have : (n :: st.armed).contains e.1 = st.armed.contains e.1 := by
              simp only [List.contains_cons]
              have : (e.1 == n) = false := by simpa using hen
              rw [this, Bool.false_or]
            rw [this]
        · -- attached
          intro e' he'
          simp only [] at he' ⊢
          obtain ⟨e, he, h1, h2⟩ := mem_attach he'
          rcases h2 with ⟨hen, h2⟩ | ⟨hen, h2⟩
          · rw [h1, h2, nonUnknownOn_snoc_hit done p e.1 (by rw [hen]; exact hn) hu, h e he]
            simp only [List.length_append, List.length_singleton]
            omega
          · rw [h1, h2, nonUnknownOn_snoc_miss done p e.1 (Or.inl (by
              rw [hn]; intro hh; exact hen (Option.some.inj hh).symm))]
            exact h e he
      · rename_i hk
        have hmiss : ∀ e ∈ st.attached, p.nodeOf ≠ some e.1 ∨ p.phase = "Unknown" := by
          intro e he
          left
          rw [hn]
          intro hh
          apply hk
          rw [List.any_eq_true]
          exact ⟨e, he, by simpa using (Option.some.inj hh).symm⟩
        split
        · exact keep st rfl rfl hmiss
        · split
          · exact keep _ rfl rfl hmiss
          · exact keep st rfl rfl hmiss

theorem foldl_scanCountInv (released : String → Bool) (ignore : List String) (done rest : List Pod) (st : ScanState)
    (h : ScanCountInv done st) : ScanCountInv (done ++ rest) (rest.foldl (scanPod released ignore) st) := by
  induction rest generalizing done st with
  | nil => simpa using h
  | cons p rest ih =>
    have := ih (done ++ [p]) (scanPod released ignore st p) (scanCountInv_step released ignore h p)
    simpa [List.foldl_cons, List.append_assoc] using this

theorem scanFinal_scanCountInv (released : String → Bool) (t : Template) (nodes : List NodeItem) (pods : List Pod)
    (ignore : List String) : ScanCountInv pods (scanFinal released t nodes pods ignore) := by
  have h0 : ScanCountInv [] (scanInit t nodes ignore) := by
    intro e he
    simp only [scanInit, List.mem_map] at he
    obtain ⟨ni, _, rfl⟩ := he
    simp [nonUnknownOn, scanInit]
  have := foldl_scanCountInv released ignore [] pods _ h0
  simpa [scanFinal] using this

/-- a key of the per-node map without kept pod has at most one listed non-`Unknown` pod bound to it
(the released `Failed` pod the scan put on the deletion list). -/
theorem kept_none_at_most_one (released : String → Bool) (t : Template) (nodes : List NodeItem) (pods : List Pod)
    (ignore : List String) (ni : NodeItem)
    (h : (ni, none) ∈ (filterAndMap released t nodes pods ignore).byNode) :
    (nonUnknownOn pods ni.node.name).length ≤ 1 := by
  have inv := scanFinal_inv released t nodes pods ignore
  obtain ⟨hc, hk⟩ := mem_filter_byNode h
  have hkey : ni.node.name ∈ (scanFinal released t nodes pods ignore).attached.map (·.1) := by
    rw [inv.keys]; exact List.mem_map.mpr ⟨ni, hc, rfl⟩
  obtain ⟨e, he, h1, h2⟩ := keptOf_none hkey hk
  have := scanFinal_scanCountInv released t nodes pods ignore e he
  rw [h1, h2] at this
  rw [this]
  simp only [List.length_nil, Nat.zero_add]
  split <;> omega

/-! ### 1. what one sync creates -/

section Sync
variable (rs : ERS) (st : ErsStore) (released : String → Bool) (aff : Bool) (now : Time) (d : EDS)

/-- the pod the controller builds for node item `ni`. -/
def createdFor (rs : ERS) (aff : Bool) (ni : NodeItem) : String × Pod :=
  (ni.node.name, (createPod rs (some ni.node) ni.setting aff).pod)

/-- Summary of the creations of one sync: they are the pods built for a list `cr` of node items of
the listing `items`; each of them is a key of the per-node map whose kept pod is `none`; only the
active and the canary role create, each at most once per node name; and the clean-up of the same sync
deletes the non-terminating pods of the filter's deletion list. -/
structure SyncCreates (w : ErsWrites) (items cr : List NodeItem) : Prop where
  eq : w.creates = cr.map (createdFor rs aff)
  hitems : cr = [] ∨ ersNodeItems d rs st = some items
  empty : ∀ ni ∈ cr, (ni, none) ∈ (filterAndMap released rs.template items (ersPods d st) (ersIgnore d rs)).byNode
  role : cr = [] ∨ ersRole d rs.name = "active" ∨ ersRole d rs.name = "canary"
  nodupA : ersRole d rs.name = "active" → (items.map (·.node.name)).Nodup → (cr.map (·.node.name)).Nodup
  nodupC : ersRole d rs.name = "canary" → (ersCanaryNodes d).Nodup → (cr.map (·.node.name)).Nodup
  cleanup : cr = [] ∨ w.cleanupDeletes =
    cleanupTargets (filterAndMap released rs.template items (ersPods d st) (ersIgnore d rs)).toDelete

theorem SyncCreates.nil (w : ErsWrites) (hw : w.creates = []) : SyncCreates rs st released aff d w [] [] where
  eq := by rw [hw]; rfl
  hitems := Or.inl rfl
  empty := fun ni hni => by cases hni
  role := Or.inl rfl
  nodupA := fun _ _ => List.nodup_nil
  nodupC := fun _ _ => List.nodup_nil
  cleanup := Or.inl rfl

/-- **Inversion for the creations**: every sync with an owner has such a summary. -/
theorem sync_creates (h : ersOwner rs st = some d) :
    ∃ items cr, SyncCreates rs st released aff d (reconcileErs rs st released aff now) items cr := by
  rcases reconcileErs_cases rs st released aff now d h with hno | ⟨items, r, adds, removes, se, st0, F⟩
  · exact ⟨[], [], SyncCreates.nil rs st released aff d _ hno.2.2.2.2⟩
  · obtain ⟨b, hb⟩ := ersFinish_creates_eq rs (ersRole d rs.name) (ersFreq d)
      (ersParams released d rs items (ersPods d st) now) r adds removes se st0 aff now
    rw [← F.eq] at hb
    cases b with
    | true => exact ⟨[], [], SyncCreates.nil rs st released aff d _ hb⟩
    | false =>
      simp only [Bool.false_eq_true, if_false] at hb
      have hs := F.strat
      rcases ersRole_cases d rs.name with hr | hr | hr
      · rw [hr] at hs
        rcases ersStrategy_active hs F.status with ⟨hm, -, -, -⟩ | ⟨-, hre, hadds, hrem, -⟩
        · refine ⟨items, r.createE, ?_⟩
          constructor
          · exact hb
          · exact Or.inr F.hitems
          · intro ni hni
            exact (C01_create_only_empty_byNode _ now now false r hm ni hni).1
          · exact Or.inr (Or.inl hr)
          · intro _ hn
            exact C01_create_nodup _ now now false r hm
              (by rw [ersParams_byNode]; exact C01_keys_nodup released rs.template items _ _ hn)
          · intro hr'; rw [hr] at hr'; exact absurd hr' (by decide)
          · right
            rw [F.eq, ersFinish_cleanupDeletes, manageDeployment_cleanup _ now now false r hm]
            rfl
        · have : (reconcileErs rs st released aff now).creates = [] := by
            rw [hb, hre]; rfl
          exact ⟨[], [], SyncCreates.nil rs st released aff d _ this⟩
      · rw [hr] at hs
        obtain ⟨r0, hm, hr0, -, -, -⟩ := ersStrategy_canary hs
        have hce : r.createE = r0.createE := by rw [hr0]
        refine ⟨items, r.createE, ?_⟩
        constructor
        · exact hb
        · exact Or.inr F.hitems
        · intro ni hni
          rw [hce] at hni
          exact (C01_canary_create_only_empty _ now r0 hm ni hni).1
        · exact Or.inr (Or.inr hr)
        · intro hr'; rw [hr] at hr'; exact absurd hr' (by decide)
        · intro _ hc
          rw [hce]
          exact C01_canary_create_nodup _ now r0 hm hc
        · right
          rw [F.eq, ersFinish_cleanupDeletes, hr0]
          rfl
      · rw [hr] at hs
        obtain ⟨hr0, -, -, -⟩ := ersStrategy_unknown (by decide) (by decide) hs
        have : (reconcileErs rs st released aff now).creates = [] := by
          rw [hb, hr0, (C01_unknown_role_creates_nothing _ now).1]; rfl
        exact ⟨[], [], SyncCreates.nil rs st released aff d _ this⟩

/-! ### 2. Part 1 — at most one creation per node in one sync -/

/-- role-wise hypotheses: the active role needs distinct stored node names, the canary role a
duplicate-free `eds.status.canary.nodes`; the unknown role needs nothing (it creates nothing). -/
theorem C01_sync_creates_nodup_role (h : ersOwner rs st = some d)
    (hn : ersRole d rs.name = "active" → (st.nodes.map (·.name)).Nodup)
    (hc : ersRole d rs.name = "canary" → (ersCanaryNodes d).Nodup) :
    ((reconcileErs rs st released aff now).creates.map (·.1)).Nodup := by
  obtain ⟨items, cr, S⟩ := sync_creates rs st released aff now d h
  rw [S.eq, List.map_map]
  have : ((·.1) ∘ createdFor rs aff) = (fun ni : NodeItem => ni.node.name) := rfl
  rw [this]
  rcases S.role with h0 | hr | hr
  · rw [h0]; exact List.nodup_nil
  · rcases S.hitems with h0 | hi
    · rw [h0]; exact List.nodup_nil
    · exact S.nodupA hr (List.Nodup.sublist (ersNodeItems_names_sublist d rs st items hi) (hn hr))
  · exact S.nodupC hr (hc hr)

/-- **Part 1.**  The node names of the creations of one sync are pairwise distinct. -/
theorem C01_sync_creates_nodup (h : ersOwner rs st = some d)
    (hn : (st.nodes.map (·.name)).Nodup) (hc : (ersCanaryNodes d).Nodup) :
    ((reconcileErs rs st released aff now).creates.map (·.1)).Nodup :=
  C01_sync_creates_nodup_role rs st released aff now d h (fun _ => hn) (fun _ => hc)

/-! ### 3. Part 2 — a creation happens only on a node without kept pod -/

/-- **Part 2.**  Which listed pods may be attached (`Pod.nodeOf`) to a node for which the sync
creates a pod:

  * pods in phase `Unknown` (any number of them; the controller never touches them), and
  * pods in phase `Failed`, and then only when the node is out of back-off (`released n = true`);
    such a pod is in the filter's deletion list, so — unless it is already terminating — it is deleted
    by the clean-up of the very same sync.  (`C01_sync_creates_at_most_one_failed` below: at most one
    listed non-`Unknown` pod is attached to such a node.)

Nothing else: no Pending (`""`), Running or Succeeded pod, terminating or not, and no Failed pod while
the node is in back-off. -/
theorem C01_sync_creates_only_on_empty_nodes (h : ersOwner rs st = some d)
    (x : String × Pod) (hx : x ∈ (reconcileErs rs st released aff now).creates)
    (p : Pod) (hp : p ∈ ersPods d st) (hn : p.nodeOf = some x.1) :
    p.phase = "Unknown" ∨
    (p.phase = "Failed" ∧ released x.1 = true ∧
      (p.deletion = none → p.name ∈ (reconcileErs rs st released aff now).cleanupDeletes)) := by
  obtain ⟨items, cr, S⟩ := sync_creates rs st released aff now d h
  rw [S.eq] at hx
  obtain ⟨ni, hni, rfl⟩ := List.mem_map.mp hx
  have hk := S.empty ni hni
  have hne : cr ≠ [] := fun h0 => by rw [h0] at hni; cases hni
  rcases C01_kept_none released rs.template items (ersPods d st) (ersIgnore d rs) ni hk p hp hn with hu | ⟨hf, hdel⟩
  · exact Or.inl hu
  · right
    refine ⟨hf, ?_, ?_⟩
    · exact C01_kept_none_released released rs.template items (ersPods d st) (ersIgnore d rs) ni hk p hp hn
        (by rw [hf]; decide)
    · intro hd
      rcases S.cleanup with h0 | hcl
      · exact absurd h0 hne
      · rw [hcl]
        unfold cleanupTargets
        exact List.mem_map.mpr ⟨p, List.mem_filter.mpr ⟨hdel, by rw [hd]; rfl⟩, rfl⟩

/-- … and among the listed pods attached to a node that gets a creation at most one is not in phase
`Unknown` (the released `Failed` pod; a second `Failed` pod would have been kept, because the first one
arms the node's back-off for the rest of the scan). -/
theorem C01_sync_creates_at_most_one_failed (h : ersOwner rs st = some d)
    (x : String × Pod) (hx : x ∈ (reconcileErs rs st released aff now).creates) :
    (nonUnknownOn (ersPods d st) x.1).length ≤ 1 := by
  obtain ⟨items, cr, S⟩ := sync_creates rs st released aff now d h
  rw [S.eq] at hx
  obtain ⟨ni, hni, rfl⟩ := List.mem_map.mp hx
  exact kept_none_at_most_one released rs.template items (ersPods d st) (ersIgnore d rs) ni (S.empty ni hni)

end Sync

/-! ### 4. Part 3 — the store-level invariant: at most one live daemon pod per node -/

/-- the pod belongs to EDS `d` (what `getPodList` selects: namespace and EDS-name label). -/
def isEdsPod (d : EDS) (p : Pod) : Bool :=
  p.ns == d.ns && SMap.get? p.labels K.edsNameLabel == some d.name

/-- not terminating, phase neither `Failed` nor `Unknown`. -/
def Pod.live (p : Pod) : Bool := p.deletion.isNone && p.phase != "Failed" && p.phase != "Unknown"

/-- daemon pods of the EDS that count as "live" on a node: attached to it (`Pod.nodeOf`, the
controller's own `GetNodeNameFromPod`), not terminating, phase neither Failed nor Unknown -/
def livePodsOn (d : EDS) (pods : List Pod) (n : String) : List Pod :=
  pods.filter (fun p => isEdsPod d p && p.nodeOf == some n && p.live)

/-- the API server's graceful deletion: a non-terminating pod named in `names` gets a deletion
timestamp (a pod that is already terminating keeps its own). -/
def markDeleted (names : List String) (now : Time) (p : Pod) : Pod :=
  if names.contains p.name && p.deletion.isNone then { p with deletion := some now } else p

/-- the pods of the store after the API server applied the sync's creations (each created pod
appears, as built) and deletions (each pod named in `deletes` or `cleanupDeletes` gets a deletion
timestamp).  Label patches do not touch any field `livePodsOn` reads (they add / remove the canary
label only) and are not applied here. -/
def applyPodWrites (w : ErsWrites) (pods : List Pod) (now : Time) : List Pod :=
  pods.map (markDeleted (w.deletes ++ w.cleanupDeletes) now) ++ w.creates.map (·.2)

/-- the same with immediate removal of the deleted pods (grace period 0 / after termination). -/
def applyPodWritesHard (w : ErsWrites) (pods : List Pod) : List Pod :=
  pods.filter (fun p => !(w.deletes ++ w.cleanupDeletes).contains p.name) ++ w.creates.map (·.2)

/-! #### list lemmas -/

theorem filter_map_length_le {α β} (f : α → β) (q : β → Bool) (p : α → Bool) (l : List α)
    (h : ∀ a ∈ l, q (f a) = true → p a = true) : ((l.map f).filter q).length ≤ (l.filter p).length := by
  induction l with
  | nil => simp
  | cons a l ih =>
    have ih := ih (fun b hb => h b (List.mem_cons_of_mem _ hb))
    rw [List.map_cons, List.filter_cons, List.filter_cons]
    cases hq : q (f a) with
    | false =>
      simp only [Bool.false_eq_true, if_false]
      split
      · simp only [List.length_cons]; omega
      · exact ih
    | true =>
      rw [h a List.mem_cons_self hq]
      simp only [if_true, List.length_cons]
      omega

theorem nodup_filter_eq_length_le {α γ} [BEq γ] [LawfulBEq γ] (g : α → γ) (n : γ) (l : List α)
    (h : (l.map g).Nodup) :
    (l.filter (fun a => g a == n)).length ≤ 1 := by
  induction l with
  | nil => simp
  | cons a l ih =>
    rw [List.map_cons, List.nodup_cons] at h
    rw [List.filter_cons]
    split
    · rename_i hga
      have hga : g a = n := by simpa using hga
      have : l.filter (fun a => g a == n) = [] := by
        rw [List.filter_eq_nil_iff]
        intro b hb hgb
        have hgb : g b = n := by simpa using hgb
        exact h.1 (List.mem_map.mpr ⟨b, hb, by rw [hgb, hga]⟩)
      rw [List.length_cons, this]
      simp
    · exact ih h.2

theorem mem_livePodsOn {d : EDS} {pods : List Pod} {n : String} {p : Pod} :
    p ∈ livePodsOn d pods n ↔
      p ∈ pods ∧ isEdsPod d p = true ∧ p.nodeOf = some n ∧ p.deletion = none ∧ p.phase ≠ "Failed" ∧
      p.phase ≠ "Unknown" := by
  unfold livePodsOn Pod.live
  simp only [List.mem_filter, Bool.and_eq_true, beq_iff_eq, bne_iff_ne, ne_eq, Option.isNone_iff_eq_none]
  constructor
  · rintro ⟨a, ⟨b, c⟩, ⟨e, f⟩, g⟩
    exact ⟨a, b, c, e, f, g⟩
  · rintro ⟨a, b, c, e, f, g⟩
    exact ⟨a, ⟨b, c⟩, ⟨e, f⟩, g⟩

theorem livePodsOn_append (d : EDS) (l₁ l₂ : List Pod) (n : String) :
    livePodsOn d (l₁ ++ l₂) n = livePodsOn d l₁ n ++ livePodsOn d l₂ n := by
  unfold livePodsOn
  rw [List.filter_append]

/-- a stored pod of the EDS is listed by the replica-set controller. -/
theorem isEdsPod_mem_ersPods {d : EDS} {st : ErsStore} {p : Pod} (hp : p ∈ st.pods) (he : isEdsPod d p = true) :
    p ∈ ersPods d st := by
  unfold ersPods
  simp only []
  exact List.mem_append_left _ (List.mem_filter.mpr ⟨hp, he⟩)

/-- marking pods as deleted never makes a pod live. -/
theorem livePodsOn_mark_length_le (d : EDS) (names : List String) (now : Time) (pods : List Pod) (n : String) :
    (livePodsOn d (pods.map (markDeleted names now)) n).length ≤ (livePodsOn d pods n).length := by
  unfold livePodsOn
  apply filter_map_length_le
  intro p _ hq
  unfold markDeleted at hq
  split at hq
  · simp [Pod.live] at hq
  · exact hq

theorem livePodsOn_filter_length_le (d : EDS) (f : Pod → Bool) (pods : List Pod) (n : String) :
    (livePodsOn d (pods.filter f) n).length ≤ (livePodsOn d pods n).length := by
  unfold livePodsOn
  exact (List.Sublist.filter _ List.filter_sublist).length_le

/-! #### where a created pod is attached -/

/-- `GetNodeNameFromPod` of a created pod is the node it was built for, or nothing.  In affinity
mode this holds for every node (with an empty required term list, or an empty node name, the read-back
fails and the pod is attached nowhere); in node-name mode it needs a non-empty node name — otherwise
the read-back falls through to the *template's* node affinity, which may name any node. -/
theorem createPod_nodeOf_sub (rs : ERS) (n : Node) (s : Option Setting) (aff : Bool)
    (hne : aff = false → n.name ≠ "") (m : String)
    (h : (createPod rs (some n) s aff).pod.nodeOf = some m) : m = n.name := by
  cases aff with
  | false =>
    rw [C10_nodeOf_nodeName rs n s (hne rfl)] at h
    exact (Option.some.inj h).symm
  | true =>
    have h0 : (createPod rs (some n) s true).pod.nodeName = "" := rfl
    by_cases he : rs.template.affRequired = some []
    · have h1 : (createPod rs (some n) s true).pod.affRequired = some [] := by
        rw [createPod_affRequired_true, he]; rfl
      unfold Pod.nodeOf at h
      rw [h0, h1] at h
      simp [nodeNameFromAffinity, nodeNameFromTerms] at h
    · have hr := C10_pinned_affinity_readback rs n s he
      unfold Pod.nodeOf at h
      rw [h0, hr] at h
      simp only [bne_self_eq_false, Bool.false_eq_true, if_false] at h
      split at h
      · cases h
      · exact (Option.some.inj h).symm

/-- a created pod is not terminating and has no phase yet (it is Pending once the API server stored it). -/
theorem createPod_fresh (rs : ERS) (n : Option Node) (s : Option Setting) (aff : Bool) :
    (createPod rs n s aff).pod.deletion = none ∧ (createPod rs n s aff).pod.phase = "" := ⟨rfl, rfl⟩

/-! #### the invariant -/

/-- Abstract core of part 3, independent of where the creations come from and of how deletions are
applied.  `cs` = (node name, created pod) pairs with pairwise distinct node names, each pod attached to
its node or to none, each node carrying only `Unknown` / `Failed` listed pods; `surv` = any pod list
that has, node by node, no more live pods of the EDS than `stored` (the stored pods with some of them
marked as terminating, or removed, or left alone).  Then `surv ++ created pods` has at most one live
pod per node if `stored` has. -/
theorem one_per_node_of_creates (d : EDS) (listed stored surv : List Pod) (cs : List (String × Pod))
    (hlisted : ∀ p ∈ stored, isEdsPod d p = true → p ∈ listed)
    (hnd : (cs.map (·.1)).Nodup)
    (hpin : ∀ x ∈ cs, ∀ m, x.2.nodeOf = some m → m = x.1)
    (hempty : ∀ x ∈ cs, ∀ p ∈ listed, p.nodeOf = some x.1 → p.phase = "Unknown" ∨ p.phase = "Failed")
    (inv : ∀ n, (livePodsOn d stored n).length ≤ 1)
    (hs : ∀ n, (livePodsOn d surv n).length ≤ (livePodsOn d stored n).length) :
    ∀ n, (livePodsOn d (surv ++ cs.map (·.2)) n).length ≤ 1 := by
  intro n
  rw [livePodsOn_append, List.length_append]
  -- the created pods that are live on `n` were built for `n`
  have hcre : (livePodsOn d (cs.map (·.2)) n).length ≤ (cs.filter (fun x => x.1 == n)).length := by
    unfold livePodsOn
    apply filter_map_length_le
    intro x hx hq
    simp only [Bool.and_eq_true, beq_iff_eq] at hq
    rw [hpin x hx n hq.1.2]
    exact beq_self_eq_true _
  have hle1 := nodup_filter_eq_length_le (fun x : String × Pod => x.1) n cs hnd
  have h1 := hs n
  have h2 := inv n
  cases hf : cs.filter (fun x => x.1 == n) with
  | nil =>
    rw [hf] at hcre
    simp only [List.length_nil] at hcre
    omega
  | cons x tl =>
    -- a pod is created for `n`: no live pod was there
    have hmem : x ∈ cs.filter (fun x => x.1 == n) := by rw [hf]; exact List.mem_cons_self
    obtain ⟨hx, hname⟩ := List.mem_filter.mp hmem
    have hname : x.1 = n := by simpa using hname
    have hold : livePodsOn d stored n = [] := by
      rw [List.eq_nil_iff_forall_not_mem]
      intro p hp
      obtain ⟨a, b, c, _, f, g⟩ := mem_livePodsOn.mp hp
      rcases hempty x hx p (hlisted p a b) (by rw [c, hname]) with hu | hf'
      · exact g hu
      · exact f hf'
    rw [hold] at h1
    simp only [List.length_nil] at h1
    omega

section Invariant
variable (rs : ERS) (st : ErsStore) (released : String → Bool) (aff : Bool) (now : Time) (d : EDS)

/-- a created pod is attached to the node it was created for, or to none (`hne`: node-name mode needs
named nodes). -/
theorem sync_creates_pinned (h : ersOwner rs st = some d)
    (hne : aff = false → ∀ nd ∈ st.nodes, nd.name ≠ "")
    (x : String × Pod) (hx : x ∈ (reconcileErs rs st released aff now).creates)
    (m : String) (hm : x.2.nodeOf = some m) : m = x.1 := by
  obtain ⟨nd, hnd, hname, _⟩ := C04_created_node_listed rs st released aff now d h x hx
  obtain ⟨n, s, rfl⟩ := C04_created_shape rs st released aff now x hx
  simp only [] at hname hm ⊢
  exact createPod_nodeOf_sub rs n s aff (fun ha => by rw [← hname]; exact hne ha nd hnd) m hm

/-- the listed pods on a node that gets a creation are `Unknown` or `Failed` (part 2, weakened). -/
theorem sync_creates_empty (h : ersOwner rs st = some d)
    (x : String × Pod) (hx : x ∈ (reconcileErs rs st released aff now).creates)
    (p : Pod) (hp : p ∈ ersPods d st) (hn : p.nodeOf = some x.1) :
    p.phase = "Unknown" ∨ p.phase = "Failed" := by
  rcases C01_sync_creates_only_on_empty_nodes rs st released aff now d h x hx p hp hn with hu | ⟨hf, _⟩
  · exact Or.inl hu
  · exact Or.inr hf

/-- one sync, any way of applying the deletions. -/
theorem one_per_node_core (h : ersOwner rs st = some d)
    (hn : ersRole d rs.name = "active" → (st.nodes.map (·.name)).Nodup)
    (hc : ersRole d rs.name = "canary" → (ersCanaryNodes d).Nodup)
    (hne : aff = false → ∀ nd ∈ st.nodes, nd.name ≠ "")
    (inv : ∀ n, (livePodsOn d st.pods n).length ≤ 1)
    (surv : List Pod) (hs : ∀ n, (livePodsOn d surv n).length ≤ (livePodsOn d st.pods n).length) :
    ∀ n, (livePodsOn d (surv ++ (reconcileErs rs st released aff now).creates.map (·.2)) n).length ≤ 1 :=
  one_per_node_of_creates d (ersPods d st) st.pods surv _
    (fun _ hp he => isEdsPod_mem_ersPods hp he)
    (C01_sync_creates_nodup_role rs st released aff now d h hn hc)
    (sync_creates_pinned rs st released aff now d h hne)
    (sync_creates_empty rs st released aff now d h)
    inv hs

/-- **Part 3.**  If every node carries at most one live pod of the EDS before the sync, it still does
after the API server applied the pod creations and deletions of ONE sync of a replica set owned by
that EDS — whatever the role (active, canary, unknown), the gates, the back-off oracle and the mode.

Hypotheses (each necessary, see the `decide`-checked counterexamples below):
  * `hn`  stored node names are distinct              (read by the active role only)
  * `hc`  `eds.status.canary.nodes` has no duplicate  (read by the canary role only)
  * `hne` stored node names are not empty             (node-name mode only)
No hypothesis on pod names, on the pods' replica sets, or on the template.  Created pods are taken
as built by `createPod` (not terminating, phase `""`: `createPod_fresh`). -/
theorem C01_sync_preserves_one_per_node (h : ersOwner rs st = some d)
    (hn : (st.nodes.map (·.name)).Nodup) (hc : (ersCanaryNodes d).Nodup)
    (hne : aff = false → ∀ nd ∈ st.nodes, nd.name ≠ "")
    (inv : ∀ n, (livePodsOn d st.pods n).length ≤ 1) :
    ∀ n, (livePodsOn d (applyPodWrites (reconcileErs rs st released aff now) st.pods now) n).length ≤ 1 :=
  one_per_node_core rs st released aff now d h (fun _ => hn) (fun _ => hc) hne inv _
    (livePodsOn_mark_length_le d _ now st.pods)

/-- the same with role-wise hypotheses (`hn` for the active role, `hc` for the canary role, neither for
the unknown role). -/
theorem C01_sync_preserves_one_per_node_role (h : ersOwner rs st = some d)
    (hn : ersRole d rs.name = "active" → (st.nodes.map (·.name)).Nodup)
    (hc : ersRole d rs.name = "canary" → (ersCanaryNodes d).Nodup)
    (hne : aff = false → ∀ nd ∈ st.nodes, nd.name ≠ "")
    (inv : ∀ n, (livePodsOn d st.pods n).length ≤ 1) :
    ∀ n, (livePodsOn d (applyPodWrites (reconcileErs rs st released aff now) st.pods now) n).length ≤ 1 :=
  one_per_node_core rs st released aff now d h hn hc hne inv _ (livePodsOn_mark_length_le d _ now st.pods)

/-- … and with immediate removal of the deleted pods. -/
theorem C01_sync_preserves_one_per_node_hard (h : ersOwner rs st = some d)
    (hn : (st.nodes.map (·.name)).Nodup) (hc : (ersCanaryNodes d).Nodup)
    (hne : aff = false → ∀ nd ∈ st.nodes, nd.name ≠ "")
    (inv : ∀ n, (livePodsOn d st.pods n).length ≤ 1) :
    ∀ n, (livePodsOn d (applyPodWritesHard (reconcileErs rs st released aff now) st.pods) n).length ≤ 1 :=
  one_per_node_core rs st released aff now d h (fun _ => hn) (fun _ => hc) hne inv _
    (livePodsOn_filter_length_le d _ st.pods)

/-! #### the invariant is tight: the created pod is the live pod of its node -/

/-- a created pod counts as a live pod of the EDS on its node, provided the replica set carries the
EDS-name label of its owner (it is copied onto the pod), the node has a name and — in affinity mode —
the template's required node affinity is not the empty term list (`C04_created_pinned`). -/
theorem C01_created_pod_live (h : ersOwner rs st = some d)
    (x : String × Pod) (hx : x ∈ (reconcileErs rs st released aff now).creates)
    (hl : SMap.get? rs.labels K.edsNameLabel = some d.name)
    (hne : x.1 ≠ "") (ha : aff = true → rs.template.affRequired ≠ some []) :
    livePodsOn d [x.2] x.1 = [x.2] := by
  have hpin := C04_created_pinned rs st released aff now x hx hne ha
  obtain ⟨n, s, rfl⟩ := C04_created_shape rs st released aff now x hx
  have heds : isEdsPod d (createPod rs (some n) s aff).pod = true := by
    unfold isEdsPod
    rw [createPod_label_eds]
    have h1 : (createPod rs (some n) s aff).pod.ns = d.ns := (ersOwner_some h).2.1.symm
    have h2 : SMap.getD rs.labels K.edsNameLabel = d.name := by
      unfold SMap.getD; rw [hl]; rfl
    rw [h1, h2]
    simp
  have hlive : (createPod rs (some n) s aff).pod.live = true := by
    unfold Pod.live
    rw [(createPod_fresh rs (some n) s aff).1, (createPod_fresh rs (some n) s aff).2]
    decide
  unfold livePodsOn
  simp only [] at hpin
  rw [List.filter_cons, heds, hpin, hlive]
  simp

theorem eq_singleton_of_mem_of_length_le_one {α} {l : List α} {a : α} (hm : a ∈ l) (hl : l.length ≤ 1) :
    l = [a] := by
  match l, hm, hl with
  | [b], hm, _ => rw [List.mem_singleton.mp hm]
  | _ :: _ :: _, _, hl => simp only [List.length_cons] at hl; omega

/-- … so after the sync the node of a creation carries exactly that pod. -/
theorem C01_created_node_exactly_one (h : ersOwner rs st = some d)
    (hn : (st.nodes.map (·.name)).Nodup) (hc : (ersCanaryNodes d).Nodup)
    (hne : ∀ nd ∈ st.nodes, nd.name ≠ "")
    (inv : ∀ n, (livePodsOn d st.pods n).length ≤ 1)
    (hl : SMap.get? rs.labels K.edsNameLabel = some d.name)
    (ha : aff = true → rs.template.affRequired ≠ some [])
    (x : String × Pod) (hx : x ∈ (reconcileErs rs st released aff now).creates) :
    livePodsOn d (applyPodWrites (reconcileErs rs st released aff now) st.pods now) x.1 = [x.2] := by
  obtain ⟨nd, hnd, hname, _⟩ := C04_created_node_listed rs st released aff now d h x hx
  have hx1 : x.1 ≠ "" := by rw [← hname]; exact hne nd hnd
  have hlive := C01_created_pod_live rs st released aff now d h x hx hl hx1 ha
  apply eq_singleton_of_mem_of_length_le_one
  · unfold applyPodWrites
    rw [livePodsOn_append]
    apply List.mem_append_right
    have hm : x.2 ∈ livePodsOn d [x.2] x.1 := by rw [hlive]; exact List.mem_singleton.mpr rfl
    obtain ⟨_, b, c, e, f, g⟩ := mem_livePodsOn.mp hm
    exact mem_livePodsOn.mpr ⟨List.mem_map.mpr ⟨x, hx, rfl⟩, b, c, e, f, g⟩
  · exact C01_sync_preserves_one_per_node rs st released aff now d h hn hc (fun _ => hne) inv x.1

end Invariant

/-! #### any sequence of syncs -/

/-- the arguments of one sync. -/
structure SyncArgs where
  rs : ERS
  released : String → Bool
  aff : Bool
  now : Time

/-- the store after the API server applied the pod writes of the sync. -/
def applySync (st : ErsStore) (a : SyncArgs) : ErsStore :=
  { st with pods := applyPodWrites (reconcileErs a.rs st a.released a.aff a.now) st.pods a.now }

theorem applySync_nodes (st : ErsStore) (a : SyncArgs) : (applySync st a).nodes = st.nodes := rfl
theorem applySync_owner (st : ErsStore) (a : SyncArgs) (rs : ERS) : ersOwner rs (applySync st a) = ersOwner rs st := rfl

/-- **The invariant along a run.**  Any sequence of syncs of replica sets owned by the EDS — each one
reading the store left by the previous one, in any order of replica sets, with any back-off oracles,
modes and instants — keeps "at most one live pod of the EDS per node", as long as nodes and the EDS
object (in particular `status.canary.nodes`) stay as they are. -/
theorem C01_syncs_preserve_one_per_node (d : EDS) (syncs : List SyncArgs) (st : ErsStore)
    (ho : ∀ a ∈ syncs, ersOwner a.rs st = some d)
    (hn : (st.nodes.map (·.name)).Nodup) (hc : (ersCanaryNodes d).Nodup)
    (hne : ∀ nd ∈ st.nodes, nd.name ≠ "")
    (inv : ∀ n, (livePodsOn d st.pods n).length ≤ 1) :
    ∀ n, (livePodsOn d (syncs.foldl applySync st).pods n).length ≤ 1 := by
  induction syncs generalizing st with
  | nil => exact inv
  | cons a rest ih =>
    rw [List.foldl_cons]
    apply ih
    · intro b hb
      rw [applySync_owner]
      exact ho b (List.mem_cons_of_mem _ hb)
    · exact hn
    · exact hne
    · exact C01_sync_preserves_one_per_node a.rs st a.released a.aff a.now d (ho a List.mem_cons_self) hn hc
        (fun _ => hne) inv

/-! #### two replica sets syncing concurrently from the same snapshot -/

theorem markDeleted_nodeOf (names : List String) (now : Time) (p : Pod) :
    (markDeleted names now p).nodeOf = p.nodeOf := by
  unfold markDeleted
  split <;> rfl

section Concurrent
variable (st : ErsStore) (d : EDS) (rs₁ rs₂ : ERS) (rel₁ rel₂ : String → Bool) (aff₁ aff₂ : Bool) (now₁ now₂ : Time)

/-- the active replica set creates off the canary nodes, the canary replica set on them. -/
theorem active_canary_creates_disjoint (h₁ : ersOwner rs₁ st = some d) (h₂ : ersOwner rs₂ st = some d)
    (hr₁ : ersRole d rs₁.name = "active") (hr₂ : ersRole d rs₂.name = "canary") :
    ∀ x ∈ (reconcileErs rs₁ st rel₁ aff₁ now₁).creates, ∀ y ∈ (reconcileErs rs₂ st rel₂ aff₂ now₂).creates,
      x.1 ≠ y.1 := by
  intro x hx y hy heq
  obtain ⟨_, _, cs, hcs, _⟩ := (ersRole_canary_iff d rs₂.name).mp hr₂
  have hy' := (C04_canary_creates_in_list rs₂ st rel₂ aff₂ now₂ d h₂ hr₂).1 y hy
  rw [ersCanaryNodes_some d hcs] at hy'
  have hx' := (C04_active_avoids_list rs₁ st rel₁ aff₁ now₁ d h₁ hr₁ cs hcs).1 x hx
  rw [heq] at hx'
  exact hx' hy'

/-- two *different* replica sets of the EDS never create for the same node from the same snapshot:
they cannot both be active, nor both be the canary, and an unknown one creates nothing. -/
theorem sync_creates_disjoint (h₁ : ersOwner rs₁ st = some d) (h₂ : ersOwner rs₂ st = some d)
    (hne : rs₁.name ≠ rs₂.name) :
    ∀ x ∈ (reconcileErs rs₁ st rel₁ aff₁ now₁).creates, ∀ y ∈ (reconcileErs rs₂ st rel₂ aff₂ now₂).creates,
      x.1 ≠ y.1 := by
  intro x hx y hy
  rcases ersRole_cases d rs₁.name with hr₁ | hr₁ | hr₁
  · rcases ersRole_cases d rs₂.name with hr₂ | hr₂ | hr₂
    · exact absurd ((C04_roles_disjoint d rs₁.name rs₂.name).1 hr₁ hr₂) hne
    · exact active_canary_creates_disjoint st d rs₁ rs₂ rel₁ rel₂ aff₁ aff₂ now₁ now₂ h₁ h₂ hr₁ hr₂ x hx y hy
    · exact (mem_nil_elim (C04_unknown_inert rs₂ st rel₂ aff₂ now₂ d h₂ hr₂).1 hy).elim
  · rcases ersRole_cases d rs₂.name with hr₂ | hr₂ | hr₂
    · exact fun heq =>
        active_canary_creates_disjoint st d rs₂ rs₁ rel₂ rel₁ aff₂ aff₁ now₂ now₁ h₂ h₁ hr₂ hr₁ y hy x hx heq.symm
    · exact absurd ((C04_roles_disjoint d rs₁.name rs₂.name).2.1 hr₁ hr₂) hne
    · exact (mem_nil_elim (C04_unknown_inert rs₂ st rel₂ aff₂ now₂ d h₂ hr₂).1 hy).elim
  · exact (mem_nil_elim (C04_unknown_inert rs₁ st rel₁ aff₁ now₁ d h₁ hr₁).1 hx).elim

/-- **Concurrent syncs.**  Two different replica sets of the EDS (in practice the active one and the
canary) sync from the SAME store snapshot `st` — neither sees the other's writes — and the API server
applies the writes of the first, then those of the second.  "At most one live pod per node" is kept.
(The same replica set is never reconciled twice concurrently: controller-runtime serialises the
reconciles of one object.  Two syncs of the *same* replica set from the same stale snapshot would both
create; that is the informer-lag hazard, outside this model, see the header.) -/
theorem C01_concurrent_syncs_preserve_one_per_node
    (h₁ : ersOwner rs₁ st = some d) (h₂ : ersOwner rs₂ st = some d) (hrs : rs₁.name ≠ rs₂.name)
    (hn : (st.nodes.map (·.name)).Nodup) (hc : (ersCanaryNodes d).Nodup)
    (hne : ∀ nd ∈ st.nodes, nd.name ≠ "")
    (inv : ∀ n, (livePodsOn d st.pods n).length ≤ 1) :
    ∀ n, (livePodsOn d
      (applyPodWrites (reconcileErs rs₂ st rel₂ aff₂ now₂)
        (applyPodWrites (reconcileErs rs₁ st rel₁ aff₁ now₁) st.pods now₁) now₂) n).length ≤ 1 := by
  -- the names marked by the second sync
  let names₂ := (reconcileErs rs₂ st rel₂ aff₂ now₂).deletes ++ (reconcileErs rs₂ st rel₂ aff₂ now₂).cleanupDeletes
  have hshape : applyPodWrites (reconcileErs rs₂ st rel₂ aff₂ now₂)
        (applyPodWrites (reconcileErs rs₁ st rel₁ aff₁ now₁) st.pods now₁) now₂ =
      (st.pods.map (markDeleted ((reconcileErs rs₁ st rel₁ aff₁ now₁).deletes ++
          (reconcileErs rs₁ st rel₁ aff₁ now₁).cleanupDeletes) now₁)).map (markDeleted names₂ now₂) ++
      (((reconcileErs rs₁ st rel₁ aff₁ now₁).creates.map (fun x => (x.1, markDeleted names₂ now₂ x.2))) ++
        (reconcileErs rs₂ st rel₂ aff₂ now₂).creates).map (·.2) := by
    unfold applyPodWrites
    simp only [List.map_append, List.map_map, List.append_assoc]
    rfl
  rw [hshape]
  apply one_per_node_of_creates d (ersPods d st) st.pods
  · exact fun _ hp he => isEdsPod_mem_ersPods hp he
  · rw [List.map_append, List.map_map]
    have : ((·.1) ∘ fun x : String × Pod => (x.1, markDeleted names₂ now₂ x.2)) = (·.1) := rfl
    rw [this, List.nodup_append]
    refine ⟨C01_sync_creates_nodup rs₁ st rel₁ aff₁ now₁ d h₁ hn hc,
      C01_sync_creates_nodup rs₂ st rel₂ aff₂ now₂ d h₂ hn hc, ?_⟩
    intro a ha b hb
    obtain ⟨x, hx, rfl⟩ := List.mem_map.mp ha
    obtain ⟨y, hy, rfl⟩ := List.mem_map.mp hb
    exact sync_creates_disjoint st d rs₁ rs₂ rel₁ rel₂ aff₁ aff₂ now₁ now₂ h₁ h₂ hrs x hx y hy
  · intro x hx m hm
    rcases List.mem_append.mp hx with hx | hx
    · obtain ⟨y, hy, rfl⟩ := List.mem_map.mp hx
      simp only [] at hm ⊢
      rw [markDeleted_nodeOf] at hm
      exact sync_creates_pinned rs₁ st rel₁ aff₁ now₁ d h₁ (fun _ => hne) y hy m hm
    · exact sync_creates_pinned rs₂ st rel₂ aff₂ now₂ d h₂ (fun _ => hne) x hx m hm
  · intro x hx p hp hpn
    rcases List.mem_append.mp hx with hx | hx
    · obtain ⟨y, hy, rfl⟩ := List.mem_map.mp hx
      exact sync_creates_empty rs₁ st rel₁ aff₁ now₁ d h₁ y hy p hp hpn
    · exact sync_creates_empty rs₂ st rel₂ aff₂ now₂ d h₂ x hx p hp hpn
  · exact inv
  · intro n
    exact Nat.le_trans (livePodsOn_mark_length_le d _ now₂ _ n) (livePodsOn_mark_length_le d _ now₁ _ n)

end Concurrent

/-! #### a decidable form of the invariant -/

/-- the nodes of the live, attached pods of the EDS are pairwise distinct. -/
def onePerNode (d : EDS) (pods : List Pod) : Prop :=
  ((pods.filter (fun p => isEdsPod d p && p.live && p.nodeOf.isSome)).map (·.nodeOf)).Nodup

instance (d : EDS) (pods : List Pod) : Decidable (onePerNode d pods) :=
  inferInstanceAs (Decidable (List.Nodup _))

theorem livePodsOn_eq_filter (d : EDS) (pods : List Pod) (n : String) :
    livePodsOn d pods n =
      (pods.filter (fun p => isEdsPod d p && p.live && p.nodeOf.isSome)).filter (fun p => p.nodeOf == some n) := by
  unfold livePodsOn
  rw [List.filter_filter]
  apply List.filter_congr
  intro p _
  cases isEdsPod d p <;> cases p.live <;> cases p.nodeOf <;> simp

theorem nodup_map_of_filter_length_le {α γ} [BEq γ] [LawfulBEq γ] (g : α → γ) (l : List α)
    (h : ∀ c, (l.filter (fun a => g a == c)).length ≤ 1) : (l.map g).Nodup := by
  induction l with
  | nil => exact List.nodup_nil
  | cons a l ih =>
    rw [List.map_cons, List.nodup_cons]
    constructor
    · intro hm
      obtain ⟨b, hb, hgb⟩ := List.mem_map.mp hm
      have h1 := h (g a)
      rw [List.filter_cons, if_pos (beq_self_eq_true _), List.length_cons] at h1
      have : b ∈ l.filter (fun x => g x == g a) := List.mem_filter.mpr ⟨hb, by rw [hgb]; exact beq_self_eq_true _⟩
      have := List.length_pos_of_mem this
      omega
    · apply ih
      intro c
      have h1 := h c
      rw [List.filter_cons] at h1
      split at h1
      · rw [List.length_cons] at h1; omega
      · exact h1

theorem onePerNode_iff (d : EDS) (pods : List Pod) :
    onePerNode d pods ↔ ∀ n, (livePodsOn d pods n).length ≤ 1 := by
  unfold onePerNode
  constructor
  · intro h n
    rw [livePodsOn_eq_filter]
    exact nodup_filter_eq_length_le (fun p : Pod => p.nodeOf) (some n) _ h
  · intro h
    apply nodup_map_of_filter_length_le
    intro c
    cases c with
    | some n => rw [← livePodsOn_eq_filter]; exact h n
    | none =>
      have : (pods.filter (fun p => isEdsPod d p && p.live && p.nodeOf.isSome)).filter
          (fun p => p.nodeOf == none) = [] := by
        rw [List.filter_eq_nil_iff]
        intro p hp hnone
        have h1 := (List.mem_filter.mp hp).2
        have hnone : p.nodeOf = none := by simpa using hnone
        rw [hnone] at h1
        simp at h1
      rw [this]
      exact Nat.zero_le _

/-! ### 5. Non-vacuity.  The store of C04 (EDS `d`, active replica set `d-old`, canary `d-new` on `n1`,
nodes `n1`, `n2`) with a Running pod on `n1` and a Failed pod on `n2`; every node is out of back-off.
All hypotheses of `C01_sync_preserves_one_per_node` hold, the active replica set deletes the Failed pod
and creates a pod for `n2` in the same sync, and afterwards each node carries exactly one live pod. -/

def exStore01b : ErsStore :=
  exStore04 [exPod04 "old-1" "n1" "d-old" "old", { exPod04 "f-2" "n2" "d-old" "old" with phase := "Failed" }]

example :
    ersOwner (exErs04 "d-old" "old") exStore01b = some exEds04 ∧
    ersRole exEds04 (exErs04 "d-old" "old").name = "active" ∧
    (exStore01b.nodes.map (·.name)).Nodup ∧ (ersCanaryNodes exEds04).Nodup ∧
    (∀ nd ∈ exStore01b.nodes, nd.name ≠ "") ∧
    onePerNode exEds04 exStore01b.pods ∧
    SMap.get? (exErs04 "d-old" "old").labels K.edsNameLabel = some (exEds04).name := by decide

example :
    (reconcileErs (exErs04 "d-old" "old") exStore01b (fun _ => true) false 100).creates.map (·.1) = ["n2"] ∧
    (reconcileErs (exErs04 "d-old" "old") exStore01b (fun _ => true) false 100).cleanupDeletes = ["f-2"] ∧
    (livePodsOn exEds04 exStore01b.pods "n2") = [] ∧
    (nonUnknownOn (ersPods exEds04 exStore01b) "n2").map (·.name) = ["f-2"] := by decide

example :
    (livePodsOn exEds04 (applyPodWrites (reconcileErs (exErs04 "d-old" "old") exStore01b (fun _ => true) false 100)
      exStore01b.pods 100) "n2").map (·.name) = ["d-old-"] ∧
    (livePodsOn exEds04 (applyPodWrites (reconcileErs (exErs04 "d-old" "old") exStore01b (fun _ => true) false 100)
      exStore01b.pods 100) "n1").map (·.name) = ["old-1"] ∧
    onePerNode exEds04 (applyPodWrites (reconcileErs (exErs04 "d-old" "old") exStore01b (fun _ => true) false 100)
      exStore01b.pods 100) := by decide

/-- the same in affinity mode, and for the canary replica set on an empty store (it creates on `n1`). -/
example :
    onePerNode exEds04 (applyPodWrites (reconcileErs (exErs04 "d-old" "old") exStore01b (fun _ => true) true 100)
      exStore01b.pods 100) ∧
    (livePodsOn exEds04 (applyPodWrites (reconcileErs (exErs04 "d-new" "new") exStore04 (fun _ => true) true 100)
      (exStore04).pods 100) "n1").map (·.name) = ["d-new-"] := by decide

/-- the theorem applied (this is an instance of it, not a `decide`). -/
example : ∀ n, (livePodsOn exEds04 (applyPodWrites
    (reconcileErs (exErs04 "d-old" "old") exStore01b (fun _ => true) false 100) exStore01b.pods 100) n).length ≤ 1 :=
  C01_sync_preserves_one_per_node _ _ _ _ _ exEds04 (by decide) (by decide) (by decide) (fun _ => by decide)
    ((onePerNode_iff _ _).mp (by decide))

/-! ### 6. Each hypothesis is necessary -/

/-- `hn` (distinct node names): two stored nodes called `n2`.  The active replica set creates a pod
for each; every other hypothesis holds; afterwards `n2` carries two live pods. -/
def cxStore01bA : ErsStore :=
  { exStore04 [] false with nodes := [(exNode01 "n2").node, (exNode01 "n2").node] }

example :
    ersOwner (exErs04 "d-new" "new") cxStore01bA = some (exEds04 false) ∧
    ersRole (exEds04 false) "d-new" = "active" ∧
    ¬ (cxStore01bA.nodes.map (·.name)).Nodup ∧ (ersCanaryNodes (exEds04 false)).Nodup ∧
    (∀ nd ∈ cxStore01bA.nodes, nd.name ≠ "") ∧ onePerNode (exEds04 false) cxStore01bA.pods ∧
    (reconcileErs (exErs04 "d-new" "new") cxStore01bA (fun _ => true) true 100).creates.map (·.1) = ["n2", "n2"] ∧
    (livePodsOn (exEds04 false) (applyPodWrites (reconcileErs (exErs04 "d-new" "new") cxStore01bA (fun _ => true) true 100)
      cxStore01bA.pods 100) "n2").length = 2 := by decide

/-- `hc` (`status.canary.nodes` without duplicate): the canary list names `n1` twice.  The canary
replica set creates two pods for `n1`; every other hypothesis holds. -/
def cxEds01bB : EDS :=
  { exEds04 with status := { (exEds04).status with canary := some { replicaSet := "d-new", nodes := ["n1", "n1"] } } }

def cxStore01bB : ErsStore := { exStore04 with edss := [cxEds01bB] }

example :
    ersOwner (exErs04 "d-new" "new") cxStore01bB = some cxEds01bB ∧
    ersRole cxEds01bB "d-new" = "canary" ∧
    (cxStore01bB.nodes.map (·.name)).Nodup ∧ ¬ (ersCanaryNodes cxEds01bB).Nodup ∧
    (∀ nd ∈ cxStore01bB.nodes, nd.name ≠ "") ∧ onePerNode cxEds01bB cxStore01bB.pods ∧
    (reconcileErs (exErs04 "d-new" "new") cxStore01bB (fun _ => true) true 100).creates.map (·.1) = ["n1", "n1"] ∧
    (livePodsOn cxEds01bB (applyPodWrites (reconcileErs (exErs04 "d-new" "new") cxStore01bB (fun _ => true) true 100)
      cxStore01bB.pods 100) "n1").length = 2 := by decide

/-- `hne` (node-name mode: no node with an empty name).  A node called `""` and a template whose
required node affinity is `metadata.name In [n2]  OR  label "absent" DoesNotExist`: both nodes are fit
(the second term matches any node), the pod built for `""` has no `spec.nodeName`, and
`GetNodeNameFromPod` reads the *template's* first term back: `n2`.  In node-name mode `n2` ends up with
two live pods; in affinity mode (where `hne` is not required) with one. -/
def cxErs01bC : ERS :=
  { exErs04 "d-new" "new" with
    template := { exTemplate01 with
      affRequired := some [
        { exprs := [], fields := [{ key := "metadata.name", op := "In", values := ["n2"] }] },
        { exprs := [{ key := "absent", op := "DoesNotExist", values := [] }], fields := [] }] } }

def cxStore01bC : ErsStore :=
  { exStore04 [] false with nodes := [(exNode01 "").node, (exNode01 "n2").node] }

example :
    ersOwner cxErs01bC cxStore01bC = some (exEds04 false) ∧
    (cxStore01bC.nodes.map (·.name)).Nodup ∧ (ersCanaryNodes (exEds04 false)).Nodup ∧
    ¬ (∀ nd ∈ cxStore01bC.nodes, nd.name ≠ "") ∧ onePerNode (exEds04 false) cxStore01bC.pods ∧
    (reconcileErs cxErs01bC cxStore01bC (fun _ => true) false 100).creates.map (fun x => (x.1, x.2.nodeOf))
      = [("", some "n2"), ("n2", some "n2")] ∧
    (livePodsOn (exEds04 false) (applyPodWrites (reconcileErs cxErs01bC cxStore01bC (fun _ => true) false 100)
      cxStore01bC.pods 100) "n2").length = 2 ∧
    (livePodsOn (exEds04 false) (applyPodWrites (reconcileErs cxErs01bC cxStore01bC (fun _ => true) true 100)
      cxStore01bC.pods 100) "n2").length = 1 := by decide

/-- "different replica sets" in `C01_concurrent_syncs_preserve_one_per_node`: the *same* replica set
syncing twice from the same snapshot (its cache has not yet seen its first creation) creates twice.
Every other hypothesis holds.  This is the informer-lag hazard; a sync of the model reads one store
snapshot and the model has no notion of cache staleness, so the invariant is only claimed for syncs
that see their own previous writes (`C01_syncs_preserve_one_per_node`). -/
example :
    ersOwner (exErs04 "d-new" "new") (exStore04 [] false) = some (exEds04 false) ∧
    ((exStore04 [] false).nodes.map (·.name)).Nodup ∧ (ersCanaryNodes (exEds04 false)).Nodup ∧
    (∀ nd ∈ (exStore04 [] false).nodes, nd.name ≠ "") ∧ onePerNode (exEds04 false) (exStore04 [] false).pods ∧
    (livePodsOn (exEds04 false)
      (applyPodWrites (reconcileErs (exErs04 "d-new" "new") (exStore04 [] false) (fun _ => true) true 101)
        (applyPodWrites (reconcileErs (exErs04 "d-new" "new") (exStore04 [] false) (fun _ => true) true 100)
          (exStore04 [] false).pods 100) 101) "n2").length = 2 := by decide

/-- … whereas the second sync *reading the store left by the first* creates nothing more. -/
example :
    onePerNode (exEds04 false)
      ([⟨exErs04 "d-new" "new", fun _ => true, true, 100⟩, ⟨exErs04 "d-new" "new", fun _ => true, true, 101⟩].foldl
        applySync (exStore04 [] false)).pods ∧
    (livePodsOn (exEds04 false)
      ([⟨exErs04 "d-new" "new", fun _ => true, true, 100⟩, ⟨exErs04 "d-new" "new", fun _ => true, true, 101⟩].foldl
        applySync (exStore04 [] false)).pods "n2").length = 1 := by decide

end Eds
