import EdsProofs.Filter
import EdsProofs.Rolling
import EdsSpec.C01
/-
  C01 — At most one daemon pod per node, and only on eligible nodes.

  Subject: `FilterAndMapPodsByNode` (filters.go) as modelled by `filterAndMap` (EdsModel/Filter.lean)
  and the three consumers of its per-node map that can create pods: `manageDeployment` (active role),
  `manageUnknown` (unknown role) and `manageCanaryStatus` (canary role).

  Quantification: every template, every node list (any length, any order; duplicate node names are
  allowed unless a theorem says otherwise), every pod list (any length, any order, any phases /
  bindings / deletion timestamps; a pod may even be listed twice unless a theorem says otherwise),
  every ignore list and **every** back-off oracle `released`.

  All numbered properties hold at full strength; there is no `_partial` theorem in this file.

    1  `C01_keys`, `C01_fit_unfold` (+ `C01_byNode_nodes`, `C01_key_names`, `C01_keys_nodup`)
    2  `C01_unknown_untouched`                      — no hypothesis, not even `p ∈ pods`
    3  `C01_unknown_role_creates_nothing`
    4  `C01_create_only_empty` (+ `_byNode`), `C01_create_nodup`   [hyp: names of `p.byNode` Nodup]
    5  `C01_canary_create_only_empty`, `C01_canary_create_nodup`   [hyp: `p.canaryNodes.Nodup`]
    6  `C01_kept_none` (+ `C01_kept_none_released`)  — holds WITHOUT distinct node names
    7  `C01_dup_resolution`                          — holds WITHOUT distinct node names;
       `C01_dup_resolution_strict`                  [hyp: pod names Nodup] gives `podLess k q = true`
    8  `C01_ineligible_deleted`, `C01_ineligible_terminating_kept`, `C01_ignored_kept`
                                                     — hold WITHOUT distinct node names
    9  `C01_kept_not_deleted` [hyp: node names Nodup, `pods.Nodup`],
       `C01_holds`            [hyp: node names Nodup, pod names Nodup]
    +  `C01_roles_disjoint`, `C01_creation_sound`, `C01_creation_once`, `C01_canary_creation_sound`
       (filter composed with the roles: the informal statement end to end).

  The `Nodup` hypotheses of 4 and 5 are necessary (see the last two `example`s).  They are discharged
  by `C01_keys_nodup` for the map built by `filterAndMap` from a node list with distinct names.
-/
namespace Eds

section Filter
variable (released : String → Bool) (t : Template) (nodes : List NodeItem) (pods : List Pod)
  (ignore : List String)

/-! ### 1. keys of the per-node map = listed, non-ignored, fit nodes -/

theorem C01_byNode_nodes :
    (filterAndMap released t nodes pods ignore).byNode.map (·.1) = candidates t nodes ignore := by
  rw [filterAndMap_byNode, List.map_map]
  have : ((fun x : NodeItem × Option Pod => x.1) ∘ keptOf (scanFinal released t nodes pods ignore).attached) = id :=
    funext (fun ni => keptOf_fst _ ni)
  rw [this, List.map_id]

theorem C01_keys (ni : NodeItem) :
    ni ∈ (filterAndMap released t nodes pods ignore).byNode.map (·.1) ↔
      ni ∈ nodes ∧ ignore.contains ni.node.name = false ∧ fit t ni.node = true := by
  rw [C01_byNode_nodes]
  simp [candidates, List.mem_filter]

/-- the three conditions of node fitness. -/
theorem C01_fit_unfold (n : Node) :
    fit t n = true ↔
      nodeSelectorMatches t.nodeSelector n.labels = true ∧
      (match t.affRequired with
       | none => True
       | some terms => terms.any (fun tm => termMatches tm n) = true) ∧
      toleratesTaints (t.tolerations ++ standardTolerations) n.taints = true := by
  unfold fit checkNodeSelector
  cases t.affRequired <;> simp [and_assoc]

/-- the key node names, in order. -/
theorem C01_key_names :
    (filterAndMap released t nodes pods ignore).byNode.map (·.1.node.name) = candNames t nodes ignore := by
  have := congrArg (List.map (fun ni : NodeItem => ni.node.name)) (C01_byNode_nodes released t nodes pods ignore)
  rw [List.map_map] at this
  exact this

/-- distinct node names give distinct keys. -/
theorem C01_keys_nodup (hn : (nodes.map (·.node.name)).Nodup) :
    ((filterAndMap released t nodes pods ignore).byNode.map (·.1.node.name)).Nodup := by
  rw [C01_key_names]
  exact List.Nodup.sublist (List.Sublist.map _ List.filter_sublist) hn

/-! ### 2. Unknown-phase pods are never touched -/

theorem C01_unknown_untouched (p : Pod) (hp : p.phase = "Unknown") :
    p ∉ (filterAndMap released t nodes pods ignore).toDelete ∧
    ∀ ni, (ni, some p) ∉ (filterAndMap released t nodes pods ignore).byNode := by
  have inv := scanFinal_inv released t nodes pods ignore
  constructor
  · intro h
    rcases mem_filter_toDelete.mp h with h | ⟨e, he, h⟩
    · exact (inv.delSound p h).2.1 hp
    · exact (inv.attSound e he p (mem_sortPods.mp (List.mem_of_mem_drop h))).2.2 hp
  · intro ni h
    obtain ⟨_, hk⟩ := mem_filter_byNode h
    obtain ⟨e, he, tl, _, hs⟩ := keptOf_some hk
    have : p ∈ e.2 := mem_sortPods.mp (by rw [hs]; exact List.mem_cons_self)
    exact (inv.attSound e he p this).2.2 hp

/-! ### 6. a node without kept pod carries only Unknown pods and Failed pods being deleted -/

theorem C01_kept_none (ni : NodeItem)
    (h : (ni, none) ∈ (filterAndMap released t nodes pods ignore).byNode) :
    ∀ p ∈ pods, p.nodeOf = some ni.node.name →
      p.phase = "Unknown" ∨
      (p.phase = "Failed" ∧ p ∈ (filterAndMap released t nodes pods ignore).toDelete) := by
  intro p hp hn
  have inv := scanFinal_inv released t nodes pods ignore
  obtain ⟨hc, hk⟩ := mem_filter_byNode h
  have hkey : ni.node.name ∈ (scanFinal released t nodes pods ignore).attached.map (·.1) := by
    rw [inv.keys]; exact List.mem_map.mpr ⟨ni, hc, rfl⟩
  obtain ⟨e, he, h1, h2⟩ := keptOf_none hkey hk
  by_cases hu : p.phase = "Unknown"
  · exact Or.inl hu
  · right
    rcases inv.attComplete e he p hp (h1 ▸ hn) hu with h3 | ⟨h3, h4⟩
    · rw [h2] at h3; cases h3
    · exact ⟨h3, mem_filter_toDelete.mpr (Or.inl h4)⟩

/-- … and such a deleted Failed pod exists only when the node was out of back-off. -/
theorem C01_kept_none_released (ni : NodeItem)
    (h : (ni, none) ∈ (filterAndMap released t nodes pods ignore).byNode)
    (p : Pod) (hp : p ∈ pods) (hn : p.nodeOf = some ni.node.name) (hu : p.phase ≠ "Unknown") :
    released ni.node.name = true := by
  have inv := scanFinal_inv released t nodes pods ignore
  obtain ⟨hc, hk⟩ := mem_filter_byNode h
  have hkey : ni.node.name ∈ (scanFinal released t nodes pods ignore).attached.map (·.1) := by
    rw [inv.keys]; exact List.mem_map.mpr ⟨ni, hc, rfl⟩
  obtain ⟨e, he, h1, h2⟩ := keptOf_none hkey hk
  rcases inv.attComplete e he p hp (h1 ▸ hn) hu with h3 | ⟨_, h4⟩
  · rw [h2] at h3; cases h3
  · obtain ⟨_, _, n, hn', hc'⟩ := inv.delSound p h4
    have : n = ni.node.name := by rw [hn] at hn'; exact (Option.some.inj hn').symm
    subst this
    rcases hc' with ⟨_, _, hr⟩ | ⟨hnk, _⟩
    · exact hr
    · exact absurd (List.mem_map.mpr ⟨ni, hc, rfl⟩) hnk

/-! ### 7. duplicate resolution -/

theorem C01_dup_resolution (ni : NodeItem) (k : Pod)
    (h : (ni, some k) ∈ (filterAndMap released t nodes pods ignore).byNode) :
    k ∈ pods ∧ k.nodeOf = some ni.node.name ∧ k.phase ≠ "Unknown" ∧
    ∀ q ∈ pods, q.nodeOf = some ni.node.name → q.phase ≠ "Unknown" → q ≠ k →
      q ∈ (filterAndMap released t nodes pods ignore).toDelete ∧
      (q.phase ≠ "Failed" → podLess q k = false) := by
  have inv := scanFinal_inv released t nodes pods ignore
  obtain ⟨_, hk⟩ := mem_filter_byNode h
  obtain ⟨e, he, tl, h1, hs⟩ := keptOf_some hk
  have hke : k ∈ e.2 := mem_sortPods.mp (by rw [hs]; exact List.mem_cons_self)
  obtain ⟨a, b, c⟩ := inv.attSound e he k hke
  refine ⟨a, h1 ▸ b, c, ?_⟩
  intro q hq hqn hqu hne
  rcases inv.attComplete e he q hq (h1 ▸ hqn) hqu with h3 | ⟨h3, h4⟩
  · constructor
    · have : q ∈ sortPods e.2 := mem_sortPods.mpr h3
      rw [hs] at this
      rcases List.mem_cons.mp this with h5 | h5
      · exact absurd h5 hne
      · exact mem_filter_toDelete.mpr (Or.inr ⟨e, he, by rw [hs]; exact h5⟩)
    · intro _
      exact sortPods_head_min e.2 k tl hs q h3
  · exact ⟨mem_filter_toDelete.mpr (Or.inl h4), fun hf => absurd h3 hf⟩

/-- with distinct pod names the kept pod is strictly first among the non-Failed pods of the node. -/
theorem C01_dup_resolution_strict (hpn : (pods.map (·.name)).Nodup) (ni : NodeItem) (k : Pod)
    (h : (ni, some k) ∈ (filterAndMap released t nodes pods ignore).byNode) :
    ∀ q ∈ pods, q.nodeOf = some ni.node.name → q.phase ≠ "Unknown" → q ≠ k → q.phase ≠ "Failed" →
      podLess k q = true := by
  obtain ⟨hk, _, _, hall⟩ := C01_dup_resolution released t nodes pods ignore ni k h
  intro q hq hqn hqu hne hf
  exact podLess_total q k (fun hnm => hne (inj_of_nodup_map _ hpn hq hk hnm)) ((hall q hq hqn hqu hne).2 hf)

/-! ### 8. pods on nodes that are not keys -/

theorem C01_ineligible_deleted (p : Pod) (n : String) (hp : p ∈ pods) (hn : p.nodeOf = some n)
    (hu : p.phase ≠ "Unknown") (hd : p.deletion = none)
    (hk : n ∉ (filterAndMap released t nodes pods ignore).byNode.map (·.1.node.name))
    (hi : ignore.contains n = false) :
    p ∈ (filterAndMap released t nodes pods ignore).toDelete := by
  have inv := scanFinal_inv released t nodes pods ignore
  rw [C01_key_names] at hk
  exact mem_filter_toDelete.mpr (Or.inl (inv.strayComplete p hp n hn hk hu hi hd))

theorem C01_ineligible_terminating_kept (p : Pod) (n : String) (hn : p.nodeOf = some n)
    (hd : p.deletion ≠ none)
    (hk : n ∉ (filterAndMap released t nodes pods ignore).byNode.map (·.1.node.name)) :
    p ∉ (filterAndMap released t nodes pods ignore).toDelete := by
  have inv := scanFinal_inv released t nodes pods ignore
  rw [C01_key_names] at hk
  intro h
  rcases mem_filter_toDelete.mp h with h | ⟨e, he, h⟩
  · obtain ⟨_, _, m, hm, hc⟩ := inv.delSound p h
    have : n = m := by rw [hn] at hm; exact Option.some.inj hm
    subst this
    rcases hc with ⟨hc, _⟩ | ⟨_, _, hc⟩
    · exact hk hc
    · exact hd hc
  · have := (inv.attSound e he p (mem_sortPods.mp (List.mem_of_mem_drop h))).2.1
    have hm : n = e.1 := by rw [hn] at this; exact Option.some.inj this
    apply hk
    rw [← inv.keys, hm]
    exact List.mem_map.mpr ⟨e, he, rfl⟩

/-- pods on ignored, non-key nodes and pods without node binding are left alone. -/
theorem C01_ignored_kept (p : Pod) (h : p ∈ (filterAndMap released t nodes pods ignore).toDelete) :
    p ∈ pods ∧ p.phase ≠ "Unknown" ∧ ∃ n, p.nodeOf = some n ∧
      (n ∈ (filterAndMap released t nodes pods ignore).byNode.map (·.1.node.name) ∨
       (ignore.contains n = false ∧ p.deletion = none)) := by
  have inv := scanFinal_inv released t nodes pods ignore
  rw [C01_key_names]
  rcases mem_filter_toDelete.mp h with h | ⟨e, he, h⟩
  · obtain ⟨a, b, m, hm, hc⟩ := inv.delSound p h
    refine ⟨a, b, m, hm, ?_⟩
    rcases hc with ⟨hc, _⟩ | ⟨_, hc⟩
    · exact Or.inl hc
    · exact Or.inr hc
  · obtain ⟨a, b, c⟩ := inv.attSound e he p (mem_sortPods.mp (List.mem_of_mem_drop h))
    refine ⟨a, c, e.1, b, Or.inl ?_⟩
    rw [← inv.keys]
    exact List.mem_map.mpr ⟨e, he, rfl⟩

/-! ### 9. the decidable specification `Spec.C01.holds` -/

section
open Spec.C01
/-- with distinct node names and no pod listed twice, the kept pod is not deleted. -/
theorem C01_kept_not_deleted (hn : (nodes.map (·.node.name)).Nodup) (hp : pods.Nodup)
    (ni : NodeItem) (k : Pod) (h : (ni, some k) ∈ (filterAndMap released t nodes pods ignore).byNode) :
    k ∉ (filterAndMap released t nodes pods ignore).toDelete := by
  have inv := scanFinal_inv released t nodes pods ignore
  obtain ⟨_, hk⟩ := mem_filter_byNode h
  obtain ⟨e, he, tl, h1, hs⟩ := keptOf_some hk
  have hke : k ∈ e.2 := mem_sortPods.mp (by rw [hs]; exact List.mem_cons_self)
  intro hd
  rcases mem_filter_toDelete.mp hd with hd | ⟨e', he', hd⟩
  · exact inv.disj hp k hd e he hke
  · have hke' : k ∈ e'.2 := mem_sortPods.mp (List.mem_of_mem_drop hd)
    have hkeys : ((scanFinal released t nodes pods ignore).attached.map (·.1)).Nodup := by
      rw [inv.keys]
      exact List.Nodup.sublist (List.Sublist.map _ List.filter_sublist) hn
    have h2 := (inv.attSound e he k hke).2.1
    have h3 := (inv.attSound e' he' k hke').2.1
    have : e' = e := inj_of_nodup_map _ hkeys he' he (by rw [h2] at h3; exact (Option.some.inj h3).symm)
    subst this
    have hnd : (sortPods e'.2).Nodup :=
      (sortPods_perm e'.2).nodup_iff.mpr (List.Nodup.sublist (inv.attSub e' he') hp)
    rw [hs] at hnd hd
    exact (List.nodup_cons.mp hnd).1 (by simpa using hd)

theorem C01_holds (hn : (nodes.map (·.node.name)).Nodup) (hp : (pods.map (·.name)).Nodup) :
    Spec.C01.holds t nodes ignore pods
      ((filterAndMap released t nodes pods ignore).byNode.map (fun e => (e.1.node.name, e.2.map (·.name))))
      ((filterAndMap released t nodes pods ignore).toDelete.map (·.name)) = true := by
  have hpn : pods.Nodup := nodup_of_nodup_map _ hp
  have hsub : ∀ q ∈ (filterAndMap released t nodes pods ignore).toDelete, q ∈ pods :=
    fun q hq => (C01_ignored_kept released t nodes pods ignore q hq).1
  have hkn := C01_key_names released t nodes pods ignore
  unfold holds
  simp only [Bool.and_eq_true]
  refine ⟨⟨⟨?_, ?_⟩, ?_⟩, ?_⟩
  · -- keysOk
    unfold keysOk
    simp only [Bool.and_eq_true, List.all_eq_true]
    constructor
    · intro e he
      obtain ⟨⟨ni, o⟩, hm, rfl⟩ := List.mem_map.mp he
      rw [eligible_iff, ← hkn]
      exact List.mem_map.mpr ⟨(ni, o), hm, rfl⟩
    · intro ni _
      cases hel : eligible t nodes ignore ni.node.name with
      | false => rfl
      | true =>
        rw [eligible_iff, ← hkn] at hel
        obtain ⟨e, he, hen⟩ := List.mem_map.mp hel
        simp only [Bool.not_true, Bool.false_or, List.any_eq_true, beq_iff_eq]
        exact ⟨_, List.mem_map.mpr ⟨e, he, rfl⟩, hen⟩
  · -- dupOk
    unfold dupOk
    simp only [List.all_eq_true]
    intro e he
    obtain ⟨⟨ni, o⟩, hm, rfl⟩ := List.mem_map.mp he
    cases o with
    | none =>
      simp only [Option.map_none, List.all_eq_true, Spec.C01.candidates, List.mem_filter, Bool.and_eq_true,
        beq_iff_eq, bne_iff_ne, ne_eq]
      rintro q ⟨hq, hqn, hqu⟩
      rcases C01_kept_none released t nodes pods ignore ni hm q hq hqn with h | ⟨h1, h2⟩
      · exact absurd h hqu
      · exact ⟨h1, (names_contains_iff hp hsub hq).mpr h2⟩
    | some k =>
      obtain ⟨hk, hkn', hku, hall⟩ := C01_dup_resolution released t nodes pods ignore ni k hm
      simp only [Option.map_some, findPod_of_mem hp hk, Bool.and_eq_true, List.all_eq_true,
        Spec.C01.candidates, List.mem_filter, beq_iff_eq, bne_iff_ne, ne_eq, Bool.or_eq_true,
        Bool.not_eq_true']
      refine ⟨⟨⟨⟨hkn', hku⟩, ?_⟩, ?_⟩, ?_⟩
      · cases hc : ((filterAndMap released t nodes pods ignore).toDelete.map (·.name)).contains k.name with
        | false => rfl
        | true =>
          exact absurd ((names_contains_iff hp hsub hk).mp hc)
            (C01_kept_not_deleted released t nodes pods ignore hn hpn ni k hm)
      · rintro q ⟨hq, hqn, hqu⟩
        by_cases hqk : q = k
        · exact Or.inl (by rw [hqk])
        · exact Or.inr ((names_contains_iff hp hsub hq).mpr (hall q hq hqn hqu hqk).1)
      · rintro q ⟨hq, hqn, hqu⟩
        by_cases hqk : q = k
        · exact Or.inl (Or.inl (by rw [hqk]))
        · by_cases hf : q.phase = "Failed"
          · exact Or.inl (Or.inr hf)
          · exact Or.inr (C01_dup_resolution_strict released t nodes pods ignore hp ni k hm q hq hqn hqu hqk hf)
  · -- strayOk
    unfold strayOk
    simp only [List.all_eq_true]
    intro p hpm
    have hcont := names_contains_iff hp hsub hpm
    cases hno : p.nodeOf with
    | none =>
      simp only []
      cases hc : ((filterAndMap released t nodes pods ignore).toDelete.map (·.name)).contains p.name with
      | false => rfl
      | true =>
        obtain ⟨_, _, n, h, _⟩ := C01_ignored_kept released t nodes pods ignore p (hcont.mp hc)
        rw [hno] at h; cases h
    | some n =>
      simp only []
      split
      · rfl
      · rename_i hel
        have hnk : n ∉ (filterAndMap released t nodes pods ignore).byNode.map (·.1.node.name) := by
          rw [hkn, ← eligible_iff]; exact hel
        split
        · rename_i hu
          have hu : p.phase = "Unknown" := by simpa using hu
          have := (C01_unknown_untouched released t nodes pods ignore p hu).1
          cases hc : ((filterAndMap released t nodes pods ignore).toDelete.map (·.name)).contains p.name with
          | false => rfl
          | true => exact absurd (hcont.mp hc) this
        · rename_i hu
          have hu : p.phase ≠ "Unknown" := by simpa using hu
          split
          · rename_i hi
            cases hc : ((filterAndMap released t nodes pods ignore).toDelete.map (·.name)).contains p.name with
            | false => rfl
            | true =>
              obtain ⟨_, _, m, h, h'⟩ := C01_ignored_kept released t nodes pods ignore p (hcont.mp hc)
              have : m = n := by rw [hno] at h; exact (Option.some.inj h).symm
              subst this
              rcases h' with h' | ⟨h', _⟩
              · exact absurd h' hnk
              · rw [hi] at h'; cases h'
          · rename_i hi
            have hi : ignore.contains n = false := by simpa using hi
            cases hd : p.deletion with
            | none =>
              have := C01_ineligible_deleted released t nodes pods ignore p n hpm hno hu hd hnk hi
              rw [hcont.mpr this]; rfl
            | some d =>
              have := C01_ineligible_terminating_kept released t nodes pods ignore p n hno (by rw [hd]; simp) hnk
              cases hc : ((filterAndMap released t nodes pods ignore).toDelete.map (·.name)).contains p.name with
              | false => simp
              | true => exact absurd (hcont.mp hc) this
  · -- unknownUntouched
    unfold unknownUntouched
    simp only [List.all_eq_true]
    intro p hpm
    by_cases hu : p.phase = "Unknown"
    · obtain ⟨h1, h2⟩ := C01_unknown_untouched released t nodes pods ignore p hu
      have hc : ((filterAndMap released t nodes pods ignore).toDelete.map (·.name)).contains p.name = false := by
        cases hc : ((filterAndMap released t nodes pods ignore).toDelete.map (·.name)).contains p.name with
        | false => rfl
        | true => exact absurd ((names_contains_iff hp hsub hpm).mp hc) h1
      have hk : (List.map (fun e : NodeItem × Option Pod => (e.1.node.name, e.2.map (·.name)))
            (filterAndMap released t nodes pods ignore).byNode).any (fun e => e.2 == some p.name) = false := by
        rw [List.any_eq_false]
        intro e he
        obtain ⟨⟨ni, o⟩, hm, rfl⟩ := List.mem_map.mp he
        cases o with
        | none => simp
        | some k =>
          simp only [Option.map_some, beq_iff_eq, Option.some.injEq]
          intro hkp
          have hk := (C01_dup_resolution released t nodes pods ignore ni k hm).1
          have := inj_of_nodup_map _ hp hk hpm hkp
          subst this
          exact h2 ni hm
      rw [hc, hk]; simp
    · simp [hu]

end

end Filter

/-! ### 3. the unknown role creates and deletes nothing -/

theorem C01_unknown_role_creates_nothing (p : StratParams) (wall : Time) :
    (manageUnknown p wall).createE = [] ∧ (manageUnknown p wall).deleteE = [] := by
  unfold manageUnknown
  simp only []
  exact ⟨trivial, trivial⟩

/-! ### 4. the active role creates only on entries without pod, once per node -/

theorem C01_create_only_empty (p : StratParams) (now wall : Time) (cf : Bool) (r : StratResult)
    (h : manageDeployment p now wall cf = .ok r) :
    ∀ ni ∈ r.createE, (ni, none) ∈ targeted p := by
  obtain ⟨ms, mu, mc, _, _, _, hc, _⟩ := manageDeployment_plan p now wall cf r h
  intro ni hni
  rw [hc] at hni
  have := (rollingPlan_create_sublist _ _ ms mu mc _ _).subset hni
  rw [countAll_toCreate] at this
  exact mem_noneNodes.mp this

/-- … in particular on a node of the per-node map that is not a canary node. -/
theorem C01_create_only_empty_byNode (p : StratParams) (now wall : Time) (cf : Bool) (r : StratResult)
    (h : manageDeployment p now wall cf = .ok r) :
    ∀ ni ∈ r.createE, (ni, none) ∈ p.byNode ∧ p.canaryNodes.contains ni.node.name = false := by
  intro ni hni
  have := C01_create_only_empty p now wall cf r h ni hni
  simp only [targeted, dropCanaryNodes, List.mem_filter] at this
  exact ⟨this.1, by simpa using this.2⟩

theorem C01_create_nodup (p : StratParams) (now wall : Time) (cf : Bool) (r : StratResult)
    (h : manageDeployment p now wall cf = .ok r) (hn : (p.byNode.map (·.1.node.name)).Nodup) :
    (r.createE.map (·.node.name)).Nodup := by
  obtain ⟨ms, mu, mc, _, _, _, hc, _⟩ := manageDeployment_plan p now wall cf r h
  rw [hc]
  have h1 := List.Sublist.map (fun ni : NodeItem => ni.node.name) (rollingPlan_create_sublist
    (countAll p.ers.templateGeneration wall (targeted p)) (targeted p).length ms mu mc
    (isRollingUpdatePaused p.edsAnnotations) (isRolloutFrozen p.edsAnnotations))
  rw [countAll_toCreate] at h1
  have h2 := noneNodes_names_sublist (targeted p)
  have h3 : ((targeted p).map (·.1.node.name)).Sublist (p.byNode.map (·.1.node.name)) :=
    List.Sublist.map _ List.filter_sublist
  exact List.Nodup.sublist ((h1.trans h2).trans h3) hn

/-! ### 5. the canary role creates only on canary nodes whose entry has no pod, once per node -/

theorem C01_canary_create_only_empty (p : StratParams) (now : Time) (r : StratResult)
    (h : manageCanaryStatus p now = some r) :
    ∀ ni ∈ r.createE, (ni, none) ∈ p.byNode ∧ ni.node.name ∈ p.canaryNodes := by
  have inv := canaryScan_createInv p.ers.templateGeneration p.byNode p.canaryNodes
  unfold manageCanaryStatus at h
  simp only [] at h
  split at h
  · exact absurd h (by simp)
  · injection h with h
    subst h
    simp only []
    intro ni hni
    split at hni
    · exact inv.mem ni hni
    · cases hni

theorem C01_canary_create_nodup (p : StratParams) (now : Time) (r : StratResult)
    (h : manageCanaryStatus p now = some r) (hn : p.canaryNodes.Nodup) :
    (r.createE.map (·.node.name)).Nodup := by
  have inv := canaryScan_createInv p.ers.templateGeneration p.byNode p.canaryNodes
  unfold manageCanaryStatus at h
  simp only [] at h
  split at h
  · exact absurd h (by simp)
  · injection h with h
    subst h
    simp only []
    split
    · exact List.Nodup.sublist inv.sub hn
    · exact List.nodup_nil

/-- The two roles never create on the same node in one sync: the active role skips the canary nodes,
the canary role creates only on them. -/
theorem C01_roles_disjoint (pa pc : StratParams) (now wall : Time) (cf : Bool) (ra rc : StratResult)
    (hc : pa.canaryNodes = pc.canaryNodes)
    (ha : manageDeployment pa now wall cf = .ok ra) (hcs : manageCanaryStatus pc now = some rc) :
    ∀ ni ∈ ra.createE, ∀ nj ∈ rc.createE, ni.node.name ≠ nj.node.name := by
  intro ni hni nj hnj heq
  have h1 := (C01_create_only_empty_byNode pa now wall cf ra ha ni hni).2
  have h2 := (C01_canary_create_only_empty pc now rc hcs nj hnj).2
  rw [hc, heq] at h1
  have : pc.canaryNodes.contains nj.node.name = true := List.contains_iff_mem.mpr h2
  rw [h1] at this; cases this

/-! ### End to end: filter + role.  A creation happens only on an eligible node that carries nothing
but Unknown pods and Failed pods deleted in the same sync; at most one creation per node. -/

section EndToEnd
variable (released : String → Bool) (t : Template) (nodes : List NodeItem) (pods : List Pod)
  (ignore : List String)

theorem C01_creation_sound (sp : StratParams) (now wall : Time) (cf : Bool) (r : StratResult)
    (hb : sp.byNode = (filterAndMap released t nodes pods ignore).byNode)
    (h : manageDeployment sp now wall cf = .ok r) :
    ∀ ni ∈ r.createE,
      ni ∈ nodes ∧ ignore.contains ni.node.name = false ∧ fit t ni.node = true ∧
      ∀ q ∈ pods, q.nodeOf = some ni.node.name →
        q.phase = "Unknown" ∨
        (q.phase = "Failed" ∧ q ∈ (filterAndMap released t nodes pods ignore).toDelete) := by
  intro ni hni
  have hm := (C01_create_only_empty_byNode sp now wall cf r h ni hni).1
  rw [hb] at hm
  have hk := (C01_keys released t nodes pods ignore ni).mp (List.mem_map.mpr ⟨_, hm, rfl⟩)
  exact ⟨hk.1, hk.2.1, hk.2.2, C01_kept_none released t nodes pods ignore ni hm⟩

theorem C01_creation_once (sp : StratParams) (now wall : Time) (cf : Bool) (r : StratResult)
    (hb : sp.byNode = (filterAndMap released t nodes pods ignore).byNode)
    (hn : (nodes.map (·.node.name)).Nodup)
    (h : manageDeployment sp now wall cf = .ok r) :
    (r.createE.map (·.node.name)).Nodup :=
  C01_create_nodup sp now wall cf r h (by rw [hb]; exact C01_keys_nodup released t nodes pods ignore hn)

theorem C01_canary_creation_sound (sp : StratParams) (now : Time) (r : StratResult)
    (hb : sp.byNode = (filterAndMap released t nodes pods ignore).byNode)
    (h : manageCanaryStatus sp now = some r) :
    ∀ ni ∈ r.createE,
      ni ∈ nodes ∧ ignore.contains ni.node.name = false ∧ fit t ni.node = true ∧
      ∀ q ∈ pods, q.nodeOf = some ni.node.name →
        q.phase = "Unknown" ∨
        (q.phase = "Failed" ∧ q ∈ (filterAndMap released t nodes pods ignore).toDelete) := by
  intro ni hni
  have hm := (C01_canary_create_only_empty sp now r h ni hni).1
  rw [hb] at hm
  have hk := (C01_keys released t nodes pods ignore ni).mp (List.mem_map.mpr ⟨_, hm, rfl⟩)
  exact ⟨hk.1, hk.2.1, hk.2.2, C01_kept_none released t nodes pods ignore ni hm⟩

end EndToEnd

/-! ### Non-vacuity.  Four nodes: `n1`, `n2` fit; `n3` carries an untolerated NoSchedule taint; `n4` is
on the ignore list.  `n1` holds three pods (two scheduled, one bound only by affinity), `n2` a Failed
and an Unknown pod, `n3` a running and a terminating pod, `n4` a running pod.  Every node is out of
back-off (`released = fun _ => true`). -/

def exNode01 (n : String) (taints : List Taint := []) : NodeItem :=
  { node := { name := n, labels := [], annotations := [], taints := taints }, setting := none }

/-- a pod bound to node `n` through `spec.nodeName` (`sched = true`) or only through the node-name
affinity (`sched = false`). -/
def exPod01 (name n : String) (sched : Bool) (creation : Time) (phase : String := "Running")
    (deletion : Option Time := none) : Pod :=
  { name := name, ns := "d", labels := [], annotations := [], owners := [],
    creation := creation, deletion := deletion, gracePeriod := none,
    nodeName := if sched then n else "", affOther := "",
    affRequired := some [{ exprs := [], fields := [{ key := "metadata.name", op := "In", values := [n] }] }],
    tolerations := [], containers := [], phase := phase, startTime := none, conds := [], cstats := [] }

def exTemplate01 : Template :=
  { labels := [], annotations := [], nodeSelector := [], affOther := "", affRequired := none,
    tolerations := [], containers := [] }

def exNodes01 : List NodeItem :=
  [exNode01 "n1", exNode01 "n2", exNode01 "n3" [⟨"dedicated", "db", "NoSchedule"⟩], exNode01 "n4"]

def exPods01 : List Pod :=
  [ exPod01 "p1" "n1" true 5, exPod01 "p0" "n1" true 3, exPod01 "pu" "n1" false 1,
    exPod01 "f2" "n2" true 2 "Failed", exPod01 "u2" "n2" true 2 "Unknown",
    exPod01 "s3" "n3" true 2, exPod01 "s3t" "n3" true 2 "Running" (some 9),
    exPod01 "i4" "n4" true 2 ]

def exOut01 : FilterOut := filterAndMap (fun _ => true) exTemplate01 exNodes01 exPods01 ["n4"]

/-- keys = fit, non-ignored nodes; on `n1` the older scheduled pod `p0` is kept; `n2` has no kept pod. -/
example : exOut01.byNode.map (fun e => (e.1.node.name, e.2.map (·.name))) =
    [("n1", some "p0"), ("n2", none)] := by decide
/-- deleted: the released Failed pod of `n2`, the stray pod of unfit `n3` (not the terminating one, not
the pod of ignored `n4`, not the Unknown one), and the two duplicates of `n1`. -/
example : exOut01.toDelete.map (·.name) = ["f2", "s3", "p1", "pu"] := by decide
/-- the hypotheses of `C01_holds` are satisfiable and the specification evaluates to true here. -/
example : (exNodes01.map (·.node.name)).Nodup ∧ (exPods01.map (·.name)).Nodup := by decide
example : Spec.C01.holds exTemplate01 exNodes01 ["n4"] exPods01
    (exOut01.byNode.map (fun e => (e.1.node.name, e.2.map (·.name))))
    (exOut01.toDelete.map (·.name)) = true := by decide
/-- while `n2` is in back-off the Failed pod stays (and is kept), so nothing is created there. -/
example : (filterAndMap (fun _ => false) exTemplate01 exNodes01 exPods01 ["n4"]).byNode.map
    (fun e => (e.1.node.name, e.2.map (·.name))) = [("n1", some "p0"), ("n2", some "f2")] := by decide

def exParams01 (canaryNodes : List String) : StratParams :=
  { edsName := "d", edsAnnotations := [],
    strategy := { rollingUpdate := { maxUnavailable := some ⟨"int", 1⟩, maxPodSchedulerFailure := some ⟨"int", 0⟩,
                                      maxParallelPodCreation := some 250, slowStartInterval := some minute,
                                      slowStartAdditiveIncrease := some ⟨"int", 5⟩ },
                  canary := some { replicas := some ⟨"int", 1⟩, duration := some (10 * minute), nodeSelector := none,
                                   antiAffinityKeys := [],
                                   autoPause := some { enabled := some true, maxRestarts := some 2,
                                                       maxSlowStartDuration := none },
                                   autoFail := some { enabled := some true, maxRestarts := some 5,
                                                      maxRestartsDuration := none, canaryTimeout := none },
                                   noRestartsDuration := none, validationMode := "auto" },
                  reconcileFrequency := some (10 * sec) },
    ers := { name := "d-new", ns := "d", uid := "u", labels := [], annotations := [], creation := 0, deleted := false,
             ownerEds := some "d", selector := none, templateGeneration := "new",
             template := exTemplate01,
             status := { status := "", desired := 0, current := 0, ready := 0, available := 0, ignored := 0, conds := [] } },
    newStatus := { status := "", desired := 0, current := 0, ready := 0, available := 0, ignored := 0, conds := [] },
    canaryNodes := canaryNodes,
    byNode := exOut01.byNode, toCleanUp := exOut01.toDelete, unscheduled := exOut01.unscheduled }

/-- the active role then creates a pod on `n2` (whose Failed pod is deleted in the same sync) … -/
example : ∃ r, manageDeployment (exParams01 []) 100 100 false = .ok r ∧ r.podsToCreate = ["n2"] ∧
    r.cleanupDeletes = ["f2", "s3", "p1", "pu"] := by
  refine ⟨_, rfl, ?_, ?_⟩ <;> decide
/-- … and so does the canary role when `n2` is a canary node (the active role then leaves it alone). -/
example : (manageCanaryStatus (exParams01 ["n2"]) 100).map (·.podsToCreate) = some ["n2"] := by decide
example : ∃ r, manageDeployment (exParams01 ["n2"]) 100 100 false = .ok r ∧ r.podsToCreate = [] := by
  refine ⟨_, rfl, ?_⟩; decide

/-- the `Nodup` hypotheses of `C01_create_nodup` / `C01_canary_create_nodup` are needed: a node listed
twice (resp. a canary node name listed twice) gets two creations in the model. -/
example : ∃ r, manageDeployment { exParams01 [] with byNode := [(exNode01 "n2", none), (exNode01 "n2", none)] }
    100 100 false = .ok r ∧ r.podsToCreate = ["n2", "n2"] := by
  refine ⟨_, rfl, ?_⟩; decide
example : (manageCanaryStatus (exParams01 ["n2", "n2"]) 100).map (·.podsToCreate) = some ["n2", "n2"] := by
  decide

end Eds
