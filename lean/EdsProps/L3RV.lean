import EdsProofs.L3RV
/-
  L3RV — the cluster machine with resourceVersions (EdsModel/ClusterRV.lean): which history invariants
  of EdsProps/L3.lean survive reconciles that read a STALE ExtendedDaemonSet.

  A stale reconcile (`OpRV.reconcileEdsStale k newName mode`) plans its writes on the `k`-th earlier
  stored value of the ExtendedDaemonSet (every list and the clock current).  Its writes to the
  ExtendedDaemonSet carry an outdated resourceVersion and are refused; the reconcile stops at the first
  refused write; the replica-set `Create` / `Delete`s issued before it are applied.

  1. runs                      `RunOkRV`, `runRV_inv`, `runRV_append`
  2. fresh ops                 `RV_fresh_is_step`, `RV_fresh_run`, `RV_version_bookkeeping`, `RV_rv_mono`
  3. stale reconciles          `RV_stale_eds_untouched`, `RV_stale_frame`, `RV_stale_is_faulty_step`,
                               `RV_stale_run_eds_untouched`
     corollaries for runs      `RV_promotion_step`, `RV_promotion_history`            (C05, `L3_promotion_history`)
                               `RV_canaryNodup_step`, `RV_canary_nodup`               (C15)
                               `RV_canary_bound_step`, `RV_canary_bound`              (C15)
                               `RV_canary_nodes_kept`, `RV_canary_nodes_kept_history`
  4. invariants that SURVIVE   `RV_hashesNodup_step`, `RV_allHashed_step`, `RV_annotGen_step`, `RV_namesNodup_step`,
     (no hypothesis on the     `RV_one_per_template`, `RV_all_hashed`, `RV_annot_gen`, `RV_names_nodup`, `RV_WF_run`,
      history)                 `RV_at_most_one_per_hash`, `RV_one_per_template_from_empty`,
                               `RV_histIdent_step/_run` (`HistIdent`: recorded values are values of the same object)
  5. invariants that do NOT    `RV_stale_never_deletes_uptodate` (FALSE), `RV_stale_never_deletes_active` (FALSE),
                               `RV_stale_never_creates` (FALSE) with `…_false` (after the concrete worlds),
     true variants             `RV_stale_never_deletes_uptodate_partial`, `RV_stale_never_deletes_active_partial`,
                               `RV_stale_never_creates_partial`,
                               `RV_stale_creates_only_missing_hash`, `RV_stale_removes_only_drained`,
                               `RV_stale_keeps_seen_in_use`, `RV_stale_erss`, `RV_stale_own_shape`
     recovery                  `RV_recovery`, `RV_recovery_recreates`, `RV_stale_then_fresh`
  6. examples (non-vacuity) at the end.
-/
namespace Eds
open Cluster ClusterRV Spec.C05

/-! ## 1. Runs -/

/-- side condition `C` holds for every operation of the run, in the world it is applied to. -/
def RunOkRV (C : WorldRV → OpRV → Prop) : WorldRV → List OpRV → Prop
  | _, [] => True
  | w, op :: ops => C w op ∧ RunOkRV C (stepRV w op) ops

instance RunOkRV.dec {C : WorldRV → OpRV → Prop} [∀ w op, Decidable (C w op)] :
    ∀ (w : WorldRV) (ops : List OpRV), Decidable (RunOkRV C w ops)
  | _, [] => isTrue trivial
  | w, op :: ops => @instDecidableAnd _ _ inferInstance (RunOkRV.dec (stepRV w op) ops)

/-- induction over arbitrary operation sequences, stale reconciles included. -/
theorem runRV_inv {P : WorldRV → Prop} {C : WorldRV → OpRV → Prop}
    (hstep : ∀ w op, P w → C w op → P (stepRV w op)) :
    ∀ (ops : List OpRV) (w : WorldRV), P w → RunOkRV C w ops → P (runRV w ops) := by
  intro ops
  induction ops with
  | nil => intro w h _; exact h
  | cons x ops ih =>
    intro w h hok
    exact ih _ (hstep w x h hok.1) hok.2

theorem runRV_append (w : WorldRV) (ops : List OpRV) (op : OpRV) :
    runRV w (ops ++ [op]) = stepRV (runRV w ops) op := by
  unfold runRV; rw [List.foldl_append]; rfl

theorem RunOkRV_true (w : WorldRV) (ops : List OpRV) : RunOkRV (fun _ _ => True) w ops := by
  induction ops generalizing w with
  | nil => trivial
  | cons x ops ih => exact ⟨trivial, ih _⟩

/-! ## 2. Fresh ops behave exactly as `step` -/

/-- **the non-stale ops behave exactly as `step` on the underlying world**: every guarded write of a
reconcile that read the stored object with its version is accepted (the version each accepted write
returns is used for the next one). -/
theorem RV_fresh_is_step (w : WorldRV) (op : Op) : (stepRV w (.fresh op)).world = step w.world op :=
  stepRV_fresh_world w op

/-- … hence a run without stale reconciles is a run of the L3 machine. -/
theorem RV_fresh_run (w : WorldRV) (ops : List Op) : (runRV w (ops.map .fresh)).world = run w.world ops := by
  unfold runRV run
  induction ops generalizing w with
  | nil => rfl
  | cons op ops ih =>
    simp only [List.map_cons, List.foldl_cons]
    rw [ih, RV_fresh_is_step]

/-- **version bookkeeping of every step** (fresh or stale): the values recorded by the step (`l`, most
recent first) are put in front of the history, the version grows by their number, they are values of the
same object, nothing recorded means the object is unchanged, otherwise the oldest recorded value is the
object the step started from. -/
theorem RV_version_bookkeeping (w : WorldRV) (op : OpRV) :
    ∃ l, (stepRV w op).hist = l ++ w.hist ∧ (stepRV w op).rv = w.rv + l.length ∧
      (∀ x ∈ l, x.name = w.world.eds.name ∧ x.ns = w.world.eds.ns ∧ x.labels = w.world.eds.labels) ∧
      (l = [] → (stepRV w op).world.eds = w.world.eds) ∧
      (l ≠ [] → l.getLast? = some w.world.eds) :=
  stepRV_hist_shape w op

/-- the version never decreases, and an object that changed got a new version. -/
theorem RV_rv_mono (w : WorldRV) (op : OpRV) :
    w.rv ≤ (stepRV w op).rv ∧ ((stepRV w op).world.eds ≠ w.world.eds → w.rv < (stepRV w op).rv) := by
  obtain ⟨l, _, hrv, _, hnil, _⟩ := stepRV_hist_shape w op
  refine ⟨by omega, fun hne => ?_⟩
  cases l with
  | nil => exact absurd (hnil rfl) hne
  | cons x l => simp only [List.length_cons] at hrv; omega

/-! ## 3. A stale reconcile never changes the stored ExtendedDaemonSet -/

/-- **a stale reconcile never changes the stored ExtendedDaemonSet** — status (in particular
`status.activeReplicaSet` and `status.canary.nodes`), spec, annotations — nor its version, nor its
history. -/
theorem RV_stale_eds_untouched (w : WorldRV) (k : Nat) (nn m : String) :
    (stepRV w (.reconcileEdsStale k nn m)).world.eds = w.world.eds ∧
    (stepRV w (.reconcileEdsStale k nn m)).rv = w.rv ∧
    (stepRV w (.reconcileEdsStale k nn m)).hist = w.hist := by
  rw [stepRV_stale_eq]
  cases w.hist[k]? <;> exact ⟨rfl, rfl, rfl⟩

/-- the fields named in the statement, one by one. -/
theorem RV_stale_status_untouched (w : WorldRV) (k : Nat) (nn m : String) :
    (stepRV w (.reconcileEdsStale k nn m)).world.eds.status = w.world.eds.status ∧
    (stepRV w (.reconcileEdsStale k nn m)).world.eds.status.activeReplicaSet = w.world.eds.status.activeReplicaSet ∧
    canaryNodesOf (stepRV w (.reconcileEdsStale k nn m)).world.eds.status = canaryNodesOf w.world.eds.status ∧
    (stepRV w (.reconcileEdsStale k nn m)).world.eds.templateHash = w.world.eds.templateHash ∧
    (stepRV w (.reconcileEdsStale k nn m)).world.eds.template = w.world.eds.template ∧
    (stepRV w (.reconcileEdsStale k nn m)).world.eds.strategy = w.world.eds.strategy ∧
    (stepRV w (.reconcileEdsStale k nn m)).world.eds.annotations = w.world.eds.annotations := by
  rw [(RV_stale_eds_untouched w k nn m).1]
  exact ⟨rfl, rfl, rfl, rfl, rfl, rfl, rfl⟩

/-- a stale reconcile writes replica sets only: pods, nodes, settings, DaemonSets and the clock are
untouched as well. -/
theorem RV_stale_frame (w : WorldRV) (k : Nat) (nn m : String) :
    (stepRV w (.reconcileEdsStale k nn m)).world.pods = w.world.pods ∧
    (stepRV w (.reconcileEdsStale k nn m)).world.nodes = w.world.nodes ∧
    (stepRV w (.reconcileEdsStale k nn m)).world.settings = w.world.settings ∧
    (stepRV w (.reconcileEdsStale k nn m)).world.daemonsets = w.world.daemonsets ∧
    (stepRV w (.reconcileEdsStale k nn m)).world.now = w.world.now := by
  rw [stepRV_stale_eq]
  cases w.hist[k]? <;> exact ⟨rfl, rfl, rfl, rfl, rfl⟩

/-- **what a stale reconcile does**: nothing when there is no `k`-th earlier value; otherwise the
replica-set list becomes the one of the L3 step `stepF` that DROPS every ExtendedDaemonSet write
(`ersOnly`), taken in the world seen through the stale object. -/
theorem RV_stale_is_faulty_step (w : WorldRV) (k : Nat) (nn m : String) :
    stepRV w (.reconcileEdsStale k nn m) =
      (match w.hist[k]? with
       | none => w
       | some d => WorldRV.setErss w (stepF ersOnly (seenWith w.world d) (.reconcileEds nn m)).erss) :=
  stepRV_stale_eq w k nn m

/-- any number of stale reconciles in a row leaves the stored ExtendedDaemonSet, its version and its
history as they were. -/
theorem RV_stale_run_eds_untouched (w : WorldRV) (ops : List OpRV)
    (h : ∀ op ∈ ops, ∃ k nn m, op = .reconcileEdsStale k nn m) :
    (runRV w ops).world.eds = w.world.eds ∧ (runRV w ops).rv = w.rv ∧ (runRV w ops).hist = w.hist := by
  unfold runRV
  induction ops generalizing w with
  | nil => exact ⟨rfl, rfl, rfl⟩
  | cons op ops ih =>
    obtain ⟨k, nn, m, rfl⟩ := h _ (List.mem_cons_self ..)
    obtain ⟨h1, h2, h3⟩ := ih (stepRV w (.reconcileEdsStale k nn m)) (fun o ho => h o (List.mem_cons_of_mem _ ho))
    obtain ⟨g1, g2, g3⟩ := RV_stale_eds_untouched w k nn m
    simp only [List.foldl_cons]
    exact ⟨h1.trans g1, h2.trans g2, h3.trans g3⟩

/-! ### corollaries for runs: promotion, the canary node list -/

/-- freshness of the name the API server hands out — for stale reconciles too: their `Create` is
applied. -/
def OpFreshRV (w : WorldRV) : OpRV → Prop
  | .fresh op => OpFresh w.world op
  | .reconcileEdsStale _ nn _ => nn ∉ w.world.own.map (·.name)

/-- `OpOk` of L3 for the fresh ops; a stale reconcile needs a fresh name only (its defaulting write,
the only place where the mode flag is used, is refused). -/
def OpOkRV (w : WorldRV) : OpRV → Prop
  | .fresh op => OpOk w.world op
  | .reconcileEdsStale _ nn _ => nn ∉ w.world.own.map (·.name)

instance (w : WorldRV) (op : OpRV) : Decidable (OpFreshRV w op) :=
  match op with
  | .fresh op => inferInstanceAs (Decidable (OpFresh w.world op))
  | .reconcileEdsStale _ nn _ => inferInstanceAs (Decidable (nn ∉ w.world.own.map (·.name)))

instance (w : WorldRV) (op : OpRV) : Decidable (OpOkRV w op) :=
  match op with
  | .fresh op => inferInstanceAs (Decidable (OpOk w.world op))
  | .reconcileEdsStale _ nn _ => inferInstanceAs (Decidable (nn ∉ w.world.own.map (·.name)))

theorem OpOkRV.fresh {w : WorldRV} {op : OpRV} (h : OpOkRV w op) : OpFreshRV w op := by
  cases op with
  | fresh op => exact h.1
  | reconcileEdsStale _ _ _ => exact h

theorem RV_schemaOk_step (w : WorldRV) (op : OpRV) (h : SchemaOk w.world) (ho : OpOkRV w op) :
    SchemaOk (stepRV w op).world := by
  cases op with
  | fresh op => rw [RV_fresh_is_step]; exact L3_schemaOk_step _ _ h ho.2
  | reconcileEdsStale k nn m =>
    unfold SchemaOk
    rw [(RV_stale_eds_untouched w k nn m).1]; exact h

/-- **C05 (step): promotion only by the rule, whatever the op.**  If ANY op of the machine with
resourceVersions changes `status.activeReplicaSet` from the name of an own replica set `a` to the name
of a different own replica set `u`, the op is a FRESH daemonset reconcile and the promotion rule held
for `u` in the pre-state.  A stale reconcile never promotes: its status update is refused. -/
theorem RV_promotion_step (w : WorldRV) (op : OpRV) (hs : SchemaOk w.world) (hn : NamesNodup w.world)
    (a u : ERS) (ha : a ∈ w.world.own) (hu : u ∈ w.world.own)
    (hact : w.world.eds.status.activeReplicaSet = a.name)
    (hact' : (stepRV w op).world.eds.status.activeReplicaSet = u.name)
    (hne : a.name ≠ u.name) :
    (∃ nn m, op = .fresh (.reconcileEds nn m)) ∧
    promotionAllowed w.world.eds.strategy.canary w.world.eds.annotations u w.world.now = true := by
  have hfr : ∀ op' : Op, (∀ nn m, op' ≠ .reconcileEds nn m) → op = .fresh op' → False := by
    intro op' hop' he
    subst he
    rw [RV_fresh_is_step, L3_status_written_only_by_eds_reconcile _ _ hop'] at hact'
    exact hne (hact.symm.trans hact')
  cases op with
  | fresh op =>
    cases op with
    | reconcileEds nn m =>
      rw [RV_fresh_is_step] at hact'
      exact ⟨⟨nn, m, rfl⟩, L3_promotion_step w.world nn m hs hn a u ha hu hact hact' hne⟩
    | reconcileErs _ _ _ => exact (hfr _ (fun _ _ h => by cases h) rfl).elim
    | setNodes _ => exact (hfr _ (fun _ _ h => by cases h) rfl).elim
    | kubelet _ => exact (hfr _ (fun _ _ h => by cases h) rfl).elim
    | userSpec _ _ _ _ => exact (hfr _ (fun _ _ h => by cases h) rfl).elim
    | tick _ => exact (hfr _ (fun _ _ h => by cases h) rfl).elim
  | reconcileEdsStale k nn m =>
    rw [(RV_stale_eds_untouched w k nn m).1] at hact'
    exact absurd (hact.symm.trans hact') hne

/-- **C15 (step): `status.canary.nodes` stays duplicate-free**, stale reconciles included. -/
theorem RV_canaryNodup_step (w : WorldRV) (op : OpRV) (h : CanaryNodup w.world) : CanaryNodup (stepRV w op).world := by
  cases op with
  | fresh op => rw [RV_fresh_is_step]; exact L3_canaryNodup_step _ _ h
  | reconcileEdsStale k nn m =>
    unfold CanaryNodup
    rw [(RV_stale_eds_untouched w k nn m).1]; exact h

theorem RV_canary_nodup (w : WorldRV) (ops : List OpRV) (h : CanaryNodup w.world) : CanaryNodup (runRV w ops).world :=
  runRV_inv (P := fun w => CanaryNodup w.world) (C := fun _ _ => True)
    (fun w op h _ => RV_canaryNodup_step w op h) ops w h (RunOkRV_true w ops)

/-- **C15 (step): the canary node list never grows beyond max(previous length, resolved request)**,
stale reconciles included (they leave it as it is). -/
theorem RV_canary_bound_step (w : WorldRV) (op : OpRV) :
    ((canaryNodesOf (stepRV w op).world.eds.status).length : Int) ≤
      max ((canaryNodesOf w.world.eds.status).length : Int) (requestOf w.world) := by
  cases op with
  | fresh op => rw [RV_fresh_is_step]; exact L3_canary_bound_step _ _
  | reconcileEdsStale k nn m => rw [(RV_stale_eds_untouched w k nn m).1]; omega

/-- **C15 (history): the bound `K` on the canary node list along any run with stale reconciles.** -/
theorem RV_canary_bound (K : Int) (w : WorldRV) (ops : List OpRV)
    (h : ((canaryNodesOf w.world.eds.status).length : Int) ≤ K)
    (hreq : RunOkRV (fun w _ => requestOf w.world ≤ K) w ops) :
    ((canaryNodesOf (runRV w ops).world.eds.status).length : Int) ≤ K :=
  runRV_inv (P := fun w => ((canaryNodesOf w.world.eds.status).length : Int) ≤ K)
    (fun w op h hc => by
      have := RV_canary_bound_step w op
      omega) ops w h hreq

/-- **`status.canary.nodes` selected earlier are kept by stale reconciles** (the whole list, in order). -/
theorem RV_canary_nodes_kept (w : WorldRV) (k : Nat) (nn m : String) :
    canaryNodesOf (stepRV w (.reconcileEdsStale k nn m)).world.eds.status = canaryNodesOf w.world.eds.status :=
  (RV_stale_status_untouched w k nn m).2.2.1

/-- … at any point of any run, and for any number of stale reconciles in a row. -/
theorem RV_canary_nodes_kept_history (w0 : WorldRV) (ops stale : List OpRV)
    (h : ∀ op ∈ stale, ∃ k nn m, op = .reconcileEdsStale k nn m) :
    canaryNodesOf (runRV w0 (ops ++ stale)).world.eds.status = canaryNodesOf (runRV w0 ops).world.eds.status ∧
    (runRV w0 (ops ++ stale)).world.eds.status.activeReplicaSet = (runRV w0 ops).world.eds.status.activeReplicaSet := by
  have : runRV w0 (ops ++ stale) = runRV (runRV w0 ops) stale := by unfold runRV; rw [List.foldl_append]
  rw [this, (RV_stale_run_eds_untouched (runRV w0 ops) stale h).1]
  exact ⟨rfl, rfl⟩

/-! ## 4. The L3 invariants on replica sets that survive stale reconciles

No hypothesis on the history is needed: a recorded value of the same object (`HistIdent`, an invariant
of the machine) makes the stale reconcile a faulty L3 step in the world seen through it; a value of
another identity (unreachable) could only remove own replica sets. -/

theorem nodup_map_sublist {α β} (φ : α → β) (l l' : List α) (hs : l'.Sublist l) (h : (l.map φ).Nodup) :
    (l'.map φ).Nodup :=
  List.Nodup.sublist (List.Sublist.map _ hs) h

/-- **C13 (step): at most one own replica set per template hash**, stale reconciles included.  A stale
reconcile creates a replica set only for the hash of the template it READ, and only when no own
replica set (of the CURRENT list) carries that hash. -/
theorem RV_hashesNodup_step (w : WorldRV) (op : OpRV) (h : HashesNodup w.world) :
    HashesNodup (stepRV w op).world := by
  cases op with
  | fresh op => rw [RV_fresh_is_step]; exact L3_hashesNodup_step _ _ h
  | reconcileEdsStale k nn m =>
    exact stale_own_lift (fun (l : List ERS) => (l.map (fun (e : ERS) => SMap.get? e.annotations K.templateHashAnnot)).Nodup)
      w k nn m (fun l l' hs hq => nodup_map_sublist _ l l' hs hq)
      (fun w' _ hq => L3_hashesNodup_stepF ersOnly w' (.reconcileEds nn m) hq) h

theorem RV_allHashed_step (w : WorldRV) (op : OpRV) (h : AllHashed w.world) :
    AllHashed (stepRV w op).world := by
  cases op with
  | fresh op => rw [RV_fresh_is_step]; exact L3_allHashed_step _ _ h
  | reconcileEdsStale k nn m =>
    exact stale_own_lift (fun (l : List ERS) => ∀ e ∈ l, (SMap.get? e.annotations K.templateHashAnnot).isSome = true)
      w k nn m (fun l l' hs hq e he => hq e (hs.subset he))
      (fun w' _ hq => L3_allHashed_stepF ersOnly w' (.reconcileEds nn m) hq) h

theorem RV_annotGen_step (w : WorldRV) (op : OpRV) (h : AnnotGen w.world) :
    AnnotGen (stepRV w op).world := by
  cases op with
  | fresh op => rw [RV_fresh_is_step]; exact L3_annotGen_step _ _ h
  | reconcileEdsStale k nn m =>
    exact stale_own_lift (fun (l : List ERS) => ∀ e ∈ l, SMap.get? e.annotations K.templateHashAnnot = some e.templateGeneration)
      w k nn m (fun l l' hs hq e he => hq e (hs.subset he))
      (fun w' _ hq => L3_annotGen_stepF ersOnly w' (.reconcileEds nn m) hq) h

/-- **names stay distinct** given fresh names for the replica sets created — by stale reconciles too. -/
theorem RV_namesNodup_step (w : WorldRV) (op : OpRV) (h : NamesNodup w.world)
    (hf : OpFreshRV w op) : NamesNodup (stepRV w op).world := by
  cases op with
  | fresh op => rw [RV_fresh_is_step]; exact L3_namesNodup_step _ _ h hf
  | reconcileEdsStale k nn m =>
    exact stale_own_lift (fun (l : List ERS) => (l.map (fun (e : ERS) => e.name)).Nodup) w k nn m
      (fun l l' hs hq => nodup_map_sublist _ l l' hs hq)
      (fun w' ho hq => L3_namesNodup_stepF ersOnly w' (.reconcileEds nn m) hq (by
        show nn ∉ w'.own.map (·.name)
        rw [ho]; exact hf)) h

/-- `HistIdent` — every recorded value is a value of the same object — is an invariant. -/
theorem RV_histIdent_step (w : WorldRV) (op : OpRV) (h : HistIdent w) : HistIdent (stepRV w op) :=
  histIdent_stepRV w op h

theorem RV_histIdent_run (w : WorldRV) (ops : List OpRV) (h : HistIdent w) : HistIdent (runRV w ops) :=
  runRV_inv (C := fun _ _ => True) (fun w op h _ => histIdent_stepRV w op h) ops w h (RunOkRV_true w ops)

/-- **C13 (history): one replica set per template, for ALL operation sequences with stale reconciles.** -/
theorem RV_one_per_template (w : WorldRV) (ops : List OpRV) (h : HashesNodup w.world) :
    HashesNodup (runRV w ops).world :=
  runRV_inv (P := fun w => HashesNodup w.world) (C := fun _ _ => True)
    (fun w op h _ => RV_hashesNodup_step w op h) ops w h (RunOkRV_true w ops)

theorem RV_all_hashed (w : WorldRV) (ops : List OpRV) (h : AllHashed w.world) :
    AllHashed (runRV w ops).world :=
  runRV_inv (P := fun w => AllHashed w.world) (C := fun _ _ => True)
    (fun w op h _ => RV_allHashed_step w op h) ops w h (RunOkRV_true w ops)

theorem RV_annot_gen (w : WorldRV) (ops : List OpRV) (h : AnnotGen w.world) :
    AnnotGen (runRV w ops).world :=
  runRV_inv (P := fun w => AnnotGen w.world) (C := fun _ _ => True)
    (fun w op h _ => RV_annotGen_step w op h) ops w h (RunOkRV_true w ops)

/-- **names stay distinct along any run with fresh names** (`RunOkRV OpFreshRV`). -/
theorem RV_names_nodup (w : WorldRV) (ops : List OpRV) (h : NamesNodup w.world)
    (hf : RunOkRV OpFreshRV w ops) : NamesNodup (runRV w ops).world :=
  runRV_inv (P := fun w => NamesNodup w.world)
    (fun w op h hc => RV_namesNodup_step w op h hc) ops w h hf

/-- well-formedness (`WF` of L3: distinct names, schema) along any run with stale reconciles. -/
theorem RV_WF_step (w : WorldRV) (op : OpRV) (h : WF w.world) (ho : OpOkRV w op) :
    WF (stepRV w op).world :=
  ⟨RV_namesNodup_step w op h.1 ho.fresh, RV_schemaOk_step w op h.2 ho⟩

theorem RV_WF_run (w : WorldRV) (ops : List OpRV) (h : WF w.world)
    (ho : RunOkRV OpOkRV w ops) : WF (runRV w ops).world :=
  runRV_inv (P := fun w => WF w.world) (fun w op h hc => RV_WF_step w op h hc) ops w h ho

/-- at any point of any run with stale reconciles: two own replica sets with the same template hash
are the same object. -/
theorem RV_at_most_one_per_hash (w : WorldRV) (ops : List OpRV) (h : HashesNodup w.world)
    (e1 e2 : ERS) (h1 : e1 ∈ (runRV w ops).world.own) (h2 : e2 ∈ (runRV w ops).world.own)
    (hh : SMap.get? e1.annotations K.templateHashAnnot = SMap.get? e2.annotations K.templateHashAnnot) :
    e1 = e2 :=
  C13_at_most_one_per_hash _ _ (RV_one_per_template w ops h) e1 e2 h1 h2 hh

/-- from a world without replica sets no hypothesis is left. -/
theorem RV_one_per_template_from_empty (w : WorldRV) (ops : List OpRV) (h : w.world.erss = []) :
    HashesNodup (runRV w ops).world ∧ AllHashed (runRV w ops).world ∧ AnnotGen (runRV w ops).world := by
  refine ⟨RV_one_per_template _ ops ?_, RV_all_hashed _ ops ?_, RV_annot_gen _ ops ?_⟩
  · unfold HashesNodup hashesNodup; rw [h]; exact List.nodup_nil
  · unfold AllHashed allHashed; rw [h]; intro e he; cases he
  · unfold AnnotGen World.own; rw [h]; intro e he; cases he

/-- **C05 (history) with stale reconciles.**  In any run from a well-formed world — stale reconciles
of the daemonset anywhere in it — whenever the NEXT op (any op) changes `status.activeReplicaSet` from an
existing own replica set `a` to a different existing own replica set `u`, that op is a fresh daemonset
reconcile and the promotion rule held for `u` at that moment. -/
theorem RV_promotion_history (w0 : WorldRV) (ops : List OpRV) (op : OpRV) (h0 : WF w0.world)
    (hops : RunOkRV OpOkRV w0 ops) (a u : ERS)
    (ha : a ∈ (runRV w0 ops).world.own) (hu : u ∈ (runRV w0 ops).world.own)
    (hact : (runRV w0 ops).world.eds.status.activeReplicaSet = a.name)
    (hact' : (runRV w0 (ops ++ [op])).world.eds.status.activeReplicaSet = u.name)
    (hne : a.name ≠ u.name) :
    (∃ nn m, op = .fresh (.reconcileEds nn m)) ∧
    promotionAllowed (runRV w0 ops).world.eds.strategy.canary (runRV w0 ops).world.eds.annotations u
      (runRV w0 ops).world.now = true := by
  have hwf := RV_WF_run w0 ops h0 hops
  rw [runRV_append] at hact'
  exact RV_promotion_step _ op hwf.2 hwf.1 a u ha hu hact hact' hne

/-! ## 5. What does NOT survive: a stale reconcile deletes / creates replica sets on outdated grounds -/

instance (e : ERS) (w' : World) : Decidable (Survives e w') :=
  inferInstanceAs (Decidable (∃ e' ∈ w'.erss, e' = { e with status := e'.status }))

/-- the replica-set list after a stale reconcile that read `d`: the writes planned on `d` and the
current lists, applied. -/
theorem RV_stale_erss (w : WorldRV) (k : Nat) (nn m : String) (d : EDS) (hk : w.hist[k]? = some d) :
    (stepRV w (.reconcileEdsStale k nn m)).world.erss =
      applyErsList d w.world.erss (edsWrites (seenWith w.world d) m) nn w.world.now := by
  rw [stepRV_stale_eq, hk]
  exact stepF_ersOnly_erss (seenWith w.world d) nn m

/-- the own replica sets after a stale reconcile that read `d`: those the clean-up planned on `d` does
not name, then the one created from `d`. -/
theorem RV_stale_own_shape (w : WorldRV) (k : Nat) (nn m : String) (d : EDS) (hi : HistIdent w)
    (hk : w.hist[k]? = some d) :
    (stepRV w (.reconcileEdsStale k nn m)).world.own =
      w.world.own.filter (fun e => !(e.ns == d.ns && (edsWrites (seenWith w.world d) m).deletedErs.contains e.name)) ++
      (match (edsWrites (seenWith w.world d) m).created with
       | some _ => [ersOfNewAt d (newReplicaSetFromInstance d) nn w.world.now]
       | none => []) := by
  obtain ⟨hn, hns⟩ := histIdent_get hi hk
  unfold World.own
  rw [RV_stale_erss w k nn m d hk, (RV_stale_eds_untouched w k nn m).1, ← ownErs_congr d w.world.eds _ hn hns,
    ← ownErs_congr d w.world.eds _ hn hns]
  exact ownErs_applyErsList d w.world.erss _ nn w.world.now
    (fun n hc => (reconcileEds_created_iff _ _ _ _ _ _ n hc).2.1)

/-- **no second replica set for a template**: a stale reconcile creates a replica set only when NO own
replica set of the current list carries the hash of the template it read — and then nothing is
deleted by it. -/
theorem RV_stale_creates_only_missing_hash (w : WorldRV) (k : Nat) (nn m : String) (d : EDS) (hi : HistIdent w)
    (hk : w.hist[k]? = some d) (n : NewErs) (hc : (edsWrites (seenWith w.world d) m).created = some n) :
    (∀ e ∈ w.world.own, SMap.get? e.annotations K.templateHashAnnot ≠ some d.templateHash) ∧
    (stepRV w (.reconcileEdsStale k nn m)).world.erss =
      w.world.erss ++ [ersOfNewAt d (newReplicaSetFromInstance d) nn w.world.now] := by
  obtain ⟨hn, hns⟩ := histIdent_get hi hk
  have h1 := C13_create_only_if_none d w.world.erss w.world.pods w.world.nodes w.world.now m n hc
  have h2 := reconcileEds_created_iff d w.world.erss w.world.pods w.world.nodes w.world.now m n hc
  refine ⟨?_, ?_⟩
  · intro e he
    exact h1.2 e (by rw [ownErs_congr d w.world.eds _ hn hns]; exact he)
  · rw [RV_stale_erss w k nn m d hk]
    unfold applyErsList
    have hdel : (edsWrites (seenWith w.world d) m).deletedErs = [] := h2.2.2
    rw [hc, hdel, h2.2.1]
    simp

/-- **what a stale reconcile removes**: a replica set of the current list that the clean-up planned on
the stale object names — an own one that is drained (the four counters sum to zero), not marked
deleted, and neither current nor up to date FOR THE OBJECT READ. -/
theorem RV_stale_removes_only_drained (w : WorldRV) (k : Nat) (nn m : String) (e : ERS) (he : e ∈ w.world.erss)
    (h : ¬ Survives e (stepRV w (.reconcileEdsStale k nn m)).world) :
    ∃ d, w.hist[k]? = some d ∧ e.ns = d.ns ∧
      ∃ u, upToDateOf d (ownErs d w.world.erss) = some u ∧
      ∃ e0 ∈ ownErs d w.world.erss, e0.name = e.name ∧
        e.name ≠ (currentOf d (ownErs d w.world.erss) u w.world.now).1.name ∧ e.name ≠ u.name ∧
        e0.deleted = false ∧
        e0.status.available + e0.status.current + e0.status.desired + e0.status.ready = 0 := by
  cases hk : w.hist[k]? with
  | none =>
    exfalso; apply h
    rw [stepRV_stale_eq, hk]; exact ⟨e, he, rfl⟩
  | some d =>
    refine ⟨d, rfl, ?_⟩
    by_cases hdel : e.ns = d.ns ∧ e.name ∈ (edsWrites (seenWith w.world d) m).deletedErs
    · exact ⟨hdel.1, C13_cleanup_safe d w.world.erss w.world.pods w.world.nodes w.world.now m e.name hdel.2⟩
    · exfalso; apply h
      refine ⟨e, ?_, rfl⟩
      rw [RV_stale_erss w k nn m d hk]
      apply mem_applyErsList_of_not_deleted _ _ _ _ _ _ he
      by_cases hns : e.ns = d.ns
      · right; intro hd; exact hdel ⟨hns, hd⟩
      · left; exact hns

/-- **the replica sets that are in use FOR THE OBJECT READ survive a stale reconcile**: the one whose
hash matches the template it read and the one it selects as current. -/
theorem RV_stale_keeps_seen_in_use (w : WorldRV) (k : Nat) (nn m : String) (d : EDS) (hk : w.hist[k]? = some d)
    (u : ERS) (hu : upToDateOf d (ownErs d w.world.erss) = some u) :
    Survives u (stepRV w (.reconcileEdsStale k nn m)).world ∧
    Survives (currentOf d (ownErs d w.world.erss) u w.world.now).1 (stepRV w (.reconcileEdsStale k nn m)).world := by
  have hum := (C13_reuse_selects d w.world.erss u hu).1
  have hcm := currentOf_mem d _ u w.world.now hum
  refine ⟨⟨u, ?_, rfl⟩, ⟨(currentOf d (ownErs d w.world.erss) u w.world.now).1, ?_, rfl⟩⟩
  · rw [RV_stale_erss w k nn m d hk]
    exact mem_applyErsList_of_not_deleted _ _ _ _ _ _ (List.mem_filter.1 hum).1
      (Or.inr (C13_uptodate_never_deleted d w.world.erss w.world.pods w.world.nodes w.world.now m u hu))
  · rw [RV_stale_erss w k nn m d hk]
    exact mem_applyErsList_of_not_deleted _ _ _ _ _ _ (List.mem_filter.1 hcm).1
      (Or.inr (C13_current_never_deleted d w.world.erss w.world.pods w.world.nodes w.world.now m u hu))

/-- (FALSE) `L3_uptodate_never_removed` for stale reconciles: "the own replica set whose hash matches
the STORED spec.template survives a stale reconcile". -/
def RV_stale_never_deletes_uptodate : Prop :=
  ∀ (w : WorldRV) (k : Nat) (nn m : String) (e : ERS), HistIdent w → HashesNodup w.world → AnnotGen w.world →
    NamesNodup w.world → e ∈ w.world.own →
    SMap.get? e.annotations K.templateHashAnnot = some w.world.eds.templateHash →
    Survives e (stepRV w (.reconcileEdsStale k nn m)).world

/-- (FALSE) `L3_active_never_removed` for stale reconciles: "the replica set the STORED status names as
active survives a stale reconcile". -/
def RV_stale_never_deletes_active : Prop :=
  ∀ (w : WorldRV) (k : Nat) (nn m : String) (e : ERS), HistIdent w → HashesNodup w.world → AnnotGen w.world →
    NamesNodup w.world → e ∈ w.world.own → e.name = w.world.eds.status.activeReplicaSet →
    Survives e (stepRV w (.reconcileEdsStale k nn m)).world

/-- (FALSE) "a stale reconcile creates no replica set when the stored spec.template has its replica
set". -/
def RV_stale_never_creates : Prop :=
  ∀ (w : WorldRV) (k : Nat) (nn m : String), HistIdent w → HashesNodup w.world → AnnotGen w.world →
    NamesNodup w.world →
    (∃ e ∈ w.world.own, SMap.get? e.annotations K.templateHashAnnot = some w.world.eds.templateHash) →
    ∀ e' ∈ (stepRV w (.reconcileEdsStale k nn m)).world.erss, e' ∈ w.world.erss

/-- **strongest true variant of `RV_stale_never_deletes_uptodate`**: the replica set matching the
stored spec.template survives every stale reconcile that read an object carrying THE SAME template
hash (a stale status, strategy or annotations do not matter). -/
theorem RV_stale_never_deletes_uptodate_partial (w : WorldRV) (k : Nat) (nn m : String) (d0 : EDS)
    (hi : HistIdent w) (hh : HashesNodup w.world) (hk : w.hist[k]? = some d0)
    (hsame : d0.templateHash = w.world.eds.templateHash) (e0 : ERS) (he : e0 ∈ w.world.own)
    (hm : SMap.get? e0.annotations K.templateHashAnnot = some w.world.eds.templateHash) :
    Survives e0 (stepRV w (.reconcileEdsStale k nn m)).world := by
  obtain ⟨hn, hns⟩ := histIdent_get hi hk
  refine Classical.byContradiction fun hnot => ?_
  obtain ⟨d', hk', _, u, hu, _, _, _, _, hneu, _⟩ := RV_stale_removes_only_drained w k nn m e0 (mem_own he) hnot
  rw [hk] at hk'; cases hk'
  have hum := C13_reuse_selects d0 w.world.erss u hu
  have hh' : hashesNodup d0 w.world.erss := (hashesNodup_congr d0 w.world.eds _ hn hns).2 hh
  have he' : e0 ∈ ownErs d0 w.world.erss := by rw [ownErs_congr d0 w.world.eds _ hn hns]; exact he
  have : e0 = u := C13_at_most_one_per_hash d0 w.world.erss hh' e0 u he' hum.1 (by rw [hm, hum.2, hsame])
  exact hneu (by rw [this])

/-- **strongest true variant of `RV_stale_never_deletes_active`**: when the object read names the same
active replica set as the stored one, that replica set is removed only if the stale reconcile itself
selected ANOTHER replica set — its up-to-date one — as current (a promotion decided on the stale
object, whose status write is then refused: the pattern of `wPromo` in EdsProps/L3.lean). -/
theorem RV_stale_never_deletes_active_partial (w : WorldRV) (k : Nat) (nn m : String) (d0 : EDS)
    (hk : w.hist[k]? = some d0)
    (hsame : d0.status.activeReplicaSet = w.world.eds.status.activeReplicaSet) (e0 : ERS) (he : e0 ∈ w.world.erss)
    (hact : e0.name = w.world.eds.status.activeReplicaSet) :
    Survives e0 (stepRV w (.reconcileEdsStale k nn m)).world ∨
    ∃ u, upToDateOf d0 (ownErs d0 w.world.erss) = some u ∧
      (currentOf d0 (ownErs d0 w.world.erss) u w.world.now).1 = u ∧ u.name ≠ e0.name := by
  by_cases hs : Survives e0 (stepRV w (.reconcileEdsStale k nn m)).world
  · exact Or.inl hs
  · right
    obtain ⟨d', hk', _, u, hu, _, _, _, hnec, hneu, _⟩ := RV_stale_removes_only_drained w k nn m e0 he hs
    rw [hk] at hk'; cases hk'
    refine ⟨u, hu, ?_, fun h => hneu h.symm⟩
    rcases currentOf_cases d0 (ownErs d0 w.world.erss) u w.world.now with hc | ⟨a, ha, hc, _⟩
    · exact hc
    · exfalso
      have := (lastWhere_mem ha).2
      simp only [beq_iff_eq] at this
      exact hnec (by rw [hc, this, hsame, hact])

/-- **strongest true variant of `RV_stale_never_creates`**: a stale reconcile that read an object carrying
THE SAME template hash as the stored one creates nothing when that template has its replica set (in
general — `RV_stale_creates_only_missing_hash` — it creates only for a hash no own replica set carries,
so never a second replica set for one template). -/
theorem RV_stale_never_creates_partial (w : WorldRV) (k : Nat) (nn m : String) (d0 : EDS) (hi : HistIdent w)
    (hk : w.hist[k]? = some d0) (hsame : d0.templateHash = w.world.eds.templateHash)
    (hex : ∃ e ∈ w.world.own, SMap.get? e.annotations K.templateHashAnnot = some w.world.eds.templateHash) :
    ∀ e' ∈ (stepRV w (.reconcileEdsStale k nn m)).world.erss, e' ∈ w.world.erss := by
  intro e' he'
  rw [RV_stale_erss w k nn m d0 hk] at he'
  rcases mem_applyErsList _ _ _ _ _ _ he' with ⟨h, _⟩ | ⟨n, hn, _⟩
  · exact h
  · obtain ⟨e, he, hm⟩ := hex
    exact absurd (by rw [hsame]; exact hm) ((RV_stale_creates_only_missing_hash w k nn m d0 hi hk n hn).1 e he)

/-! ### recovery -/

/-- **recovery (general form)**: after a FRESH reconcile of a defaulted daemonset with a valid spec there
is exactly one own replica set for the template in spec — whatever stale reconciles deleted or created
before (they keep `HashesNodup` and `AnnotGen`). -/
theorem RV_recovery (w : WorldRV) (nn m : String)
    (hd : isDefaulted w.world.eds.strategy w.world.eds.templateName = true)
    (hv : validateSpec w.world.eds.strategy = .ok) (hh : HashesNodup w.world) (hg : AnnotGen w.world) :
    HashesNodup (stepRV w (.fresh (.reconcileEds nn m))).world ∧
    ∃ e ∈ (stepRV w (.fresh (.reconcileEds nn m))).world.own,
      SMap.get? e.annotations K.templateHashAnnot = some (stepRV w (.fresh (.reconcileEds nn m))).world.eds.templateHash ∧
      ∀ e' ∈ (stepRV w (.fresh (.reconcileEds nn m))).world.own,
        SMap.get? e'.annotations K.templateHashAnnot =
          some (stepRV w (.fresh (.reconcileEds nn m))).world.eds.templateHash → e' = e := by
  rw [RV_fresh_is_step]
  have hh' := L3_hashesNodup_step w.world (.reconcileEds nn m) hh
  obtain ⟨e, he, hm⟩ := step_reconcile_has_uptodate w.world nn m hd hv hg
  exact ⟨hh', e, he, hm, fun e' he' hm' => C13_at_most_one_per_hash _ _ hh' e' e he' he (by rw [hm, hm'])⟩

/-- **recovery (the state a stale deletion leaves)**: when no own replica set carries the hash of the
stored spec.template, the next fresh reconcile of a defaulted, valid daemonset writes nothing to the
ExtendedDaemonSet and re-creates exactly one replica set, from the STORED template. -/
theorem RV_recovery_recreates (w : WorldRV) (nn m : String)
    (hd : isDefaulted w.world.eds.strategy w.world.eds.templateName = true)
    (hv : validateSpec w.world.eds.strategy = .ok)
    (hnone : ∀ e ∈ w.world.own, SMap.get? e.annotations K.templateHashAnnot ≠ some w.world.eds.templateHash) :
    (stepRV w (.fresh (.reconcileEds nn m))).world.eds = w.world.eds ∧
    (stepRV w (.fresh (.reconcileEds nn m))).rv = w.rv ∧
    (stepRV w (.fresh (.reconcileEds nn m))).world.erss =
      w.world.erss ++ [ersOfNewAt w.world.eds (newReplicaSetFromInstance w.world.eds) nn w.world.now] ∧
    SMap.get? (ersOfNewAt w.world.eds (newReplicaSetFromInstance w.world.eds) nn w.world.now).annotations
      K.templateHashAnnot = some w.world.eds.templateHash ∧
    (ersOfNewAt w.world.eds (newReplicaSetFromInstance w.world.eds) nn w.world.now).template = w.world.eds.template := by
  have hwr : edsWrites w.world m = { created := some (newReplicaSetFromInstance w.world.eds), requeue := true } := by
    unfold edsWrites
    rcases reconcileEds_ok_cases w.world.eds w.world.erss w.world.pods w.world.nodes w.world.now m hd hv with
      ⟨_, hr⟩ | ⟨u, hu, _⟩
    · exact hr
    · have hum := C13_reuse_selects _ _ u hu
      exact absurd hum.2 (hnone u hum.1)
  obtain ⟨h1, h2, h3⟩ := execEds_fresh w (edsWrites w.world m) nn
  rw [stepRV_fresh_reconcileEds]
  refine ⟨?_, ?_, ?_, ersOfNewAt_hash _ _ _, rfl⟩
  · rw [h1, hwr]; rfl
  · rw [h3, hwr]; rfl
  · rw [h1, hwr, applyEds_erss]
    unfold applyErsList
    simp

/-- **stale reconcile, then fresh reconcile**: from any world satisfying the hash invariants with a
defaulted, valid stored spec — whatever the stale reconcile deleted or created — one fresh reconcile
later there is exactly one own replica set for the template in spec, and `HashesNodup` holds. -/
theorem RV_stale_then_fresh (w : WorldRV) (k : Nat) (nn m nn' m' : String)
    (hd : isDefaulted w.world.eds.strategy w.world.eds.templateName = true)
    (hv : validateSpec w.world.eds.strategy = .ok) (hh : HashesNodup w.world) (hg : AnnotGen w.world) :
    HashesNodup (runRV w [.reconcileEdsStale k nn m, .fresh (.reconcileEds nn' m')]).world ∧
    ∃ e ∈ (runRV w [.reconcileEdsStale k nn m, .fresh (.reconcileEds nn' m')]).world.own,
      SMap.get? e.annotations K.templateHashAnnot =
        some (runRV w [.reconcileEdsStale k nn m, .fresh (.reconcileEds nn' m')]).world.eds.templateHash ∧
      ∀ e' ∈ (runRV w [.reconcileEdsStale k nn m, .fresh (.reconcileEds nn' m')]).world.own,
        SMap.get? e'.annotations K.templateHashAnnot =
          some (runRV w [.reconcileEdsStale k nn m, .fresh (.reconcileEds nn' m')]).world.eds.templateHash → e' = e := by
  have he := (RV_stale_eds_untouched w k nn m).1
  exact RV_recovery (stepRV w (.reconcileEdsStale k nn m)) nn' m' (by rw [he]; exact hd) (by rw [he]; exact hv)
    (RV_hashesNodup_step w _ hh) (RV_annotGen_step w _ hg)

end Eds

/-! ## 6. Concrete worlds: counterexamples, recovery, non-vacuity -/
namespace Eds.ExL3RV
open Eds Eds.Cluster Eds.ClusterRV Eds.ExReconcile Eds.ExL3 Eds.Spec.C05

/-- the world `w0` of EdsProps/L3.lean (daemonset `ns/ds` at rest on template `h1`: `ds-a` with 3 pods,
the drained `ds-b` of an older template `h2`), its ExtendedDaemonSet at version 7, no recorded past. -/
def v0 : WorldRV := WorldRV.init ExL3.w0 7

def noCanary : Strategy := { strategy with canary := none }

/-- **A** — the user applies template `h3` (canary strategy); the fresh reconcile creates `ds-c`. -/
def opsA : List OpRV := [.fresh (.userSpec "h3" tpl strategy []), .fresh (.reconcileEds "ds-c" "auto")]
def wA : WorldRV := runRV v0 opsA

/-- **B** — the user applies template `h3` WITHOUT canary strategy; the first fresh reconcile creates
`ds-c`, the second makes it active (and collects the drained `ds-b`). -/
def opsB : List OpRV :=
  [.fresh (.userSpec "h3" tpl noCanary []), .fresh (.reconcileEds "ds-c" "auto"), .fresh (.reconcileEds "ds-x" "auto")]
def wB : WorldRV := runRV v0 opsB

/-- **C** — the whole roll-out `ops2` of EdsProps/L3.lean, every read fresh: `ds-c` (template `h3`) is
active and alone, `ds-a` and `ds-b` are gone. -/
def wC : WorldRV := runRV v0 (ops2.map .fresh)

/-- what a world holds: version, (hash, active) of the recorded values, stored hash, stored active,
(name, hash) of the replica sets. -/
def summary (w : WorldRV) :=
  (w.rv, w.hist.map (fun d => (d.templateHash, d.status.activeReplicaSet)), w.world.eds.templateHash,
   w.world.eds.status.activeReplicaSet, w.world.erss.map (fun e => (e.name, e.templateGeneration)))

example : summary wA = (8, [("h1", "ds-a")], "h3", "ds-a", [("ds-a", "h1"), ("ds-b", "h2"), ("ds-c", "h3")]) := by decide
example : summary wB = (9, [("h3", "ds-a"), ("h1", "ds-a")], "h3", "ds-c", [("ds-a", "h1"), ("ds-c", "h3")]) := by decide
example : summary wC = (11, [("h3", "ds-c"), ("h3", "ds-a"), ("h3", "ds-a"), ("h1", "ds-a")], "h3", "ds-c", [("ds-c", "h3")]) := by
  decide

/-! ### 5a. a stale reconcile DELETES the replica set of the stored spec.template -/

/-- **A**: the reconcile that still reads the object before the user's edit (`h1`, `ds-a` active and up
to date) sees the just created `ds-c` as "neither current nor up to date", with zero counters: it
deletes it (and the drained `ds-b`).  Nothing else changes: the stored spec still asks for `h3`. -/
example : summary (stepRV wA (.reconcileEdsStale 0 "ds-y" "auto")) = (8, [("h1", "ds-a")], "h3", "ds-a", [("ds-a", "h1")]) := by
  decide
/-- recovery: the next fresh reconcile re-creates one replica set for `h3`; `HashesNodup` held all along. -/
example : summary (runRV wA [.reconcileEdsStale 0 "ds-y" "auto", .fresh (.reconcileEds "ds-d" "auto")]) =
    (8, [("h1", "ds-a")], "h3", "ds-a", [("ds-a", "h1"), ("ds-d", "h3")]) := by decide
example : HashesNodup (stepRV wA (.reconcileEdsStale 0 "ds-y" "auto")).world ∧
    HashesNodup (runRV wA [.reconcileEdsStale 0 "ds-y" "auto", .fresh (.reconcileEds "ds-d" "auto")]).world := by decide

/-- **B**: the reconcile that reads the object two writes back (`h1`, canary strategy, `ds-a` active)
deletes `ds-c`, which the STORED status names as active and which matches the STORED spec.template
(its replica-set reconcile has not run yet: zero counters). -/
example : summary (stepRV wB (.reconcileEdsStale 1 "ds-y" "auto")) =
    (9, [("h3", "ds-a"), ("h1", "ds-a")], "h3", "ds-c", [("ds-a", "h1")]) := by decide
/-- one write back (`h3`, no canary, `ds-a` active) the reconcile does no harm: `ds-c` is its up-to-date one. -/
example : (stepRV wB (.reconcileEdsStale 0 "ds-y" "auto")).world.erss = wB.world.erss := by decide
/-- there is no third recorded value: the op does nothing. -/
example : wB.hist[2]? = none ∧ (stepRV wB (.reconcileEdsStale 2 "ds-y" "auto")).world.erss = wB.world.erss := by decide
/-- recovery: the next fresh reconcile re-creates one replica set for `h3` (the status still names the
deleted `ds-c`), the one after adopts it as active (`C05_adopt_when_missing`). -/
example : summary (runRV wB [.reconcileEdsStale 1 "ds-y" "auto", .fresh (.reconcileEds "ds-d" "auto")]) =
    (9, [("h3", "ds-a"), ("h1", "ds-a")], "h3", "ds-c", [("ds-a", "h1"), ("ds-d", "h3")]) := by decide
example : summary (runRV wB [.reconcileEdsStale 1 "ds-y" "auto", .fresh (.reconcileEds "ds-d" "auto"),
      .fresh (.reconcileEds "ds-e" "auto")]) =
    (10, [("h3", "ds-c"), ("h3", "ds-a"), ("h1", "ds-a")], "h3", "ds-d", [("ds-a", "h1"), ("ds-d", "h3")]) := by decide

/-- the replica set `ds-c` of world **B**. -/
def dsC : ERS := wB.world.erss.getLast?.getD default
example : dsC.name = "ds-c" ∧ dsC.templateGeneration = "h3" ∧ dsC ∈ wB.world.own := by decide

/-- the hypotheses of the three refuted statements hold in **B** and **C**. -/
example : HistIdent wB ∧ HashesNodup wB.world ∧ AnnotGen wB.world ∧ NamesNodup wB.world := by decide
example : HistIdent wC ∧ HashesNodup wC.world ∧ AnnotGen wC.world ∧ NamesNodup wC.world := by decide

/-! ### 5b. a stale reconcile CREATES a replica set for a template that is no longer in spec -/

/-- **C**: the reconcile that still reads the very first object (`h1`) finds no replica set for `h1`
(`ds-a` was collected after the promotion of `ds-c`) and creates one — a second replica set although
the stored spec.template `h3` has its own.  Not a second one for the SAME template: `HashesNodup` holds. -/
example : summary (stepRV wC (.reconcileEdsStale 3 "ds-z" "auto")) =
    (11, [("h3", "ds-c"), ("h3", "ds-a"), ("h3", "ds-a"), ("h1", "ds-a")], "h3", "ds-c", [("ds-c", "h3"), ("ds-z", "h1")]) := by
  decide
example : HashesNodup (stepRV wC (.reconcileEdsStale 3 "ds-z" "auto")).world ∧
    NamesNodup (stepRV wC (.reconcileEdsStale 3 "ds-z" "auto")).world := by decide
/-- a less stale read (`h3`) creates nothing. -/
example : (stepRV wC (.reconcileEdsStale 2 "ds-z" "auto")).world.erss = wC.world.erss := by decide
/-- recovery: the next fresh reconcile collects the spurious replica set (drained, neither current nor
up to date for the stored object). -/
example : (runRV wC [.reconcileEdsStale 3 "ds-z" "auto", .fresh (.reconcileEds "ds-d" "auto")]).world.erss.map (·.name) =
    ["ds-c"] := by decide

end Eds.ExL3RV

namespace Eds
open Cluster ClusterRV ExL3RV

/-- **counterexample**: `RV_stale_never_deletes_uptodate` is FALSE (world **B**, two writes back). -/
theorem RV_stale_never_deletes_uptodate_false : ¬ RV_stale_never_deletes_uptodate := fun h =>
  absurd (h wB 1 "ds-y" "auto" dsC (by decide) (by decide) (by decide) (by decide) (by decide) (by decide)) (by decide)

/-- **counterexample**: `RV_stale_never_deletes_active` is FALSE (the same world and replica set). -/
theorem RV_stale_never_deletes_active_false : ¬ RV_stale_never_deletes_active := fun h =>
  absurd (h wB 1 "ds-y" "auto" dsC (by decide) (by decide) (by decide) (by decide) (by decide) (by decide)) (by decide)

/-- **counterexample**: `RV_stale_never_creates` is FALSE (world **C**, four writes back). -/
theorem RV_stale_never_creates_false : ¬ RV_stale_never_creates := fun h =>
  absurd (h wC 3 "ds-z" "auto" (by decide) (by decide) (by decide) (by decide) (by decide)) (by decide)

end Eds

/-! ## 6 (continued). Non-vacuity of the hypotheses of every theorem above -/
namespace Eds.ExL3RV
open Eds Eds.Cluster Eds.ClusterRV Eds.ExReconcile Eds.ExL3 Eds.Spec.C05

/-- the canary roll-out of EdsProps/L3.lean (`ops1`) with stale reconciles thrown in: two writes back
right after the canary pod was created, one write back after the canary duration elapsed. -/
def opsP : List OpRV :=
  [ .fresh (.userSpec "h3" tpl strategy []),
    .fresh (.reconcileEds "ds-c" "auto"),
    .fresh (.reconcileEds "ds-x" "auto"),
    .fresh (.reconcileErs "ds-c" (fun _ => true) true),
    .reconcileEdsStale 1 "ds-s" "auto",
    .fresh (.tick (11 * 60 * 1000000000)),
    .reconcileEdsStale 0 "ds-t" "auto" ]
def wP : WorldRV := runRV v0 opsP

example : summary wP = (9, [("h3", "ds-a"), ("h1", "ds-a")], "h3", "ds-a", [("ds-a", "h1"), ("ds-c", "h3")]) ∧
    wP.world.eds.status.canary = some ⟨"ds-c", ["n1"]⟩ := by decide

/-! (2) fresh ops -/
example : (runRV v0 (ops2.map .fresh)).world.erss = (run w0 ops2).erss := by rw [RV_fresh_run]; rfl
example : (stepRV v0 (.fresh (.userSpec "h3" tpl strategy []))).world.eds.templateHash = "h3" ∧
    (step v0.world (.userSpec "h3" tpl strategy [])).eds.templateHash = "h3" := by decide
/-- bookkeeping: the reconcile that starts the canary writes the status once; the user's edit is a write. -/
example : ((runRV v0 (opsP.take 1)).rv, (runRV v0 (opsP.take 2)).rv, (runRV v0 (opsP.take 3)).rv) = (8, 8, 9) ∧
    (runRV v0 (opsP.take 3)).hist.length = 2 := by decide
/-- a rollback writes status THEN spec: two versions, two recorded values, the older one the object the
reconcile read (`RV_version_bookkeeping`: `l.getLast? = some w.world.eds`). -/
def wRollback : WorldRV := WorldRV.init { w0 with eds := dCanary, erss := store 1 } 3
example : (stepRV wRollback (.fresh (.reconcileEds "x" "auto"))).rv = 5 ∧
    (stepRV wRollback (.fresh (.reconcileEds "x" "auto"))).hist.map (fun d => (d.templateHash, d.status.state)) =
      [("h2", "Canary Failed"), ("h2", "Canary")] ∧
    (stepRV wRollback (.fresh (.reconcileEds "x" "auto"))).hist.getLast? = some dCanary ∧
    (stepRV wRollback (.fresh (.reconcileEds "x" "auto"))).world.eds.templateHash = "h1" := by decide
/-- `RV_rv_mono`: a step that changes the object. -/
example : (stepRV wRollback (.fresh (.reconcileEds "x" "auto"))).world.eds ≠ wRollback.world.eds := by decide

/-! (3) stale reconciles -/

/-- a stale reconcile that reads an existing value, plans writes to the ExtendedDaemonSet (here: the
PROMOTION of `ds-c`, the canary duration having elapsed) and gets them refused: `RV_stale_eds_untouched`,
`RV_promotion_step` (a stale reconcile never promotes). -/
example : (runRV v0 (opsP.take 6)).hist[0]?.isSome = true ∧
    ((edsWrites (seenWith (runRV v0 (opsP.take 6)).world ((runRV v0 (opsP.take 6)).hist[0]?.getD default)) "auto").statusUpdate.map
      (·.activeReplicaSet)) = some "ds-c" ∧
    (stepRV (runRV v0 (opsP.take 6)) (.reconcileEdsStale 0 "ds-t" "auto")).world.eds.status.activeReplicaSet = "ds-a" := by
  decide
/-- the fresh reconcile at the same point does promote. -/
example : (stepRV wP (.fresh (.reconcileEds "ds-y" "auto"))).world.eds.status.activeReplicaSet = "ds-c" := by decide
/-- a stale reconcile whose step is not the identity (world **B**): the ExtendedDaemonSet is untouched,
the replica sets are not. -/
example : (stepRV wB (.reconcileEdsStale 1 "ds-y" "auto")).world.erss ≠ wB.world.erss ∧
    (stepRV wB (.reconcileEdsStale 1 "ds-y" "auto")).world.eds = wB.world.eds := by decide
example : (stepRV wB (.reconcileEdsStale 1 "ds-y" "auto")).world.eds = wB.world.eds :=
  (RV_stale_eds_untouched wB 1 "ds-y" "auto").1
/-- several stale reconciles in a row. -/
example : (runRV wB [.reconcileEdsStale 1 "ds-y" "auto", .reconcileEdsStale 0 "ds-z" "auto"]).world.eds = wB.world.eds :=
  (RV_stale_run_eds_untouched wB _ (by
    intro op hop
    simp only [List.mem_cons, List.mem_nil_iff, or_false] at hop
    rcases hop with rfl | rfl
    · exact ⟨_, _, _, rfl⟩
    · exact ⟨_, _, _, rfl⟩)).1

/-- hypotheses of `RV_promotion_history` on the run with stale reconciles: well-formed start without
recorded past, admissible ops (fresh names for the stale reconciles too), `ds-a` active before, `ds-c`
after the next op. -/
example : HistIdent v0 ∧ WF v0.world ∧ RunOkRV OpOkRV v0 opsP ∧
    (∃ a ∈ wP.world.own, a.name = "ds-a" ∧ wP.world.eds.status.activeReplicaSet = a.name) ∧
    (∃ u ∈ wP.world.own, u.name = "ds-c" ∧
      (runRV v0 (opsP ++ [.fresh (.reconcileEds "ds-y" "auto")])).world.eds.status.activeReplicaSet = u.name) := by decide
/-- the theorem applied there. -/
example : ∀ a ∈ wP.world.own, ∀ u ∈ wP.world.own, a.name = "ds-a" → u.name = "ds-c" →
    promotionAllowed wP.world.eds.strategy.canary wP.world.eds.annotations u wP.world.now = true :=
  fun a ha u hu han hun =>
    (RV_promotion_history v0 opsP (.fresh (.reconcileEds "ds-y" "auto")) (by decide) (by decide) a u ha hu
      (by rw [han]; decide) (by rw [hun]; decide) (by rw [han, hun]; decide)).2
/-- the freshness condition on stale reconciles is needed: a stale `Create` under an existing name. -/
example : ¬ OpOkRV wC (.reconcileEdsStale 3 "ds-c" "auto") ∧
    ¬ NamesNodup (stepRV wC (.reconcileEdsStale 3 "ds-c" "auto")).world := by decide

/-- canary node list: hypotheses and conclusions on the run with stale reconciles. -/
example : CanaryNodup v0.world ∧ ((canaryNodesOf v0.world.eds.status).length : Int) ≤ 1 ∧
    RunOkRV (fun w _ => requestOf w.world ≤ 1) v0 opsP := by decide
example : CanaryNodup wP.world := RV_canary_nodup v0 opsP (by decide)
example : ((canaryNodesOf wP.world.eds.status).length : Int) ≤ 1 := RV_canary_bound 1 v0 opsP (by decide) (by decide)
/-- the selected node `n1` is kept by the stale reconciles of the run (one of them read an object whose
status had NO canary block and, had its write been accepted, would have selected anew). -/
example : canaryNodesOf (runRV v0 (opsP.take 4)).world.eds.status = ["n1"] ∧
    canaryNodesOf (runRV v0 (opsP.take 5)).world.eds.status = ["n1"] ∧ canaryNodesOf wP.world.eds.status = ["n1"] ∧
    ((runRV v0 (opsP.take 4)).hist[1]?.map (fun d => d.status.canary)) = some none := by decide
example : canaryNodesOf (runRV v0 (opsP.take 4 ++ [.reconcileEdsStale 1 "ds-s" "auto"])).world.eds.status =
    canaryNodesOf (runRV v0 (opsP.take 4)).world.eds.status :=
  (RV_canary_nodes_kept_history v0 (opsP.take 4) [.reconcileEdsStale 1 "ds-s" "auto"] (by
    intro op hop
    simp only [List.mem_cons, List.mem_nil_iff, or_false] at hop
    exact ⟨_, _, _, hop⟩)).1

/-! (4) surviving invariants along runs with harmful stale reconciles -/

/-- a run in which stale reconciles delete the replica set of the stored template (**B**) and later
create one for a template no longer in spec. -/
def opsH : List OpRV :=
  opsB ++ [.reconcileEdsStale 1 "ds-y" "auto", .fresh (.reconcileEds "ds-d" "auto"), .fresh (.reconcileEds "ds-e" "auto"),
           .fresh (.reconcileErs "ds-d" (fun _ => true) true), .fresh (.reconcileErs "ds-a" (fun _ => true) true),
           .fresh (.reconcileEds "ds-f" "auto"), .reconcileEdsStale 3 "ds-g" "auto"]
example : summary (runRV v0 opsH) =
    (11, [("h3", "ds-d"), ("h3", "ds-c"), ("h3", "ds-a"), ("h1", "ds-a")], "h3", "ds-d", [("ds-d", "h3"), ("ds-g", "h1")]) := by
  decide
example : HistIdent v0 ∧ HashesNodup v0.world ∧ AllHashed v0.world ∧ AnnotGen v0.world ∧ NamesNodup v0.world ∧
    RunOkRV OpFreshRV v0 opsH := by decide
example : HashesNodup (runRV v0 opsH).world := RV_one_per_template v0 opsH (by decide)
example : AllHashed (runRV v0 opsH).world ∧ AnnotGen (runRV v0 opsH).world :=
  ⟨RV_all_hashed v0 opsH (by decide), RV_annot_gen v0 opsH (by decide)⟩
example : NamesNodup (runRV v0 opsH).world := RV_names_nodup v0 opsH (by decide) (by decide)
example : HistIdent (runRV v0 opsH) := RV_histIdent_run v0 opsH (by decide)
/-- … and the conclusions checked directly. -/
example : HashesNodup (runRV v0 opsH).world ∧ NamesNodup (runRV v0 opsH).world ∧ HistIdent (runRV v0 opsH) := by decide
/-- `HistIdent` (used by `RV_stale_own_shape`, `RV_stale_creates_only_missing_hash`,
`RV_stale_never_deletes_uptodate_partial`) holds in every reachable world and is a real hypothesis of
those: with the value of ANOTHER object in the history (not reachable by `stepRV`) the "stale" reconcile
creates a replica set for that other object, which is not an own one.  The invariants of section 4 hold
regardless. -/
def wForeign : WorldRV :=
  { world := w0, rv := 1, hist := [{ dStable with name := "other", templateHash := "h9" }], hist_le := Nat.le_refl _ }
example : ¬ HistIdent wForeign ∧
    (edsWrites (seenWith wForeign.world (wForeign.hist[0]?.getD default)) "auto").created.isSome = true ∧
    (stepRV wForeign (.reconcileEdsStale 0 "o-1" "auto")).world.erss.map (·.name) = ["ds-a", "ds-b", "o-1"] ∧
    (stepRV wForeign (.reconcileEdsStale 0 "o-1" "auto")).world.own = wForeign.world.own := by decide
example : HashesNodup (stepRV wForeign (.reconcileEdsStale 0 "o-1" "auto")).world :=
  RV_hashesNodup_step wForeign _ (by decide)

/-! (5) partial variants and recovery -/

/-- `RV_stale_creates_only_missing_hash` in **C**. -/
example : wC.hist[3]?.isSome = true ∧
    (edsWrites (seenWith wC.world (wC.hist[3]?.getD default)) "auto").created.isSome = true := by decide
/-- `RV_stale_removes_only_drained` in **B**: `ds-c` is in the store and does not survive. -/
example : dsC ∈ wB.world.erss ∧ ¬ Survives dsC (stepRV wB (.reconcileEdsStale 1 "ds-y" "auto")).world := by decide
/-- `RV_stale_keeps_seen_in_use` in **B**: the object read two writes back has an up-to-date replica set. -/
example : wB.hist[1]?.isSome = true ∧
    ((upToDateOf (wB.hist[1]?.getD default) (ownErs (wB.hist[1]?.getD default) wB.world.erss)).map (·.name)) = some "ds-a" := by
  decide
/-- `RV_stale_never_deletes_uptodate_partial` in **B**: one write back the object carries the stored
hash; the theorem applied. -/
example : wB.hist[0]? = some (wB.hist[0]?.getD default) ∧
    (wB.hist[0]?.getD default).templateHash = wB.world.eds.templateHash ∧ dsC ∈ wB.world.own ∧
    SMap.get? dsC.annotations K.templateHashAnnot = some wB.world.eds.templateHash := by decide
example : Survives dsC (stepRV wB (.reconcileEdsStale 0 "ds-y" "auto")).world :=
  RV_stale_never_deletes_uptodate_partial wB 0 "ds-y" "auto" (wB.hist[0]?.getD default) (by decide) (by decide)
    (by decide) (by decide) dsC (by decide) (by decide)

/-- `RV_stale_never_creates_partial` in **C**: one write back the object carries the stored hash `h3`, whose
replica set `ds-c` exists. -/
example : HistIdent wC ∧ (wC.hist[0]?.map (·.templateHash)) = some wC.world.eds.templateHash ∧
    (∃ e ∈ wC.world.own, SMap.get? e.annotations K.templateHashAnnot = some wC.world.eds.templateHash) := by decide

/-- `RV_stale_never_deletes_active_partial`: both alternatives occur.  In **C** one write back the object
names the stored active replica set `ds-c`, which survives.  In `wPromoRV` — the world `wPromo` of
EdsProps/L3.lean after an edit that only adds an annotation — the stale reconcile decides the promotion
of the validated `ds-b` and collects the drained active `ds-a`; its status update is refused, so the
stored status keeps naming the deleted `ds-a`. -/
def wPromoRV : WorldRV :=
  stepRV (WorldRV.init wPromo) (.fresh (.userSpec "h2" tpl strategy [⟨K.canaryValidAnnot, "ds-b"⟩, ⟨"note", "x"⟩]))
example : (wC.hist[0]?.map (·.status.activeReplicaSet)) = some wC.world.eds.status.activeReplicaSet ∧
    (∃ e ∈ wC.world.erss, e.name = wC.world.eds.status.activeReplicaSet ∧
      Survives e (stepRV wC (.reconcileEdsStale 0 "ds-z" "auto")).world) := by decide
example : (wPromoRV.hist[0]?.map (·.status.activeReplicaSet)) = some wPromoRV.world.eds.status.activeReplicaSet ∧
    wPromoRV.world.eds.status.activeReplicaSet = "ds-a" ∧
    (stepRV wPromoRV (.reconcileEdsStale 0 "x" "auto")).world.eds.status.activeReplicaSet = "ds-a" ∧
    (stepRV wPromoRV (.reconcileEdsStale 0 "x" "auto")).world.erss.map (·.name) = ["ds-b"] := by decide

/-- recovery: the hypotheses of `RV_recovery` / `RV_recovery_recreates` / `RV_stale_then_fresh` hold in **B**
after the harmful stale reconcile (defaulted, valid stored spec; hash invariants; no replica set for the
stored template). -/
def wBdel : WorldRV := stepRV wB (.reconcileEdsStale 1 "ds-y" "auto")
example : isDefaulted wBdel.world.eds.strategy wBdel.world.eds.templateName = true ∧
    validateSpec wBdel.world.eds.strategy = .ok ∧ HashesNodup wBdel.world ∧ AnnotGen wBdel.world ∧
    (∀ e ∈ wBdel.world.own, SMap.get? e.annotations K.templateHashAnnot ≠ some wBdel.world.eds.templateHash) := by decide
example : (stepRV wBdel (.fresh (.reconcileEds "ds-d" "auto"))).world.erss =
    wBdel.world.erss ++ [ersOfNewAt wBdel.world.eds (newReplicaSetFromInstance wBdel.world.eds) "ds-d" wBdel.world.now] :=
  (RV_recovery_recreates wBdel "ds-d" "auto" (by decide) (by decide) (by decide)).2.2.1
example : HashesNodup (runRV wB [.reconcileEdsStale 1 "ds-y" "auto", .fresh (.reconcileEds "ds-d" "auto")]).world :=
  (RV_stale_then_fresh wB 1 "ds-y" "auto" "ds-d" "auto" (by decide) (by decide) (by decide) (by decide)).1
/-- the conclusion checked directly: exactly one own replica set for `h3`. -/
example : ((runRV wB [.reconcileEdsStale 1 "ds-y" "auto", .fresh (.reconcileEds "ds-d" "auto")]).world.own.filter
    (fun e => SMap.get? e.annotations K.templateHashAnnot == some "h3")).map (·.name) = ["ds-d"] := by decide

end Eds.ExL3RV
