import EdsProofs.BridgeStatus
import EdsProofs.CanaryS
/-
  EdsProps.C14s — C14 / C07 clauses stated directly about the Lean definitions that the translator regenerates
  from `manageStatus`, `manageCanaryStatusConditions` and `clearCanaryAnnotations`
  (controllers/extendeddaemonset/controller.go) on every run (EdsModel/Generated/DecStatus.lean), obtained along
  the `src_*` bridges of EdsProofs/BridgeStatus.lean.  Statements about what the code says *now*; `none` is a panic.
-/
set_option linter.unusedSimpArgs false
namespace Eds

namespace Src
export Eds.Generated.Decisions (manageStatus manageCanaryStatusConditions clearCanaryAnnotations)
end Src

/-- `manageStatus` never panics on non-nil arguments, and the state it reports is one of the six the API documents. -/
theorem C14_src_state_total (st : EDSStatus) (u : ERS) (ca f p : Bool) (pr : String) (g : GEds) :
    ∃ st', Src.manageStatus (some st) (some u) ca f p pr (some g) = some (some st') ∧
      (st'.state = "Canary Failed" ∨ st'.state = "Canary" ∨ st'.state = "Canary Paused" ∨
       st'.state = "Rollout frozen" ∨ st'.state = "RollingUpdate Paused" ∨ st'.state = "Running") := by
  refine ⟨_, Bridge.src_manageStatus st u ca f p pr g, ?_⟩
  have hn : Eds.nonCanaryState g.annotations = "Rollout frozen" ∨
      Eds.nonCanaryState g.annotations = "RollingUpdate Paused" ∨ Eds.nonCanaryState g.annotations = "Running" := by
    unfold Eds.nonCanaryState
    split
    · exact Or.inl rfl
    · split
      · exact Or.inr (Or.inl rfl)
      · exact Or.inr (Or.inr rfl)
  unfold Eds.manageStatus
  cases f <;> cases ca <;> cases p <;> simp <;> rcases hn with h | h | h <;> simp [h]

/-- C07 / C14: a failed canary clears `status.canary` and reports `Canary Failed`, whatever the other arguments —
also when the up-to-date replica set or the daemonset pointer is nil. -/
theorem C14_src_failed_clears_canary (st : EDSStatus) (u : Option ERS) (ca p : Bool) (pr : String) (g : Option GEds) :
    ∃ st', Src.manageStatus (some st) u ca true p pr g = some (some st') ∧
      st'.canary = none ∧ st'.state = "Canary Failed" ∧ st'.reason = "" ∧
      st'.activeReplicaSet = st.activeReplicaSet ∧ st'.conds = st.conds :=
  ⟨_, Bridge.src_manageStatus_failed st u ca p pr g, rfl, rfl, rfl, rfl, rfl⟩

/-- C14: while a canary is active (and not failed) the canary block names the up-to-date replica set and keeps its
node list; the state is `Canary` / `Canary Paused` with the pause reason. -/
theorem C14_src_canary_block (st : EDSStatus) (u : ERS) (p : Bool) (pr : String) (g : GEds) :
    ∃ st', Src.manageStatus (some st) (some u) true false p pr (some g) = some (some st') ∧
      (st'.canary.map (·.replicaSet)) = some u.name ∧
      (st'.canary.map (·.nodes)) = some ((st.canary.map (·.nodes)).getD []) ∧
      st'.state = (if p then "Canary Paused" else "Canary") ∧ st'.reason = (if p then pr else "") ∧
      st'.upToDate = u.status.current ∧ st'.desired = st.desired + u.status.desired := by
  refine ⟨_, Bridge.src_manageStatus st u true false p pr g, ?_⟩
  unfold Eds.manageStatus
  cases p <;> cases st.canary <;> simp

/-- C14: the two canary conditions of the ExtendedDaemonSet status tell the truth after
`manageCanaryStatusConditions`: Canary-Failed is true iff failed, Canary-Paused iff paused and not failed. -/
theorem C14_src_canary_conditions (st : EDSStatus) (now : Time) (f p : Bool) (pr name : String) :
    ∃ st', Src.manageCanaryStatusConditions (some st) now f p pr name = some (some st') ∧
      isCondTrue st'.conds "Canary-Failed" = f ∧ isCondTrue st'.conds "Canary-Paused" = (p && !f) := by
  refine ⟨_, Bridge.src_manageCanaryStatusConditions st now f p pr name, ?_, ?_⟩
  · unfold Eds.manageCanaryStatusConditions
    cases f <;> cases p <;>
      simp only [Bool.false_eq_true, if_false, if_true, Bool.and_true, Bool.and_false, Bool.not_true, Bool.not_false,
        Bool.false_and] <;>
      rw [isCondTrue_updateCond_other _ _ _ _ _ _ _ _ _ (by decide)] <;>
      first
        | exact isCondTrue_updateCond_same _ now "Canary-Failed" true _ _ false false
        | exact isCondTrue_updateCond_same _ now "Canary-Failed" false _ _ false false
  · unfold Eds.manageCanaryStatusConditions
    cases f <;> cases p <;>
      simp only [Bool.false_eq_true, if_false, if_true, Bool.and_true, Bool.and_false, Bool.not_true, Bool.not_false,
        Bool.true_and, Bool.false_and] <;>
      first
        | exact isCondTrue_updateCond_same _ now "Canary-Paused" true _ _ false false
        | exact isCondTrue_updateCond_same _ now "Canary-Paused" false _ _ false false

/-- C07: after `clearCanaryAnnotations` none of the three canary annotations is left, every other annotation is
kept, and the result tells whether anything was removed. -/
theorem C07_src_annotations_cleared (g : GEds) :
    ∃ g' b, Src.clearCanaryAnnotations (some g) = some (b, some g') ∧
      SMap.contains g'.annotations K.canaryPausedAnnot = false ∧
      SMap.contains g'.annotations K.canaryPausedReasonAnnot = false ∧
      SMap.contains g'.annotations K.canaryUnpausedAnnot = false ∧
      (∀ e ∈ g.annotations, e.k ≠ K.canaryPausedAnnot → e.k ≠ K.canaryPausedReasonAnnot → e.k ≠ K.canaryUnpausedAnnot →
        e ∈ g'.annotations) ∧
      (b = false → g'.annotations = g.annotations) ∧ g'.spec = g.spec ∧ g'.status = g.status := by
  refine ⟨_, _, Bridge.src_clearCanaryAnnotations g, ?_, ?_, ?_, ?_, ?_, rfl, rfl⟩
  all_goals simp only [Eds.clearCanaryAnnotations, Bridge.smap_contains_any]
  · simp [List.any_filter]; intro x _ h1 _ _; exact h1
  · simp [List.any_filter]; intro x _ _ h2 _; exact h2
  · simp [List.any_filter]
  · intro e he h1 h2 h3
    simp [List.mem_filter, he, h1, h2, h3]
  · intro hb
    rw [List.filter_eq_self]
    intro e he
    simp only [List.any_cons, List.any_nil, Bool.or_false, Bool.or_eq_false_iff, Bridge.smap_contains_any] at hb
    obtain ⟨h1, h2, h3⟩ := hb
    have a1 := List.any_eq_false.mp h1 e he
    have a2 := List.any_eq_false.mp h2 e he
    have a3 := List.any_eq_false.mp h3 e he
    simp only [beq_iff_eq] at a1 a2 a3
    simp [a1, a2, a3]

end Eds
