import EdsProofs.BridgeSlowStart
import EdsProps.C09
/-
  EdsProps.C09s — property theorems stated directly about the Lean definitions that the translator
  regenerates from the Go source on every run (EdsModel/Generated/Dec*.lean), obtained by
  transporting the model-level theorems along the `src_*` bridges.  These are statements about what
  the code says *now*: `none` is a Go panic, so each also says the function does not crash.
-/
namespace Eds

namespace Src
export Eds.Generated.Decisions (calculateMaxCreation)
end Src

/-! ### C09 — the ramp, on the translated `calculateMaxCreation` -/

theorem C09_src_ramp (r : RollingUpdate) (iv mp nbNodes start now incv : Int)
    (hiv' : r.slowStartInterval = some iv) (hmp : r.maxParallelPodCreation = some mp)
    (hinc : resolveIntOrPercent r.slowStartAdditiveIncrease nbNodes = some incv) (hiv : 0 < iv) (ht : start ≤ now) :
    Src.calculateMaxCreation (some r) nbNodes start now
      = some (min mp ((1 + (now - start) / iv) * incv), none) := by
  rw [Bridge.src_calculateMaxCreation, hiv', hmp, C09_ramp _ iv mp nbNodes start now incv hinc hiv ht]
  rfl


end Eds
