import EdsModel
import EdsSpec.C14
import EdsProofs.ReconcileEds
import EdsProofs.Rolling
import EdsProofs.CanaryS
/-
  C14 — Status tells the truth.

  * `C14_status_function`    the ExtendedDaemonSet status `updateInstance` computes satisfies the
                             declarative description of `EdsSpec.C14` (counters, state/reason/canary
                             block, conditions) in every branch;
  * `C14_eds_writes_status`  the status the reconcile writes is that status;
  * `C14_ers_order`          replica-set side: `0 ≤ available ≤ ready ≤ current ≤ desired` for the
                             active role (`manageDeployment`) and the canary role
                             (`manageCanaryStatus`); `C14_unknown_zero_desired` for the unknown role;
  * `C14_conditions_update`  `updateCond` keeps one entry per type, and the transition time of an
                             entry changes exactly when its status does.
-/
namespace Eds
open Spec.C14

/-! ### 1. The daemonset status as a function of the replica-set statuses -/

theorem countersOk_sameUpToNodes (own : List ERS) (a u : ERS) (ca : Bool) (s t : EDSStatus)
    (h : SameUpToNodes s t) : countersOk own a u ca t = countersOk own a u ca s := by
  rcases h with h | ⟨sel, h⟩ <;> rw [h] <;> rfl

theorem condsOk_sameUpToNodes (hcs f p : Bool) (s t : EDSStatus)
    (h : SameUpToNodes s t) : condsOk hcs f p t = condsOk hcs f p s := by
  rcases h with h | ⟨sel, h⟩ <;> rw [h] <;> rfl

theorem stateOk_sameUpToNodes (hcs ca f p : Bool) (r : String) (ann : SMap) (u : ERS) (s t : EDSStatus)
    (h : SameUpToNodes s t) : stateOk hcs ca f p r ann u t = stateOk hcs ca f p r ann u s := by
  rcases h with h | ⟨sel, h⟩
  · rw [h]
  · rw [h]
    unfold stateOk
    cases hc : s.canary <;> simp

/-- the conditions of `managedStatus` are those `manageCanaryStatusConditions` produced. -/
theorem managedStatus_conds (d : EDS) (current u : ERS) (cur rdy avail : Int) (now : Time) :
    (managedStatus d current u cur rdy avail now).conds =
      manageCanaryStatusConditions d.status.conds now (isCanaryFailed (some u))
        (isCanaryPaused d.annotations (some u)).1 (isCanaryPaused d.annotations (some u)).2 u.name := by
  unfold managedStatus manageStatus
  simp only []
  split
  · rfl
  · split <;> rfl

/-- **1. The status is the documented function of the replica-set statuses.** With `own` the
daemonset's replica sets, `current` / `u` the selected active / up-to-date ones, and the three sums
the reconcile computes, the status `updateInstance` returns has the documented counters, state,
reason, canary block and conditions — in every branch (no canary strategy; failed; canary running,
paused or not, whatever the node selection did; no canary running). -/
theorem C14_status_function (d : EDS) (own : List ERS) (current u : ERS) (now : Time)
    (pods : List Pod) (nodes : List Node) :
    let failed := isCanaryFailed (some u)
    let pr := isCanaryPaused d.annotations (some u)
    let canaryActive := isCanaryActive d.strategy.canary current.name u.name failed
    let upd := updateInstance d current u (sumBy (·.status.current) own) (sumBy (·.status.ready) own)
      (sumBy (·.status.available) own) now pods nodes
    countersOk own current u canaryActive upd.status = true ∧
    stateOk d.strategy.canary.isSome canaryActive failed pr.1 pr.2 d.annotations u upd.status = true ∧
    condsOk d.strategy.canary.isSome failed pr.1 upd.status = true := by
  intro failed pr canaryActive upd
  cases hc : d.strategy.canary with
  | none =>
    have hupd : upd = _ := updateInstance_no_canary d current u _ _ _ now pods nodes hc
    have hca : canaryActive = false := by
      show isCanaryActive d.strategy.canary current.name u.name failed = false
      rw [hc]; rfl
    rw [hupd, hca]
    refine ⟨?_, ?_, ?_⟩
    · simp [countersOk, baseStatus]
    · simp [stateOk, baseStatus]
    · simp [condsOk]
  | some c =>
    have hshape := updateInstance_status_shape d current u (sumBy (·.status.current) own)
      (sumBy (·.status.ready) own) (sumBy (·.status.available) own) now pods nodes c hc
    rw [countersOk_sameUpToNodes _ _ _ _ _ _ hshape, stateOk_sameUpToNodes _ _ _ _ _ _ _ _ _ hshape,
      condsOk_sameUpToNodes _ _ _ _ _ hshape]
    refine ⟨?_, ?_, ?_⟩
    · -- counters
      show countersOk own current u (isCanaryActive d.strategy.canary current.name u.name (isCanaryFailed (some u)))
        (managedStatus d current u _ _ _ now) = true
      unfold managedStatus
      simp only []
      cases hf : isCanaryFailed (some u) with
      | true =>
        have ha : isCanaryActive d.strategy.canary current.name u.name true = false := by
          simp [isCanaryActive]
        rw [ha, manageStatus_failed]
        simp [countersOk, baseStatus]
      | false =>
        cases ha : isCanaryActive d.strategy.canary current.name u.name false with
        | true => rw [manageStatus_active]; simp [countersOk, baseStatus]
        | false => rw [manageStatus_inactive]; simp [countersOk, baseStatus]
    · -- state
      show stateOk (some c).isSome (isCanaryActive d.strategy.canary current.name u.name (isCanaryFailed (some u)))
        (isCanaryFailed (some u)) (isCanaryPaused d.annotations (some u)).1
        (isCanaryPaused d.annotations (some u)).2 d.annotations u (managedStatus d current u _ _ _ now) = true
      unfold managedStatus
      simp only []
      cases hf : isCanaryFailed (some u) with
      | true =>
        have ha : isCanaryActive d.strategy.canary current.name u.name true = false := by
          simp [isCanaryActive]
        rw [ha, manageStatus_failed]
        simp [stateOk]
      | false =>
        cases ha : isCanaryActive d.strategy.canary current.name u.name false with
        | true =>
          rw [manageStatus_active]
          cases hp : (isCanaryPaused d.annotations (some u)).1 <;> simp [stateOk]
        | false => rw [manageStatus_inactive]; simp [stateOk]
    · -- conditions
      show condsOk (some c).isSome (isCanaryFailed (some u)) (isCanaryPaused d.annotations (some u)).1
        (managedStatus d current u _ _ _ now) = true
      unfold condsOk
      rw [managedStatus_conds, mcsc_failed, mcsc_paused]
      simp

/-- **2. The status the reconcile writes is the computed one.** -/
theorem C14_eds_writes_status (d : EDS) (list : List ERS) (u : ERS) (pods : List Pod) (nodes : List Node)
    (now : Time) (st : EDSStatus) (h : (edsMain d list u pods nodes now).statusUpdate = some st) :
    st = (updateInstance d (currentOf d list u now).1 u
        (sumBy (·.status.current) list) (sumBy (·.status.ready) list) (sumBy (·.status.available) list)
        now (ownPods d pods) nodes).status :=
  edsMain_statusUpdate d list u pods nodes now st h

/-- 1 + 2 through `edsMain`: a written status satisfies the specification w.r.t. the listed replica
sets and the selection of this reconcile. -/
theorem C14_written_status_ok (d : EDS) (list : List ERS) (u : ERS) (pods : List Pod) (nodes : List Node)
    (now : Time) (st : EDSStatus) (h : (edsMain d list u pods nodes now).statusUpdate = some st) :
    let current := (currentOf d list u now).1
    let failed := isCanaryFailed (some u)
    let pr := isCanaryPaused d.annotations (some u)
    let canaryActive := isCanaryActive d.strategy.canary current.name u.name failed
    countersOk list current u canaryActive st = true ∧
    stateOk d.strategy.canary.isSome canaryActive failed pr.1 pr.2 d.annotations u st = true ∧
    condsOk d.strategy.canary.isSome failed pr.1 st = true := by
  intro current failed pr canaryActive
  rw [C14_eds_writes_status d list u pods nodes now st h]
  exact C14_status_function d list current u now (ownPods d pods) nodes

/-- a no-op reconcile (no status write) is one whose computed status is already stored. -/
theorem C14_no_write_means_current (d : EDS) (list : List ERS) (u : ERS) (pods : List Pod) (nodes : List Node)
    (now : Time) (hne : (edsMain d list u pods nodes now).err = false)
    (h : (edsMain d list u pods nodes now).statusUpdate = none) :
    (edsUpd d list (currentOf d list u now).1 u pods nodes now).status = d.status := by
  rw [edsMain_err_iff] at hne
  unfold edsMain at h
  unfold edsUpd at hne ⊢
  simp only [] at h
  generalize updateInstance _ _ _ _ _ _ _ _ _ = upd at h hne ⊢
  simp only [hne] at h
  simp at h
  exact h.1.1

/-! ### 3. Replica-set side: the counters are ordered -/

/-- the order invariant of the `ManageDeployment` counting loop. -/
structure OrderInv (c : Counts) : Prop where
  availNonneg : 0 ≤ c.available
  availReady : c.available ≤ c.ready
  readyCreated : c.ready ≤ c.created
  createdDesired : c.created ≤ c.desired
  stuckNonneg : 0 ≤ c.stuck

theorem orderInv_nil : OrderInv {} := by
  constructor <;> simp

theorem classify_upToDate {tg : String} {wall : Time} {ni : NodeItem} {pod : Pod} {a r : Bool}
    (h : classify tg wall (ni, some pod) = .upToDate a r) : a = pod.available ∧ r = pod.ready := by
  simp only [classify] at h
  split at h
  · simp at h
  · split at h
    · split at h <;> simp at h
    · simp only [Cat.upToDate.injEq] at h
      exact ⟨h.1.symm, h.2.symm⟩

theorem orderInv_step (tg : String) (wall : Time) (c : Counts) (e : NodeItem × Option Pod)
    (h : OrderInv c) : OrderInv (countStep tg wall c e) := by
  obtain ⟨ni, op⟩ := e
  have h1 := h.availNonneg; have h2 := h.availReady; have h3 := h.readyCreated
  have h4 := h.createdDesired; have h5 := h.stuckNonneg
  cases op with
  | none => constructor <;> simp only [countStep] <;> omega
  | some pod =>
    cases hc : classify tg wall (ni, some pod) with
    | noPod => constructor <;> simp only [countStep, hc] <;> omega
    | stuck => constructor <;> simp only [countStep, hc] <;> omega
    | outdatedTerminating => constructor <;> simp only [countStep, hc] <;> omega
    | outdated a => cases a <;> (constructor <;> simp only [countStep, hc] <;> omega)
    | upToDate a r =>
      obtain ⟨ha, hr⟩ := classify_upToDate hc
      have har : a = r := by rw [ha, hr]; rfl
      subst har
      cases a <;> (constructor <;> simp only [countStep, hc] <;> (try simp) <;> omega)

theorem foldl_orderInv (tg : String) (wall : Time) (es : List (NodeItem × Option Pod)) (c : Counts)
    (h : OrderInv c) : OrderInv (es.foldl (countStep tg wall) c) := by
  induction es generalizing c with
  | nil => exact h
  | cons e es ih => exact ih _ (orderInv_step tg wall c e h)

theorem countAll_orderInv (tg : String) (wall : Time) (es : List (NodeItem × Option Pod)) :
    OrderInv (countAll tg wall es) :=
  foldl_orderInv tg wall es {} orderInv_nil

/-- the status `manageDeployment` reports carries the counters of the counting loop. -/
theorem manageDeployment_status (p : StratParams) (now wall : Time) (cf : Bool) (r : StratResult)
    (st : ERSStatus) (h : manageDeployment p now wall cf = .ok r) (hst : r.newStatus = some st) :
    let c := countAll p.ers.templateGeneration wall (targeted p)
    st.desired = c.desired ∧ st.ready = c.ready ∧ st.current = c.created ∧
    st.available = c.available ∧ st.ignored = c.stuck ∧ st.status = "active" := by
  unfold manageDeployment at h
  simp only [] at h
  split at h
  · simp at h
  · split at h
    · simp at h
    · split at h
      · simp at h
      · simp at h
      · injection h with h
        rw [← h] at hst
        simp only [Option.some.injEq] at hst
        rw [← hst]
        split <;> exact ⟨rfl, rfl, rfl, rfl, rfl, rfl⟩

/-- **3a. Active role**: `0 ≤ available ≤ ready ≤ current ≤ desired` (and `0 ≤ ignored`). -/
theorem C14_ers_order (p : StratParams) (now wall : Time) (cf : Bool) (r : StratResult) (st : ERSStatus)
    (h : manageDeployment p now wall cf = .ok r) (hst : r.newStatus = some st) :
    0 ≤ st.available ∧ st.available ≤ st.ready ∧ st.ready ≤ st.current ∧ st.current ≤ st.desired ∧
    0 ≤ st.ignored := by
  obtain ⟨h1, h2, h3, h4, h5, _⟩ := manageDeployment_status p now wall cf r st h hst
  have inv := countAll_orderInv p.ers.templateGeneration wall (targeted p)
  rw [h1, h2, h3, h4, h5]
  exact ⟨inv.availNonneg, inv.availReady, inv.readyCreated, inv.createdDesired, inv.stuckNonneg⟩

/-- a successful active sync always reports a status. -/
theorem C14_ers_reports (p : StratParams) (now wall : Time) (cf : Bool) (r : StratResult)
    (h : manageDeployment p now wall cf = .ok r) : ∃ st, r.newStatus = some st := by
  unfold manageDeployment at h
  simp only [] at h
  split at h
  · simp at h
  · split at h
    · simp at h
    · split at h
      · simp at h
      · simp at h
      · injection h with h
        rw [← h]
        exact ⟨_, rfl⟩

/-- the order invariant of the canary node scan. -/
structure CanaryOrderInv (c : CanaryScan) : Prop where
  availNonneg : 0 ≤ c.available
  availReady : c.available ≤ c.ready
  readyCurrent : c.ready ≤ c.current
  currentDesired : c.current ≤ c.desired

theorem canaryOrderInv_step (tg : String) (byNode : List (NodeItem × Option Pod)) (c : CanaryScan) (nm : String)
    (h : CanaryOrderInv c) : CanaryOrderInv (canaryScanStep tg byNode c nm) := by
  have h1 := h.availNonneg; have h2 := h.availReady; have h3 := h.readyCurrent; have h4 := h.currentDesired
  unfold canaryScanStep
  simp only []
  split
  · constructor <;> simp only [] <;> omega
  · constructor <;> simp only [] <;> omega
  · next ni pod _ =>
    split
    · constructor <;> simp only [] <;> omega
    · split
      · constructor <;> simp only [] <;> omega
      · have : pod.available = pod.ready := rfl
        rw [this]
        cases pod.ready <;> (constructor <;> simp <;> omega)

theorem foldl_canaryOrderInv (tg : String) (byNode : List (NodeItem × Option Pod)) (ns : List String) (c : CanaryScan)
    (h : CanaryOrderInv c) : CanaryOrderInv (ns.foldl (canaryScanStep tg byNode) c) := by
  induction ns generalizing c with
  | nil => exact h
  | cons n ns ih => exact ih _ (canaryOrderInv_step tg byNode c n h)

/-- **3b. Canary role**: the same order, and `desired` is the number of canary nodes. -/
theorem C14_ers_order_canary (p : StratParams) (now : Time) (r : StratResult) (st : ERSStatus)
    (h : manageCanaryStatus p now = some r) (hst : r.newStatus = some st) :
    0 ≤ st.available ∧ st.available ≤ st.ready ∧ st.ready ≤ st.current ∧ st.current ≤ st.desired := by
  unfold manageCanaryStatus at h
  simp only [] at h
  split at h
  · simp at h
  · simp only [Option.some.injEq] at h
    rw [← h] at hst
    simp only [Option.some.injEq] at hst
    rw [← hst]
    have inv := foldl_canaryOrderInv p.ers.templateGeneration p.byNode p.canaryNodes {}
      (by constructor <;> simp)
    exact ⟨inv.availNonneg, inv.availReady, inv.readyCurrent, inv.currentDesired⟩

theorem scan_desired (tg : String) (byNode : List (NodeItem × Option Pod)) (ns : List String) (c : CanaryScan) :
    (ns.foldl (canaryScanStep tg byNode) c).desired = c.desired + ns.length := by
  induction ns generalizing c with
  | nil => simp
  | cons n ns ih =>
    rw [List.foldl_cons, ih]
    have : (canaryScanStep tg byNode c n).desired = c.desired + 1 := by
      unfold canaryScanStep
      simp only []
      split
      · rfl
      · rfl
      · split
        · rfl
        · split <;> rfl
    rw [this]; simp only [List.length_cons]; omega

/-- the canary role's `desired` is the number of nodes the daemonset status lists for the canary. -/
theorem C14_canary_desired (p : StratParams) (now : Time) (r : StratResult) (st : ERSStatus)
    (h : manageCanaryStatus p now = some r) (hst : r.newStatus = some st) :
    st.desired = p.canaryNodes.length := by
  unfold manageCanaryStatus at h
  simp only [] at h
  split at h
  · simp at h
  · simp only [Option.some.injEq] at h
    rw [← h] at hst
    simp only [Option.some.injEq] at hst
    rw [← hst]
    simp only []
    rw [scan_desired]
    simp

/-- **3c. Unknown role**: a replica set that is neither active nor canary desires nothing. -/
theorem C14_unknown_zero_desired (p : StratParams) (wall : Time) (st : ERSStatus)
    (h : (manageUnknown p wall).newStatus = some st) : st.desired = 0 ∧ st.status = "unknown" := by
  unfold manageUnknown at h
  simp only [Option.some.injEq] at h
  rw [← h]
  exact ⟨rfl, rfl⟩

/-! ### 4. Condition lists -/

theorem updateFirst_map_type (cs : List Cond) (t : String) (f : Cond → Cond) (hf : ∀ c, (f c).type = c.type) :
    (updateFirst cs t f).map (·.type) = cs.map (·.type) := by
  induction cs with
  | nil => rfl
  | cons c rest ih =>
    cases hc : (c.type == t) with
    | true => rw [updateFirst_cons_pos _ _ _ _ hc]; simp [hf]
    | false => rw [updateFirst_cons_neg _ _ _ _ hc]; simp [ih]

theorem findCond_none_not_mem (cs : List Cond) (t : String) (h : findCond cs t = none) :
    t ∉ cs.map (·.type) := by
  unfold findCond at h
  rw [List.find?_eq_none] at h
  intro hm
  obtain ⟨c, hc, rfl⟩ := List.mem_map.1 hm
  have := h c hc
  simp at this

/-- **4a. One entry per type**: `updateCond` never duplicates a condition type. -/
theorem C14_conditions_update (cs : List Cond) (now : Time) (t s r dsc : String) (w u : Bool)
    (h : (cs.map (·.type)).Nodup) : ((updateCond cs now t s r dsc w u).map (·.type)).Nodup := by
  unfold updateCond
  cases hfc : findCond cs t with
  | some c0 =>
    simp only []
    rw [updateFirst_map_type cs t _ (updateCond_fn_type now s r dsc u)]
    exact h
  | none =>
    simp only []
    split
    · rw [List.map_append]
      simp only [List.map_cons, List.map_nil]
      rw [List.nodup_append]
      refine ⟨h, by simp, ?_⟩
      intro a ha b hb
      simp only [List.mem_singleton] at hb
      subst hb
      intro hab
      subst hab
      exact findCond_none_not_mem cs a hfc ha
    · exact h

/-- the set of condition types only grows by the type being written. -/
theorem C14_conditions_types (cs : List Cond) (now : Time) (t s r dsc : String) (w u : Bool) :
    (updateCond cs now t s r dsc w u).map (·.type) = cs.map (·.type) ∨
    (findCond cs t = none ∧ (updateCond cs now t s r dsc w u).map (·.type) = cs.map (·.type) ++ [t]) := by
  unfold updateCond
  cases hfc : findCond cs t with
  | some c0 =>
    simp only []
    exact Or.inl (updateFirst_map_type cs t _ (updateCond_fn_type now s r dsc u))
  | none =>
    simp only []
    split
    · right; simp
    · left; rfl

/-- **4b. Transition time.** For an existing entry of type `t`: the new entry has the requested
status; its transition time is kept when the status is unchanged and set to `now` when the status
changes. -/
theorem C14_transition_time (cs : List Cond) (now : Time) (t s r dsc : String) (w u : Bool) (c0 : Cond)
    (h : findCond cs t = some c0) :
    ∃ c1, findCond (updateCond cs now t s r dsc w u) t = some c1 ∧ c1.status = s ∧ c1.type = c0.type ∧
      (c0.status = s → c1.lastTransition = c0.lastTransition) ∧
      (c0.status ≠ s → c1.lastTransition = now) := by
  unfold updateCond
  simp only [h]
  rw [findCond_updateFirst_same cs t _ (updateCond_fn_type now s r dsc u), h]
  refine ⟨_, rfl, updateCond_fn_status now s r dsc u c0, updateCond_fn_type now s r dsc u c0, ?_, ?_⟩
  · intro hs
    have : (c0.status != s) = false := by simp [hs]
    simp only [this]
    split <;> split <;> rfl
  · intro hs
    have : (c0.status != s) = true := by simp [hs]
    simp only [this]
    split <;> split <;> rfl

/-- a new entry (type not present yet, status `True`) is stamped `now`. -/
theorem C14_transition_time_new (cs : List Cond) (now : Time) (t r dsc : String) (w u : Bool)
    (h : findCond cs t = none) :
    ∃ c1, findCond (updateCond cs now t "True" r dsc w u) t = some c1 ∧ c1.status = "True" ∧
      c1.lastTransition = now := by
  unfold updateCond
  simp only [h]
  have : ("True" == "True" || w) = true := by simp
  rw [if_pos this, findCond_append_single _ _ _ h rfl]
  exact ⟨_, rfl, rfl, rfl⟩

end Eds

/-! ### Examples (non-vacuity; fixtures in `EdsProofs/ReconcileEds.lean`) -/
namespace Eds.ExReconcile

/- the rollback status satisfies the specification predicates -/
example : Spec.C14.countersOk (store 1) (rs "ds-a" "h1" 3 []) (rs "ds-b" "h2" 1 [failedCond]) false rolledBack = true := by decide
example : Spec.C14.stateOk true false true false "" [] (rs "ds-b" "h2" 1 [failedCond]) rolledBack = true := by decide
example : Spec.C14.condsOk true true false rolledBack = true := by decide
/- … and a wrong one does not (the predicates are not vacuous) -/
example : Spec.C14.countersOk (store 1) (rs "ds-a" "h1" 3 []) (rs "ds-b" "h2" 1 [failedCond]) false
    { rolledBack with current := 3 } = false := by decide
example : Spec.C14.stateOk true false true false "" [] (rs "ds-b" "h2" 1 [failedCond])
    { rolledBack with canary := some ⟨"ds-b", []⟩ } = false := by decide
/- a running canary: desired adds the canary's, the canary block names it -/
example : ((reconcileEds (eds "h2" [] (status "ds-a" (some ⟨"ds-b", ["n1"]⟩)))
      [rs "ds-a" "h1" 3 [], rs "ds-b" "h2" 1 []] [] [] minute "auto").statusUpdate.map
      (fun s => (s.desired, s.current, s.upToDate, s.state, s.canary))) =
    some (4, 4, 1, "Canary", some ⟨"ds-b", ["n1"]⟩) := by decide

end Eds.ExReconcile
