import EdsProofs.Rolling
import EdsSpec.C02
/-
  C02 — Reconciliation converges to one Ready live-template pod per eligible node.

  What is proved (unbounded sizes):
  * the per-sync progress lemmas on the budget kernel under the cooperative assumption (every
    existing pod is scheduled and Ready when the sync runs, nothing is terminating);
  * the abstract round and its variant `2·outdated + empty`, strictly decreasing until 0, hence the
    bound "at most 2·outdated + empty ≤ 2·N rounds";
  * the fixpoint: at a state where every targeted node has an up-to-date available pod the active
    role plans no creation and no deletion.
  The composition of these lemmas across the two controllers and through canary histories
  (`C02_converges`) is NOT a theorem: it is validated by the scenario stream, which runs the real
  reconcilers to quiescence from random reachable states and checks `Spec.C02.fixpoint`
  (partial label, DESIGN.md §11).
-/
namespace Eds
open Spec.C03

/-! ### Progress of one sync under the cooperative assumption -/

/-- the counters of a sync on `N` nodes of which `e` have no pod, `o` run an outdated available pod
and the rest an up-to-date available one. -/
def coopParams (N e o mc mu ms : Int) : LimitParams :=
  { nbNodes := N, nbPods := N - e, nbAvailablesPod := N - e - o, nbOldAvailablesPod := o,
    nbCreatedPod := N - e - o, nbUnresponsiveNodes := 0, nbOldUnavailablePods := 0,
    maxPodCreation := mc, maxUnavailablePod := mu, maxUnschedulablePod := ms }

/-- the kernel's answer in that situation. -/
theorem C02_coop_limits (N e o mc mu ms : Int) (he : 0 ≤ e) (hms : 0 ≤ ms) :
    calcLimits (coopParams N e o mc mu ms) = (max 0 (min e mc), max 0 (min (mu - e) mu)) := by
  unfold calcLimits coopParams
  simp only []
  ext <;> simp only [] <;> omega

/-- **Creation progress**: while some node lacks a pod and the ramp allows at least one creation,
the sync creates at least one pod. -/
theorem C02_progress_create (N e o mc mu ms : Int) (he : 0 < e) (hmc : 1 ≤ mc) (hms : 0 ≤ ms) :
    1 ≤ (calcLimits (coopParams N e o mc mu ms)).1 ∧ (calcLimits (coopParams N e o mc mu ms)).1 ≤ e := by
  rw [C02_coop_limits N e o mc mu ms (by omega) hms]
  constructor <;> simp only [] <;> omega

/-- **Update progress**: once every node has a pod, with maxUnavailable ≥ 1 the sync may delete at
least one outdated pod (and at most maxUnavailable). -/
theorem C02_progress_delete (N o mc mu ms : Int) (hmu : 1 ≤ mu) (hms : 0 ≤ ms) :
    (calcLimits (coopParams N 0 o mc mu ms)).2 = mu := by
  rw [C02_coop_limits N 0 o mc mu ms (by omega) hms]
  simp only []; omega

/-! ### The abstract cooperative round and its variant -/

structure Abs where
  /-- nodes without a pod -/
  e : Nat
  /-- nodes with an outdated (available) pod -/
  o : Nat
  deriving DecidableEq, Repr

/-- one cooperative round: the sync creates `min e mc` pods and deletes `min o (mu − e)` outdated
ones (kernel answer above, capped by the candidates); the kubelet then makes the created pods Ready
and finishes the terminations. -/
def absRound (mu mc : Nat) (s : Abs) : Abs :=
  let c := min s.e mc
  let dl := min s.o (mu - s.e)
  { e := s.e - c + dl, o := s.o - dl }

def variant (s : Abs) : Nat := 2 * s.o + s.e

/-- **Variant.** With maxUnavailable ≥ 1 and a creation cap ≥ 1 the variant strictly decreases in
every round until the fixpoint. -/
theorem C02_round_measure (mu mc : Nat) (s : Abs) (hmu : 1 ≤ mu) (hmc : 1 ≤ mc) (h : 0 < variant s) :
    variant (absRound mu mc s) < variant s := by
  unfold variant absRound at *
  simp only []
  omega

def rounds (mu mc : Nat) : Nat → Abs → Abs
  | 0, s => s
  | k + 1, s => rounds mu mc k (absRound mu mc s)

theorem variant_rounds (mu mc : Nat) (hmu : 1 ≤ mu) (hmc : 1 ≤ mc) (k : Nat) (s : Abs) :
    variant (rounds mu mc k s) ≤ variant s - k := by
  induction k generalizing s with
  | zero => simp [rounds]
  | succ k ih =>
    unfold rounds
    by_cases h : 0 < variant s
    · have := C02_round_measure mu mc s hmu hmc h
      have := ih (absRound mu mc s)
      omega
    · have hz : variant s = 0 := by omega
      have h0 : absRound mu mc s = s := by
        unfold variant at hz
        have he : s.e = 0 := by omega
        have ho : s.o = 0 := by omega
        cases s; simp_all [absRound]
      rw [h0]
      have := ih s
      omega

/-- **Bound.** After at most `2·outdated + empty` (≤ 2·N) cooperative rounds no node lacks a pod and
no pod is outdated. -/
theorem C02_rounds_bound (mu mc : Nat) (hmu : 1 ≤ mu) (hmc : 1 ≤ mc) (s : Abs) :
    (rounds mu mc (variant s) s).e = 0 ∧ (rounds mu mc (variant s) s).o = 0 := by
  have := variant_rounds mu mc hmu hmc (variant s) s
  unfold variant at this ⊢
  constructor <;> omega

/-- the fixpoint is stable. -/
theorem C02_abs_fixpoint (mu mc : Nat) : absRound mu mc ⟨0, 0⟩ = ⟨0, 0⟩ := by
  simp [absRound]

/-! ### Fixpoint of the real plan -/

/-- at a state where every targeted node has an up-to-date pod (nothing to create, nothing outdated)
the active role plans no creation and no deletion, whatever the strategy values. -/
theorem C02_fixpoint_plan (c : Counts) (N ms mu mc : Int) (paused frozen : Bool)
    (hc : c.toCreate = []) (hu : c.toDeleteUnavail = []) (ha : c.toDeleteAvail = []) :
    rollingPlan c N ms mu mc paused frozen = ([], []) := by
  unfold rollingPlan
  simp [hc, hu, ha]

/-! ### Progress of the real plan -/

/-- a positive maxUnavailable (number or percentage) resolves to a budget of at least one pod on any
non-empty set of targeted nodes: percentages are rounded UP. -/
theorem C02_budget_positive (x : Option IntOrStr) (N mu : Int) (hx : Spec.C02.positiveBudget x = true)
    (hN : 1 ≤ N) (h : resolveIntOrPercent x N = some mu) : 1 ≤ mu := by
  unfold Spec.C02.positiveBudget at hx
  unfold resolveIntOrPercent at h
  cases x with
  | none => simp at hx
  | some v =>
    simp only [Bool.and_eq_true, Bool.or_eq_true, decide_eq_true_eq] at hx
    simp only [] at h
    split at h
    · simp only [Option.some.injEq] at h; omega
    · split at h
      · simp only [Option.some.injEq] at h
        unfold ceilDiv100 at h
        have : 1 ≤ v.val * N := by
          have := Int.mul_le_mul hx.2 hN (by omega) (by omega)
          omega
        omega
      · simp at h

/-- **Update progress of the plan.**  In the cooperative update situation, a sync that is neither
paused nor frozen and whose maxUnavailable resolves to `mu ≥ 1` deletes `min mu o ≥ 1` outdated pods. -/
theorem C02_progress_plan (c : Counts) (ms mu mc : Int)
    (hc : Spec.C02.coopUpdate c = true) (hmu : 1 ≤ mu) (hms : 0 ≤ ms) :
    (rollingPlan c c.desired ms mu mc false false).2.length = min mu c.oldAvailable
    ∧ 1 ≤ (rollingPlan c c.desired ms mu mc false false).2.length := by
  unfold Spec.C02.coopUpdate at hc
  simp only [Bool.and_eq_true, beq_iff_eq, List.isEmpty_iff, Bool.not_eq_true'] at hc
  obtain ⟨⟨⟨⟨⟨⟨⟨⟨⟨h1, h2⟩, h3⟩, h4⟩, h5⟩, h6⟩, h7⟩, h8⟩, h9⟩, h10⟩ := hc
  have ho : 1 ≤ c.toDeleteAvail.length := by
    cases hl : c.toDeleteAvail with
    | nil => simp [hl] at h10
    | cons a l => simp
  unfold rollingPlan calcLimits
  simp only [h2, List.nil_append, Bool.not_false, Bool.and_self, if_true, List.length_take]
  omega

/-- every entry classified up to date ⇒ the counting loop yields no candidate at all. -/
theorem countAll_all_uptodate (tg : String) (wall : Time) (es : List Entry)
    (h : ∀ e ∈ es, ∃ a r, classify tg wall e = .upToDate a r) :
    (countAll tg wall es).toCreate = [] ∧ (countAll tg wall es).toDeleteUnavail = [] ∧
    (countAll tg wall es).toDeleteAvail = [] := by
  unfold countAll
  suffices hs : ∀ (c : Counts), c.toCreate = [] → c.toDeleteUnavail = [] → c.toDeleteAvail = [] →
      (es.foldl (countStep tg wall) c).toCreate = [] ∧ (es.foldl (countStep tg wall) c).toDeleteUnavail = [] ∧
      (es.foldl (countStep tg wall) c).toDeleteAvail = [] from hs {} rfl rfl rfl
  induction es with
  | nil => intro c h1 h2 h3; exact ⟨h1, h2, h3⟩
  | cons e rest ih =>
    intro c h1 h2 h3
    simp only [List.foldl_cons]
    obtain ⟨a, r, hcl⟩ := h e (List.mem_cons_self)
    apply ih (fun x hx => h x (List.mem_cons_of_mem e hx))
    all_goals
      obtain ⟨ni, op⟩ := e
      cases op with
      | none => simp [classify] at hcl
      | some pod => simp only [countStep, hcl]; assumption

/-- **Fixpoint.** If every targeted node carries an up-to-date pod, a successful sync of the active
role creates nothing and deletes nothing for updating: further reconciles leave the pods alone. -/
theorem C02_fixpoint (p : StratParams) (now wall : Time) (cf : Bool) (r : StratResult)
    (h : manageDeployment p now wall cf = .ok r)
    (hall : ∀ e ∈ targeted p, ∃ a rd, classify p.ers.templateGeneration wall e = .upToDate a rd) :
    r.createE = [] ∧ r.deleteE = [] := by
  obtain ⟨ms, mu, mc, _, _, _, hc, hd⟩ := manageDeployment_plan p now wall cf r h
  obtain ⟨h1, h2, h3⟩ := countAll_all_uptodate _ wall (targeted p) hall
  have := C02_fixpoint_plan (countAll p.ers.templateGeneration wall (targeted p)) (targeted p).length ms mu mc
    (isRollingUpdatePaused p.edsAnnotations) (isRolloutFrozen p.edsAnnotations) h1 h2 h3
  rw [hc, hd, this]
  exact ⟨rfl, rfl⟩

example : rounds 1 1 (variant ⟨2, 3⟩) ⟨2, 3⟩ = ⟨0, 0⟩ := by decide
example : variant ⟨2, 3⟩ = 8 := rfl

end Eds
