import EdsModel
import EdsSpec.C20
/-
  C20 — Exported metrics match object status and label values match their keys.
-/
namespace Eds
open Spec.C20

theorem insertPair_perm (p : String × String) (l : List (String × String)) :
    (insertPair p l).Perm (p :: l) := by
  induction l with
  | nil => exact List.Perm.refl _
  | cons q rest ih =>
    unfold insertPair
    split
    · exact List.Perm.refl _
    · exact (List.Perm.cons q ih).trans (List.Perm.swap p q rest)

/-- **Pairs.** The label-info pairs are, as a multiset, exactly the sanitised key of every label
paired with the value of that same label (covers colliding keys and the empty map). -/
theorem C20_pairs (labels : SMap) :
    (buildInfoLabels labels).Perm (labels.map (fun e => (sanitizeLabelName e.k, e.v))) := by
  unfold buildInfoLabels
  induction (labels.map (fun e => (sanitizeLabelName e.k, e.v))) with
  | nil => exact List.Perm.refl _
  | cons p rest ih =>
    simp only [List.foldr_cons]
    exact (insertPair_perm p _).trans (List.Perm.cons p ih)

/-- key list and value list have the same length as the label map. -/
theorem C20_lengths (labels : SMap) : (buildInfoLabels labels).length = labels.length := by
  have := (C20_pairs labels).length_eq
  simpa using this

/-- **Sanitiser.** Every character of a sanitised key is a legal Prometheus name character. -/
theorem C20_sanitize_legal (s : String) : ∀ c ∈ (sanitizeLabelName s).toList, legal c = true := by
  intro c hc
  unfold sanitizeLabelName at hc
  simp only [String.toList_ofList, List.mem_map] at hc
  obtain ⟨a, _, rfl⟩ := hc
  split
  · rename_i h
    simp only [Bool.or_eq_true, Bool.and_eq_true, decide_eq_true_eq, beq_iff_eq] at h
    rcases h with ⟨h1, _⟩ | h
    · unfold legal
      simp only [Char.isAlphanum, Char.isAlpha, Bool.or_eq_true] at h1
      rcases h1 with (h1 | h1) | h1 <;> simp [h1]
    · subst h; decide
  · decide

/-- the sanitiser is the identity on legal ASCII names. -/
theorem C20_sanitize_id (s : String) (h : ∀ c ∈ s.toList, (c.isAlphanum && c.val < 128) = true) :
    sanitizeLabelName s = s := by
  unfold sanitizeLabelName
  have : s.toList.map (fun c => if ((c.isAlphanum && c.val < 128) || c == '_') = true then c else '_') = s.toList := by
    have h2 : ∀ c ∈ s.toList, (fun c => if ((c.isAlphanum && c.val < 128) || c == '_') = true then c else '_') c = id c := by
      intro c hc; simp [h c hc]
    rw [List.map_congr_left h2, List.map_id]
  rw [this]
  exact String.ofList_toList

example : buildInfoLabels [⟨"app.kubernetes.io/name", "x"⟩, ⟨"a-b", "1"⟩, ⟨"a.b", "2"⟩]
    = [("a_b", "1"), ("a_b", "2"), ("app_kubernetes_io_name", "x")] := by decide

/-- **Gauges = status (ExtendedDaemonSet).** For every object, the series generated for it report the
status fields: counters, canary activated / paused / node number, rolling-update-paused, rollout-frozen. -/
theorem C20_eds_gauges (d : EDS) : edsGauges d.status (gaugeOf (edsSamples d)) = true := by
  simp [edsGauges, gaugeOf, edsSamples, List.find?]
  cases d.status.canary <;> rfl

/-- **Gauges = status (replica set).** -/
theorem C20_ers_gauges (e : ERS) : ersGauges e.status (gaugeOf (ersSamples e)) = true := by
  simp [ersGauges, gaugeOf, ersSamples, List.find?]

/-- the paused series is 1 only when the Canary-Paused condition is *True* (a stored False entry,
left behind by an unpause, reports 0). -/
theorem C20_canary_paused_needs_true (d : EDS) (h : isCondTrue d.status.conds "Canary-Paused" = false) :
    gaugeOf (edsSamples d) "eds_status_canary_paused" = some 0 := by
  simp [gaugeOf, edsSamples, List.find?, h]

/-- the label-info series of both generators carry the namespace, the name and the `C20_pairs` pairs. -/
theorem C20_info_series (d : EDS) :
    ((edsSamples d).find? (fun s => s.family == "eds_labels")).map (·.labels)
      = some (baseLabels d.ns d.name ++ buildInfoLabels d.labels) := by
  simp [edsSamples]

end Eds
