import EdsProofs.L3Settings
import EdsProps.C04
/-
  L3Settings — the ExtendedDaemonsetSetting controller INSIDE the cluster machine
  (`EdsModel/ClusterSettings.lean`: `OpS`, `WorldS`, `stepS`, `runS`): property C18 "at most one valid
  setting per node" as an invariant of RUNS (reconciles of settings, user edits of settings, node
  changes and every operation of the L3 machine, in any order and number) rather than of one round
  over a fixed snapshot (`EdsProps/C18.lean`, `C18b.lean`).

  0. one snapshot, who wins
       `C18_winner`            a valid setting matching a node is newer (ties: greater name) than every
                               other setting of the list with a usable selector matching that node
       `C18_valid_iff_newest`  … and that characterises `valid` (reference, usable selector)
  1. invariants of the extended machine (no side condition on the ops)
       `L3S_keysNodup_stepS`, `L3S_inv_stepS`, `L3S_inv_runS`, `L3S_reachable_inv`
  2. settled worlds (FULL)
       `L3S_settled_statuses`         every stored status of a settled namespace is the verdict on the
                                      current world
       `L3S_settled_at_most_one_valid` (`_spec`: through `Spec.C18.mutualExclusion`; `_all`: every namespace)
       `L3S_winner`, `L3S_losers_error`, `L3S_newest_is_valid`
       `L3S_settled_choice`           the sync's choice never fails and is independent of the list order
  3. unconditional safety (FULL)
       `L3S_status_provenance`        where the stored status of ANY setting of ANY reached world comes
                                      from: initial and never written / last applied / last reconciled
       `L3S_valid_was_valid`          a stored `valid` was the verdict on the world at its last reconcile
                                      (for the spec of that moment; the same spec unless `updateSetting` since)
  4. the window before settling
       `L3S_transient_overlap`        (concrete run, `decide`) two stored-`valid` settings match one node;
       `L3S_settled_at_most_one_valid_unsettled_false` the settled hypothesis cannot be dropped
       `L3S_node_gets_at_most_one`    what the replica-set sync attaches in EVERY world
  5. frame
       `L3S_setting_ops_frame`, `L3S_cluster_ops_frame`, `L3S_lift_stepS`, `L3S_lift_runS`,
       `L3S_hashesNodup_stepS`, `L3S_namesNodup_stepS`, `L3S_canaryNodup_stepS` and the run forms
  6. the ghost flag means what it says
       `L3S_fresh_of_reconciled_since`, `L3S_settled_of_ops`
  7. examples
-/
namespace Eds
open ClusterS Cluster Spec.C18

/-! ## 0. one snapshot: who wins -/

/-- **The winner is the newest.** Snapshot (`nodes`, `all`) with unique names: a setting `s` whose
verdict is `valid` and that matches the node `n` is newer — ties: has the greater name — than every
other setting `t` of the list that matches `n` (so `t` has a usable selector; whether `t` has a
reference is irrelevant: a newer matching setting WITHOUT reference still beats `s`, example below). -/
theorem C18_winner (nodes : List Node) (all : List Setting)
    (hnd : (all.map (·.name)).Nodup)
    (n : Node) (hn : n ∈ nodes) (s : Setting) (hs : s ∈ all)
    (hvs : (settingReconcile s nodes all).1 = "valid")
    (hms : settingMatches s n.labels = some true)
    (t : Setting) (ht : t ∈ all) (hmt : settingMatches t n.labels = some true) (hne : t ≠ s) :
    settingLess s t = true := by
  have hcs := ((settingReconcile_valid_iff s nodes all).mp hvs).2
  rw [searchConflict_eq, usableFor_eq_of_good hnd hs (badSelector_false_of_matches hms),
    searchConflict_go_none_iff] at hcs
  have hmem : ∀ x : Setting, x ∈ all → x.badSelector = false →
      x ∈ sortSettings (all.filter (fun s => !s.badSelector)) := fun x hx hg =>
    mem_sortSettings.mpr (List.mem_filter.mpr ⟨hx, by simp [hg]⟩)
  have hnames : t.name ≠ s.name := fun e => hne (eq_of_name_eq_of_nodup hnd ht hs e)
  have hle : settingLE s t :=
    scan_none_inst_first n.labels (sortSettings_sorted _)
      (hmem s hs (badSelector_false_of_matches hms)) hms none (hcs n hn) t
      (hmem t ht (badSelector_false_of_matches hmt)) hmt hnames
  exact settingLess_of_LE_of_name_ne hle (fun e => hnames e.symm)

/-- `settingLess s t` in words: `s` was created later, or at the same time with the greater name. -/
theorem C18_winner_newer (s t : Setting) :
    settingLess s t = true ↔ t.creation < s.creation ∨ (t.creation = s.creation ∧ t.name < s.name) :=
  settingLess_newer_iff s t

/-- **Exactly the newest everywhere it matches is valid.** A setting of the list (unique names) with
a reference and a usable selector is `valid` iff on EVERY node it matches it is newer (ties: greater
name) than every other setting matching that node. -/
theorem C18_valid_iff_newest (nodes : List Node) (all : List Setting)
    (hnd : (all.map (·.name)).Nodup) (s : Setting) (hs : s ∈ all)
    (r : String) (href : s.reference = some r) (hr : r ≠ "") (hgood : s.badSelector = false) :
    (settingReconcile s nodes all).1 = "valid" ↔
      ∀ n ∈ nodes, settingMatches s n.labels = some true →
        ∀ t ∈ all, t ≠ s → settingMatches t n.labels = some true → settingLess s t = true := by
  constructor
  · intro hv n hn hms t ht hne hmt
    exact C18_winner nodes all hnd n hn s hs hv hms t ht hmt hne
  · intro hnew
    rw [settingReconcile_valid_iff]
    refine ⟨⟨r, href, hr⟩, ?_⟩
    rw [searchConflict_eq, searchConflict_go_none_iff]
    intro n hn
    have hmem : ∀ x, x ∈ sortSettings (usableFor s all) →
        x ∈ all ∧ (x.badSelector = true → x.name = s.name) := fun x hx =>
      mem_usableFor.mp (mem_sortSettings.mp hx)
    apply scan_none_of_inst_first n.labels (sortSettings_sorted _) (sorted_usable_nodup s hnd)
    · intro x hx hnone
      have hb := (settingMatches_eq_none_iff x n.labels).mp hnone
      have := eq_of_name_eq_of_nodup hnd (hmem x hx).1 hs ((hmem x hx).2 hb)
      subst this
      rw [hgood] at hb
      cases hb
    · exact mem_sortSettings.mpr (mem_usableFor.mpr ⟨hs, fun _ => rfl⟩)
    · intro hms t ht hname hmt
      exact hnew n hn hms t (hmem t ht).1 (fun e => hname (by rw [e])) hmt

/-- Remark: the settings a valid one must beat include those WITHOUT a reference (themselves in error):
`blocker` (newest, no reference, selects every node) makes `a` report a conflict, so the node gets no
valid setting at all. -/
example :
    let blocker : Setting := ⟨"blocker", "ns", 20, none, ⟨[], []⟩, false, [], "", ""⟩
    let a : Setting := ⟨"a", "ns", 10, some "eds", ⟨[], []⟩, false, [], "", ""⟩
    let n : Node := ⟨"n", [], [], [], "", []⟩
    settingReconcile a [n] [a, blocker] = ("error", "conflict with another ExtendedDaemonsetSetting: blocker") ∧
    settingReconcile blocker [n] [a, blocker] = ("error", "missing reference in spec") := by decide

/-! ## 1. invariants of the extended machine -/

/-- **Unique keys are preserved** by every step (no side condition): the API server never holds two
settings under one namespace/name. -/
theorem L3S_keysNodup_stepS (ws : WorldS) (op : OpS) (h : SettingKeysNodup ws.w) :
    SettingKeysNodup (stepS ws op).w := keysNodup_stepS ws op h

/-- **Fresh means reconciled against the current world** (`InvS = SettingKeysNodup ∧ FreshOk`,
EdsProofs/L3Settings.lean) is preserved by every step. -/
theorem L3S_inv_stepS (ws : WorldS) (op : OpS) (h : InvS ws) : InvS (stepS ws op) := InvS_stepS ws op h

theorem L3S_inv_runS (ws : WorldS) (ops : List OpS) (h : InvS ws) : InvS (runS ws ops) := InvS_runS ws ops h

/-- the worlds reached by the runs of the extended machine from a world with unique setting keys in
which NOTHING is assumed fresh (whatever its stored statuses). -/
def ReachableS (ws : WorldS) : Prop := ∃ w0 ops, SettingKeysNodup w0 ∧ ws = runS (initS w0) ops

theorem L3S_reachable_inv {ws : WorldS} (h : ReachableS ws) : InvS ws := by
  obtain ⟨w0, ops, hk, rfl⟩ := h
  exact InvS_runS _ ops (InvS_initS w0 hk)

theorem ReachableS.step {ws : WorldS} (h : ReachableS ws) (op : OpS) : ReachableS (stepS ws op) := by
  obtain ⟨w0, ops, hk, rfl⟩ := h
  exact ⟨w0, ops ++ [op], hk, (runS_append _ _ _).symm⟩

/-! ## 2. settled worlds -/

/-- every stored status of a settled namespace is the verdict `settingReconcile` computes on the
CURRENT world (the hypothesis `hst` of `C18_unique_choice` / `C18_choice_order_independent`). -/
theorem L3S_settled_statuses (ws : WorldS) (hinv : InvS ws) (ns : String) (hset : SettledNs ws ns)
    (x : Setting) (hx : x ∈ settingsOfNs ws.w.settings ns) :
    (x.status, x.error) = settingReconcile x ws.w.nodes (settingsOfNs ws.w.settings ns) := by
  obtain ⟨hx1, hx2⟩ := mem_settingsOfNs.mp hx
  have := hinv.2 x hx1 (hset x hx1 hx2)
  rw [hx2] at this
  exact this

/-- **C18 as a history invariant.** In every world reached by any run, if the settings of namespace
`ns` are settled (each reconciled since the last `applySetting` / `updateSetting` / `deleteSetting` in `ns` and the last
`setNodes`), then for every node of the world at most one setting of `ns` whose selector matches the
node is stored `valid`. -/
theorem L3S_settled_at_most_one_valid (ws : WorldS) (hreach : ReachableS ws)
    (ns : String) (hset : SettledNs ws ns)
    (n : Node) (hn : n ∈ ws.w.nodes) (s t : Setting)
    (hs : s ∈ ws.w.settings) (ht : t ∈ ws.w.settings) (hsns : s.ns = ns) (htns : t.ns = ns)
    (hvs : s.status = "valid") (hvt : t.status = "valid")
    (hms : settingMatches s n.labels = some true) (hmt : settingMatches t n.labels = some true) :
    s = t := by
  have hinv := L3S_reachable_inv hreach
  apply C18_unique_choice ws.w.nodes (settingsOfNs ws.w.settings ns)
    (names_nodup_of_keys_nodup hinv.1 ns) _ n hn s t
    (mem_settingsOfNs.mpr ⟨hs, hsns⟩) (mem_settingsOfNs.mpr ⟨ht, htns⟩) hvs hvt hms hmt
  intro x hx
  exact congrArg Prod.fst (L3S_settled_statuses ws hinv ns hset x hx)

/-- the same for a world in which EVERY setting is settled (`SettledAfter`): any namespace. -/
theorem L3S_settled_at_most_one_valid_all (ws : WorldS) (hreach : ReachableS ws) (hset : SettledAfter ws)
    (n : Node) (hn : n ∈ ws.w.nodes) (s t : Setting)
    (hs : s ∈ ws.w.settings) (ht : t ∈ ws.w.settings) (hns : s.ns = t.ns)
    (hvs : s.status = "valid") (hvt : t.status = "valid")
    (hms : settingMatches s n.labels = some true) (hmt : settingMatches t n.labels = some true) :
    s = t :=
  L3S_settled_at_most_one_valid ws hreach t.ns (fun x hx _ => hset x hx) n hn s t hs ht hns rfl
    hvs hvt hms hmt

/-- the same through the decidable specification predicate `Spec.C18.mutualExclusion` evaluated on
the STORED statuses. -/
theorem L3S_settled_at_most_one_valid_spec (ws : WorldS) (hreach : ReachableS ws)
    (ns : String) (hset : SettledNs ws ns) :
    mutualExclusion (settingsOfNs ws.w.settings ns) ws.w.nodes (fun s => decide (s.status = "valid")) = true := by
  have hinv := L3S_reachable_inv hreach
  have h := C18_mutual_exclusion_spec ws.w.nodes (settingsOfNs ws.w.settings ns)
    (names_nodup_of_keys_nodup hinv.1 ns)
  unfold mutualExclusion at h ⊢
  rw [List.all_eq_true] at h ⊢
  intro n hn
  have hlen := h n hn
  have hcongr : (settingsOfNs ws.w.settings ns).filter
        (fun s => decide (s.status = "valid") && (settingMatches s n.labels).getD false) =
      (settingsOfNs ws.w.settings ns).filter
        (fun s => decide ((settingReconcile s ws.w.nodes (settingsOfNs ws.w.settings ns)).1 = "valid") &&
          (settingMatches s n.labels).getD false) := by
    apply List.filter_congr
    intro x hx
    rw [← congrArg Prod.fst (L3S_settled_statuses ws hinv ns hset x hx)]
  rw [hcongr]
  exact hlen

/-- **The winner of a settled namespace is the newest** (`C18_winner` along runs): the stored-`valid`
setting matching a node is newer (ties: greater name) than every other setting of the namespace
matching that node. -/
theorem L3S_winner (ws : WorldS) (hreach : ReachableS ws) (ns : String) (hset : SettledNs ws ns)
    (n : Node) (hn : n ∈ ws.w.nodes) (s : Setting) (hs : s ∈ ws.w.settings) (hsns : s.ns = ns)
    (hvs : s.status = "valid") (hms : settingMatches s n.labels = some true)
    (t : Setting) (ht : t ∈ ws.w.settings) (htns : t.ns = ns)
    (hmt : settingMatches t n.labels = some true) (hne : t ≠ s) :
    settingLess s t = true := by
  have hinv := L3S_reachable_inv hreach
  have hs' := mem_settingsOfNs.mpr ⟨hs, hsns⟩
  refine C18_winner ws.w.nodes (settingsOfNs ws.w.settings ns) (names_nodup_of_keys_nodup hinv.1 ns)
    n hn s hs' ?_ hms t (mem_settingsOfNs.mpr ⟨ht, htns⟩) hmt hne
  rw [← congrArg Prod.fst (L3S_settled_statuses ws hinv ns hset s hs')]
  exact hvs

/-- … and every other setting of the namespace matching that node is stored `error`. -/
theorem L3S_losers_error (ws : WorldS) (hreach : ReachableS ws) (ns : String) (hset : SettledNs ws ns)
    (n : Node) (hn : n ∈ ws.w.nodes) (s : Setting) (hs : s ∈ ws.w.settings) (hsns : s.ns = ns)
    (hvs : s.status = "valid") (hms : settingMatches s n.labels = some true)
    (t : Setting) (ht : t ∈ ws.w.settings) (htns : t.ns = ns)
    (hmt : settingMatches t n.labels = some true) (hne : t ≠ s) :
    t.status = "error" := by
  have hinv := L3S_reachable_inv hreach
  have hst := congrArg Prod.fst (L3S_settled_statuses ws hinv ns hset t (mem_settingsOfNs.mpr ⟨ht, htns⟩))
  rcases settingReconcile_status t ws.w.nodes (settingsOfNs ws.w.settings ns) with hv | he
  · exact absurd (L3S_settled_at_most_one_valid ws hreach ns hset n hn t s ht hs htns hsns
      (hst.trans hv) hvs hmt hms) hne
  · exact hst.trans he

/-- **The newest everywhere it matches IS valid** (existence): in a settled namespace a setting with
a reference and a usable selector that, on every node it matches, is newer (ties: greater name) than
every other setting of the namespace matching that node, is stored `valid`. -/
theorem L3S_newest_is_valid (ws : WorldS) (hreach : ReachableS ws) (ns : String) (hset : SettledNs ws ns)
    (s : Setting) (hs : s ∈ ws.w.settings) (hsns : s.ns = ns)
    (r : String) (href : s.reference = some r) (hr : r ≠ "") (hgood : s.badSelector = false)
    (hnew : ∀ n ∈ ws.w.nodes, settingMatches s n.labels = some true →
      ∀ t ∈ ws.w.settings, t.ns = ns → t ≠ s → settingMatches t n.labels = some true →
        settingLess s t = true) :
    s.status = "valid" := by
  have hinv := L3S_reachable_inv hreach
  have hs' := mem_settingsOfNs.mpr ⟨hs, hsns⟩
  have hst : s.status = (settingReconcile s ws.w.nodes (settingsOfNs ws.w.settings ns)).1 :=
    congrArg Prod.fst (L3S_settled_statuses ws hinv ns hset s hs')
  rw [hst]
  rw [C18_valid_iff_newest ws.w.nodes _ (names_nodup_of_keys_nodup hinv.1 ns) s hs' r href hr hgood]
  intro n hn hms t ht hne hmt
  obtain ⟨ht1, ht2⟩ := mem_settingsOfNs.mp ht
  exact hnew n hn hms t ht1 ht2 hne hmt

/-- **In a settled namespace the sync's choice is well defined**: for a node of the world,
`getNodeList`'s choice among the settings of the namespace never fails on a selector and is the same
for every order in which the API server may list them. -/
theorem L3S_settled_choice (ws : WorldS) (hreach : ReachableS ws) (ns : String) (hset : SettledNs ws ns)
    (listed : List Setting) (hp : listed.Perm (settingsOfNs ws.w.settings ns))
    (edsName : String) (n : Node) (hn : n ∈ ws.w.nodes) :
    chooseSetting edsName listed n = chooseSetting edsName (settingsOfNs ws.w.settings ns) n ∧
    chooseSetting edsName (settingsOfNs ws.w.settings ns) n ≠ none := by
  have hinv := L3S_reachable_inv hreach
  apply C18_choice_order_independent ws.w.nodes _ listed (names_nodup_of_keys_nodup hinv.1 ns) _ hp edsName n hn
  intro x hx
  exact congrArg Prod.fst (L3S_settled_statuses ws hinv ns hset x hx)

/-! ## 3. unconditional safety: where a stored status comes from -/

/-- `op` does not write the STATUS of the object stored under `ns`/`name` (an `updateSetting` may
still edit its spec). -/
def OpS.leavesStatus (ns name : String) : OpS → Prop
  | .cluster _ => True
  | .reconcileSetting ns' name' => (ns', name') ≠ (ns, name)
  | .applySetting s => settingKey s ≠ (ns, name)
  | .deleteSetting ns' name' => (ns', name') ≠ (ns, name)
  | .updateSetting _ => True

/-- `op` does not write (or remove) the object stored under `ns`/`name` at all. -/
def OpS.leavesKey (ns name : String) : OpS → Prop
  | .cluster _ => True
  | .reconcileSetting ns' name' => (ns', name') ≠ (ns, name)
  | .applySetting s => settingKey s ≠ (ns, name)
  | .deleteSetting ns' name' => (ns', name') ≠ (ns, name)
  | .updateSetting s => settingKey s ≠ (ns, name)

theorem OpS.leavesKey.leavesStatus {ns name : String} {op : OpS} (h : op.leavesKey ns name) :
    op.leavesStatus ns name := by
  cases op <;> first | exact h | trivial

/-- where the stored status of the object `s` found in the world after `ops` (started in `ws0`) comes
from; in each case the last clause says what is known of the rest of the object when, moreover, no
`updateSetting` touched it since. -/
inductive Provenance (ws0 : WorldS) (ops : List OpS) (s : Setting) : Prop
  /-- the object under this key was in the initial world with this status, and no op wrote the status -/
  | initial (s₀ : Setting) (h : s₀ ∈ ws0.w.settings) (hkey : settingKey s₀ = settingKey s)
      (hst : (s₀.status, s₀.error) = (s.status, s.error))
      (hq : ∀ op ∈ ops, op.leavesStatus s.ns s.name)
      (hspec : (∀ op ∈ ops, op.leavesKey s.ns s.name) → s₀ = s)
  /-- the status is the empty one the API server stored for the last `applySetting` of its key -/
  | applied (pre post : List OpS) (x : Setting) (h : ops = pre ++ .applySetting x :: post)
      (hkey : settingKey x = settingKey s)
      (hq : ∀ op ∈ post, op.leavesStatus s.ns s.name) (hst : (s.status, s.error) = ("", ""))
      (hspec : (∀ op ∈ post, op.leavesKey s.ns s.name) → s = storedSetting x)
  /-- the status was written by the last reconcile of its key: the verdict on the world of THAT moment
  (`runS ws0 pre`), for the object `inst` stored under the key then -/
  | reconciled (pre post : List OpS) (inst : Setting)
      (h : ops = pre ++ .reconcileSetting s.ns s.name :: post)
      (hq : ∀ op ∈ post, op.leavesStatus s.ns s.name)
      (hfind : findSetting (runS ws0 pre).w.settings s.ns s.name = some inst)
      (hst : settingReconcile inst (runS ws0 pre).w.nodes (settingsOfNs (runS ws0 pre).w.settings s.ns)
        = (s.status, s.error))
      (hspec : (∀ op ∈ post, op.leavesKey s.ns s.name) → sameSpec inst s)

/-- one more op that leaves the status alone: `s'` is the object under the key after it. -/
theorem Provenance.snoc {ws0 : WorldS} {ops : List OpS} {s : Setting} (h : Provenance ws0 ops s)
    (op : OpS) (s' : Setting) (hkey' : settingKey s' = settingKey s)
    (hst' : (s'.status, s'.error) = (s.status, s.error))
    (hop : op.leavesStatus s.ns s.name) (heq : op.leavesKey s.ns s.name → s' = s) :
    Provenance ws0 (ops ++ [op]) s' := by
  have hns : s'.ns = s.ns := congrArg Prod.fst hkey'
  have hname : s'.name = s.name := congrArg Prod.snd hkey'
  have hq' : ∀ (post : List OpS), (∀ o ∈ post, o.leavesStatus s.ns s.name) →
      ∀ o ∈ post ++ [op], o.leavesStatus s'.ns s'.name := by
    intro post hq o ho
    rw [hns, hname]
    rcases List.mem_append.mp ho with ho | ho
    · exact hq o ho
    · rw [List.mem_singleton.mp ho]; exact hop
  have hk' : ∀ (post : List OpS), (∀ o ∈ post ++ [op], o.leavesKey s'.ns s'.name) →
      (∀ o ∈ post, o.leavesKey s.ns s.name) ∧ s' = s := by
    intro post hq
    rw [hns, hname] at hq
    exact ⟨fun o ho => hq o (List.mem_append_left _ ho),
      heq (hq op (List.mem_append_right _ List.mem_cons_self))⟩
  cases h with
  | initial s₀ h hkey hst hq hspec =>
    exact .initial s₀ h (hkey.trans hkey'.symm) (hst.trans hst'.symm) (hq' ops hq)
      (fun hall => by obtain ⟨h1, h2⟩ := hk' ops hall; rw [h2]; exact hspec h1)
  | applied pre post x h hkey hq hst hspec =>
    exact .applied pre (post ++ [op]) x (by rw [h, List.append_assoc]; rfl) (hkey.trans hkey'.symm)
      (hq' post hq) (hst'.trans hst)
      (fun hall => by obtain ⟨h1, h2⟩ := hk' post hall; rw [h2]; exact hspec h1)
  | reconciled pre post inst h hq hfind hst hspec =>
    refine .reconciled pre (post ++ [op]) inst ?_ (hq' post hq) ?_ ?_
      (fun hall => by obtain ⟨h1, h2⟩ := hk' post hall; rw [h2]; exact hspec h1)
    · rw [h, List.append_assoc, hns, hname]; rfl
    · rw [hns, hname]; exact hfind
    · rw [hns, hst']; exact hst

/-- the special case of an op that leaves the object alone. -/
theorem Provenance.snoc_same {ws0 : WorldS} {ops : List OpS} {s : Setting} (h : Provenance ws0 ops s)
    (op : OpS) (hop : op.leavesKey s.ns s.name) : Provenance ws0 (ops ++ [op]) s :=
  h.snoc op s rfl rfl hop.leavesStatus (fun _ => rfl)

theorem list_snoc_induction {α : Type} {P : List α → Prop} (hnil : P [])
    (hsnoc : ∀ l a, P l → P (l ++ [a])) : ∀ l, P l := by
  intro l
  have : ∀ r : List α, P r.reverse := by
    intro r
    induction r with
    | nil => exact hnil
    | cons a r ih => rw [List.reverse_cons]; exact hsnoc _ _ ih
  have h := this l.reverse
  rwa [List.reverse_reverse] at h

theorem L3S_keysNodup_runS (ws : WorldS) (ops : List OpS) (hk : SettingKeysNodup ws.w) :
    SettingKeysNodup (runS ws ops).w := by
  induction ops generalizing ws with
  | nil => exact hk
  | cons o ops ih => exact ih (stepS ws o) (keysNodup_stepS ws o hk)

/-- **Provenance of every stored status** (no settled hypothesis, any initial world with unique
keys): the status of an object of the world after any run is the one its key had initially (never
written since), or the empty one stored by the last `applySetting` of its key, or the verdict of the
LAST reconcile of its key on the world of that moment. -/
theorem L3S_status_provenance (ws0 : WorldS) (hk : SettingKeysNodup ws0.w) (ops : List OpS) :
    ∀ s ∈ (runS ws0 ops).w.settings, Provenance ws0 ops s := by
  induction ops using list_snoc_induction with
  | hnil =>
    exact fun s hs => .initial s hs rfl rfl (fun _ h => by cases h) (fun _ => rfl)
  | hsnoc ops op ih =>
    intro s hs
    rw [runS_append] at hs
    have hkn : SettingKeysNodup (runS ws0 ops).w := L3S_keysNodup_runS ws0 ops hk
    cases op with
    | cluster o =>
      have : (stepS (runS ws0 ops) (.cluster o)).w.settings = (runS ws0 ops).w.settings := step_settings _ o
      rw [this] at hs
      exact (ih s hs).snoc_same _ trivial
    | reconcileSetting ns name =>
      change s ∈ reconcileSettingIn (runS ws0 ops).w.nodes (runS ws0 ops).w.settings ns name at hs
      rcases reconcileSettingIn_spec _ hkn ns name s hs with ⟨hkey, hmem⟩ | ⟨hkey, hsome, ⟨t₀, ht₀, hspec, hst⟩, _⟩
      · refine (ih s hmem).snoc_same _ ?_
        intro e
        rw [(hasKey_iff _ _ _).mpr e.symm] at hkey
        cases hkey
      · have hks : settingKey s = (ns, name) := (hasKey_iff _ _ _).mp hkey
        have hns : s.ns = ns := congrArg Prod.fst hks
        have hname : s.name = name := congrArg Prod.snd hks
        subst hns hname
        cases hf : findSetting (runS ws0 ops).w.settings s.ns s.name with
        | none => rw [hf] at hsome; cases hsome
        | some inst =>
          obtain ⟨hi, hik⟩ := findSetting_some hf
          have : inst = t₀ := eq_of_key_eq_of_nodup hkn hi ht₀ (by
            rw [hik]; unfold settingKey; rw [hspec.1, hspec.2.1])
          subst this
          exact .reconciled ops [] inst rfl (fun _ h => by cases h) hf hst.symm (fun _ => hspec)
    | applySetting x =>
      change s ∈ applySettingIn (runS ws0 ops).w.settings x at hs
      rcases mem_applySettingIn hs with ⟨hmem, hne⟩ | he
      · exact (ih s hmem).snoc_same _ (fun e => hne e.symm)
      · exact .applied ops [] x rfl (by rw [he]; rfl) (fun _ h => by cases h) (by rw [he]; rfl) (fun _ => he)
    | deleteSetting ns name =>
      change s ∈ deleteSettingIn (runS ws0 ops).w.settings ns name at hs
      obtain ⟨hmem, hkey⟩ := List.mem_filter.mp hs
      refine (ih s hmem).snoc_same _ ?_
      intro e
      rw [(hasKey_iff _ _ _).mpr e.symm] at hkey
      cases hkey
    | updateSetting x =>
      change s ∈ updateSettingIn (runS ws0 ops).w.settings x at hs
      rcases mem_updateSettingIn hs with ⟨hmem, hne⟩ | ⟨old, hold, hkold, rfl⟩
      · exact (ih s hmem).snoc_same _ (fun e => hne e.symm)
      · -- the status is the one of the old object under the key
        have hk' : settingKey (updatedSetting x old) = settingKey old := hkold.symm
        refine (ih old hold).snoc _ _ hk' rfl trivial ?_
        intro hleave
        exact absurd (hkold.symm ▸ rfl : settingKey x = (old.ns, old.name)) hleave

/-- **A stored `valid` was a valid verdict** (unconditional safety, no settled hypothesis). Start in
any world with unique keys in which no setting is stored `valid`; after any run, the status of a
setting `s` stored `valid` was last written by a reconcile of its key —
`ops = pre ++ reconcileSetting s.ns s.name :: post`, nothing in `post` writes that status — and `valid`
is the verdict that reconcile computed for the object `inst` stored under the key at that moment, on the
nodes and the settings of its namespace of THAT world.  If moreover no `updateSetting` edited the object
since, `inst` has the spec of `s`. -/
theorem L3S_valid_was_valid (w0 : World) (hk : SettingKeysNodup w0)
    (h0 : ∀ s ∈ w0.settings, s.status ≠ "valid") (ops : List OpS)
    (s : Setting) (hs : s ∈ (runS (initS w0) ops).w.settings) (hv : s.status = "valid") :
    ∃ pre post inst, ops = pre ++ .reconcileSetting s.ns s.name :: post ∧
      (∀ op ∈ post, op.leavesStatus s.ns s.name) ∧
      findSetting (runS (initS w0) pre).w.settings s.ns s.name = some inst ∧
      (settingReconcile inst (runS (initS w0) pre).w.nodes
        (settingsOfNs (runS (initS w0) pre).w.settings s.ns)).1 = "valid" ∧
      ((∀ op ∈ post, op.leavesKey s.ns s.name) → sameSpec inst s) := by
  cases L3S_status_provenance (initS w0) hk ops s hs with
  | initial s₀ h _ hst _ _ =>
    have : s₀.status = s.status := congrArg Prod.fst hst
    exact absurd (this.trans hv) (h0 s₀ h)
  | applied pre post x _ _ _ hst _ =>
    have : s.status = "" := congrArg Prod.fst hst
    rw [this] at hv
    exact absurd hv (by decide)
  | reconciled pre post inst h hq hfind hst hspec =>
    exact ⟨pre, post, inst, h, hq, hfind, by rw [hst]; exact hv, hspec⟩

/-! ## 4. the window before settling

Two stored-`valid` settings CAN match one node before the namespace is settled
(`ExL3S.L3S_transient_overlap`, section 7): the older setting was reconciled before the newer one
existed and keeps its `valid` until ITS next reconcile; a `setNodes` (a node gaining a label) or an
`updateSetting` (status kept) open the same window.  Nothing in the machine bounds the window — and in
the real controller nothing closes it promptly: `SetupWithManager` registers
`For(&ExtendedDaemonsetSetting{})` only (controllers/extendeddaemonsetsetting_controller.go), so a
reconcile of a setting is triggered by events on THAT setting (and the periodic resync), not by the
creation of another setting nor by node changes.  In the window the replica-set sync is still
well-behaved in the sense of `L3S_node_gets_at_most_one` below, but WHICH stored-`valid` setting a node
gets is decided by the list order (`chooseSetting`: first match), not by `C18_winner`.

The hypothesis `n ∈ ws.w.nodes` of the settled theorems is necessary as well: the controller only
checks overlaps on existing nodes (example "a node change opens a window too", section 7). -/

/-- **What the replica-set sync attaches, in EVERY world (settled or not).** When `getNodeList`
succeeds, the listed nodes are (a sublist of) the nodes of the world, each listed node gets exactly
one item, an item carries at most one setting (`Option`), and the setting attached is an object of
the world, of the daemonset's namespace, stored `valid`, referencing the daemonset and matching the
node.  (Which of several stored-`valid` matching settings is attached in an unsettled world: the
first in list order, `chooseSetting`; examples in section 7.) -/
theorem L3S_node_gets_at_most_one (ws : WorldS) (rs : ERS) (items : List NodeItem)
    (h : ersNodeItems ws.w.eds rs ws.w.store = some items) :
    (items.map (·.node.name)).Sublist (ws.w.nodes.map (·.name)) ∧
    ∀ it ∈ items, it.node ∈ ws.w.nodes ∧ ∀ s, it.setting = some s →
      s ∈ ws.w.settings ∧ s.ns = ws.w.eds.ns ∧ s.status = "valid" ∧
      s.reference = some ws.w.eds.name ∧ settingMatches s it.node.labels = some true := by
  refine ⟨ersNodeItems_names_sublist _ _ _ _ h, fun it hit => ⟨ersNodeItems_mem _ _ _ _ h it hit, ?_⟩⟩
  intro s hsome
  unfold ersNodeItems at h
  simp only [] at h
  split at h
  · cases h
  · rename_i ns hns
    obtain ⟨n, _, hf⟩ := mapM_option_mem _ ns items h it hit
    cases hc : chooseSetting ws.w.eds.name (ws.w.store.settings.filter (fun s => s.ns == ws.w.eds.ns)) n with
    | none => rw [hc] at hf; cases hf
    | some o =>
      rw [hc] at hf
      simp only [Option.map_some, Option.some.injEq] at hf
      subst hf
      simp only at hsome
      subst hsome
      obtain ⟨hv, href, hm, hmem⟩ := C18_only_valid_used _ _ _ _ hc
      obtain ⟨hmem1, hmem2⟩ := List.mem_filter.mp hmem
      exact ⟨hmem1, eq_of_beq hmem2, hv, href, hm⟩

theorem eq_of_map_eq_of_nodup {α β : Type} (f : α → β) {l : List α} (h : (l.map f).Nodup) {a b : α}
    (ha : a ∈ l) (hb : b ∈ l) (hab : f a = f b) : a = b := by
  induction l with
  | nil => cases ha
  | cons q rest ih =>
    simp only [List.map_cons, List.nodup_cons, List.mem_map, not_exists, not_and] at h
    simp only [List.mem_cons] at ha hb
    rcases ha with rfl | ha <;> rcases hb with rfl | hb
    · rfl
    · exact absurd hab.symm (h.1 b hb)
    · exact absurd hab (h.1 a ha)
    · exact ih h.2 ha hb

/-- … hence, node names being unique, ONE item and so at most ONE setting per node name. -/
theorem L3S_one_item_per_node (ws : WorldS) (rs : ERS) (items : List NodeItem)
    (h : ersNodeItems ws.w.eds rs ws.w.store = some items)
    (hnn : (ws.w.nodes.map (·.name)).Nodup)
    (it1 it2 : NodeItem) (h1 : it1 ∈ items) (h2 : it2 ∈ items) (hn : it1.node.name = it2.node.name) :
    it1 = it2 :=
  eq_of_map_eq_of_nodup (·.node.name)
    (List.Nodup.sublist (L3S_node_gets_at_most_one ws rs items h).1 hnn) h1 h2 hn

/-! ## 5. frame -/

/-- a setting op changes nothing but `settings`. -/
theorem L3S_setting_ops_frame (ws : WorldS) (op : OpS) (h : ∀ o, op ≠ .cluster o) :
    (stepS ws op).w = { ws.w with settings := (stepS ws op).w.settings } := by
  cases op with
  | cluster o => exact absurd rfl (h o)
  | reconcileSetting _ _ => rfl
  | applySetting _ => rfl
  | deleteSetting _ _ => rfl
  | updateSetting _ => rfl

/-- … field by field. -/
theorem L3S_setting_ops_frame_fields (ws : WorldS) (op : OpS) (h : ∀ o, op ≠ .cluster o) :
    (stepS ws op).w.eds = ws.w.eds ∧ (stepS ws op).w.erss = ws.w.erss ∧ (stepS ws op).w.pods = ws.w.pods ∧
    (stepS ws op).w.nodes = ws.w.nodes ∧ (stepS ws op).w.daemonsets = ws.w.daemonsets ∧
    (stepS ws op).w.now = ws.w.now := by
  rw [L3S_setting_ops_frame ws op h]
  exact ⟨rfl, rfl, rfl, rfl, rfl, rfl⟩

/-- an op of the L3 machine acts as in L3 and leaves the settings alone. -/
theorem L3S_cluster_ops_frame (ws : WorldS) (o : Op) :
    (stepS ws (.cluster o)).w = step ws.w o ∧ (stepS ws (.cluster o)).w.settings = ws.w.settings :=
  ⟨rfl, step_settings ws.w o⟩

/-- a predicate on worlds that does not look at the settings. -/
def SettingsBlind (P : World → Prop) : Prop :=
  ∀ (w : World) (ss : List Setting), P { w with settings := ss } ↔ P w

/-- the side condition `C` of an L3 step theorem, asked of the L3 ops only. -/
def OpS.onCluster (C : World → Op → Prop) (ws : WorldS) : OpS → Prop
  | .cluster op => C ws.w op
  | _ => True

def RunOkS (C : World → Op → Prop) : WorldS → List OpS → Prop
  | _, [] => True
  | ws, op :: ops => op.onCluster C ws ∧ RunOkS C (stepS ws op) ops

instance OpS.onCluster.dec {C : World → Op → Prop} [∀ w op, Decidable (C w op)] (ws : WorldS) :
    ∀ op : OpS, Decidable (op.onCluster C ws)
  | .cluster op => inferInstanceAs (Decidable (C ws.w op))
  | .reconcileSetting _ _ => isTrue trivial
  | .applySetting _ => isTrue trivial
  | .deleteSetting _ _ => isTrue trivial
  | .updateSetting _ => isTrue trivial

instance RunOkS.dec {C : World → Op → Prop} [∀ w op, Decidable (C w op)] :
    ∀ (ws : WorldS) (ops : List OpS), Decidable (RunOkS C ws ops)
  | _, [] => isTrue trivial
  | ws, op :: ops => @instDecidableAnd _ _ (OpS.onCluster.dec ws op) (RunOkS.dec (stepS ws op) ops)

/-- **Frame lemma**: every settings-blind step invariant of the L3 machine is a step invariant of the
extended machine (side condition on the L3 ops only). -/
theorem L3S_lift_stepS {P : World → Prop} {C : World → Op → Prop} (hb : SettingsBlind P)
    (hstep : ∀ w op, P w → C w op → P (step w op))
    (ws : WorldS) (op : OpS) (h : P ws.w) (hc : op.onCluster C ws) : P (stepS ws op).w := by
  cases op with
  | cluster o => exact hstep ws.w o h hc
  | reconcileSetting ns name => exact (hb ws.w _).mpr h
  | applySetting s => exact (hb ws.w _).mpr h
  | deleteSetting ns name => exact (hb ws.w _).mpr h
  | updateSetting s => exact (hb ws.w _).mpr h

theorem L3S_lift_runS {P : World → Prop} {C : World → Op → Prop} (hb : SettingsBlind P)
    (hstep : ∀ w op, P w → C w op → P (step w op)) :
    ∀ (ops : List OpS) (ws : WorldS), P ws.w → RunOkS C ws ops → P (runS ws ops).w := by
  intro ops
  induction ops with
  | nil => intro ws h _; exact h
  | cons op ops ih =>
    intro ws h hok
    exact ih _ (L3S_lift_stepS hb hstep ws op h hok.1) hok.2

theorem RunOkS_true (ws : WorldS) (ops : List OpS) : RunOkS (fun _ _ => True) ws ops := by
  induction ops generalizing ws with
  | nil => trivial
  | cons op ops ih =>
    refine ⟨?_, ih _⟩
    cases op <;> trivial

theorem HashesNodup_blind : SettingsBlind HashesNodup := fun _ _ => Iff.rfl
theorem NamesNodup_blind : SettingsBlind NamesNodup := fun _ _ => Iff.rfl
theorem CanaryNodup_blind : SettingsBlind CanaryNodup := fun _ _ => Iff.rfl

/-- C13 one replica set per template: preserved by every step of the extended machine. -/
theorem L3S_hashesNodup_stepS (ws : WorldS) (op : OpS) (h : HashesNodup ws.w) : HashesNodup (stepS ws op).w := by
  apply L3S_lift_stepS (C := fun _ _ => True) HashesNodup_blind
    (fun w op h _ => L3_hashesNodup_step w op h) ws op h
  cases op <;> trivial

/-- unique replica-set names: preserved when the L3 ops are fresh (`OpFresh`, as in L3). -/
theorem L3S_namesNodup_stepS (ws : WorldS) (op : OpS) (h : NamesNodup ws.w) (hf : op.onCluster OpFresh ws) :
    NamesNodup (stepS ws op).w :=
  L3S_lift_stepS NamesNodup_blind L3_namesNodup_step ws op h hf

/-- C15/C04 the canary node list has no duplicates: preserved by every step. -/
theorem L3S_canaryNodup_stepS (ws : WorldS) (op : OpS) (h : CanaryNodup ws.w) : CanaryNodup (stepS ws op).w := by
  apply L3S_lift_stepS (C := fun _ _ => True) CanaryNodup_blind
    (fun w op h _ => L3_canaryNodup_step w op h) ws op h
  cases op <;> trivial

theorem L3S_one_per_template (ws : WorldS) (ops : List OpS) (h : HashesNodup ws.w) : HashesNodup (runS ws ops).w :=
  L3S_lift_runS (C := fun _ _ => True) HashesNodup_blind (fun w op h _ => L3_hashesNodup_step w op h)
    ops ws h (RunOkS_true ws ops)

theorem L3S_names_nodup (ws : WorldS) (ops : List OpS) (h : NamesNodup ws.w) (hf : RunOkS OpFresh ws ops) :
    NamesNodup (runS ws ops).w :=
  L3S_lift_runS NamesNodup_blind L3_namesNodup_step ops ws h hf

theorem L3S_canary_nodup (ws : WorldS) (ops : List OpS) (h : CanaryNodup ws.w) : CanaryNodup (runS ws ops).w :=
  L3S_lift_runS (C := fun _ _ => True) CanaryNodup_blind (fun w op h _ => L3_canaryNodup_step w op h)
    ops ws h (RunOkS_true ws ops)

/-! ## 6. the ghost flag means what it says: settledness as a predicate on the op list -/

/-- `op` cannot change a verdict in namespace `ns`: it is not a `setNodes`, and not an
`applySetting` / `updateSetting` / `deleteSetting` in `ns`. -/
def OpS.quietFor (ns : String) : OpS → Prop
  | .cluster (.setNodes _) => False
  | .cluster _ => True
  | .reconcileSetting _ _ => True
  | .applySetting s => s.ns ≠ ns
  | .deleteSetting ns' _ => ns' ≠ ns
  | .updateSetting s => s.ns ≠ ns

/-- the key `ns/name` has been reconciled in `ops` and nothing after that reconcile can change a
verdict in `ns`. -/
def ReconciledSince (ops : List OpS) (ns name : String) : Prop :=
  ∃ pre post, ops = pre ++ .reconcileSetting ns name :: post ∧ ∀ op ∈ post, op.quietFor ns

theorem fresh_stepS_of_quiet (ws : WorldS) (op : OpS) (k : String × String) (hk : k ∈ ws.fresh)
    (hq : op.quietFor k.1) : k ∈ (stepS ws op).fresh := by
  cases op with
  | cluster o =>
    cases o with
    | setNodes _ => exact hq.elim
    | reconcileEds _ _ => exact hk
    | reconcileErs _ _ _ => exact hk
    | kubelet _ => exact hk
    | userSpec _ _ _ _ => exact hk
    | tick _ => exact hk
  | reconcileSetting ns name =>
    show k ∈ (if (findSetting ws.w.settings ns name).isSome then (ns, name) :: ws.fresh else ws.fresh)
    split
    · exact List.mem_cons_of_mem _ hk
    · exact hk
  | applySetting s => exact mem_dropNs.mpr ⟨hk, fun e => hq e.symm⟩
  | deleteSetting ns name => exact mem_dropNs.mpr ⟨hk, fun e => hq e.symm⟩
  | updateSetting s => exact mem_dropNs.mpr ⟨hk, fun e => hq e.symm⟩

theorem fresh_runS_of_quiet (post : List OpS) (ws : WorldS) (k : String × String) (hk : k ∈ ws.fresh)
    (hq : ∀ op ∈ post, op.quietFor k.1) : k ∈ (runS ws post).fresh := by
  induction post generalizing ws with
  | nil => exact hk
  | cons op post ih =>
    exact ih (stepS ws op) (fresh_stepS_of_quiet ws op k hk (hq op List.mem_cons_self))
      (fun o ho => hq o (List.mem_cons_of_mem _ ho))

/-- a quiet op creates no key in the namespace. -/
theorem key_back_stepS_of_quiet (ws : WorldS) (op : OpS) (t : Setting) (ht : t ∈ (stepS ws op).w.settings)
    (hq : op.quietFor t.ns) : ∃ t' ∈ ws.w.settings, settingKey t' = settingKey t := by
  cases op with
  | cluster o =>
    have : (stepS ws (.cluster o)).w.settings = ws.w.settings := step_settings _ o
    rw [this] at ht
    exact ⟨t, ht, rfl⟩
  | reconcileSetting ns name =>
    change t ∈ reconcileSettingIn ws.w.nodes ws.w.settings ns name at ht
    obtain ⟨a, ha, hab⟩ := Forall₂.exists_left (reconcileSettingIn_sameSpecs ws.w.nodes ws.w.settings ns name) ht
    refine ⟨a, ha, ?_⟩
    unfold settingKey
    rw [hab.1, hab.2.1]
  | applySetting s =>
    change t ∈ applySettingIn ws.w.settings s at ht
    exact ⟨t, mem_applySettingIn_other ht (fun e => hq e.symm), rfl⟩
  | deleteSetting ns name =>
    change t ∈ deleteSettingIn ws.w.settings ns name at ht
    exact ⟨t, (List.mem_filter.mp ht).1, rfl⟩
  | updateSetting s =>
    change t ∈ updateSettingIn ws.w.settings s at ht
    exact ⟨t, mem_updateSettingIn_other ht (fun e => hq e.symm), rfl⟩

theorem key_back_runS_of_quiet (post : List OpS) (ws : WorldS) (t : Setting)
    (ht : t ∈ (runS ws post).w.settings) (hq : ∀ op ∈ post, op.quietFor t.ns) :
    ∃ t' ∈ ws.w.settings, settingKey t' = settingKey t := by
  induction post generalizing ws with
  | nil => exact ⟨t, ht, rfl⟩
  | cons op post ih =>
    obtain ⟨t1, ht1, hk1⟩ := ih (stepS ws op) ht (fun o ho => hq o (List.mem_cons_of_mem _ ho))
    have hns : t1.ns = t.ns := congrArg Prod.fst hk1
    obtain ⟨t2, ht2, hk2⟩ := key_back_stepS_of_quiet ws op t1 ht1 (by rw [hns]; exact hq op List.mem_cons_self)
    exact ⟨t2, ht2, hk2.trans hk1⟩

/-- **The flag is set whenever the op list says so**: a setting of the final world whose key was
reconciled at some point of the run, with only quiet ops for its namespace after that, is fresh. -/
theorem L3S_fresh_of_reconciled_since (ws0 : WorldS) (ops : List OpS) (s : Setting)
    (hs : s ∈ (runS ws0 ops).w.settings) (h : ReconciledSince ops s.ns s.name) :
    settingKey s ∈ (runS ws0 ops).fresh := by
  obtain ⟨pre, post, rfl, hq⟩ := h
  rw [runS_append', runS_cons] at hs ⊢
  obtain ⟨t1, ht1, hk1⟩ := key_back_runS_of_quiet post _ s hs hq
  obtain ⟨t2, ht2, hk2⟩ := key_back_stepS_of_quiet (runS ws0 pre) (.reconcileSetting s.ns s.name) t1 ht1 trivial
  have hsome := findSetting_isSome_of_mem ht2 (hk2.trans hk1)
  apply fresh_runS_of_quiet post _ (settingKey s) _ hq
  show settingKey s ∈ (if (findSetting (runS ws0 pre).w.settings s.ns s.name).isSome
    then (s.ns, s.name) :: (runS ws0 pre).fresh else (runS ws0 pre).fresh)
  rw [if_pos hsome]
  exact List.mem_cons_self

/-- **Settled, said on the op list**: if every setting of namespace `ns` of the final world has been
reconciled since the last `applySetting` / `updateSetting` / `deleteSetting` in `ns` and the last `setNodes`, the world
is `SettledNs`. -/
theorem L3S_settled_of_ops (ws0 : WorldS) (ops : List OpS) (ns : String)
    (h : ∀ s ∈ (runS ws0 ops).w.settings, s.ns = ns → ReconciledSince ops s.ns s.name) :
    SettledNs (runS ws0 ops) ns :=
  fun s hs hns => L3S_fresh_of_reconciled_since ws0 ops s hs (h s hs hns)

/-- **C18 along runs, stated on the op list only** (no ghost state in the statement): start anywhere
with unique keys; if after `ops` every setting of namespace `ns` has been reconciled since the last
`applySetting` / `updateSetting` / `deleteSetting` in `ns` and the last `setNodes`, then for every node at most one
setting of `ns` matching the node is stored `valid`. -/
theorem L3S_settled_at_most_one_valid_ops (w0 : World) (hk : SettingKeysNodup w0) (ops : List OpS) (ns : String)
    (hset : ∀ s ∈ (runS (initS w0) ops).w.settings, s.ns = ns → ReconciledSince ops s.ns s.name)
    (n : Node) (hn : n ∈ (runS (initS w0) ops).w.nodes) (s t : Setting)
    (hs : s ∈ (runS (initS w0) ops).w.settings) (ht : t ∈ (runS (initS w0) ops).w.settings)
    (hsns : s.ns = ns) (htns : t.ns = ns)
    (hvs : s.status = "valid") (hvt : t.status = "valid")
    (hms : settingMatches s n.labels = some true) (hmt : settingMatches t n.labels = some true) :
    s = t :=
  L3S_settled_at_most_one_valid _ ⟨w0, ops, hk, rfl⟩ ns (L3S_settled_of_ops _ ops ns hset)
    n hn s t hs ht hsns htns hvs hvt hms hmt

instance (ns name : String) (op : OpS) : Decidable (op.leavesKey ns name) :=
  match op with
  | .cluster _ => isTrue trivial
  | .reconcileSetting ns' name' => inferInstanceAs (Decidable ((ns', name') ≠ (ns, name)))
  | .applySetting s => inferInstanceAs (Decidable (settingKey s ≠ (ns, name)))
  | .deleteSetting ns' name' => inferInstanceAs (Decidable ((ns', name') ≠ (ns, name)))
  | .updateSetting s => inferInstanceAs (Decidable (settingKey s ≠ (ns, name)))

instance (ns name : String) (op : OpS) : Decidable (op.leavesStatus ns name) :=
  match op with
  | .cluster _ => isTrue trivial
  | .reconcileSetting ns' name' => inferInstanceAs (Decidable ((ns', name') ≠ (ns, name)))
  | .applySetting s => inferInstanceAs (Decidable (settingKey s ≠ (ns, name)))
  | .deleteSetting ns' name' => inferInstanceAs (Decidable ((ns', name') ≠ (ns, name)))
  | .updateSetting _ => isTrue trivial

instance (ns : String) (op : OpS) : Decidable (op.quietFor ns) :=
  match op with
  | .cluster (.setNodes _) => isFalse (fun h => h)
  | .cluster (.reconcileEds _ _) => isTrue trivial
  | .cluster (.reconcileErs _ _ _) => isTrue trivial
  | .cluster (.kubelet _) => isTrue trivial
  | .cluster (.userSpec _ _ _ _) => isTrue trivial
  | .cluster (.tick _) => isTrue trivial
  | .reconcileSetting _ _ => isTrue trivial
  | .applySetting s => inferInstanceAs (Decidable (s.ns ≠ ns))
  | .deleteSetting ns' _ => inferInstanceAs (Decidable (ns' ≠ ns))
  | .updateSetting s => inferInstanceAs (Decidable (s.ns ≠ ns))

end Eds

/-! ## 7. Examples (non-vacuity) and the transient overlap -/
namespace Eds.ExL3S
open Eds Eds.ClusterS Eds.Cluster Eds.Spec.C18

def nodeA : Node := exNode15 "node-a" [⟨"pool", "a"⟩]
def nodeC : Node := exNode15 "node-c" [⟨"pool", "c"⟩]

/-- the cluster of `EdsProps/L3.lean` (daemonset `ns/ds`) with two labelled nodes and no setting. -/
def wS0 : World := { ExL3.w0 with nodes := [nodeA, nodeC], settings := [] }

/-- pool=a, created at 10. -/
def sOld : Setting := ⟨"old", "ns", 10, some "ds", ⟨[⟨"pool", "a"⟩], []⟩, false, [], "", ""⟩
/-- selects every node, created at 20: overlaps `sOld` on `node-a` and is the newer one. -/
def sNew : Setting := ⟨"new", "ns", 20, some "ds", ⟨[], []⟩, false, [], "", ""⟩

/-- `old` is applied and reconciled (valid, alone); `new` is applied and reconciled: it is the newest,
sees no conflict and becomes valid. `old` has NOT been reconciled since. -/
def opsWindow : List OpS :=
  [.applySetting sOld, .reconcileSetting "ns" "old", .applySetting sNew, .reconcileSetting "ns" "new"]

/-- … then `old` is reconciled. -/
def opsSettled : List OpS := opsWindow ++ [.reconcileSetting "ns" "old"]

example : (wS0.eds.ns, wS0.eds.name) = ("ns", "ds") ∧ SettingKeysNodup wS0 := by decide

/-- the window: both are stored `valid`, `old` is stale. -/
example :
    (runS (initS wS0) opsWindow).w.settings = [{ sOld with status := "valid" }, { sNew with status := "valid" }] ∧
    (runS (initS wS0) opsWindow).fresh = [("ns", "new")] ∧
    ¬ SettledNs (runS (initS wS0) opsWindow) "ns" := by decide

/-- **Transient overlap (answer to "can two valid settings match one node before settling?": YES).**
A concrete run from a cluster without settings after which two different settings of one namespace are
both stored `valid` and both match a node of the cluster; the namespace is not settled (the older one
was reconciled before the newer one existed, and stays `valid` until ITS next reconcile). -/
theorem L3S_transient_overlap :
    ∃ (w0 : World) (ops : List OpS) (n : Node) (s t : Setting),
      SettingKeysNodup w0 ∧ w0.settings = [] ∧
      n ∈ (runS (initS w0) ops).w.nodes ∧
      s ∈ (runS (initS w0) ops).w.settings ∧ t ∈ (runS (initS w0) ops).w.settings ∧
      s.ns = t.ns ∧ s ≠ t ∧ s.status = "valid" ∧ t.status = "valid" ∧
      settingMatches s n.labels = some true ∧ settingMatches t n.labels = some true ∧
      ¬ SettledNs (runS (initS w0) ops) s.ns :=
  ⟨wS0, opsWindow, nodeA, { sOld with status := "valid" }, { sNew with status := "valid" }, by decide⟩

/-- the statement of `L3S_settled_at_most_one_valid` WITHOUT the settled hypothesis is false. -/
theorem L3S_settled_at_most_one_valid_unsettled_false :
    ¬ (∀ (ws : WorldS), ReachableS ws → ∀ (n : Node), n ∈ ws.w.nodes → ∀ (s t : Setting),
        s ∈ ws.w.settings → t ∈ ws.w.settings → s.ns = t.ns →
        s.status = "valid" → t.status = "valid" →
        settingMatches s n.labels = some true → settingMatches t n.labels = some true → s = t) := by
  intro h
  obtain ⟨w0, ops, n, s, t, hk, _, hn, hs, ht, hns, hne, hvs, hvt, hms, hmt, _⟩ := L3S_transient_overlap
  exact hne (h _ ⟨w0, ops, hk, rfl⟩ n hn s t hs ht hns hvs hvt hms hmt)

/-- **What the replica-set sync does in the window**: it attaches ONE setting to `node-a` — the first
stored-`valid` match in list order, here `old`, the one that is about to be put in error; `node-c`
gets `new`. (`L3S_node_gets_at_most_one`: valid, of the namespace, referencing the daemonset,
matching.) -/
example :
    (ersNodeItems wS0.eds (ExReconcile.rs "ds-a" "h1" 3 []) (runS (initS wS0) opsWindow).w.store).map
      (·.map (fun it => (it.node.name, it.setting.map (·.name))))
      = some [("node-a", some "old"), ("node-c", some "new")] := by decide

/-- … and the choice in the window depends on the order in which the API server lists the settings
(contrast `L3S_settled_choice`). -/
example :
    chooseSetting "ds" [{ sOld with status := "valid" }, { sNew with status := "valid" }] nodeA
      = some (some { sOld with status := "valid" }) ∧
    chooseSetting "ds" [{ sNew with status := "valid" }, { sOld with status := "valid" }] nodeA
      = some (some { sNew with status := "valid" }) := by decide

/-- **Settling**: once `old` is reconciled it reports the conflict; every setting is fresh; exactly one
valid setting matches `node-a`, the newest (`L3S_winner`); the sync now attaches `new` to both nodes. -/
example :
    (runS (initS wS0) opsSettled).w.settings =
      [{ sOld with status := "error", error := "conflict with another ExtendedDaemonsetSetting: new" },
       { sNew with status := "valid" }] ∧
    SettledAfter (runS (initS wS0) opsSettled) ∧ SettledNs (runS (initS wS0) opsSettled) "ns" ∧
    mutualExclusion (settingsOfNs (runS (initS wS0) opsSettled).w.settings "ns")
      (runS (initS wS0) opsSettled).w.nodes (fun s => decide (s.status = "valid")) = true ∧
    mutualExclusion (settingsOfNs (runS (initS wS0) opsWindow).w.settings "ns")
      (runS (initS wS0) opsWindow).w.nodes (fun s => decide (s.status = "valid")) = false ∧
    settingLess sNew sOld = true ∧
    (ersNodeItems wS0.eds (ExReconcile.rs "ds-a" "h1" 3 []) (runS (initS wS0) opsSettled).w.store).map
      (·.map (fun it => (it.node.name, it.setting.map (·.name))))
      = some [("node-a", some "new"), ("node-c", some "new")] := by decide

/-- the theorems applied to that run. -/
example : mutualExclusion (settingsOfNs (runS (initS wS0) opsSettled).w.settings "ns")
    (runS (initS wS0) opsSettled).w.nodes (fun s => decide (s.status = "valid")) = true :=
  L3S_settled_at_most_one_valid_spec _ ⟨wS0, opsSettled, by decide, rfl⟩ "ns" (by decide)

/-- the op-list form of settledness holds for that run (hypothesis of
`L3S_settled_at_most_one_valid_ops`) … -/
example : ReconciledSince opsSettled "ns" "old" ∧ ReconciledSince opsSettled "ns" "new" :=
  ⟨⟨opsWindow, [], rfl, by decide⟩,
   ⟨[.applySetting sOld, .reconcileSetting "ns" "old", .applySetting sNew], [.reconcileSetting "ns" "old"], rfl,
    by decide⟩⟩

/-- … and fails for `old` in the window: the `applySetting sNew` after its reconcile is not quiet. -/
example : ¬ (∀ op ∈ [OpS.applySetting sNew, .reconcileSetting "ns" "new"], op.quietFor "ns") := by decide

/-- `L3S_valid_was_valid` on the window: `old`'s stored `valid` is the verdict of its last reconcile,
computed when `new` did not exist yet. -/
example :
    findSetting (runS (initS wS0) [.applySetting sOld]).w.settings "ns" "old" = some sOld ∧
    (settingReconcile sOld (runS (initS wS0) [.applySetting sOld]).w.nodes
      (settingsOfNs (runS (initS wS0) [.applySetting sOld]).w.settings "ns")).1 = "valid" ∧
    (∀ op ∈ [OpS.applySetting sNew, .reconcileSetting "ns" "new"], op.leavesKey "ns" "old") := by decide

/-- **No window when the overlapping setting is the OLDER one**: `sNew` is valid alone; `sOld` (older)
is then applied and reconciled: it sees `new` before itself and is in error at once — never two valid.
`new` (stale) keeps its correct `valid`. -/
example :
    (runS (initS wS0) [.applySetting sNew, .reconcileSetting "ns" "new", .applySetting sOld,
        .reconcileSetting "ns" "old"]).w.settings =
      [{ sNew with status := "valid" },
       { sOld with status := "error", error := "conflict with another ExtendedDaemonsetSetting: new" }] := by decide

/-- **A node change opens a window too**: with only `node-c` in the cluster `old` (pool=a) matches no
node, both settings are valid and settled; when `node-a` appears (`setNodes`) both stored-`valid`
settings match it, everything is stale, and a reconcile of `old` closes the window. -/
example :
    let ops : List OpS := [.cluster (.setNodes [nodeC]), .applySetting sOld, .applySetting sNew,
      .reconcileSetting "ns" "old", .reconcileSetting "ns" "new"]
    (runS (initS wS0) ops).w.settings = [{ sOld with status := "valid" }, { sNew with status := "valid" }] ∧
    SettledAfter (runS (initS wS0) ops) ∧
    (runS (initS wS0) (ops ++ [.cluster (.setNodes [nodeA, nodeC])])).fresh = [] ∧
    mutualExclusion (runS (initS wS0) (ops ++ [.cluster (.setNodes [nodeA, nodeC])])).w.settings
      [nodeA, nodeC] (fun s => decide (s.status = "valid")) = false ∧
    mutualExclusion (runS (initS wS0) (ops ++ [.cluster (.setNodes [nodeA, nodeC]),
      .reconcileSetting "ns" "old", .reconcileSetting "ns" "new"])).w.settings
      [nodeA, nodeC] (fun s => decide (s.status = "valid")) = true ∧
    SettledAfter (runS (initS wS0) (ops ++ [.cluster (.setNodes [nodeA, nodeC]),
      .reconcileSetting "ns" "old", .reconcileSetting "ns" "new"])) := by decide

/-- **Deleting the winner**: `old` stays in error (stale) until its next reconcile, then is valid. -/
example :
    (runS (initS wS0) (opsSettled ++ [.deleteSetting "ns" "new"])).w.settings =
      [{ sOld with status := "error", error := "conflict with another ExtendedDaemonsetSetting: new" }] ∧
    ¬ SettledNs (runS (initS wS0) (opsSettled ++ [.deleteSetting "ns" "new"])) "ns" ∧
    (runS (initS wS0) (opsSettled ++ [.deleteSetting "ns" "new", .reconcileSetting "ns" "old"])).w.settings =
      [{ sOld with status := "valid" }] ∧
    SettledAfter (runS (initS wS0) (opsSettled ++ [.deleteSetting "ns" "new", .reconcileSetting "ns" "old"])) := by
  decide

/-- **Replacing a setting** keeps its place in the list and resets its status; **another namespace**
does not disturb the settledness of `ns` (`SettledNs` holds, `SettledAfter` does not). -/
example :
    let other : Setting := ⟨"x", "other", 30, some "ds", ⟨[], []⟩, false, [], "valid", "sent by the user"⟩
    (runS (initS wS0) (opsSettled ++ [.applySetting other])).w.settings =
      [{ sOld with status := "error", error := "conflict with another ExtendedDaemonsetSetting: new" },
       { sNew with status := "valid" }, { other with status := "", error := "" }] ∧
    SettledNs (runS (initS wS0) (opsSettled ++ [.applySetting other])) "ns" ∧
    ¬ SettledAfter (runS (initS wS0) (opsSettled ++ [.applySetting other])) ∧
    (runS (initS wS0) (opsSettled ++ [.applySetting { sOld with nodeSelector := ⟨[⟨"pool", "c"⟩], []⟩ }])).w.settings =
      [{ sOld with nodeSelector := ⟨[⟨"pool", "c"⟩], []⟩ }, { sNew with status := "valid" }] := by decide

/-- **Settled, yet a node matched by two well-formed settings has NO valid one**: `mid` (newest on
`node-a`) loses against `top` on `node-z`, and `low` loses against `mid` on `node-a` ("valid" = newest on
EVERY node it matches, `C18_valid_iff_newest`). -/
example :
    let low : Setting := ⟨"low", "ns", 10, some "ds", ⟨[⟨"pool", "a"⟩], []⟩, false, [], "", ""⟩
    let mid : Setting := ⟨"mid", "ns", 20, some "ds", ⟨[], []⟩, false, [], "", ""⟩
    let top : Setting := ⟨"top", "ns", 30, some "ds", ⟨[⟨"zone", "z"⟩], []⟩, false, [], "", ""⟩
    let nodeZ : Node := exNode15 "node-z" [⟨"zone", "z"⟩]
    let ops : List OpS := [.cluster (.setNodes [nodeA, nodeZ]), .applySetting low, .applySetting mid,
      .applySetting top, .reconcileSetting "ns" "top", .reconcileSetting "ns" "low", .reconcileSetting "ns" "mid"]
    SettledAfter (runS (initS wS0) ops) ∧
    (runS (initS wS0) ops).w.settings.map (fun s => (s.name, s.status)) =
      [("low", "error"), ("mid", "error"), ("top", "valid")] ∧
    chooseSetting "ds" (runS (initS wS0) ops).w.settings nodeA = some none := by decide

/-- **`updateSetting` keeps the stored status** (status subresource of the CRD). `a` (pool=a) and `c`
(pool=c, newer) are valid and settled, no overlap. The user widens `a`'s selector to every node: the
object keeps its stored `valid` although this spec was never reconciled, it now overlaps `c` on
`node-c`, and the sync attaches `a` (first in list order) to `node-c`. Settling puts `a` in error.
In `L3S_valid_was_valid` the reconciled object `inst` is then NOT the current spec (the last clause
needs "no `updateSetting` since"). -/
example :
    let a : Setting := ⟨"a", "ns", 10, some "ds", ⟨[⟨"pool", "a"⟩], []⟩, false, [], "", ""⟩
    let c : Setting := ⟨"c", "ns", 20, some "ds", ⟨[⟨"pool", "c"⟩], []⟩, false, [], "", ""⟩
    let a' : Setting := { a with nodeSelector := ⟨[], []⟩, creation := 99, status := "whatever" }
    let ops : List OpS := [.applySetting a, .applySetting c, .reconcileSetting "ns" "a", .reconcileSetting "ns" "c"]
    SettledAfter (runS (initS wS0) ops) ∧
    (runS (initS wS0) ops).w.settings = [{ a with status := "valid" }, { c with status := "valid" }] ∧
    (runS (initS wS0) (ops ++ [.updateSetting a'])).w.settings =
      [{ a with nodeSelector := ⟨[], []⟩, status := "valid" }, { c with status := "valid" }] ∧
    (runS (initS wS0) (ops ++ [.updateSetting a'])).fresh = [] ∧
    chooseSetting "ds" (runS (initS wS0) (ops ++ [.updateSetting a'])).w.settings nodeC =
      some (some { a with nodeSelector := ⟨[], []⟩, status := "valid" }) ∧
    (runS (initS wS0) (ops ++ [.updateSetting a', .reconcileSetting "ns" "c", .reconcileSetting "ns" "a"])).w.settings =
      [{ a with nodeSelector := ⟨[], []⟩, status := "error", error := "conflict with another ExtendedDaemonsetSetting: c" },
       { c with status := "valid" }] ∧
    ¬ sameSpec a { a with nodeSelector := ⟨[], []⟩, status := "valid" } ∧
    ¬ (OpS.updateSetting a').leavesKey "ns" "a" ∧ (OpS.updateSetting a').leavesStatus "ns" "a" := by decide

/-- a reconcile request for a setting that does not exist changes nothing and makes nothing fresh. -/
example : (runS (initS wS0) [.reconcileSetting "ns" "ghost"]).w.settings = [] ∧
    (runS (initS wS0) [.reconcileSetting "ns" "ghost"]).fresh = [] := by decide

/-! ### the L3 machine and the settings machine interleaved -/

/-- the run `ops2` of `EdsProps/L3.lean` (canary, promotion, clean-up) with the settings run woven in. -/
def opsMixed : List OpS :=
  [.applySetting sOld, .reconcileSetting "ns" "old"] ++ (ExL3.ops1.map .cluster) ++
  [.applySetting sNew, .reconcileSetting "ns" "new"] ++ ((ExL3.ops2.drop ExL3.ops1.length).map .cluster) ++
  [.reconcileSetting "ns" "old"]

example : RunOkS OpFresh (initS wS0) opsMixed := by decide
example : HashesNodup wS0 ∧ NamesNodup wS0 ∧ CanaryNodup wS0 := by decide
/-- the lifted L3 invariants on the mixed run … -/
example : HashesNodup (runS (initS wS0) opsMixed).w ∧ NamesNodup (runS (initS wS0) opsMixed).w ∧
    CanaryNodup (runS (initS wS0) opsMixed).w :=
  ⟨L3S_one_per_template _ opsMixed (by decide), L3S_names_nodup _ opsMixed (by decide) (by decide),
   L3S_canary_nodup _ opsMixed (by decide)⟩
/-- … the settings end settled with exactly one valid, and the L3 part ran as in L3 (promotion of `ds-c`). -/
example :
    SettledAfter (runS (initS wS0) opsMixed) ∧
    (runS (initS wS0) opsMixed).w.settings.map (fun s => (s.name, s.status)) = [("old", "error"), ("new", "valid")] ∧
    (runS (initS wS0) opsMixed).w.eds.status.activeReplicaSet = "ds-c" := by decide

end Eds.ExL3S
