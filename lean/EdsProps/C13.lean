import EdsModel
import EdsProofs.ReconcileEds
import EdsProofs.PodBuild
/-
  C13 — One replica set per template, faithful to it, never collected while in use.

  * `C13_create_only_if_none`   a replica set is created only when no own one carries the hash of
                                spec.template;
  * `C13_created_faithful`      the created one records that hash (generation and annotation) and
                                carries the name label of the daemonset;
  * `C13_reuse`                 re-applying / reverting to a template that still has its replica set
                                creates nothing;
  * `C13_cleanup_safe`          a deleted replica set is own, neither current nor up to date, not
                                already being deleted and reports no pods
                                (`C13_active_never_deleted`, `C13_uptodate_never_deleted`);
  * `C13_at_most_one`           history invariant: the hash annotations of the own replica sets stay
                                pairwise distinct across any reconcile, for every spec.template
                                (`C13_at_most_one_history`: by induction over any interleaving of
                                reconciles — with arbitrary spec / status / annotation edits of the
                                daemonset in between — and status updates of the replica sets);
  * `C13_spec_never_written`    the reconcile never modifies an existing replica set.
-/
namespace Eds

/-! ### 1–3: creation -/

/-- the four exits of `Reconcile`. -/
theorem reconcileEds_cases (d : EDS) (all : List ERS) (pods : List Pod) (nodes : List Node) (now : Time)
    (m : String) :
    reconcileEds d all pods nodes now m = { defaulted := some (defaultSpec d.strategy m), requeue := true } ∨
    reconcileEds d all pods nodes now m = { err := true } ∨
    (upToDateOf d (ownErs d all) = none ∧
      reconcileEds d all pods nodes now m = { created := some (newReplicaSetFromInstance d), requeue := true }) ∨
    (∃ u, upToDateOf d (ownErs d all) = some u ∧
      reconcileEds d all pods nodes now m = edsMain d (ownErs d all) u pods nodes now) := by
  unfold reconcileEds
  split
  · exact Or.inl rfl
  · split
    · exact Or.inr (Or.inl rfl)
    · cases hu : upToDateOf d (ownErs d all) with
      | none => exact Or.inr (Or.inr (Or.inl ⟨rfl, rfl⟩))
      | some u => exact Or.inr (Or.inr (Or.inr ⟨u, rfl, rfl⟩))

/-- the reconcile creates a replica set only in the branch where none is up to date. -/
theorem reconcileEds_created_iff (d : EDS) (all : List ERS) (pods : List Pod) (nodes : List Node) (now : Time)
    (m : String) (n : NewErs) (h : (reconcileEds d all pods nodes now m).created = some n) :
    upToDateOf d (ownErs d all) = none ∧ n = newReplicaSetFromInstance d ∧
    (reconcileEds d all pods nodes now m).deletedErs = [] := by
  rcases reconcileEds_cases d all pods nodes now m with hr | hr | ⟨hu, hr⟩ | ⟨u, hu, hr⟩
  · rw [hr] at h; simp at h
  · rw [hr] at h; simp at h
  · rw [hr] at h ⊢
    simp only [Option.some.injEq] at h
    exact ⟨hu, h.symm, rfl⟩
  · rw [hr, edsMain_created] at h; simp at h

/-- **1. Create only if none.** A replica set is created only if no own replica set carries the hash
of the current spec.template. -/
theorem C13_create_only_if_none (d : EDS) (all : List ERS) (pods : List Pod) (nodes : List Node) (now : Time)
    (m : String) (n : NewErs) (h : (reconcileEds d all pods nodes now m).created = some n) :
    upToDateOf d (ownErs d all) = none ∧
    ∀ e ∈ ownErs d all, SMap.get? e.annotations K.templateHashAnnot ≠ some d.templateHash := by
  have h1 := (reconcileEds_created_iff d all pods nodes now m n h).1
  refine ⟨h1, ?_⟩
  intro e he
  unfold upToDateOf at h1
  have := (lastWhere_eq_none_iff _ _).1 h1 e he
  simpa using this

/-- **2. The created replica set is faithful to the template**: it records the hash of spec.template
both as its generation and as its hash annotation (whatever the daemonset's own annotations say), and
carries the daemonset's name label (even when the daemonset's own labels define that key). -/
theorem C13_created_faithful (d : EDS) (all : List ERS) (pods : List Pod) (nodes : List Node) (now : Time)
    (m : String) (n : NewErs) (h : (reconcileEds d all pods nodes now m).created = some n) :
    n.templateGeneration = d.templateHash ∧
    SMap.get? n.annotations K.templateHashAnnot = some d.templateHash ∧
    SMap.get? n.labels K.edsNameLabel = some d.name ∧
    n.ns = d.ns ∧
    (∀ k, k ≠ K.templateHashAnnot → SMap.get? n.annotations k = SMap.get? d.annotations k) ∧
    (∀ k, k ≠ K.edsNameLabel → SMap.get? n.labels k = SMap.get? d.labels k) := by
  have h2 := (reconcileEds_created_iff d all pods nodes now m n h).2.1
  subst h2
  refine ⟨rfl, ?_, ?_, rfl, ?_, ?_⟩
  · exact SMap.get?_set_self _ _ _
  · exact SMap.get?_set_self _ _ _
  · intro k hk; exact SMap.get?_set_other _ _ _ _ hk
  · intro k hk; exact SMap.get?_set_other _ _ _ _ hk

/-- **3. Reuse.** If some own replica set carries the hash of spec.template nothing is created:
re-applying a template, or reverting to an earlier one whose replica set still exists, reuses it. -/
theorem C13_reuse (d : EDS) (all : List ERS) (pods : List Pod) (nodes : List Node) (now : Time) (m : String)
    (e : ERS) (he : e ∈ ownErs d all)
    (hh : SMap.get? e.annotations K.templateHashAnnot = some d.templateHash) :
    (reconcileEds d all pods nodes now m).created = none := by
  cases hcr : (reconcileEds d all pods nodes now m).created with
  | none => rfl
  | some n =>
    exact absurd hh ((C13_create_only_if_none d all pods nodes now m n hcr).2 e he)

/-- … and the one selected as up to date is such a replica set (the last listed one). -/
theorem C13_reuse_selects (d : EDS) (all : List ERS) (u : ERS) (h : upToDateOf d (ownErs d all) = some u) :
    u ∈ ownErs d all ∧ SMap.get? u.annotations K.templateHashAnnot = some d.templateHash := by
  unfold upToDateOf at h
  obtain ⟨h1, h2⟩ := lastWhere_mem h
  exact ⟨h1, by simpa using h2⟩

/-! ### 4: clean-up -/

/-- **4. Clean-up is safe.** Every deleted name is the name of an own replica set that is neither the
current nor the up-to-date one of this reconcile, is not already being deleted, reports no pods at all
(the four counters sum to zero) and, if it is a failed canary, failed at least two minutes ago. -/
theorem C13_cleanup_safe (d : EDS) (all : List ERS) (pods : List Pod) (nodes : List Node) (now : Time)
    (m : String) (nm : String) (h : nm ∈ (reconcileEds d all pods nodes now m).deletedErs) :
    ∃ u, upToDateOf d (ownErs d all) = some u ∧
    ∃ e ∈ ownErs d all, e.name = nm ∧
      nm ≠ (currentOf d (ownErs d all) u now).1.name ∧ nm ≠ u.name ∧ e.deleted = false ∧
      e.status.available + e.status.current + e.status.desired + e.status.ready = 0 := by
  rcases reconcileEds_cases d all pods nodes now m with hr | hr | ⟨_, hr⟩ | ⟨u, hu, hr⟩
  · rw [hr] at h; simp at h
  · rw [hr] at h; simp at h
  · rw [hr] at h; simp at h
  · refine ⟨u, hu, ?_⟩
    rw [hr, edsMain_deleted] at h
    unfold cleanupTargetsERS at h
    simp only [List.mem_map, List.mem_filter, Bool.and_eq_true, bne_iff_ne, ne_eq,
      Bool.not_eq_true'] at h
    obtain ⟨e, ⟨he, ⟨⟨⟨h1, h2⟩, h3⟩, h4⟩⟩, rfl⟩ := h
    refine ⟨e, he, rfl, h1, h2, h3, ?_⟩
    unfold shouldDeleteERS at h4
    simp only [Bool.and_eq_true, beq_iff_eq] at h4
    exact h4.2

/-- with non-negative counters (they are counts of pods) each of them is zero. -/
theorem C13_cleanup_zero_each (e : ERS)
    (hn : 0 ≤ e.status.available ∧ 0 ≤ e.status.current ∧ 0 ≤ e.status.desired ∧ 0 ≤ e.status.ready)
    (h : e.status.available + e.status.current + e.status.desired + e.status.ready = 0) :
    e.status.available = 0 ∧ e.status.current = 0 ∧ e.status.desired = 0 ∧ e.status.ready = 0 := by
  omega

/-- the deleted names and the status written, in the branch that reaches them. -/
theorem reconcileEds_main (d : EDS) (all : List ERS) (pods : List Pod) (nodes : List Node) (now : Time)
    (m : String)
    (h : (reconcileEds d all pods nodes now m).deletedErs ≠ [] ∨
         (reconcileEds d all pods nodes now m).statusUpdate ≠ none) :
    ∃ u, upToDateOf d (ownErs d all) = some u ∧
      reconcileEds d all pods nodes now m = edsMain d (ownErs d all) u pods nodes now := by
  rcases reconcileEds_cases d all pods nodes now m with hr | hr | ⟨_, hr⟩ | ⟨u, hu, hr⟩
  · rw [hr] at h; simp at h
  · rw [hr] at h; simp at h
  · rw [hr] at h; simp at h
  · exact ⟨u, hu, hr⟩

/-- **The (new) active replica set is never deleted**: if the reconcile writes a status, the replica
set that status names as active is not among the deleted ones. -/
theorem C13_active_never_deleted (d : EDS) (all : List ERS) (pods : List Pod) (nodes : List Node) (now : Time)
    (m : String) (st : EDSStatus) (hst : (reconcileEds d all pods nodes now m).statusUpdate = some st) :
    st.activeReplicaSet ∉ (reconcileEds d all pods nodes now m).deletedErs := by
  obtain ⟨u, _, hmain⟩ := reconcileEds_main d all pods nodes now m (Or.inr (by rw [hst]; simp))
  rw [hmain] at hst ⊢
  have h1 := edsMain_statusUpdate _ _ _ _ _ _ st hst
  have h2 : st.activeReplicaSet = (currentOf d (ownErs d all) u now).1.name := by
    rw [h1]; unfold edsUpd; rw [updateInstance_activeReplicaSet]
  rw [edsMain_deleted, h2]
  intro hmem
  unfold cleanupTargetsERS at hmem
  simp only [List.mem_map, List.mem_filter, Bool.and_eq_true, bne_iff_ne, ne_eq] at hmem
  obtain ⟨e, ⟨_, ⟨⟨⟨h1, _⟩, _⟩, _⟩⟩, hn⟩ := hmem
  exact h1 hn

/-- the selected current replica set is never deleted, whether or not a status is written. -/
theorem C13_current_never_deleted (d : EDS) (all : List ERS) (pods : List Pod) (nodes : List Node) (now : Time)
    (m : String) (u : ERS) (hu : upToDateOf d (ownErs d all) = some u) :
    (currentOf d (ownErs d all) u now).1.name ∉ (reconcileEds d all pods nodes now m).deletedErs := by
  intro hmem
  obtain ⟨u', hu', e, _, hn, h1, _⟩ := C13_cleanup_safe d all pods nodes now m _ hmem
  rw [hu] at hu'
  cases hu'
  exact h1 rfl

/-- **The up-to-date replica set is never deleted.** -/
theorem C13_uptodate_never_deleted (d : EDS) (all : List ERS) (pods : List Pod) (nodes : List Node) (now : Time)
    (m : String) (u : ERS) (hu : upToDateOf d (ownErs d all) = some u) :
    u.name ∉ (reconcileEds d all pods nodes now m).deletedErs := by
  intro hmem
  obtain ⟨u', hu', e, _, hn, _, h2, _⟩ := C13_cleanup_safe d all pods nodes now m _ hmem
  rw [hu] at hu'
  cases hu'
  exact h2 rfl

/-- a replica set that still reports pods is never deleted. -/
theorem C13_in_use_never_deleted (d : EDS) (all : List ERS) (pods : List Pod) (nodes : List Node) (now : Time)
    (m : String) (e : ERS) (he : e ∈ ownErs d all) (hnd : ((ownErs d all).map (·.name)).Nodup)
    (huse : e.status.available + e.status.current + e.status.desired + e.status.ready ≠ 0) :
    e.name ∉ (reconcileEds d all pods nodes now m).deletedErs := by
  intro hmem
  obtain ⟨_, _, e', he', hn, _, _, _, hz⟩ := C13_cleanup_safe d all pods nodes now m _ hmem
  have : e' = e := eq_of_nodup_map (·.name) hnd he' he hn
  subst this
  exact huse hz

/-! ### 5–6: the store transition and the history invariant -/

/-- the hash annotations of the daemonset's own replica sets are pairwise distinct: at most one own
replica set per template hash (and at most one without the annotation). -/
def hashesNodup (d : EDS) (all : List ERS) : Prop :=
  ((ownErs d all).map (fun e => SMap.get? e.annotations K.templateHashAnnot)).Nodup

/-- every own replica set records a template hash. -/
def allHashed (d : EDS) (all : List ERS) : Prop :=
  ∀ e ∈ ownErs d all, (SMap.get? e.annotations K.templateHashAnnot).isSome = true

/-- the object the API server stores for a create request. -/
def ersOfNew (d : EDS) (n : NewErs) (name : String) : ERS :=
  { name := name, ns := n.ns, uid := "", labels := n.labels, annotations := n.annotations, creation := 0,
    deleted := false, ownerEds := some n.ownerEds, selector := none,
    templateGeneration := n.templateGeneration, template := d.template,
    status := { status := "", desired := 0, current := 0, ready := 0, available := 0, ignored := 0, conds := [] } }

/-- the effect of the reconcile's writes on the replica sets in the store: the deleted names (in the
daemonset's namespace — `client.Delete` addresses namespace/name) disappear, the created one appears
under the name the API server generates. Nothing else changes. -/
def applyEdsWrites (d : EDS) (all : List ERS) (w : EdsWrites) (newName : String) : List ERS :=
  all.filter (fun e => !(e.ns == d.ns && w.deletedErs.contains e.name)) ++
    (match w.created with
     | some n => [ersOfNew d n newName]
     | none => [])

/-- **6. The reconcile never rewrites an existing replica set**: `EdsWrites` has no such write; every
replica set after the writes is either an unchanged old one or the created one. -/
theorem C13_spec_never_written (d : EDS) (all : List ERS) (w : EdsWrites) (newName : String) (e : ERS)
    (h : e ∈ applyEdsWrites d all w newName) :
    e ∈ all ∨ ∃ n, w.created = some n ∧ e = ersOfNew d n newName := by
  unfold applyEdsWrites at h
  rcases List.mem_append.1 h with h | h
  · exact Or.inl (List.mem_filter.1 h).1
  · cases hc : w.created with
    | none => simp [hc] at h
    | some n =>
      simp only [hc, List.mem_singleton] at h
      exact Or.inr ⟨n, rfl, h⟩

/-- … and every old replica set that was not deleted is still there, unchanged. -/
theorem C13_survivors_unchanged (d : EDS) (all : List ERS) (w : EdsWrites) (newName : String) (e : ERS)
    (he : e ∈ all) (hk : e.ns ≠ d.ns ∨ e.name ∉ w.deletedErs) :
    e ∈ applyEdsWrites d all w newName := by
  unfold applyEdsWrites
  apply List.mem_append_left
  rw [List.mem_filter]
  refine ⟨he, ?_⟩
  rcases hk with hk | hk
  · simp [hk]
  · simp [hk]

theorem ownErs_append (d : EDS) (l1 l2 : List ERS) : ownErs d (l1 ++ l2) = ownErs d l1 ++ ownErs d l2 := by
  unfold ownErs; exact List.filter_append ..

theorem ownErs_filter (d : EDS) (p : ERS → Bool) (l : List ERS) :
    ownErs d (l.filter p) = (ownErs d l).filter p := by
  unfold ownErs
  rw [List.filter_filter, List.filter_filter]
  congr 1
  funext e
  exact Bool.and_comm _ _

/-- the own replica sets after the writes: the surviving own ones, then the created one. -/
theorem ownErs_applyEdsWrites (d : EDS) (all : List ERS) (pods : List Pod) (nodes : List Node) (now : Time)
    (m : String) (newName : String) :
    ownErs d (applyEdsWrites d all (reconcileEds d all pods nodes now m) newName) =
      (ownErs d all).filter (fun e => !(e.ns == d.ns &&
          (reconcileEds d all pods nodes now m).deletedErs.contains e.name)) ++
      (match (reconcileEds d all pods nodes now m).created with
       | some _ => [ersOfNew d (newReplicaSetFromInstance d) newName]
       | none => []) := by
  unfold applyEdsWrites
  rw [ownErs_append, ownErs_filter]
  congr 1
  cases hc : (reconcileEds d all pods nodes now m).created with
  | none => rfl
  | some n =>
    have hn := (reconcileEds_created_iff d all pods nodes now m n hc).2.1
    subst hn
    simp only []
    unfold ownErs
    have : SMap.get? (SMap.set d.labels K.edsNameLabel d.name) K.edsNameLabel = some d.name :=
      SMap.get?_set_self _ _ _
    simp [ersOfNew, this, newReplicaSetFromInstance]

theorem nodup_append_singleton {α} {l : List α} {x : α} (h : l.Nodup) (hx : x ∉ l) : (l ++ [x]).Nodup := by
  rw [List.nodup_append]
  refine ⟨h, by simp, ?_⟩
  intro a ha b hb
  simp only [List.mem_singleton] at hb
  subst hb
  intro hab
  subst hab
  exact hx ha

/-- **5. At most one replica set per template (step).** If the hash annotations of the own replica
sets are pairwise distinct they still are after the writes of a reconcile — for every spec.template
the daemonset may hold at that moment (`d` is arbitrary). -/
theorem C13_at_most_one (d : EDS) (all : List ERS) (pods : List Pod) (nodes : List Node) (now : Time)
    (m : String) (newName : String) (h : hashesNodup d all) :
    hashesNodup d (applyEdsWrites d all (reconcileEds d all pods nodes now m) newName) := by
  unfold hashesNodup at h ⊢
  rw [ownErs_applyEdsWrites, List.map_append]
  have hsub : (((ownErs d all).filter (fun e => !(e.ns == d.ns &&
          (reconcileEds d all pods nodes now m).deletedErs.contains e.name))).map
          (fun e => SMap.get? e.annotations K.templateHashAnnot)).Nodup :=
    List.Nodup.sublist (List.Sublist.map _ (List.filter_sublist)) h
  cases hc : (reconcileEds d all pods nodes now m).created with
  | none => simpa using hsub
  | some n =>
    have hnone := (C13_create_only_if_none d all pods nodes now m n hc).2
    simp only [List.map_cons, List.map_nil]
    apply nodup_append_singleton hsub
    have hnew : SMap.get? (ersOfNew d (newReplicaSetFromInstance d) newName).annotations K.templateHashAnnot
        = some d.templateHash := SMap.get?_set_self _ _ _
    rw [hnew]
    intro hmem
    simp only [List.mem_map, List.mem_filter] at hmem
    obtain ⟨e, ⟨he, _⟩, hh⟩ := hmem
    exact hnone e he hh

/-- the companion invariant: every own replica set records a hash. -/
theorem C13_all_hashed (d : EDS) (all : List ERS) (pods : List Pod) (nodes : List Node) (now : Time)
    (m : String) (newName : String) (h : allHashed d all) :
    allHashed d (applyEdsWrites d all (reconcileEds d all pods nodes now m) newName) := by
  unfold allHashed at h ⊢
  rw [ownErs_applyEdsWrites]
  intro e he
  rcases List.mem_append.1 he with he | he
  · exact h e (List.mem_filter.1 he).1
  · cases hc : (reconcileEds d all pods nodes now m).created with
    | none => simp [hc] at he
    | some n =>
      simp only [hc, List.mem_singleton] at he
      subst he
      have hnew : SMap.get? (ersOfNew d (newReplicaSetFromInstance d) newName).annotations K.templateHashAnnot
          = some d.templateHash := SMap.get?_set_self _ _ _
      rw [hnew]; rfl

/-- under both invariants: for every template hash at most one own replica set carries it. -/
theorem C13_at_most_one_per_hash (d : EDS) (all : List ERS) (h : hashesNodup d all) (e1 e2 : ERS)
    (h1 : e1 ∈ ownErs d all) (h2 : e2 ∈ ownErs d all)
    (hh : SMap.get? e1.annotations K.templateHashAnnot = SMap.get? e2.annotations K.templateHashAnnot) :
    e1 = e2 :=
  eq_of_nodup_map _ h h1 h2 hh

/-- what may happen to the store between two looks at it, as far as this daemonset's replica sets are
concerned: a reconcile of the daemonset in ANY state with the same name and namespace (any
spec.template, strategy, annotations, status: arbitrary user edits and status writes in between),
or a change that keeps the namespace, labels and annotations of every replica set (the status
updates of the replica-set controller). -/
inductive Reach (name ns : String) : List ERS → List ERS → Prop where
  | refl (all) : Reach name ns all all
  | reconcile {all all'} (d : EDS) (pods : List Pod) (nodes : List Node) (now : Time) (m newName : String) :
      Reach name ns all all' → d.name = name → d.ns = ns →
      Reach name ns all (applyEdsWrites d all' (reconcileEds d all' pods nodes now m) newName)
  | statusChange {all all'} (f : ERS → ERS) :
      Reach name ns all all' →
      (∀ e, (f e).ns = e.ns ∧ (f e).labels = e.labels ∧ (f e).annotations = e.annotations) →
      Reach name ns all (all'.map f)

theorem ownErs_congr (d d' : EDS) (all : List ERS) (hn : d.name = d'.name) (hns : d.ns = d'.ns) :
    ownErs d all = ownErs d' all := by
  unfold ownErs; rw [hn, hns]

theorem hashesNodup_congr (d d' : EDS) (all : List ERS) (hn : d.name = d'.name) (hns : d.ns = d'.ns) :
    hashesNodup d all ↔ hashesNodup d' all := by
  unfold hashesNodup; rw [ownErs_congr d d' all hn hns]

theorem ownErs_map (d : EDS) (f : ERS → ERS) (all : List ERS)
    (hf : ∀ e, (f e).ns = e.ns ∧ (f e).labels = e.labels ∧ (f e).annotations = e.annotations) :
    ownErs d (all.map f) = (ownErs d all).map f := by
  unfold ownErs
  rw [List.filter_map]
  congr 1
  apply List.filter_congr
  intro e _
  simp [Function.comp, (hf e).1, (hf e).2.1]

/-- **5. At most one replica set per template (history).** Along any sequence of template edits,
reconciles and replica-set status updates, the own replica sets keep pairwise distinct template
hashes: starting from a store with at most one replica set per template, there is never a second one
for any template — including templates that were abandoned and later restored. -/
theorem C13_at_most_one_history (d : EDS) (all all' : List ERS) (hr : Reach d.name d.ns all all')
    (h : hashesNodup d all) : hashesNodup d all' := by
  induction hr with
  | refl => exact h
  | reconcile d' pods nodes now m newName _ hn hns ih =>
    rw [hashesNodup_congr d d' _ hn.symm hns.symm]
    apply C13_at_most_one
    rw [← hashesNodup_congr d d' _ hn.symm hns.symm]
    exact ih
  | statusChange f _ hf ih =>
    unfold hashesNodup at ih ⊢
    rw [ownErs_map d f _ hf, List.map_map]
    have : ((fun e => SMap.get? e.annotations K.templateHashAnnot) ∘ f) =
        (fun e => SMap.get? e.annotations K.templateHashAnnot) := by
      funext e; simp [Function.comp, (hf e).2.2]
    rw [this]; exact ih

/-- from an empty store: never two own replica sets with the same template hash. -/
theorem C13_at_most_one_from_empty (d : EDS) (all' : List ERS) (hr : Reach d.name d.ns [] all')
    (e1 e2 : ERS) (h1 : e1 ∈ ownErs d all') (h2 : e2 ∈ ownErs d all')
    (hh : SMap.get? e1.annotations K.templateHashAnnot = SMap.get? e2.annotations K.templateHashAnnot) :
    e1 = e2 :=
  C13_at_most_one_per_hash d all'
    (C13_at_most_one_history d [] all' hr (by unfold hashesNodup ownErs; exact List.nodup_nil)) e1 e2 h1 h2 hh

end Eds

/-! ### Examples (non-vacuity; fixtures in `EdsProofs/ReconcileEds.lean`) -/
namespace Eds.ExReconcile

/- a template change (`h3` has no replica set) creates one, faithful to the template -/
example : (reconcileEds { dStable with templateHash := "h3" } store2 [] [] minute "auto").created =
    some { ns := "ns", generateName := "ds-", labels := [⟨K.edsNameLabel, "ds"⟩],
           annotations := [⟨K.templateHashAnnot, "h3"⟩], templateGeneration := "h3", ownerEds := "ds" } := by decide
/- reverting to `h2`, whose replica set still exists, creates nothing and selects it as up to date -/
example : (reconcileEds { dStable with templateHash := "h2" } store2 [] [] minute "auto").created = none := by decide
example : (upToDateOf { dStable with templateHash := "h2" } (ownErs dStable store2)).map (·.name) = some "ds-b" := by decide
/- re-applying the current template: nothing created, nothing written -/
example : (reconcileEds dStable store2 [] [] minute "auto").created = none := by decide
/- the store after the template change holds one replica set per template -/
example : ((applyEdsWrites { dStable with templateHash := "h3" } store2
      (reconcileEds { dStable with templateHash := "h3" } store2 [] [] minute "auto") "ds-x").map
      (fun e => (e.name, SMap.get? e.annotations K.templateHashAnnot))) =
    [("ds-a", some "h1"), ("ds-b", some "h2"), ("ds-x", some "h3")] := by decide
/- replica sets of another namespace or daemonset are not the daemonset's own -/
example : ownErs dStable [{ rs "ds-a" "h1" 3 [] with ns := "other" },
    { rs "ds-c" "h1" 3 [] with labels := [⟨K.edsNameLabel, "ds2"⟩] }] = [] := by decide
/- the deletion test reads the SUM of the four counters (see `C13_cleanup_zero_each`) -/
example : shouldDeleteERS 0 { rs "x" "h" 0 [] with
    status := { status := "", desired := 0, current := 1, ready := 0, available := -1, ignored := 0, conds := [] } }
    = true := by decide

end Eds.ExReconcile
