import EdsProofs.ReconcileErs
import EdsProps.C04
/-
  C10c — "a pod is never replaced spuriously", at the level of the whole sync.

  Subject: `reconcileErs` (EdsModel/ReconcileErs.lean), through the inversion `reconcileErs_cases`
  (EdsProofs/ReconcileErs.lean).  `deletes` is the list of pods deleted *for updating*; the clean-up
  deletions (`cleanupDeletes`: duplicates, pods on ineligible nodes, released Failed pods) are a
  different list and are not the subject of this file.

  Quantification: every replica set, store, back-off oracle `released`, affinity mode and instant; every
  outcome of the sync (owner not defaulted, LastFullSync gate, listing error, early error of
  ManageDeployment, deletion gate): the only assumptions are `ersOwner rs st = some d` and the role.

    `C10_sync_no_spurious_replace`         (active role)  every name in `deletes` is the name of the pod `p`
        of an entry `(ni, some p)` of `entries` (= the targeted, non-canary entries of the per-node map) with
        `comparePod rs.templateGeneration p ni = false`; moreover `p` is not terminating, has no scheduler
        issue, is a listed pod (`ersPods d st`) and is bound to `ni`.                       [full strength]
    `C10_sync_no_spurious_replace_canary`  (canary role)  every name in `deletes` is the name of the kept pod
        `p` of an entry `(ni, some p)` of the per-node map (`ersFilter … .byNode`) whose node is a canary node,
        with `comparePod … p ni = false`; `p` is not terminating, is listed and is bound to `ni`.
        (`entries` is `[]` outside the active role, hence the `ersFilter` formulation.)     [full strength]
    `C10_sync_up_to_date_kept` (+ `_canary`) — contrapositive, with distinct listed pod names: a listed pod
        whose every map entry compares equal is not named in `deletes`.
  No `_partial` theorem in this file.
-/
namespace Eds

/-! ### the deletion candidates of the counting loop are outdated pods -/

/-- what `classify … = .outdated a` says about the entry. -/
theorem classify_outdated {tg : String} {wall : Time} {ni : NodeItem} {p : Pod} {a : Bool}
    (h : classify tg wall (ni, some p) = .outdated a) :
    p.schedulerIssue wall = false ∧ comparePod tg p ni = false ∧ p.deletion = none ∧ p.available = a := by
  simp only [classify] at h
  split at h
  · cases h
  · rename_i hs
    split at h
    · rename_i hc
      split at h
      · rename_i hdel
        injection h with h
        refine ⟨by simpa using hs, by simpa using hc, by simpa using hdel, h⟩
      · cases h
    · cases h

/-- the pods the counting loop proposes for deletion are outdated. -/
def OutdatedPair (tg : String) (wall : Time) (x : NodeItem × Pod) : Prop :=
  x.2.schedulerIssue wall = false ∧ comparePod tg x.2 x.1 = false ∧ x.2.deletion = none

theorem countStep_toDelete_outdated (tg : String) (wall : Time) (c : Counts) (e : NodeItem × Option Pod)
    (h : ∀ x ∈ c.toDeleteUnavail ++ c.toDeleteAvail, OutdatedPair tg wall x) :
    ∀ x ∈ (countStep tg wall c e).toDeleteUnavail ++ (countStep tg wall c e).toDeleteAvail,
      OutdatedPair tg wall x := by
  obtain ⟨ni, o⟩ := e
  cases o with
  | none => intro x hx; exact h x (by simpa [countStep] using hx)
  | some pod =>
    intro x hx
    cases hc : classify tg wall (ni, some pod) with
    | noPod => simp only [countStep, hc] at hx; exact h x hx
    | stuck => simp only [countStep, hc] at hx; exact h x hx
    | outdatedTerminating => simp only [countStep, hc] at hx; exact h x hx
    | upToDate a r => simp only [countStep, hc] at hx; exact h x hx
    | outdated a =>
      obtain ⟨h1, h2, h3, _⟩ := classify_outdated hc
      cases a with
      | true =>
        simp only [countStep, hc, List.mem_append, List.mem_singleton] at hx
        rcases hx with hx | hx | hx
        · exact h x (List.mem_append_left _ hx)
        · exact h x (List.mem_append_right _ hx)
        · subst hx; exact ⟨h1, h2, h3⟩
      | false =>
        simp only [countStep, hc, List.mem_append, List.mem_singleton] at hx
        rcases hx with (hx | hx) | hx
        · exact h x (List.mem_append_left _ hx)
        · subst hx; exact ⟨h1, h2, h3⟩
        · exact h x (List.mem_append_right _ hx)

theorem foldl_countStep_toDelete_outdated (tg : String) (wall : Time) (es : List (NodeItem × Option Pod))
    (c : Counts) (h : ∀ x ∈ c.toDeleteUnavail ++ c.toDeleteAvail, OutdatedPair tg wall x) :
    ∀ x ∈ (es.foldl (countStep tg wall) c).toDeleteUnavail ++ (es.foldl (countStep tg wall) c).toDeleteAvail,
      OutdatedPair tg wall x := by
  induction es generalizing c with
  | nil => exact h
  | cons e rest ih =>
    rw [List.foldl_cons]
    exact ih _ (countStep_toDelete_outdated tg wall c e h)

/-- every deletion candidate of the active role is an outdated, non-terminating pod without scheduler
issue. -/
theorem countAll_toDelete_outdated (tg : String) (wall : Time) (es : List (NodeItem × Option Pod)) :
    ∀ x ∈ (countAll tg wall es).toDeleteUnavail ++ (countAll tg wall es).toDeleteAvail,
      OutdatedPair tg wall x := by
  unfold countAll
  exact foldl_countStep_toDelete_outdated tg wall es {} (fun x hx => by simp at hx)

/-- what `ManageDeployment` deletes for updating is outdated. -/
theorem manageDeployment_delete_outdated (p : StratParams) (now wall : Time) (cf : Bool) (r : StratResult)
    (h : manageDeployment p now wall cf = .ok r) :
    ∀ x ∈ r.deleteE, (x.1, some x.2) ∈ targeted p ∧ OutdatedPair p.ers.templateGeneration wall x := by
  obtain ⟨ms, mu, mc, _, _, _, _, hdel⟩ := manageDeployment_plan p now wall cf r h
  intro x hx
  refine ⟨manageDeployment_delete_mem p now wall cf r h x hx, ?_⟩
  rw [hdel] at hx
  exact countAll_toDelete_outdated _ _ _ x (rollingPlan_delete_sub _ _ _ _ _ _ _ x hx)

/-! ### the canary scan -/

/-- invariant of the canary scan: its deletion candidates are outdated, non-terminating kept pods. -/
theorem canaryScanStep_toDelete_outdated (tg : String) (byNode : List (NodeItem × Option Pod)) (c : CanaryScan)
    (n : String) (h : ∀ x ∈ c.toDelete, comparePod tg x.2 x.1 = false ∧ x.2.deletion = none) :
    ∀ x ∈ (canaryScanStep tg byNode c n).toDelete, comparePod tg x.2 x.1 = false ∧ x.2.deletion = none := by
  unfold canaryScanStep
  simp only []
  split
  · exact h
  · exact h
  · rename_i ni pod _
    split
    · exact h
    · rename_i hdel
      split
      · rename_i hc
        intro x hx
        rcases List.mem_append.mp hx with hx | hx
        · exact h x hx
        · simp only [List.mem_singleton] at hx
          subst hx
          exact ⟨by simpa using hc, by simpa using hdel⟩
      · exact h

theorem canaryScan_toDelete_outdated (tg : String) (byNode : List (NodeItem × Option Pod)) (names : List String)
    (c : CanaryScan) (h : ∀ x ∈ c.toDelete, comparePod tg x.2 x.1 = false ∧ x.2.deletion = none) :
    ∀ x ∈ (names.foldl (canaryScanStep tg byNode) c).toDelete,
      comparePod tg x.2 x.1 = false ∧ x.2.deletion = none := by
  induction names generalizing c with
  | nil => exact h
  | cons n rest ih =>
    rw [List.foldl_cons]
    exact ih _ (canaryScanStep_toDelete_outdated tg byNode c n h)

/-- what the canary role deletes for updating is outdated. -/
theorem manageCanaryStatus_delete_outdated (p : StratParams) (now : Time) (r : StratResult)
    (h : manageCanaryStatus p now = some r) :
    ∀ x ∈ r.deleteE, comparePod p.ers.templateGeneration x.2 x.1 = false ∧ x.2.deletion = none := by
  have inv := canaryScan_toDelete_outdated p.ers.templateGeneration p.byNode p.canaryNodes {}
    (fun x hx => by cases hx)
  unfold manageCanaryStatus at h
  simp only [] at h
  split at h
  · exact absurd h (by simp)
  · injection h with h
    subst h
    exact inv

section Sync
variable (rs : ERS) (st : ErsStore) (released : String → Bool) (aff : Bool) (now : Time) (d : EDS)

/-- the `entries` of a full run in the active role are the targeted entries. -/
theorem ersFinish_entries_active (freq : Dur) (sp : StratParams) (r : StratResult) (adds removes : List String)
    (se : Bool) (st0 : ERSStatus) :
    (ersFinish rs "active" freq sp r adds removes se st0 aff now).entries = targeted sp := by
  unfold ersFinish
  simp only [beq_self_eq_true, if_true]

/-- **No spurious replacement, active role.**  Every pod the sync deletes for updating is the pod of a
targeted entry `(ni, some p)` (`entries`) that does *not* compare equal to what the replica set would
create on `ni` (`comparePod … = false`: template hash, setting overwrite or node hash differ).  It is
not terminating, has no scheduler issue, is a listed pod and is bound to `ni`. -/
theorem C10_sync_no_spurious_replace (h : ersOwner rs st = some d) (hr : ersRole d rs.name = "active") :
    ∀ name ∈ (reconcileErs rs st released aff now).deletes,
      ∃ ni p, (ni, some p) ∈ (reconcileErs rs st released aff now).entries ∧ p.name = name ∧
        comparePod rs.templateGeneration p ni = false ∧
        p.deletion = none ∧ p.schedulerIssue now = false ∧
        p ∈ ersPods d st ∧ p.nodeOf = some ni.node.name := by
  intro name hn
  rcases reconcileErs_cases rs st released aff now d h with hno | ⟨items, r, adds, removes, se, st0, F⟩
  · exact (mem_nil_elim hno.2.2.2.1 hn).elim
  · have hs := F.strat
    rw [hr] at hs
    have heq := F.eq
    rw [hr] at heq
    rw [heq] at hn ⊢
    rcases ersStrategy_active hs F.status with ⟨hm, -, -, -⟩ | ⟨-, hre, hadds, hrem, -⟩
    · obtain ⟨x, hx, rfl⟩ := List.mem_map.mp (ersFinish_deletes_sub _ _ _ _ _ _ _ _ _ _ _ name hn)
      obtain ⟨ht, h1, h2, h3⟩ := manageDeployment_delete_outdated _ now now false r hm x hx
      rw [ersFinish_entries_active]
      have hb : (x.1, some x.2) ∈ (ersParams released d rs items (ersPods d st) now).byNode := by
        simp only [targeted, dropCanaryNodes, List.mem_filter] at ht
        exact ht.1
      obtain ⟨hp, hno⟩ := kept_pod_bound rs released now d items (ersPods d st) x.1 x.2 hb
      exact ⟨x.1, x.2, ht, rfl, h2, h3, h1, hp, hno⟩
    · subst hre hadds hrem
      have hno := ersFinish_errResult_noPodWrite rs "active" (ersFreq d)
        (ersParams released d rs items (ersPods d st) now) (ersParams released d rs items (ersPods d st) now)
        se st0 aff now
      exact (mem_nil_elim hno.2.2.2.1 hn).elim

/-- **No spurious replacement, canary role.**  Every pod the canary sync deletes for updating is the kept
pod `p` of an entry `(ni, some p)` of the per-node map whose node is a canary node, and it does not
compare equal (`comparePod … = false`); it is not terminating, is listed and is bound to `ni`. -/
theorem C10_sync_no_spurious_replace_canary (h : ersOwner rs st = some d) (hr : ersRole d rs.name = "canary") :
    ∀ name ∈ (reconcileErs rs st released aff now).deletes,
      ∃ items ni p, ersNodeItems d rs st = some items ∧
        (ni, some p) ∈ (ersFilter released d rs items (ersPods d st)).byNode ∧
        ni.node.name ∈ ersCanaryNodes d ∧ p.name = name ∧
        comparePod rs.templateGeneration p ni = false ∧
        p.deletion = none ∧ p ∈ ersPods d st ∧ p.nodeOf = some ni.node.name := by
  intro name hn
  rcases reconcileErs_cases rs st released aff now d h with hno | ⟨items, r, adds, removes, se, st0, F⟩
  · exact (mem_nil_elim hno.2.2.2.1 hn).elim
  · have hs := F.strat
    rw [hr] at hs
    obtain ⟨r0, hm, hr0, -, -, -⟩ := ersStrategy_canary hs
    rw [F.eq] at hn
    obtain ⟨x, hx, rfl⟩ := List.mem_map.mp (ersFinish_deletes_sub _ _ _ _ _ _ _ _ _ _ _ name hn)
    have hx' : x ∈ r0.deleteE := by rw [hr0] at hx; exact hx
    obtain ⟨hb, hc⟩ := manageCanaryStatus_delete_mem _ now r0 hm x hx'
    obtain ⟨h1, h2⟩ := manageCanaryStatus_delete_outdated _ now r0 hm x hx'
    obtain ⟨hp, hno⟩ := kept_pod_bound rs released now d items (ersPods d st) x.1 x.2 hb
    exact ⟨items, x.1, x.2, F.hitems, hb, hc, rfl, h1, h2, hp, hno⟩

/-- contrapositive, active role: with distinct listed pod names, a listed pod that compares equal on
every targeted entry holding it is not deleted for updating. -/
theorem C10_sync_up_to_date_kept (h : ersOwner rs st = some d) (hr : ersRole d rs.name = "active")
    (hnd : ((ersPods d st).map (·.name)).Nodup)
    (p : Pod) (hp : p ∈ ersPods d st)
    (hup : ∀ ni, (ni, some p) ∈ (reconcileErs rs st released aff now).entries →
      comparePod rs.templateGeneration p ni = true) :
    p.name ∉ (reconcileErs rs st released aff now).deletes := by
  intro hm
  obtain ⟨ni, q, he, hqn, hc, -, -, hq, -⟩ := C10_sync_no_spurious_replace rs st released aff now d h hr _ hm
  have := inj_of_nodup_map _ hnd hq hp hqn
  subst this
  rw [hup ni he] at hc
  cases hc

/-- contrapositive, canary role. -/
theorem C10_sync_up_to_date_kept_canary (h : ersOwner rs st = some d) (hr : ersRole d rs.name = "canary")
    (hnd : ((ersPods d st).map (·.name)).Nodup)
    (p : Pod) (hp : p ∈ ersPods d st)
    (hup : ∀ items ni, ersNodeItems d rs st = some items →
      (ni, some p) ∈ (ersFilter released d rs items (ersPods d st)).byNode →
      comparePod rs.templateGeneration p ni = true) :
    p.name ∉ (reconcileErs rs st released aff now).deletes := by
  intro hm
  obtain ⟨items, ni, q, hi, he, -, hqn, hc, -, hq, -⟩ :=
    C10_sync_no_spurious_replace_canary rs st released aff now d h hr _ hm
  have := inj_of_nodup_map _ hnd hq hp hqn
  subst this
  rw [hup items ni hi he] at hc
  cases hc

end Sync

/-! ### Non-vacuity (the store of EdsProps/C04.lean: EDS `d`, active replica set `d-old`, canary `d-new` on
`n1`, nodes `n1`, `n2`, both running a pod of generation `old`).  The hypotheses hold, a deletion for
updating does take place, and the deleted pod is the outdated one of the entry. -/

example : ersOwner (exErs04 "d-old" "old2") (exStore04 exPodsOld04) = some exEds04 ∧
    ersRole exEds04 (exErs04 "d-old" "old2").name = "active" ∧
    (reconcileErs (exErs04 "d-old" "old2") (exStore04 exPodsOld04) (fun _ => true) true 100).deletes = ["old-2"] ∧
    (reconcileErs (exErs04 "d-old" "old2") (exStore04 exPodsOld04) (fun _ => true) true 100).entries.map
      (fun e => (e.1.node.name, e.2.map (fun p => (p.name, comparePod "old2" p e.1)))) =
      [("n2", some ("old-2", false))] := by decide

/-- … and an up-to-date pod is left alone (same store, replica set of generation `old`). -/
example : (reconcileErs (exErs04 "d-old" "old") (exStore04 exPodsOld04) (fun _ => true) true 100).deletes = [] ∧
    (reconcileErs (exErs04 "d-old" "old") (exStore04 exPodsOld04) (fun _ => true) true 100).entries.map
      (fun e => (e.1.node.name, e.2.map (fun p => (p.name, comparePod "old" p e.1)))) =
      [("n2", some ("old-2", true))] := by decide

/-- canary role: `d-new` replaces the outdated pod of its canary node `n1` only. -/
example : ersOwner (exErs04 "d-new" "new") (exStore04 exPodsOld04) = some exEds04 ∧
    ersRole exEds04 (exErs04 "d-new" "new").name = "canary" ∧
    (reconcileErs (exErs04 "d-new" "new") (exStore04 exPodsOld04) (fun _ => true) true 100).deletes = ["old-1"] ∧
    comparePod "new" (exPod04 "old-1" "n1" "d-old" "old") (exNode01 "n1") = false := by decide

end Eds
