import EdsProps.C09b
import EdsProofs.ErsRun
/-
  C09 (history level) — write-issuing syncs of one replica set are spaced by at least
  `spec.strategy.reconcileFrequency`, over ARBITRARY runs.

  Subject: `reconcileErs` iterated over a list of syncs of one replica set (`Sync`, `stepErs`, `runErs`
  of EdsProofs/ErsRun.lean): each sync's status write is applied before the next sync (`statusUpdate`,
  or the status unchanged when the sync wrote none); the store (EDS objects and their status, nodes,
  pods, settings, daemonsets), the back-off oracle and the affinity mode are arbitrary per sync.

  "Issues a write" is `ErsWrites.issuesPodWrite`: at least one pod creation, deletion for update,
  clean-up deletion, canary-label addition or removal — a superset of "creates or deletes a pod".

  Time resolution.  The model keeps instants as unbounded integers (nanoseconds) and persists
  `lastUpdate` exactly as written (`statusUpdate` carries the conditions verbatim, `stepErs` applies it
  verbatim): there is NO truncation to seconds in the model, so none is accounted for in 1–3.  What a
  store that truncates `metav1.Time` to seconds does to the bound is theorem 4.

    1  `C09_spacing_history`        — [hyps as in the task: every owner EDS read has
                                      `reconcileFrequency = some freq`, `0 ≤ freq`, clock non-decreasing]
                                      `List.Pairwise (fun tᵢ tⱼ => tᵢ + freq ≤ tⱼ)` on the instants of the
                                      write-issuing syncs of the run (`writeTimes`);
    2  `C09_spacing_history_strong` — the same from `0 ≤ freq` OR a non-decreasing clock: either one suffices.
                                      "Defaulted parent" is not needed as a hypothesis: a write-issuing sync
                                      is a full run, and a full run has checked it.  With neither (negative
                                      frequency and a clock running backwards) the statement fails: last
                                      `example`.
    3  `C09_spacing_split`          — positional form: in `pre ++ sᵢ :: mid ++ sⱼ :: post`, if `sᵢ` and `sⱼ`
                                      issue a write then `sᵢ.now + freq ≤ sⱼ.now`.
    4  `C09_spacing_history_persist`, `C09_spacing_history_seconds` — NOT in the model, added for the real
                                      API server: the run where every written status goes through a
                                      truncation `f` of its timestamps (monotone, idempotent, `f t ≤ t`)
                                      before it is stored: `f tᵢ + freq ≤ tⱼ`; for whole seconds the spacing is
                                      `> freq − 1 s`, and that bound is tight (example).

  All at full strength; no `_partial` theorem in this file.
-/
namespace Eds

instance (w : ErsWrites) : Decidable w.issuesPodWrite :=
  inferInstanceAs (Decidable (w.cleanupDeletes ≠ [] ∨ w.labelAdds ≠ [] ∨ w.labelRemoves ≠ [] ∨ w.deletes ≠ [] ∨
    w.creates ≠ []))

/-- the clock values of the syncs of a run that issue at least one pod write, in order. -/
def writeTimes (rs : ERS) : List Sync → List Time
  | [] => []
  | s :: ss => (if (s.run rs).issuesPodWrite then [s.now] else []) ++ writeTimes (stepErs rs s) ss

/-- the stored LastFullSync stamp exists and is at least `T`. -/
def StampGE (rs : ERS) (T : Time) : Prop :=
  ∃ c, findCond rs.status.conds "LastFullSync" = some c ∧ T ≤ c.lastUpdate

/-- every owner EDS the sync may read has `reconcileFrequency = some freq`. -/
def Sync.hasFreq (s : Sync) (rs : ERS) (freq : Dur) : Prop :=
  ∀ d, ersOwner rs s.st = some d → d.strategy.reconcileFrequency = some freq

theorem hasFreq_stepErs {s : Sync} {rs : ERS} {freq : Dur} (s0 : Sync) (h : s.hasFreq rs freq) :
    s.hasFreq (stepErs rs s0) freq := h

theorem hasFreq_runErs {s : Sync} {rs : ERS} {freq : Dur} (ss : List Sync) (h : s.hasFreq rs freq) :
    s.hasFreq (runErs rs ss) freq := by
  intro d hd
  rw [ersOwner_runErs] at hd
  exact h d hd

/-- a write-issuing sync leaves the stamp `now`. -/
theorem stamp_of_write (rs : ERS) (s : Sync) (hw : (s.run rs).issuesPodWrite) : StampGE (stepErs rs s) s.now := by
  cases ho : ersOwner rs s.st with
  | none =>
    exact absurd hw (ErsWrites.noPodWrite_not_issues
      (reconcileErs_noPodWrite_of_no_owner rs s.st s.released s.aff s.now ho))
  | some d =>
    obtain ⟨items, r, adds, removes, se, st0, F⟩ := reconcileErs_full_of_write rs s.st s.released s.aff s.now d ho hw
    obtain ⟨c, hc, hu, _⟩ := fullRun_stamp rs s.st s.released s.aff s.now d F
    exact ⟨c, hc, by rw [hu]; exact Int.le_refl _⟩

/-- a write-issuing sync reading a stamp `≥ T` runs at `T + freq` or later. -/
theorem write_after_stamp (rs : ERS) (s : Sync) (freq : Dur) (T : Time) (h : StampGE rs T)
    (hf : s.hasFreq rs freq) (hw : (s.run rs).issuesPodWrite) : T + freq ≤ s.now := by
  obtain ⟨c, hc, hT⟩ := h
  cases ho : ersOwner rs s.st with
  | none =>
    exact absurd hw (ErsWrites.noPodWrite_not_issues
      (reconcileErs_noPodWrite_of_no_owner rs s.st s.released s.aff s.now ho))
  | some d =>
    have := C09_spacing_read rs s.st s.released s.aff s.now d ho hw c hc
    rw [hf d ho] at this
    simp only [Option.getD_some] at this
    omega

/-- one step keeps `StampGE rs T`, provided the sync does not run before `T` or the frequency is not negative. -/
theorem stamp_step (rs : ERS) (s : Sync) (freq : Dur) (T : Time) (h : StampGE rs T) (hf : s.hasFreq rs freq)
    (hm : 0 ≤ freq ∨ T ≤ s.now) : StampGE (stepErs rs s) T := by
  rcases stepErs_cases rs s with he | ⟨d, _, _, he⟩ | ⟨d, items, r, adds, removes, se, st0, ho, F⟩
  · unfold StampGE; rw [he]; exact h
  · unfold StampGE
    rw [he, ersNotDefaulted_findCond rs s.now _ (by decide)]
    exact h
  · obtain ⟨c, hc, hu, _⟩ := fullRun_stamp rs s.st s.released s.aff s.now d F
    refine ⟨c, hc, ?_⟩
    rw [hu]
    rcases hm with hm | hm
    · obtain ⟨c0, hc0, hT⟩ := h
      have hg := F.notGated
      rw [ersGated_of_cond rs s.now d hc0] at hg
      have hng : ¬ (c0.lastUpdate + ersFreq d > s.now) := by simpa using hg
      have hfd : ersFreq d = freq := by unfold ersFreq; rw [hf d ho]; rfl
      omega
    · exact hm

theorem stamp_run (rs : ERS) (ss : List Sync) (freq : Dur) (T : Time) (h : StampGE rs T)
    (hf : ∀ s ∈ ss, s.hasFreq rs freq) (hm : 0 ≤ freq ∨ ∀ s ∈ ss, T ≤ s.now) : StampGE (runErs rs ss) T := by
  induction ss generalizing rs with
  | nil => exact h
  | cons s ss ih =>
    rw [runErs_cons]
    apply ih _ (stamp_step rs s freq T h (hf s List.mem_cons_self)
      (hm.imp id (fun hm => hm s List.mem_cons_self)))
    · exact fun s' hs' => hasFreq_stepErs s (hf s' (List.mem_cons_of_mem _ hs'))
    · exact hm.imp id (fun hm s' hs' => hm s' (List.mem_cons_of_mem _ hs'))

/-- every write-issuing sync of a run that starts with a stamp `≥ T` runs at `T + freq` or later. -/
theorem writeTimes_ge (rs : ERS) (ss : List Sync) (freq : Dur) (T : Time) (h : StampGE rs T)
    (hf : ∀ s ∈ ss, s.hasFreq rs freq) (hm : 0 ≤ freq ∨ ∀ s ∈ ss, T ≤ s.now) :
    ∀ b ∈ writeTimes rs ss, T + freq ≤ b := by
  induction ss generalizing rs with
  | nil => intro b hb; cases hb
  | cons s ss ih =>
    intro b hb
    simp only [writeTimes, List.mem_append] at hb
    rcases hb with hb | hb
    · split at hb
      · rename_i hw
        simp only [List.mem_singleton] at hb
        subst hb
        exact write_after_stamp rs s freq T h (hf s List.mem_cons_self) hw
      · cases hb
    · exact ih _ (stamp_step rs s freq T h (hf s List.mem_cons_self)
        (hm.imp id (fun hm => hm s List.mem_cons_self)))
        (fun s' hs' => hasFreq_stepErs s (hf s' (List.mem_cons_of_mem _ hs')))
        (hm.imp id (fun hm s' hs' => hm s' (List.mem_cons_of_mem _ hs'))) b hb

/-- **C09, spacing over a run (strong form).**  For any replica set, any initial status and any list
of syncs whose owner EDS always has `reconcileFrequency = some freq`: if `freq ≥ 0` OR the clock is
non-decreasing along the list, any two syncs of the list that issue a pod write are at least `freq`
apart. -/
theorem C09_spacing_history_strong (rs : ERS) (ss : List Sync) (freq : Dur)
    (hf : ∀ s ∈ ss, s.hasFreq rs freq)
    (hm : 0 ≤ freq ∨ ss.Pairwise (fun a b => a.now ≤ b.now)) :
    (writeTimes rs ss).Pairwise (fun ti tj => ti + freq ≤ tj) := by
  induction ss generalizing rs with
  | nil => exact List.Pairwise.nil
  | cons s ss ih =>
    have hm' : 0 ≤ freq ∨ ss.Pairwise (fun a b => a.now ≤ b.now) :=
      hm.imp id (fun hm => (List.pairwise_cons.mp hm).2)
    have ihs := ih (stepErs rs s) (fun s' hs' => hasFreq_stepErs s (hf s' (List.mem_cons_of_mem _ hs'))) hm'
    simp only [writeTimes]
    split
    · rename_i hw
      simp only [List.singleton_append, List.pairwise_cons]
      refine ⟨?_, ihs⟩
      exact writeTimes_ge (stepErs rs s) ss freq s.now (stamp_of_write rs s hw)
        (fun s' hs' => hasFreq_stepErs s (hf s' (List.mem_cons_of_mem _ hs')))
        (hm.imp id (fun hm => (List.pairwise_cons.mp hm).1))
    · simpa using ihs

/-- **C09, spacing over a run.**  One replica set, syncs at clock values `t₁ ≤ t₂ ≤ …`, each sync's
status write applied before the next, a parent EDS with constant `reconcileFrequency = some freq`,
`freq ≥ 0`, everything else in the store arbitrary per sync: any two syncs that issue at least one
pod write are at least `freq` apart (`tᵢ + freq ≤ tⱼ` for `i < j`). -/
theorem C09_spacing_history (rs : ERS) (ss : List Sync) (freq : Dur)
    (hf : ∀ s ∈ ss, s.hasFreq rs freq) (_hpos : 0 ≤ freq)
    (hclock : ss.Pairwise (fun a b => a.now ≤ b.now)) :
    (writeTimes rs ss).Pairwise (fun ti tj => ti + freq ≤ tj) :=
  C09_spacing_history_strong rs ss freq hf (Or.inr hclock)

/-- **Positional form.**  In the run `pre ++ sᵢ :: mid ++ sⱼ :: post`: if `sᵢ` issues a pod write (reading
the status `pre` left) and `sⱼ` issues a pod write (reading the status `pre ++ sᵢ :: mid` left), then
`sᵢ.now + freq ≤ sⱼ.now`. -/
theorem C09_spacing_split (rs : ERS) (pre mid : List Sync) (si sj : Sync) (freq : Dur)
    (hfm : ∀ s ∈ mid, s.hasFreq rs freq) (hfj : sj.hasFreq rs freq)
    (hm : 0 ≤ freq ∨ ∀ s ∈ mid, si.now ≤ s.now)
    (hwi : (si.run (runErs rs pre)).issuesPodWrite)
    (hwj : (sj.run (runErs rs (pre ++ si :: mid))).issuesPodWrite) :
    si.now + freq ≤ sj.now := by
  have e : runErs rs (pre ++ si :: mid) = runErs (stepErs (runErs rs pre) si) mid := by
    rw [runErs_append]; rfl
  rw [e] at hwj
  have h1 := stamp_of_write (runErs rs pre) si hwi
  have h2 := stamp_run (stepErs (runErs rs pre) si) mid freq si.now h1
    (fun s hs => hasFreq_stepErs si (hasFreq_runErs pre (hfm s hs))) hm
  exact write_after_stamp _ sj freq si.now h2
    (hasFreq_runErs mid (hasFreq_stepErs si (hasFreq_runErs pre hfj))) hwj

/-! ### 4. A store that truncates the persisted timestamps -/

/-- `persist` is what the API server does to a status on its way to storage, as far as the
LastFullSync stamp is concerned: `lastUpdate` goes through `f`, which is monotone, idempotent and
never moves a time forward (truncation to whole seconds: `truncTime sec`). -/
structure Persists (persist : ERSStatus → ERSStatus) (f : Time → Time) : Prop where
  mono : ∀ a b, a ≤ b → f a ≤ f b
  idem : ∀ a, f (f a) = f a
  le : ∀ a, f a ≤ a
  stamp : ∀ st c, findCond st.conds "LastFullSync" = some c →
    ∃ c', findCond (persist st).conds "LastFullSync" = some c' ∧ c'.lastUpdate = f c.lastUpdate

/-- one step through such a store: a written status is persisted through `persist`; when the sync
writes no status the stored one stays as it is. -/
def stepErsP (persist : ERSStatus → ERSStatus) (rs : ERS) (s : Sync) : ERS :=
  { rs with status := match (s.run rs).statusUpdate with | some st' => persist st' | none => rs.status }

def runErsP (persist : ERSStatus → ERSStatus) (rs : ERS) : List Sync → ERS
  | [] => rs
  | s :: ss => runErsP persist (stepErsP persist rs s) ss

def writeTimesP (persist : ERSStatus → ERSStatus) (rs : ERS) : List Sync → List Time
  | [] => []
  | s :: ss => (if (s.run rs).issuesPodWrite then [s.now] else []) ++ writeTimesP persist (stepErsP persist rs s) ss

section Persist
variable {persist : ERSStatus → ERSStatus} {f : Time → Time} (hp : Persists persist f)
include hp

theorem stampP_of_write (rs : ERS) (s : Sync) (hw : (s.run rs).issuesPodWrite) :
    StampGE (stepErsP persist rs s) (f s.now) := by
  obtain ⟨c, hc, hT⟩ := stamp_of_write rs s hw
  cases hsu : (s.run rs).statusUpdate with
  | none =>
    have : (stepErs rs s).status = rs.status := by
      show (s.run rs).statusUpdate.getD rs.status = rs.status
      rw [hsu]; rfl
    rw [this] at hc
    unfold StampGE stepErsP
    rw [hsu]
    exact ⟨c, hc, Int.le_trans (hp.le _) hT⟩
  | some st' =>
    have : (stepErs rs s).status = st' := by
      show (s.run rs).statusUpdate.getD rs.status = st'
      rw [hsu]; rfl
    rw [this] at hc
    obtain ⟨c', hc', he⟩ := hp.stamp st' c hc
    unfold StampGE stepErsP
    rw [hsu]
    exact ⟨c', hc', by rw [he]; exact hp.mono _ _ hT⟩

theorem stampP_step (rs : ERS) (s : Sync) (freq : Dur) (T : Time) (h : StampGE rs (f T)) (hf : s.hasFreq rs freq)
    (hm : 0 ≤ freq ∨ T ≤ s.now) : StampGE (stepErsP persist rs s) (f T) := by
  cases hsu : (s.run rs).statusUpdate with
  | none => unfold StampGE stepErsP; rw [hsu]; exact h
  | some st' =>
    have hst : (stepErs rs s).status = st' := by
      show (s.run rs).statusUpdate.getD rs.status = st'
      rw [hsu]; rfl
    have key : ∃ c, findCond st'.conds "LastFullSync" = some c ∧ (f T ≤ c.lastUpdate ∨ T ≤ c.lastUpdate) := by
      rcases stepErs_cases rs s with he | ⟨d, _, _, he⟩ | ⟨d, items, r, adds, removes, se, st0, ho, F⟩
      · rw [hst] at he; rw [he]
        obtain ⟨c, hc, hT⟩ := h
        exact ⟨c, hc, Or.inl hT⟩
      · rw [hst] at he
        rw [he, ersNotDefaulted_findCond rs s.now _ (by decide)]
        obtain ⟨c, hc, hT⟩ := h
        exact ⟨c, hc, Or.inl hT⟩
      · obtain ⟨c, hc, hu, _⟩ := fullRun_stamp rs s.st s.released s.aff s.now d F
        have hc' : findCond (stepErs rs s).status.conds "LastFullSync" = some c := hc
        rw [hst] at hc'
        refine ⟨c, hc', ?_⟩
        rw [hu]
        rcases hm with hm | hm
        · left
          obtain ⟨c0, hc0, hT⟩ := h
          have hg := F.notGated
          rw [ersGated_of_cond rs s.now d hc0] at hg
          have hng : ¬ (c0.lastUpdate + ersFreq d > s.now) := by simpa using hg
          have hfd : ersFreq d = freq := by unfold ersFreq; rw [hf d ho]; rfl
          omega
        · exact Or.inr hm
    obtain ⟨c, hc, hT⟩ := key
    obtain ⟨c', hc', he⟩ := hp.stamp st' c hc
    unfold StampGE stepErsP
    rw [hsu]
    refine ⟨c', hc', ?_⟩
    rw [he]
    rcases hT with hT | hT
    · have := hp.mono _ _ hT
      rw [hp.idem] at this
      exact this
    · exact hp.mono _ _ hT

theorem writeTimesP_ge (rs : ERS) (ss : List Sync) (freq : Dur) (T : Time) (h : StampGE rs (f T))
    (hf : ∀ s ∈ ss, s.hasFreq rs freq) (hm : 0 ≤ freq ∨ ∀ s ∈ ss, T ≤ s.now) :
    ∀ b ∈ writeTimesP persist rs ss, f T + freq ≤ b := by
  induction ss generalizing rs with
  | nil => intro b hb; cases hb
  | cons s ss ih =>
    intro b hb
    simp only [writeTimesP, List.mem_append] at hb
    rcases hb with hb | hb
    · split at hb
      · rename_i hw
        simp only [List.mem_singleton] at hb
        subst hb
        exact write_after_stamp rs s freq (f T) h (hf s List.mem_cons_self) hw
      · cases hb
    · exact ih _ (stampP_step hp rs s freq T h (hf s List.mem_cons_self)
        (hm.imp id (fun hm => hm s List.mem_cons_self)))
        (fun s' hs' => hf s' (List.mem_cons_of_mem _ hs'))
        (hm.imp id (fun hm s' hs' => hm s' (List.mem_cons_of_mem _ hs'))) b hb

/-- **C09, spacing over a run through a truncating store.**  If the store persists the LastFullSync
stamp through `f` (monotone, idempotent, `f t ≤ t`), then under the hypotheses of
`C09_spacing_history_strong` any two write-issuing syncs satisfy `f tᵢ + freq ≤ tⱼ`: the guaranteed
spacing is `freq` minus what `f` takes off `tᵢ`. -/
theorem C09_spacing_history_persist (rs : ERS) (ss : List Sync) (freq : Dur)
    (hf : ∀ s ∈ ss, s.hasFreq rs freq)
    (hm : 0 ≤ freq ∨ ss.Pairwise (fun a b => a.now ≤ b.now)) :
    (writeTimesP persist rs ss).Pairwise (fun ti tj => f ti + freq ≤ tj) := by
  induction ss generalizing rs with
  | nil => exact List.Pairwise.nil
  | cons s ss ih =>
    have hm' : 0 ≤ freq ∨ ss.Pairwise (fun a b => a.now ≤ b.now) :=
      hm.imp id (fun hm => (List.pairwise_cons.mp hm).2)
    have ihs := ih (stepErsP persist rs s) (fun s' hs' => hf s' (List.mem_cons_of_mem _ hs')) hm'
    simp only [writeTimesP]
    split
    · rename_i hw
      simp only [List.singleton_append, List.pairwise_cons]
      refine ⟨?_, ihs⟩
      exact writeTimesP_ge hp (stepErsP persist rs s) ss freq s.now (stampP_of_write hp rs s hw)
        (fun s' hs' => hf s' (List.mem_cons_of_mem _ hs'))
        (hm.imp id (fun hm => (List.pairwise_cons.mp hm).1))
    · simpa using ihs

end Persist

/-- truncation of an instant to a multiple of `res` (floor). -/
def truncTime (res : Dur) (t : Time) : Time := t - t % res

/-- the API server's rounding of every `metav1.Time` of the status conditions. -/
def truncStatus (res : Dur) (st : ERSStatus) : ERSStatus :=
  { st with conds := st.conds.map (fun c => { c with lastTransition := truncTime res c.lastTransition,
                                                     lastUpdate := truncTime res c.lastUpdate }) }

theorem findCond_map (cs : List Cond) (g : Cond → Cond) (hg : ∀ c, (g c).type = c.type) (t : String) :
    findCond (cs.map g) t = (findCond cs t).map g := by
  induction cs with
  | nil => rfl
  | cons c cs ih =>
    cases hc : (c.type == t) with
    | true =>
      have : ((g c).type == t) = true := by rw [hg]; exact hc
      rw [List.map_cons, findCond_cons_pos _ _ _ this, findCond_cons_pos _ _ _ hc]; rfl
    | false =>
      have : ((g c).type == t) = false := by rw [hg]; exact hc
      rw [List.map_cons, findCond_cons_neg _ _ _ this, findCond_cons_neg _ _ _ hc]; exact ih

theorem truncTime_spec (res : Dur) (hres : 0 < res) (t : Time) :
    truncTime res t ≤ t ∧ t - res < truncTime res t ∧ truncTime res t % res = 0 := by
  unfold truncTime
  have h1 := Int.emod_nonneg t (Int.ne_of_gt hres)
  have h2 := Int.emod_lt_of_pos t hres
  refine ⟨by omega, by omega, ?_⟩
  have : t - t % res = res * (t / res) := by
    have := Int.mul_ediv_add_emod t res
    omega
  rw [this]
  exact Int.mul_emod_right _ _

theorem persists_trunc (res : Dur) (hres : 0 < res) : Persists (truncStatus res) (truncTime res) where
  mono := by
    intro a b hab
    unfold truncTime
    have e1 : a - a % res = res * (a / res) := by have := Int.mul_ediv_add_emod a res; omega
    have e2 : b - b % res = res * (b / res) := by have := Int.mul_ediv_add_emod b res; omega
    rw [e1, e2]
    exact Int.mul_le_mul_of_nonneg_left (Int.ediv_le_ediv hres hab) (Int.le_of_lt hres)
  idem := by
    intro a
    have := (truncTime_spec res hres a).2.2
    show truncTime res a - truncTime res a % res = truncTime res a
    rw [this]; omega
  le := fun a => (truncTime_spec res hres a).1
  stamp := by
    intro st c hc
    refine ⟨{ c with lastTransition := truncTime res c.lastTransition, lastUpdate := truncTime res c.lastUpdate },
      ?_, rfl⟩
    show findCond (st.conds.map _) "LastFullSync" = _
    rw [findCond_map st.conds (fun c => { c with lastTransition := truncTime res c.lastTransition,
                                                  lastUpdate := truncTime res c.lastUpdate }) (fun _ => rfl), hc]
    rfl

/-- **Spacing with timestamps stored at one-second resolution**: two write-issuing syncs are more than
`freq − 1 s` apart (precisely: `⌊tᵢ⌋ₛ + freq ≤ tⱼ`). -/
theorem C09_spacing_history_seconds (rs : ERS) (ss : List Sync) (freq : Dur)
    (hf : ∀ s ∈ ss, s.hasFreq rs freq)
    (hm : 0 ≤ freq ∨ ss.Pairwise (fun a b => a.now ≤ b.now)) :
    (writeTimesP (truncStatus sec) rs ss).Pairwise (fun ti tj => ti + freq - sec < tj) := by
  have h := C09_spacing_history_persist (persists_trunc sec (by decide)) rs ss freq hf hm
  refine h.imp ?_
  intro a b hab
  have := (truncTime_spec sec (by decide) a).2.1
  omega

/-! ### Non-vacuity (store of EdsProps/C04.lean: canary replica set `d-new`, `freq` = 10 s; the pod is never
there, so every non-gated sync creates it again) -/

/-- six syncs at 100 s, 105 s (gated), 110 s, 110 s again (gated), 119.5 s (gated), 120.5 s. -/
def exRun09c : List Sync :=
  [100 * sec, 105 * sec, 110 * sec, 110 * sec, 119 * sec + sec / 2, 120 * sec + sec / 2].map
    (fun t => { st := exStore04, now := t })

example : writeTimes (exErs04 "d-new" "new") exRun09c = [100 * sec, 110 * sec, 120 * sec + sec / 2] := by decide

/-- the hypotheses of `C09_spacing_history` hold of that run. -/
example : (∀ s ∈ exRun09c, s.hasFreq (exErs04 "d-new" "new") (10 * sec)) ∧ (0 : Int) ≤ 10 * sec ∧
    exRun09c.Pairwise (fun a b => a.now ≤ b.now) := by
  refine ⟨?_, by decide, by decide⟩
  intro s hs d hd
  have hst : s.st = exStore04 := by
    simp only [exRun09c, List.mem_map] at hs
    obtain ⟨t, _, rfl⟩ := hs
    rfl
  rw [hst] at hd
  have : ersOwner (exErs04 "d-new" "new") exStore04 = some exEds04 := by decide
  rw [this] at hd
  cases hd
  decide

/-- through a store with one-second resolution the sync at 100.7 s is persisted as 100 s, so a sync at
110.2 s — only 9.5 s later — is not gated: the bound `freq − 1 s` of `C09_spacing_history_seconds`
cannot be improved to `freq`. -/
def exRun09cT : List Sync :=
  [100 * sec + 7 * (sec / 10), 110 * sec + 2 * (sec / 10)].map (fun t => { st := exStore04, now := t })

example : writeTimesP (truncStatus sec) (exErs04 "d-new" "new") exRun09cT
      = [100 * sec + 7 * (sec / 10), 110 * sec + 2 * (sec / 10)] ∧
    writeTimes (exErs04 "d-new" "new") exRun09cT = [100 * sec + 7 * (sec / 10)] := by decide

/-- neither `0 ≤ freq` nor a monotone clock: with `reconcileFrequency = −50 s`, syncs at 100 s, 60 s and
20 s all issue a write, and 100 s + (−50 s) ≤ 20 s fails.  (A negative frequency never gates when the clock
moves forward; the webhook does not forbid it.) -/
def exRun09cN : List Sync :=
  [100 * sec, 60 * sec, 20 * sec].map (fun t => { st := exStore04 [] true (-50 * sec), now := t })

example : writeTimes (exErs04 "d-new" "new") exRun09cN = [100 * sec, 60 * sec, 20 * sec] ∧
    ¬ (writeTimes (exErs04 "d-new" "new") exRun09cN).Pairwise (fun ti tj => ti + (-50 * sec) ≤ tj) := by decide

end Eds
