import EdsProofs.Rolling
import EdsProofs.LimitsBridge
/-
  C03 — Rolling update respects maxUnavailable.

  Quantification: every list of targeted entries `es` (any length, any order = any Go map iteration
  order, any mix of node categories), every strategy (absolute or percent values), every clock.
  `U = unavailableNodes …` is the number of targeted nodes without an available daemon pod, nodes
  whose pod is stuck being tolerated up to maxPodSchedulerFailure.
-/
namespace Eds
open Spec.C03

/-- **Budget.** A successful sync of the active role deletes at most `max 0 (maxUnavailable − U)`
available pods for updating. -/
theorem C03_budget (p : StratParams) (now wall : Time) (cf : Bool) (r : StratResult)
    (h : manageDeployment p now wall cf = .ok r) :
    ∃ ms mu,
      resolveIntOrPercent p.strategy.rollingUpdate.maxPodSchedulerFailure (targeted p).length = some ms ∧
      resolveIntOrPercent p.strategy.rollingUpdate.maxUnavailable (targeted p).length = some mu ∧
      availDeleted r.deleteE ≤ max 0 (mu - unavailableNodes p.ers.templateGeneration wall (targeted p) ms) := by
  obtain ⟨ms, mu, mc, hms, hmu, _, _, hd⟩ := manageDeployment_plan p now wall cf r h
  refine ⟨ms, mu, hms, hmu, ?_⟩
  rw [hd]
  exact plan_budget _ wall (targeted p) _ (countAll_inv _ wall (targeted p)) ms mu mc _ _

/-- **Cap.** It never deletes more than `maxUnavailable` pods for updating in one sync. -/
theorem C03_cap (p : StratParams) (now wall : Time) (cf : Bool) (r : StratResult)
    (h : manageDeployment p now wall cf = .ok r) :
    ∃ mu, resolveIntOrPercent p.strategy.rollingUpdate.maxUnavailable (targeted p).length = some mu ∧
      (r.deleteE.length : Int) ≤ max 0 mu := by
  obtain ⟨ms, mu, mc, _, hmu, _, _, hd⟩ := manageDeployment_plan p now wall cf r h
  exact ⟨mu, hmu, by rw [hd]; exact plan_cap _ _ ms mu mc _ _⟩

/-- **Unavailable first.** An available pod is deleted only if every outdated, non-terminating,
unavailable pod is deleted in the same sync. -/
theorem C03_unavailable_first (p : StratParams) (now wall : Time) (cf : Bool) (r : StratResult)
    (h : manageDeployment p now wall cf = .ok r) (hpos : 0 < availDeleted r.deleteE) :
    (r.deleteE.length : Int) - availDeleted r.deleteE
      ≥ nOutdatedUnavail p.ers.templateGeneration wall (targeted p) := by
  obtain ⟨ms, mu, mc, _, _, _, _, hd⟩ := manageDeployment_plan p now wall cf r h
  rw [hd] at hpos ⊢
  exact plan_unavailable_first _ wall (targeted p) _ (countAll_inv _ wall (targeted p)) ms mu mc _ _ hpos

/-- **Percent.** A percentage resolves against the number of targeted nodes, rounding up. -/
theorem C03_percent (v total : Int) :
    resolveIntOrPercent (some { kind := "pct", val := v }) total = some ((v * total + 99) / 100) := by
  simp [resolveIntOrPercent, ceilDiv100]

/-- the integer ceiling used for percentages is the mathematical one. -/
theorem C03_ceil (a : Int) : 100 * ceilDiv100 a ≥ a ∧ 100 * (ceilDiv100 a - 1) < a := by
  unfold ceilDiv100; omega

/-- **Kernel tie.** The budget arithmetic the theorems use is the translated source of
limits.go (regenerated from /repo on every run). -/
theorem C03_kernel_is_source (p : LimitParams) :
    Generated.Limits.calculatePodToCreateAndDelete (toGen p) = calcLimits p := limits_bridge p

/-- **Paused / frozen.** (shared with C08) no update-deletion while paused or frozen. -/
theorem C03_paused_no_delete (c : Counts) (N ms mu mc : Int) (paused frozen : Bool)
    (h : paused = true ∨ frozen = true) : (rollingPlan c N ms mu mc paused frozen).2 = [] := by
  rw [rollingPlan_delete]; rcases h with h | h <;> simp [h]

/-- Non-vacuity: a concrete sync where the hypotheses hold and the budget is tight
(3 nodes, maxUnavailable 1, all pods outdated and available ⇒ exactly one available pod deleted). -/
def exNode (n : String) : NodeItem := { node := { name := n, labels := [], annotations := [], taints := [] }, setting := none }
def exPod (n : String) : Pod :=
  { name := "p-" ++ n, ns := "d", labels := [], annotations := [⟨K.templateHashAnnot, "old"⟩], owners := [],
    creation := 0, deletion := none, gracePeriod := none, nodeName := n, affOther := "", affRequired := none,
    tolerations := [], containers := [], phase := "Running", startTime := none,
    conds := [⟨"Ready", "True", "", 0⟩], cstats := [] }
def exParams : StratParams :=
  { edsName := "d", edsAnnotations := [],
    strategy := { rollingUpdate := { maxUnavailable := some ⟨"int", 1⟩, maxPodSchedulerFailure := some ⟨"int", 0⟩,
                                      maxParallelPodCreation := some 250, slowStartInterval := some minute,
                                      slowStartAdditiveIncrease := some ⟨"int", 1⟩ },
                  canary := none, reconcileFrequency := some (10 * sec) },
    ers := { name := "d-new", ns := "d", uid := "u", labels := [], annotations := [], creation := 0, deleted := false,
             ownerEds := some "d", selector := none, templateGeneration := "new",
             template := { labels := [], annotations := [], nodeSelector := [], affOther := "", affRequired := none,
                           tolerations := [], containers := [] },
             status := { status := "", desired := 0, current := 0, ready := 0, available := 0, ignored := 0, conds := [] } },
    newStatus := { status := "", desired := 0, current := 0, ready := 0, available := 0, ignored := 0, conds := [] },
    canaryNodes := [],
    byNode := [(exNode "a", some (exPod "a")), (exNode "b", some (exPod "b")), (exNode "c", some (exPod "c"))],
    toCleanUp := [], unscheduled := [] }

example : ∃ r, manageDeployment exParams 100 100 false = .ok r ∧ availDeleted r.deleteE = 1 ∧
    unavailableNodes "new" 100 (targeted exParams) 0 = 0 := by
  refine ⟨_, rfl, ?_, ?_⟩ <;> decide

end Eds
