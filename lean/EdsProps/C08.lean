import EdsProofs.Rolling
import EdsProps.C05
import EdsProps.C03
/-
  C08 — Pause and freeze annotations stop exactly what they promise to stop.
  (The canary-side clauses that need the per-pod fold live in EdsProps/C06.lean:
   C06_blocks_creation, C06_empty_unpause_override, and C08_canary_resumes_on_unpause there.)
-/
namespace Eds

/-- the paused / frozen flags are exactly "annotation present with the value `true`". -/
theorem C08_flags (ann : SMap) :
    isRollingUpdatePaused ann = (SMap.get? ann K.rollingUpdatePausedAnnot == some "true") ∧
    isRolloutFrozen ann = (SMap.get? ann K.rolloutFrozenAnnot == some "true") := by
  unfold isRollingUpdatePaused isRolloutFrozen SMap.getD
  constructor <;> (cases SMap.get? ann _ <;> simp)

/-- **Paused**: no pod is deleted in order to update it; creations are what they would be unpaused. -/
theorem C08_paused_no_update_delete (c : Counts) (N ms mu mc : Int) (frozen : Bool) :
    (rollingPlan c N ms mu mc true frozen).2 = [] ∧
    (rollingPlan c N ms mu mc true frozen).1 = (rollingPlan c N ms mu mc false frozen).1 := by
  constructor
  · rw [rollingPlan_delete]; simp
  · rfl

/-- **Frozen**: neither creations nor update-deletions. -/
theorem C08_frozen_nothing (c : Counts) (N ms mu mc : Int) (paused : Bool) :
    rollingPlan c N ms mu mc paused true = ([], []) := by
  unfold rollingPlan; simp

/-- **Resume**: with neither annotation set to `true`, both lists are as computed from the limits. -/
theorem C08_resume (c : Counts) (N ms mu mc : Int) :
    (rollingPlan c N ms mu mc false false).1 = c.toCreate.take (min (calcLimits {
        nbNodes := N, nbPods := c.allPods, nbAvailablesPod := c.available, nbOldAvailablesPod := c.oldAvailable,
        nbCreatedPod := c.created, nbUnresponsiveNodes := c.stuck, nbOldUnavailablePods := c.oldUnavailable,
        maxPodCreation := mc, maxUnavailablePod := mu, maxUnschedulablePod := ms }).1 (c.toCreate.length : Int)).toNat ∧
    (rollingPlan c N ms mu mc false false).2 = (c.toDeleteUnavail ++ c.toDeleteAvail).take (min (calcLimits {
        nbNodes := N, nbPods := c.allPods, nbAvailablesPod := c.available, nbOldAvailablesPod := c.oldAvailable,
        nbCreatedPod := c.created, nbUnresponsiveNodes := c.stuck, nbOldUnavailablePods := c.oldUnavailable,
        maxPodCreation := mc, maxUnavailablePod := mu, maxUnschedulablePod := ms }).2
        ((c.toDeleteUnavail ++ c.toDeleteAvail).length : Int)).toNat := by
  constructor <;> rfl

/-- through `manageDeployment`: a successful sync reports the flags and obeys them. -/
theorem C08_sync (p : StratParams) (now wall : Time) (cf : Bool) (r : StratResult)
    (h : manageDeployment p now wall cf = .ok r) :
    (isRollingUpdatePaused p.edsAnnotations = true ∨ isRolloutFrozen p.edsAnnotations = true → r.deleteE = []) ∧
    (isRolloutFrozen p.edsAnnotations = true → r.createE = []) := by
  obtain ⟨ms, mu, mc, _, _, _, hc, hd⟩ := manageDeployment_plan p now wall cf r h
  constructor
  · intro hpf
    rw [hd]
    exact C03_paused_no_delete _ _ ms mu mc _ _ hpf
  · intro hf
    rw [hc, hf, C08_frozen_nothing]

/-- **A paused canary is not promoted by elapsed time** (annotation or the replica set's own
Canary-Paused condition), and **explicit validation overrides the pause**. -/
theorem C08_paused_not_promoted (c : Canary) (ann : SMap) (a u : ERS) (now : Time)
    (hp : (isCanaryPaused ann (some u)).1 = true) (hv : isCanaryValid ann u.name = false) :
    (selectCurrent (some c) ann (some a) u false now).1 = .active :=
  C05_paused_never_by_time c ann a u now hp hv

theorem C08_validate_overrides_pause (c : Canary) (ann : SMap) (a u : ERS) (now : Time)
    (hv : isCanaryValid ann u.name = true) :
    (selectCurrent (some c) ann (some a) u false now).1 = .upToDate :=
  C05_valid_promotes c ann a u now hv

/-- the pause is recognised from either source. -/
theorem C08_pause_sources (ann : SMap) (u : ERS) :
    (isCanaryPaused ann (some u)).1 =
      (isCondTrue u.status.conds "Canary-Paused" || SMap.get? ann K.canaryPausedAnnot == some "true") := by
  unfold isCanaryPaused
  by_cases h1 : isCondTrue u.status.conds "Canary-Paused" = true
  · simp [h1]
  · simp only [h1]
    by_cases h2 : (SMap.get? ann K.canaryPausedAnnot == some "true") = true
    · simp [h2]
    · simp [h2]

/-- **State string** outside a canary: frozen wins over paused, else Running. -/
theorem C08_state (ann : SMap) :
    nonCanaryState ann =
      if isRolloutFrozen ann then "Rollout frozen"
      else if isRollingUpdatePaused ann then "RollingUpdate Paused" else "Running" := by
  unfold nonCanaryState isRolloutFrozen isRollingUpdatePaused
  rfl

/-- **State string** during a canary: failed ⇒ "Canary Failed"; active and paused ⇒ "Canary Paused"
with the reason; active and not paused ⇒ "Canary"; otherwise the non-canary state. -/
theorem C08_canary_state (st : EDSStatus) (u : ERS) (active failed paused : Bool) (reason : String) (ann : SMap) :
    (manageStatus st u active failed paused reason ann).state =
      if failed then "Canary Failed"
      else if active then (if paused then "Canary Paused" else "Canary")
      else nonCanaryState ann := by
  unfold manageStatus
  cases failed <;> cases active <;> cases paused <;> simp

end Eds
